package main

import (
	"fmt"
	"go/token"
	"go/types"
	"os"

	"golang.org/x/tools/go/ssa"
)

// allocBounded: can the value, used as an allocation size at block `at`, be shown not to exceed a
// constant or the amount of data already held?  Structural evaluation:
//
//	constants; len/cap of existing data; arithmetic over bounded values; min with a bounded value;
//	phi of bounded values (an edge is also bounded when the branch that leads to it bounds it);
//	a parameter bounded by a dominating comparison or by every call site (sizeBounded);
//	the result of a repository function all of whose returns are bounded;
//	any other value only when a dominating comparison against a constant bounds it.
//
// A value read from the input (a decoded header field, the gzip ISIZE trailer) is none of these
// unless it is compared first.
var allocViaAdd, allocViaMul int

func allocBounded(pr *Prog, at *ssa.BasicBlock, v ssa.Value, depth int, seen map[ssa.Value]bool) (res bool) {
	if v == nil {
		return false
	}
	if os.Getenv("TV_DEBUG_ALLOC") != "" {
		defer func() { fmt.Fprintf(os.Stderr, "ALLOC %s %T %v depth=%d -> %v\n", v.Name(), v, v, depth, res) }()
	}
	if _, isC := ConstInt(v); isC {
		return true
	}
	if seen[v] {
		// a loop-carried count: a running sum of bounded increments (bytes read into a bounded buffer), or
		// a count the loop lets grow only while it is below a bounded value; never a product (doubling)
		if allocViaMul == 0 && allocViaAdd > 0 {
			return true // met again inside an additive cycle (the sum itself or its loop-carried phi)
		}
		ph, isPhi := v.(*ssa.Phi)
		if !isPhi || ph.Referrers() == nil {
			return false
		}
		for _, ref := range *ph.Referrers() {
			bo, ok := ref.(*ssa.BinOp)
			if !ok || bo.Block() != ph.Block() {
				continue
			}
			switch bo.Op {
			case token.LSS, token.LEQ, token.GTR, token.GEQ, token.NEQ:
			default:
				continue
			}
			other := bo.Y
			if bo.Y == ssa.Value(ph) {
				other = bo.X
			}
			if _, isIf := lastIf(ph.Block()); isIf && allocBounded(pr, ph.Block(), other, depth, map[ssa.Value]bool{v: true}) {
				return true
			}
		}
		return false
	}
	seen[v] = true
	defer delete(seen, v)
	if sizeBounded(pr, at, v, 2) {
		return true
	}
	if base, okb := losslessBase(v); okb {
		same := func(w ssa.Value) bool {
			b2, ok2 := losslessBase(w)
			return ok2 && (b2 == base || sameExpr(b2, base))
		}
		for _, ft := range Facts(at) {
			bo, isB := ft.Cond.(*ssa.BinOp)
			if !isB {
				continue
			}
			switch {
			case same(bo.X) && ((bo.Op == token.GTR && !ft.Pol) || (bo.Op == token.GEQ && !ft.Pol) || (bo.Op == token.LEQ && ft.Pol) || (bo.Op == token.LSS && ft.Pol)):
				if allocBounded(pr, at, bo.Y, depth, seen) {
					return true
				}
			case same(bo.Y) && ((bo.Op == token.LSS && !ft.Pol) || (bo.Op == token.LEQ && !ft.Pol) || (bo.Op == token.GEQ && ft.Pol) || (bo.Op == token.GTR && ft.Pol)):
				if allocBounded(pr, at, bo.X, depth, seen) {
					return true
				}
			}
		}
	}
	switch x := v.(type) {
	case *ssa.Convert:
		return allocBounded(pr, at, x.X, depth, seen)
	case *ssa.ChangeType:
		return allocBounded(pr, at, x.X, depth, seen)
	case *ssa.BinOp:
		switch x.Op {
		case token.ADD:
			allocViaAdd++
			defer func() { allocViaAdd-- }()
			return allocBounded(pr, at, x.X, depth, seen) && allocBounded(pr, at, x.Y, depth, seen)
		case token.MUL, token.SHL:
			allocViaMul++
			defer func() { allocViaMul-- }()
			return allocBounded(pr, at, x.X, depth, seen) && allocBounded(pr, at, x.Y, depth, seen)
		case token.SUB, token.QUO, token.SHR:
			return allocBounded(pr, at, x.X, depth, seen)
		case token.REM:
			return allocBounded(pr, at, x.Y, depth, seen) || allocBounded(pr, at, x.X, depth, seen)
		case token.AND:
			return allocBounded(pr, at, x.X, depth, seen) || allocBounded(pr, at, x.Y, depth, seen)
		}
		return false
	case *ssa.Phi:
		for i, e := range x.Edges {
			if allocBounded(pr, at, e, depth, seen) {
				continue
			}
			if i < len(x.Block().Preds) && edgeBounds(pr, x.Block().Preds[i], x.Block(), e) {
				continue
			}
			return false
		}
		return true
	case *ssa.UnOp:
		if al, isA := x.X.(*ssa.Alloc); isA && x.Op == token.MUL {
			sts := storesTo(al)
			if len(sts) == 0 || closureWrites(al) {
				return false
			}
			for _, st := range sts {
				if !allocBounded(pr, st.Block(), st.Val, depth, seen) {
					return false
				}
			}
			return true
		}
		if fv, isF := x.X.(*ssa.FreeVar); isF && x.Op == token.MUL {
			return capturedAll(fv, func(at *ssa.BasicBlock, v ssa.Value) bool { return allocBounded(pr, at, v, depth, seen) })
		}
		return false
	case *ssa.FreeVar:
		return capturedAll(x, func(at *ssa.BasicBlock, v ssa.Value) bool { return allocBounded(pr, at, v, depth, seen) })
	case *ssa.Parameter:
		// every package is internal to the module: the call sites in the program are all there are
		f := x.Parent()
		if depth <= 0 || f == nil || f.Object() == nil {
			return false
		}
		idx := -1
		for i, q := range f.Params {
			if q == x {
				idx = i
			}
		}
		sites := staticCallSites(pr, f)
		if idx < 0 || len(sites) == 0 {
			return false
		}
		for _, c := range sites {
			if idx >= len(c.Call.Args) || !allocBounded(pr, c.Block(), c.Call.Args[idx], depth-1, seen) {
				return false
			}
		}
		return true
	case *ssa.Extract:
		if c, ok := x.Tuple.(*ssa.Call); ok {
			if cl := CalleeOf(c); x.Index == 0 && (cl.Name == "Read" || cl.Is("io:ReadFull", "io:ReadAtLeast")) {
				return true // a read count never exceeds the buffer read into
			}
			return callResultBounded(pr, c, x.Index, depth, seen)
		}
		return false
	case *ssa.Call:
		if b, ok := x.Call.Value.(*ssa.Builtin); ok {
			switch b.Name() {
			case "len", "cap", "copy":
				return true
			case "min":
				for _, a := range x.Call.Args {
					if allocBounded(pr, at, a, depth, seen) {
						return true
					}
				}
				return false
			case "max":
				for _, a := range x.Call.Args {
					if !allocBounded(pr, at, a, depth, seen) {
						return false
					}
				}
				return true
			}
			return false
		}
		// the amount of data a library container already holds
		if CalleeOf(x).Is("bytes:Buffer.Len", "bytes:Buffer.Cap", "bytes:Reader.Len", "strings:Builder.Len", "strings:Reader.Len", "bufio:Reader.Buffered", "bufio:Writer.Buffered") {
			return true
		}
		return callResultBounded(pr, x, 0, depth, seen)
	}
	return false
}

// edgeBounds: the edge pred->blk is taken only when a comparison bounds v from above by a constant.
func edgeBounds(pr *Prog, pred, blk *ssa.BasicBlock, v ssa.Value) bool {
	if sizeBounded(pr, pred, v, 1) {
		return true
	}
	if len(pred.Instrs) == 0 {
		return false
	}
	iff, ok := pred.Instrs[len(pred.Instrs)-1].(*ssa.If)
	if !ok || len(pred.Succs) != 2 || pred.Succs[0] == pred.Succs[1] {
		return false
	}
	pol := pred.Succs[0] == blk
	c, pol := normCond(iff.Cond, pol)
	bo, ok := c.(*ssa.BinOp)
	if !ok {
		return false
	}
	base, okb := losslessBase(v)
	same := func(w ssa.Value) bool {
		b2, ok2 := losslessBase(w)
		return okb && ok2 && (b2 == base || sameExpr(b2, base))
	}
	_, yC := ConstInt(bo.Y)
	_, xC := ConstInt(bo.X)
	switch {
	case yC && same(bo.X) && ((bo.Op == token.GTR && !pol) || (bo.Op == token.GEQ && !pol) || (bo.Op == token.LEQ && pol) || (bo.Op == token.LSS && pol)):
		return true
	case xC && same(bo.Y) && ((bo.Op == token.LSS && !pol) || (bo.Op == token.LEQ && !pol) || (bo.Op == token.GEQ && pol) || (bo.Op == token.GTR && pol)):
		return true
	}
	return false
}

func callResultBounded(pr *Prog, c *ssa.Call, idx int, depth int, seen map[ssa.Value]bool) bool {
	g := c.Common().StaticCallee()
	if g == nil || len(g.Blocks) == 0 || depth <= 0 {
		return false
	}
	rets := Returns(g)
	if len(rets) == 0 {
		return false
	}
	for _, rt := range rets {
		if idx >= len(rt.Results) {
			return false
		}
		if !allocBounded(pr, rt.Block(), rt.Results[idx], depth-1, seen) {
			return false
		}
	}
	return true
}

// nonNegative: the signed value cannot be negative: it is unsigned by type or converted from a
// narrower unsigned type, a length, a non-negative constant, sums and products of such values, a
// parameter every call site passes such a value for, or a dominating comparison excludes v < 0.
func nonNegative(pr *Prog, at *ssa.BasicBlock, v ssa.Value, depth int, seen map[ssa.Value]bool) bool {
	if v == nil {
		return false
	}
	if b, ok := v.Type().Underlying().(*types.Basic); ok && b.Info()&types.IsUnsigned != 0 {
		return true
	}
	if k, isC := ConstInt(v); isC {
		return k >= 0
	}
	if seen[v] {
		return true // a loop-carried sum of non-negative terms
	}
	seen[v] = true
	defer delete(seen, v)
	for _, ft := range Facts(at) {
		bo, ok := ft.Cond.(*ssa.BinOp)
		if !ok {
			continue
		}
		ky, yC := ConstInt(bo.Y)
		if yC && (bo.X == v || sameExpr(bo.X, v)) {
			switch {
			case bo.Op == token.LSS && !ft.Pol && ky >= 0, bo.Op == token.LEQ && !ft.Pol && ky >= -1,
				bo.Op == token.GEQ && ft.Pol && ky >= 0, bo.Op == token.GTR && ft.Pol && ky >= -1:
				return true
			}
		}
	}
	switch x := v.(type) {
	case *ssa.Convert:
		from, ok := x.X.Type().Underlying().(*types.Basic)
		if !ok || from.Info()&types.IsInteger == 0 {
			return false
		}
		if from.Info()&types.IsUnsigned != 0 {
			_, okl := losslessBase(v)
			return okl || allocBounded(pr, at, x.X, depth, map[ssa.Value]bool{})
		}
		return nonNegative(pr, at, x.X, depth, seen)
	case *ssa.ChangeType:
		return nonNegative(pr, at, x.X, depth, seen)
	case *ssa.BinOp:
		switch x.Op {
		case token.ADD, token.MUL, token.QUO, token.SHR, token.SHL:
			return nonNegative(pr, at, x.X, depth, seen) && nonNegative(pr, at, x.Y, depth, seen)
		case token.REM, token.AND:
			return nonNegative(pr, at, x.X, depth, seen) || (x.Op == token.AND && nonNegative(pr, at, x.Y, depth, seen))
		case token.SUB:
			// a - b with a dominating a >= b / a > b
			for _, ft := range Facts(at) {
				bo, ok := ft.Cond.(*ssa.BinOp)
				if !ok {
					continue
				}
				if (bo.X == x.X || sameExpr(bo.X, x.X)) && (bo.Y == x.Y || sameExpr(bo.Y, x.Y)) {
					if ((bo.Op == token.GEQ || bo.Op == token.GTR) && ft.Pol) || ((bo.Op == token.LSS || bo.Op == token.LEQ) && !ft.Pol) {
						return true
					}
				}
				if (bo.X == x.Y || sameExpr(bo.X, x.Y)) && (bo.Y == x.X || sameExpr(bo.Y, x.X)) {
					if ((bo.Op == token.LEQ || bo.Op == token.LSS) && ft.Pol) || ((bo.Op == token.GTR || bo.Op == token.GEQ) && !ft.Pol) {
						return true
					}
				}
			}
			return false
		}
		return false
	case *ssa.Phi:
		for _, e := range x.Edges {
			if !nonNegative(pr, at, e, depth, seen) {
				return false
			}
		}
		return true
	case *ssa.UnOp:
		if al, isA := x.X.(*ssa.Alloc); isA && x.Op == token.MUL {
			sts := storesTo(al)
			if len(sts) == 0 || closureWrites(al) {
				return false
			}
			for _, st := range sts {
				if !nonNegative(pr, st.Block(), st.Val, depth, seen) {
					return false
				}
			}
			return true
		}
		if fv, isF := x.X.(*ssa.FreeVar); isF && x.Op == token.MUL {
			return capturedAll(fv, func(at *ssa.BasicBlock, v ssa.Value) bool { return nonNegative(pr, at, v, depth, seen) })
		}
		return false
	case *ssa.FreeVar:
		return capturedAll(x, func(at *ssa.BasicBlock, v ssa.Value) bool { return nonNegative(pr, at, v, depth, seen) })
	case *ssa.Call:
		if b, ok := x.Call.Value.(*ssa.Builtin); ok {
			switch b.Name() {
			case "len", "cap", "copy":
				return true
			case "min":
				for _, a := range x.Call.Args {
					if !nonNegative(pr, at, a, depth, seen) {
						return false
					}
				}
				return true
			case "max":
				for _, a := range x.Call.Args {
					if nonNegative(pr, at, a, depth, seen) {
						return true
					}
				}
			}
			return false
		}
		return callResultNonNeg(pr, x, 0, depth, seen)
	case *ssa.Extract:
		if c, ok := x.Tuple.(*ssa.Call); ok {
			return callResultNonNeg(pr, c, x.Index, depth, seen)
		}
		return false
	case *ssa.Parameter:
		f := x.Parent()
		if depth <= 0 || f == nil || f.Object() == nil {
			return false
		}
		idx := -1
		for i, q := range f.Params {
			if q == x {
				idx = i
			}
		}
		sites := staticCallSites(pr, f)
		if idx < 0 || len(sites) == 0 {
			return false
		}
		for _, c := range sites {
			if idx >= len(c.Call.Args) || !nonNegative(pr, c.Block(), c.Call.Args[idx], depth-1, seen) {
				return false
			}
		}
		return true
	}
	return false
}

func callResultNonNeg(pr *Prog, c *ssa.Call, idx int, depth int, seen map[ssa.Value]bool) bool {
	g := c.Common().StaticCallee()
	if g == nil || depth <= 0 {
		return false
	}
	if len(g.Blocks) == 0 {
		// library readers report a count
		return false
	}
	rets := Returns(g)
	if len(rets) == 0 {
		return false
	}
	for _, rt := range rets {
		if idx >= len(rt.Results) {
			return false
		}
		if RetErrKind(rt) == "nonnil" {
			continue // the value returned beside an error is not used as a size by a caller that checks the error
		}
		if !nonNegative(pr, rt.Block(), rt.Results[idx], depth-1, seen) {
			return false
		}
	}
	return true
}

func lastIf(b *ssa.BasicBlock) (*ssa.If, bool) {
	if len(b.Instrs) == 0 {
		return nil, false
	}
	iff, ok := b.Instrs[len(b.Instrs)-1].(*ssa.If)
	return iff, ok
}

// capturedAll: a captured variable satisfies pred when every value the enclosing function binds to
// it does, judged where the closure is created (a variable captured by reference: every value stored
// into its cell by the enclosing function, provided the closure itself does not write it).
func capturedAll(fv *ssa.FreeVar, pred func(at *ssa.BasicBlock, v ssa.Value) bool) bool {
	fn := fv.Parent()
	idx := -1
	for i, x := range fn.FreeVars {
		if x == fv {
			idx = i
		}
	}
	sites := closureSites(fn)
	if idx < 0 || len(sites) == 0 {
		return false
	}
	if fv.Referrers() != nil {
		for _, u := range *fv.Referrers() {
			if st, ok := u.(*ssa.Store); ok && st.Addr == ssa.Value(fv) {
				return false
			}
		}
	}
	for _, site := range sites {
		mc, ok := site.(*ssa.MakeClosure)
		if !ok || idx >= len(mc.Bindings) {
			return false
		}
		bv := mc.Bindings[idx]
		if al, isA := bv.(*ssa.Alloc); isA {
			sts := storesTo(al)
			if len(sts) == 0 {
				return false
			}
			for _, st := range sts {
				if !pred(mc.Block(), st.Val) {
					return false
				}
			}
			continue
		}
		if !pred(mc.Block(), bv) {
			return false
		}
	}
	return true
}
