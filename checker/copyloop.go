package main

import (
	"go/constant"
	"go/token"
	"go/types"

	"golang.org/x/tools/go/ssa"
)

// isWriteMethod: method named Write with signature func([]byte) (int, error).
func isWriteMethod(ci ssa.CallInstruction) bool {
	c := CalleeOf(ci)
	if c.Name != "Write" || c.Obj == nil {
		return false
	}
	sig, ok := c.Obj.Type().(*types.Signature)
	if !ok || sig.Recv() == nil || sig.Params().Len() != 1 || sig.Results().Len() != 2 {
		return false
	}
	_, ok = sig.Params().At(0).Type().Underlying().(*types.Slice)
	return ok
}

// bufArg returns the []byte argument of a Read/Write method call.
func bufArg(ci ssa.CallInstruction) ssa.Value {
	if ci.Common().IsInvoke() {
		return ci.Common().Args[0]
	}
	return Arg(ci, 0)
}

// loopBlocks returns the strongly connected component (loop body) containing b.
func loopBlocks(b *ssa.BasicBlock) map[*ssa.BasicBlock]bool {
	out := map[*ssa.BasicBlock]bool{}
	if !InLoop(b) {
		return out
	}
	for _, x := range b.Parent().Blocks {
		if x == b || (CanReach(b, x) && CanReach(x, b)) {
			out[x] = true
		}
	}
	return out
}

// positiveTest decodes an If condition on n as "n > 0"-like; returns the
// successor index taken when n is NOT positive (to be pruned), or -1.
func nonPositiveEdge(iff *ssa.If, n ssa.Value) int {
	bo, ok := iff.Cond.(*ssa.BinOp)
	if !ok {
		return -1
	}
	zero := func(v ssa.Value) bool { k, ok := ConstInt(v); return ok && k == 0 }
	switch {
	case bo.X == n && zero(bo.Y):
		switch bo.Op {
		case token.GTR, token.NEQ:
			return 1
		case token.LEQ, token.EQL:
			return 0
		}
	case bo.Y == n && zero(bo.X):
		switch bo.Op {
		case token.LSS, token.NEQ:
			return 1
		case token.GEQ, token.EQL:
			return 0
		}
	}
	return -1
}

// foreignErrorFact: block b is dominated by "an error that did not come from
// call rd is non-nil" (e.g. a pacing or destination failure).
func foreignErrorFact(b *ssa.BasicBlock, rd ssa.CallInstruction) bool {
	for _, ft := range Facts(b) {
		x, isnil, ok := ft.FactNil()
		if !ok || isnil {
			continue
		}
		if !types.Identical(x.Type(), types.Universe.Lookup("error").Type()) {
			continue
		}
		if !valueFromCall(x, rd) {
			return true
		}
	}
	return false
}

// CheckCopyLoop verifies the integrity obligations of one read->write copy
// loop (see DESIGN R-C02-1 / R-C12-1). requireShortWrite demands that a short
// write leaves the loop.
func CheckCopyLoop(r *Report, rule string, f *ssa.Function, rd ssa.CallInstruction, requireShortWrite bool) {
	fn := r.P.FuncName(f)
	buf := bufArg(rd)
	nr := extractOf(rd, 0)
	body := loopBlocks(rd.Block())
	if nr == nil || len(body) == 0 {
		r.Fail(rule, CallPos(rd), "copy loop read discards its byte count or is not in a loop", fn, "copy-loop-shape")
		return
	}
	// 1. the writes of exactly buf[:nr]
	var writes []ssa.CallInstruction
	for b := range body {
		for _, in := range b.Instrs {
			ci, ok := in.(ssa.CallInstruction)
			if !ok || !isWriteMethod(ci) {
				continue
			}
			arg := bufArg(ci)
			if !aliases(arg, buf, map[ssa.Value]bool{}) {
				continue
			}
			sl, isSl := arg.(*ssa.Slice)
			exact := isSl && sl.X == buf && sl.Low == nil && sl.High == nr
			r.Ob(rule, CallPos(ci), exact, "the slice written must be exactly buf[:n] of the bytes just read (same buffer, no offset, count of this read)", fn, "write-is-what-was-read")
			if exact {
				writes = append(writes, ci)
			}
		}
	}
	if len(writes) == 0 {
		r.Fail(rule, CallPos(rd), "no write of buf[:n] found in the copy loop", fn, "write-is-what-was-read")
		return
	}
	isWrite := func(in ssa.Instruction) bool {
		for _, w := range writes {
			if in == w.(ssa.Instruction) {
				return true
			}
		}
		return false
	}
	// 2. after a read that returned data, every path writes before reading again or leaving
	hits := WalkFrom(nil, rd.(ssa.Instruction), func(in ssa.Instruction) int {
		if isWrite(in) {
			return Stop
		}
		if in == rd.(ssa.Instruction) {
			return Hit
		}
		if !body[in.Block()] {
			if foreignErrorFact(in.Block(), rd) {
				return Stop // leaving because the destination / pacing side failed
			}
			return Hit
		}
		return Cont
	}, func(b *ssa.BasicBlock, succ int) bool {
		if iff, ok := b.Instrs[len(b.Instrs)-1].(*ssa.If); ok {
			if np := nonPositiveEdge(iff, nr); np == succ {
				return false
			}
			// leaving the loop on the non-nil edge of an error that is not the read's own
			// (pacing / destination failure): the tunnel ends, what was delivered is a prefix
			if !body[b.Succs[succ]] {
				c, pol := normCond(iff.Cond, true)
				if x, tmn, ok := NilTest(c); ok && !valueFromCall(x, rd) &&
					types.Identical(x.Type(), types.Universe.Lookup("error").Type()) {
					nonNil := 0
					if tmn == pol {
						nonNil = 1
					}
					if succ == nonNil {
						return false
					}
				}
			}
		}
		if !body[b.Succs[succ]] && foreignErrorFact(b, rd) {
			return false
		}
		return true
	})
	r.Ob(rule, CallPos(rd), len(hits) == 0, "after a read that returned bytes every path must write them before the next read or before leaving the loop (otherwise bytes are lost, e.g. a final chunk delivered together with EOF)", fn, "read-bytes-always-written")
	// 3. write failures leave the loop
	for _, w := range writes {
		ok, why := errorLeaves(w, rd.Block())
		r.Ob(rule, CallPos(w), ok, "a failed write must leave the copy loop ("+why+")", fn, "write-error-exits")
		if requireShortWrite {
			nw := extractOf(w, 0)
			good := false
			if nw != nil && nw.Referrers() != nil {
				for _, ref := range *nw.Referrers() {
					bo, ok := ref.(*ssa.BinOp)
					if !ok || !((bo.X == nw && bo.Y == nr) || (bo.X == nr && bo.Y == nw)) || bo.Referrers() == nil {
						continue
					}
					for _, u := range *bo.Referrers() {
						iff, ok := u.(*ssa.If)
						if !ok {
							continue
						}
						mism := 0 // successor taken when counts differ
						switch bo.Op {
						case token.NEQ, token.LSS, token.GTR:
							mism = 0
						case token.EQL:
							mism = 1
						default:
							continue
						}
						if !CanReachBlock(iff.Block().Succs[mism], rd.Block()) {
							good = true
						}
					}
				}
			}
			r.Ob(rule, CallPos(w), good, "a short write (written != read) must leave the copy loop, never continue past the unwritten bytes", fn, "short-write-exits")
		}
	}
	// 4. read errors leave the loop (timeout-and-temporary retry accepted)
	ok, why := readErrorLeavesLoopIdiom(rd)
	r.Ob(rule, CallPos(rd), ok, "a failed read must leave the copy loop ("+why+")", fn, "read-error-exits")
}

// errorLeaves: the error result of call c is tested and its non-nil edge cannot reach block target.
func errorLeaves(c ssa.CallInstruction, target *ssa.BasicBlock) (bool, string) {
	errv := extractOf(c, 1)
	if errv == nil || errv.Referrers() == nil {
		return false, "error result discarded"
	}
	tested := false
	for _, ref := range *errv.Referrers() {
		bo, ok := ref.(*ssa.BinOp)
		if !ok {
			continue
		}
		x, trueMeansNil, ok := NilTest(bo)
		if !ok || x != errv || bo.Referrers() == nil {
			continue
		}
		for _, u := range *bo.Referrers() {
			iff, ok := u.(*ssa.If)
			if !ok {
				continue
			}
			tested = true
			es := iff.Block().Succs[0]
			if trueMeansNil {
				es = iff.Block().Succs[1]
			}
			if CanReachBlock(es, target) {
				return false, "the error edge returns to the read"
			}
		}
	}
	if !tested {
		return false, "error result never tested"
	}
	return true, "error edge leaves the loop"
}

// readErrorLeavesLoopIdiom: like readErrorLeavesLoop but accepts (a) the
// retry of timeouts that are also temporary, and (b) an error latched into a
// variable whose non-nil test leaves the loop before the next read.
func readErrorLeavesLoopIdiom(rd ssa.CallInstruction) (bool, string) {
	errv := extractOf(rd, 1)
	if errv == nil || errv.Referrers() == nil {
		return false, "error result discarded"
	}
	latched := func(v ssa.Value) bool {
		if v == errv {
			return true
		}
		if p, ok := v.(*ssa.Phi); ok {
			for _, e := range p.Edges {
				if e == errv {
					return true
				}
			}
		}
		return false
	}
	tested := false
	for _, ref := range *errv.Referrers() {
		bo, ok := ref.(*ssa.BinOp)
		if !ok {
			continue
		}
		x, trueMeansNil, ok := NilTest(bo)
		if !ok || x != errv || bo.Referrers() == nil {
			continue
		}
		for _, u := range *bo.Referrers() {
			iff, ok := u.(*ssa.If)
			if !ok {
				continue
			}
			tested = true
			es := iff.Block().Succs[0]
			if trueMeansNil {
				es = iff.Block().Succs[1]
			}
			hits := WalkFrom(es, nil, func(in ssa.Instruction) int {
				if in == rd.(ssa.Instruction) {
					return Hit
				}
				return Cont
			}, errEdgeFilter(latched))
			if len(hits) > 0 {
				return false, "the error edge can reach the same read again (spin on a dead stream)"
			}
		}
	}
	if !tested {
		return false, "error result never tested"
	}
	return true, "error edge leaves the loop (timeout-and-temporary retry and latched-error idioms accepted)"
}

// ---- packet read loops -------------------------------------------------------

// timeoutOnly: h(err) bool answers true only under X.Timeout()==true (the retry
// classifier of a read loop). Constant false returns are fine; any other possibly
// true return must be dominated by a positive Timeout() fact.
func timeoutOnly(h *ssa.Function) bool {
	if h == nil || len(h.Blocks) == 0 || h.Signature.Results().Len() != 1 {
		return false
	}
	if bt, ok := h.Signature.Results().At(0).Type().Underlying().(*types.Basic); !ok || bt.Kind() != types.Bool {
		return false
	}
	// what holds whenever h answers true (facts common to every possibly-true return, including the
	// conjuncts of a returned `a && b && c`)
	for _, ft := range summariseHelper(h).isTrue {
		if c, ok := stripValue(ft.Cond).(*ssa.Call); ok && CalleeOf(c).Name == "Timeout" && ft.Pol {
			return true
		}
	}
	return false
}

// errEdgeFilter builds the edge filter used when following the failed edge of a read: it
// keeps, for tests of the (latched) error, only the non-nil successor, and prunes the accepted
// retry edges: Timeout()&&Temporary(), or a bool helper h(err) with timeoutOnly(h).
func errEdgeFilter(isErr func(ssa.Value) bool) func(b *ssa.BasicBlock, succ int) bool {
	return func(b *ssa.BasicBlock, succ int) bool {
		last, ok := b.Instrs[len(b.Instrs)-1].(*ssa.If)
		if !ok {
			return true
		}
		c, pol := normCond(last.Cond, true)
		trueSucc := 0
		if !pol {
			trueSucc = 1
		}
		if x, tmn, ok := NilTest(c); ok && isErr(x) {
			nonNilSucc := 0
			if tmn == pol {
				nonNilSucc = 1
			}
			return succ == nonNilSucc
		}
		if call, ok := stripValue(c).(*ssa.Call); ok {
			if CalleeOf(call).Name == "Temporary" {
				for _, ft := range Facts(b) {
					if c2, ok := stripValue(ft.Cond).(*ssa.Call); ok && CalleeOf(c2).Name == "Timeout" && ft.Pol && succ == trueSucc {
						return false
					}
				}
			}
			if h := call.Common().StaticCallee(); h != nil && timeoutOnly(h) && succ == trueSucc {
				for _, a := range call.Common().Args {
					if isErr(stripValue(a)) {
						return false
					}
				}
			}
		}
		return true
	}
}

// CheckPacketReadLoop decides, for a call rd whose result errIdx is the read error, that a
// failed read cannot lead back to the same read except through an accepted timeout retry.
// rd may sit in the loop itself, or in a wrapper that reports the outcome through constant
// bool results which the caller's loop tests (depth 1).
func CheckPacketReadLoop(p *Prog, rd ssa.CallInstruction, errIdx int) (bool, string) {
	errv := extractOf(rd, errIdx)
	if errv == nil {
		return false, "error result discarded"
	}
	isErr := func(v ssa.Value) bool {
		if v == errv {
			return true
		}
		if ph, ok := v.(*ssa.Phi); ok {
			for _, e := range ph.Edges {
				if e == errv {
					return true
				}
			}
		}
		return false
	}
	f := rd.Parent()
	// failed-edge start blocks
	var starts []*ssa.BasicBlock
	if errv.Referrers() != nil {
		for _, ref := range *errv.Referrers() {
			bo, ok := ref.(*ssa.BinOp)
			if !ok || bo.Referrers() == nil {
				continue
			}
			x, tmn, ok := NilTest(bo)
			if !ok || x != errv {
				continue
			}
			for _, u := range *bo.Referrers() {
				if iff, ok := u.(*ssa.If); ok {
					es := iff.Block().Succs[0]
					if tmn {
						es = iff.Block().Succs[1]
					}
					starts = append(starts, es)
				}
			}
		}
	}
	if len(starts) == 0 {
		return false, "error result never tested"
	}
	filter := errEdgeFilter(isErr)
	var retsOnErr []*ssa.Return
	for _, s := range starts {
		hits := WalkFrom(s, nil, func(in ssa.Instruction) int {
			if in == rd.(ssa.Instruction) {
				return Hit
			}
			if ret, ok := in.(*ssa.Return); ok {
				retsOnErr = append(retsOnErr, ret)
				return Stop
			}
			return Cont
		}, filter)
		if len(hits) > 0 {
			return false, "a failed read can reach the same read again without being a timeout (spin on a dead stream)"
		}
	}
	if InLoop(rd.Block()) {
		return true, "failed read leaves the loop (timeout retry accepted)"
	}
	// wrapper: every non-timeout error return must drive each calling loop out
	callers := 0
	for _, g := range p.Funcs {
		var bad string
		Instrs(g, func(in ssa.Instruction) {
			ci, ok := in.(ssa.CallInstruction)
			if !ok || ci.Common().StaticCallee() != f || !InLoop(ci.Block()) {
				return
			}
			callers++
			for _, ret := range retsOnErr {
				// constant results of this return
				consts := map[int]bool{}
				for i := range ret.Results {
					if k, ok := stripValue(RetVal(ret, i)).(*ssa.Const); ok && k.Value != nil && k.Value.Kind() == constant.Bool {
						consts[i] = constant.BoolVal(k.Value)
					}
				}
				hits := WalkFrom(nil, ci.(ssa.Instruction), func(x ssa.Instruction) int {
					if x == ci.(ssa.Instruction) {
						return Hit
					}
					return Cont
				}, func(b *ssa.BasicBlock, succ int) bool {
					last, ok := b.Instrs[len(b.Instrs)-1].(*ssa.If)
					if !ok {
						return true
					}
					c, pol := normCond(last.Cond, true)
					if ex, ok := stripValue(c).(*ssa.Extract); ok && ex.Tuple == ci.(ssa.Value) {
						if val, known := consts[ex.Index]; known {
							want := 0
							if val != pol {
								want = 1
							}
							return succ == want
						}
					}
					return true
				})
				if len(hits) > 0 {
					bad = "a non-timeout read error returned by " + f.Name() + " lets the calling loop read again"
				}
			}
		})
		if bad != "" {
			return false, bad
		}
	}
	if callers == 0 {
		return true, "read outside any loop"
	}
	return true, "failed read makes the wrapper report an exit that the calling loop obeys (timeout retry accepted)"
}

// ---- delegating Read/Write wrappers ---------------------------------------------

// checkDelegatingWrappers: a method Read(p)/Write(p) that hands the caller's p, unchanged, to
// exactly one inner Read/Write (counting, logging, deadline wrappers) is transparent: every
// return reachable from the inner call returns the inner call's byte count. Returning 0 with
// the error drops bytes delivered together with io.EOF; returning len(p) hides short writes.
func checkDelegatingWrappers(r *Report, rule string, pkgs ...string) int {
	n := 0
	for _, pk := range pkgs {
		for _, f := range r.P.FuncsIn(pk) {
			name := f.Name()
			if (name != "Read" && name != "Write") || f.Signature.Recv() == nil || len(f.Params) != 2 ||
				f.Signature.Results().Len() != 2 || f.Signature.Params().Len() != 1 {
				continue
			}
			if sl, ok := f.Signature.Params().At(0).Type().Underlying().(*types.Slice); !ok || !isByte(sl.Elem()) {
				continue
			}
			p := ssa.Value(f.Params[1])
			var inner []ssa.CallInstruction
			other := false
			Instrs(f, func(in ssa.Instruction) {
				ci, ok := in.(ssa.CallInstruction)
				if !ok {
					return
				}
				if _, isGo := in.(*ssa.Go); isGo {
					other = true
					return
				}
				uses := false
				for _, a := range ci.Common().Args {
					if stripValue(a) == p {
						uses = true
					}
				}
				if !uses {
					// p re-sliced and handed elsewhere: not a pure delegation
					for _, a := range ci.Common().Args {
						if sl, ok := a.(*ssa.Slice); ok && stripValue(sl.X) == p {
							other = true
						}
					}
					return
				}
				c := CalleeOf(ci)
				if b, ok := ci.Common().Value.(*ssa.Builtin); ok {
					if b.Name() != "len" && b.Name() != "cap" {
						other = true
					}
					return
				}
				if c.Name == name && ci.Common().Signature().Results().Len() == 2 {
					inner = append(inner, ci)
				} else {
					other = true
				}
			})
			if len(inner) != 1 || other {
				continue
			}
			call := inner[0]
			nv := extractOf(call, 0)
			n++
			bad := token.NoPos
			for _, ret := range Returns(f) {
				if !CanReachBlock(call.Block(), ret.Block()) {
					continue
				}
				v := stripValue(RetVal(ret, 0))
				if nv == nil || !(v == nv || phiOnly(v, nv)) {
					bad = ret.Pos()
				}
			}
			pos := CallPos(call)
			if bad != token.NoPos {
				pos = bad
			}
			r.Ob(rule, pos, bad == token.NoPos, name+" wrapper returns the byte count of the "+name+" it delegates to on every path after it (bytes delivered with an error, e.g. the last chunk with io.EOF, must not be dropped; short counts must not be hidden)", r.P.FuncName(f), "delegation-transparent")
		}
	}
	return n
}

func isByte(t types.Type) bool {
	b, ok := t.Underlying().(*types.Basic)
	return ok && b.Kind() == types.Uint8
}

// phiOnly: v is a phi all of whose edges are x.
func phiOnly(v, x ssa.Value) bool {
	ph, ok := v.(*ssa.Phi)
	if !ok {
		return false
	}
	for _, e := range ph.Edges {
		if stripValue(e) != x {
			return false
		}
	}
	return true
}
