package main

import (
	"fmt"
	"go/token"
	"go/types"
	"strings"

	"golang.org/x/tools/go/ssa"
)

func init() {
	register(&PropCheck{
		ID: "C17",
		Explanation: "Static check-then-act rules on configured limits. Every comparison whose operand originates from a limit field (SessionConfig.MaxConnections, ClientRegistry.maxConnections, TunnelRegistry.maxTunnels, MappingConfig.MaxConnections / quota MaxConnections, Service.maxActiveCodesPerClient, Service.maxActiveMappingsPerClient) is discovered program-wide and classified by the counted quantity: " +
			"R-C17-1 (a) len(map): the deciding comparison and the insertion into that map lie in one write-locked critical section with no release of the lock on any path between them (a fast-path refusal under a weaker lock is allowed only if a deciding comparison follows); (b) an atomic counter: the comparison is applied to the result of the atomic add that reserves the slot (never to a separately loaded value); (c) a count obtained from storage followed by a create: no static guarantee - reported (known findings). A limit comparison whose counted quantity cannot be classified fails as undecided. " +
			"R-C17-2: a refusal performs no recording action, and releases what was created before the refusal; a slot reserved on an atomic counter is given back exactly once (deferred release, no second decrement). " +
			"R-C17-3: at the control-connection cap exactly the oldest connection is evicted, under the same lock, before the insert. " +
			"Decides these necessary conditions; does not decide 'at any instant' over real schedules for storage-backed quotas.",
		Run: runC17,
		Mutants: []Mutant{
			{Name: "createconnection-recheck-removed", File: "internal/protocol/session/connection_lifecycle.go", Rule: "R-C17-1",
				Old: "\tif s.config != nil && s.config.MaxConnections > 0 && len(s.connMap) >= s.config.MaxConnections {\n\t\tcurrentCount := len(s.connMap)\n\t\ts.connLock.Unlock()\n\t\t// 被拒绝的请求不得留下任何状态：释放刚创建的流\n\t\t_ = s.streamMgr.RemoveStream(connID)\n\t\treturn nil, coreerrors.Newf(coreerrors.CodeQuotaExceeded, \"connection limit reached: %d/%d\", currentCount, s.config.MaxConnections)\n\t}\n", New: ""},
			{Name: "quota-load-then-add", File: "internal/client/mapping/base_utils.go", Rule: "R-C17-1",
				Old: "if int(currentCount) > maxConn {", New: "if int(h.activeConnCount.Load()) > maxConn {"},
			{Name: "tunnel-registry-check-outside-lock", File: "internal/protocol/session/tunnel_registry.go", Rule: "R-C17-1",
				Old: "\tr.mu.Lock()\n\tdefer r.mu.Unlock()\n\n\t// 检查容量限制\n\tif r.maxTunnels > 0 && len(r.connMap) >= r.maxTunnels {\n\t\tr.logger.Warnf(\"TunnelRegistry: capacity limit reached (max=%d, current=%d)\", r.maxTunnels, len(r.connMap))\n\t\treturn coreerrors.Newf(coreerrors.CodeResourceExhausted, \"tunnel registry capacity limit reached: max %d tunnels\", r.maxTunnels)\n\t}\n",
				New: "\tr.mu.RLock()\n\tfull := r.maxTunnels > 0 && len(r.connMap) >= r.maxTunnels\n\tr.mu.RUnlock()\n\tif full {\n\t\treturn coreerrors.Newf(coreerrors.CodeResourceExhausted, \"tunnel registry capacity limit reached: max %d tunnels\", r.maxTunnels)\n\t}\n\n\tr.mu.Lock()\n\tdefer r.mu.Unlock()\n"},
			{Name: "cap-lock-released-around-evict", File: "internal/protocol/session/client_registry.go", Rule: "R-C17-1",
				Old: "\t\t\tr.removeConnectionLocked(oldestConn)\n\t\t} else {", New: "\t\t\tif oldestConn.Stream != nil {\n\t\t\t\tr.mu.Unlock()\n\t\t\t\toldestConn.Stream.Close()\n\t\t\t\tr.mu.Lock()\n\t\t\t}\n\t\t\tr.removeConnectionLocked(oldestConn)\n\t\t} else {"},
			{Name: "refusal-decrements-twice", File: "internal/client/mapping/base.go", Rule: "R-C17-2",
				Old: "quota check failed: %v\", h.config.MappingID, err)\n", New: "quota check failed: %v\", h.config.MappingID, err)\n\t\th.activeConnCount.Add(-1)\n"},
			{Name: "refusal-leaks-stream", File: "internal/protocol/session/connection_lifecycle.go", Rule: "R-C17-2",
				Old: "\t\t_ = s.streamMgr.RemoveStream(connID)\n", New: ""},
			{Name: "cap-evicts-without-removal", File: "internal/protocol/session/client_registry.go", Rule: "R-C17-3",
				Old: "\t\t\tr.removeConnectionLocked(oldestConn)\n\t\t} else {", New: "\t\t\t_ = oldestConn\n\t\t} else {"},
		},
	})
}

// limit fields: struct type . field
var limitFields = map[string]string{
	"SessionConfig.MaxConnections":       "server-wide connection cap",
	"ClientRegistry.maxConnections":      "control-connection cap",
	"TunnelRegistry.maxTunnels":          "tunnel-connection cap",
	"MappingConfig.MaxConnections":       "per-mapping concurrent connections (listening client)",
	"UserQuota.MaxConnections":           "per-user concurrent connections (listening client)",
	"Service.maxActiveCodesPerClient":    "active connection codes per client",
	"Service.maxActiveMappingsPerClient": "active mappings per client",
}

func limitOf(v ssa.Value) string {
	for _, rt := range Origins(v) {
		if rt.Kind != "field" {
			continue
		}
		name := rt.Desc
		if i := strings.Index(name, "("); i >= 0 {
			name = name[:i]
		}
		if _, ok := limitFields[name]; ok {
			return name
		}
	}
	return ""
}

func runC17(r *Report) {
	type site struct {
		cmp   *ssa.BinOp
		limit string
		other ssa.Value
		fn    *ssa.Function
	}
	var sites []site
	for _, f := range r.P.Funcs {
		pk := ""
		if f.Pkg != nil {
			pk = rel(f.Pkg.Pkg.Path())
		}
		if !(strings.HasPrefix(pk, "internal/protocol/session") || strings.HasPrefix(pk, "internal/client/mapping") || strings.HasPrefix(pk, "internal/cloud/services/conncode")) {
			continue
		}
		Instrs(f, func(in ssa.Instruction) {
			bo, ok := in.(*ssa.BinOp)
			if !ok {
				return
			}
			switch bo.Op {
			case token.GEQ, token.GTR, token.LSS, token.LEQ:
			default:
				return
			}
			// `limit > 0` enabling tests: the switch is "a positive limit is enforced" (a test against
			// any other constant leaves small limits unenforced)
			if k, isC := ConstInt(bo.Y); isC {
				if l := limitOf(bo.X); l != "" {
					r.Ob("R-C17-1", bo.Pos(), k == 0 && (bo.Op == token.GTR || bo.Op == token.LEQ), fmt.Sprintf("the enabling test of limit %s compares with %d using %s (want `> 0` / `<= 0`: every positive limit is enforced)", l, k, bo.Op), r.P.FuncName(f), "limit-enabled-when-positive:"+l)
				}
				return
			}
			if _, isC := ConstInt(bo.X); isC {
				return
			}
			if limitOf(bo.X) != "" && limitOf(bo.Y) != "" {
				return // two configured limits compared with each other (the smaller one applies): nothing is counted here
			}
			if l := limitOf(bo.Y); l != "" {
				sites = append(sites, site{bo, l, bo.X, f})
			} else if l := limitOf(bo.X); l != "" {
				sites = append(sites, site{bo, l, bo.Y, f})
			}
		})
	}
	if len(sites) < 2 { // alarm below 40% of the 6 sites confirmed by hand
		r.Fail("R-C17-1", 0, fmt.Sprintf("only %d limit comparisons discovered (7 confirmed by hand)", len(sites)), "limits", "floor")
	}
	// capped tables: a map field whose length is compared with a limit.  Every insertion into such a
	// table, in whatever function, is behind a cap test or replaces an entry that is already there
	type capped struct {
		typ, field, limit string
		named             string
	}
	var cappedTabs []capped
	for _, s := range sites {
		c, _ := CallOfValue(stripValue(s.other))
		if lc, ok := stripValue(s.other).(*ssa.Call); ok {
			c = lc
		}
		if c == nil {
			continue
		}
		if b, ok := c.Call.Value.(*ssa.Builtin); !ok || b.Name() != "len" {
			continue
		}
		if t, mf, _, isF := FieldOf(c.Call.Args[0]); isF {
			nm := fieldOwnerPath(c.Call.Args[0])
			dup := false
			for _, x := range cappedTabs {
				if x.named == nm && x.field == mf {
					dup = true
				}
			}
			if !dup {
				cappedTabs = append(cappedTabs, capped{t, mf, s.limit, nm})
			}
		}
	}
	for _, ct := range cappedTabs {
		nIns := 0
		for _, f := range r.P.Funcs {
			if len(f.Blocks) == 0 {
				continue
			}
			Instrs(f, func(in ssa.Instruction) {
				mu, ok := in.(*ssa.MapUpdate)
				if !ok {
					return
				}
				t, mf, _, isF := FieldOf(mu.Map)
				if !isF || t != ct.typ || mf != ct.field || fieldOwnerPath(mu.Map) != ct.named {
					return
				}
				nIns++
				okIns, why := false, ""
				// the function's own cap test on this table comes first (its refusal edge is checked by the
				// limit rules above; `limit > 0 && len >= limit` leaves no single dominating edge)
				for _, s2 := range sites {
					if s2.fn != f || s2.limit != ct.limit {
						continue
					}
					if s2.cmp.Block() == in.Block() && Before(s2.cmp, in) || (s2.cmp.Block() != in.Block() && CanReachBlock(s2.cmp.Block(), in.Block()) && !CanReachBlock(in.Block(), s2.cmp.Block())) {
						okIns, why = true, "after this function's cap test"
					}
				}
				for _, ft := range Facts(in.Block()) {
					// a cap test on this table on the way here
					if bo, isB := ft.Cond.(*ssa.BinOp); isB {
						for _, side := range []ssa.Value{bo.X, bo.Y} {
							if lc, _ := CallOfValue(side); lc != nil {
								if b, ok := lc.Call.Value.(*ssa.Builtin); ok && b.Name() == "len" {
									if t2, f2, _, ok := FieldOf(lc.Call.Args[0]); ok && t2 == ct.typ && f2 == ct.field {
										okIns, why = true, "behind a test of the table's length"
									}
								}
							}
							if lc, ok := stripValue(side).(*ssa.Call); ok {
								if b, ok := lc.Call.Value.(*ssa.Builtin); ok && b.Name() == "len" {
									if t2, f2, _, ok := FieldOf(lc.Call.Args[0]); ok && t2 == ct.typ && f2 == ct.field {
										okIns, why = true, "behind a test of the table's length"
									}
								}
							}
						}
					}
					// the key is already in the table (comma-ok lookup took the found edge): a replacement
					if ex, isE := ft.Cond.(*ssa.Extract); isE && ft.Pol && ex.Index == 1 {
						if lk, isL := ex.Tuple.(*ssa.Lookup); isL {
							if t2, f2, _, ok := FieldOf(lk.X); ok && t2 == ct.typ && f2 == ct.field && (lk.Index == mu.Key || sameExpr(lk.Index, mu.Key)) {
								okIns, why = true, "replaces an entry that is already present"
							}
						}
					}
				}
				r.Ob("R-C17-1", in.Pos(), okIns, fmt.Sprintf("insertion into %s.%s (capped by %s) is behind a cap test or replaces an existing entry%s", ct.typ, ct.field, ct.limit, map[bool]string{true: ": " + why, false: ": an insert elsewhere grows the table past its cap"}[okIns]), r.P.FuncName(f), "capped-insert:"+ct.typ+"."+ct.field)
			})
		}
		r.Note("R-C17-1: capped table %s.%s (%s): %d insertion site(s)", ct.typ, ct.field, ct.limit, nIns)
	}
	// a per-client quota counts every member the client is a party to: the list it is counted from is
	// the client's index as stored, not one filtered by the client's role (the index is two-directional:
	// a mapping is listed under its listening and under its target client)
	for _, s := range sites {
		if !strings.Contains(s.limit, "PerClient") {
			continue
		}
		var listCalls []*ssa.Call
		Instrs(s.fn, func(in ssa.Instruction) {
			if call, ok := in.(*ssa.Call); ok {
				listCalls = append(listCalls, call)
			}
		})
		for _, call := range listCalls {
			c := ssa.CallInstruction(call)
			h := call.Common().StaticCallee()
			if h == nil || len(h.Blocks) == 0 || h.Pkg == nil || !strings.HasPrefix(h.Pkg.Pkg.Path(), Module) {
				continue
			}
			res := h.Signature.Results()
			if res.Len() == 0 {
				continue
			}
			sl, isSl := res.At(0).Type().Underlying().(*types.Slice)
			if !isSl || !strings.Contains(sl.Elem().String(), "PortMapping") {
				continue
			}
			filtered := ""
			Instrs(h, func(in ssa.Instruction) {
				bo, ok := in.(*ssa.BinOp)
				if !ok || (bo.Op != token.EQL && bo.Op != token.NEQ) {
					return
				}
				for _, pr := range [][2]ssa.Value{{bo.X, bo.Y}, {bo.Y, bo.X}} {
					_, fld, _, isF := FieldOf(pr[0])
					if _, isP := stripValue(pr[1]).(*ssa.Parameter); isF && isP && (fld == "ListenClientID" || fld == "TargetClientID") {
						filtered = fld
					}
				}
			})
			r.Ob("R-C17-1", CallPos(c), filtered == "", "the list a per-client quota ("+s.limit+") is counted from is not filtered by the client's role"+map[bool]string{true: "", false: " (" + h.Name() + " keeps only entries whose " + filtered + " is the client)"}[filtered == ""], r.P.FuncName(s.fn), "quota-counts-both-roles:"+h.Name())
		}
	}
	for _, s := range sites {
		fn := r.P.FuncName(s.fn)
		key := []string{fn, "limit:" + s.limit}
		counted := stripValue(s.other)
		// (a) len(map field)
		if lc, ok := counted.(*ssa.Call); ok {
			if b, ok := lc.Call.Value.(*ssa.Builtin); ok && b.Name() == "len" {
				_, mf, _, isF := FieldOf(lc.Call.Args[0])
				if isF {
					checkLenLimit(r, s.fn, s.cmp, mf, s.limit, key)
					continue
				}
			}
		}
		// spilled len(...) (currentCount := len(m)) — follow one store
		if c, _ := CallOfValue(counted); c != nil {
			if b, ok := c.Call.Value.(*ssa.Builtin); ok && b.Name() == "len" {
				if _, mf, _, isF := FieldOf(c.Call.Args[0]); isF {
					checkLenLimit(r, s.fn, s.cmp, mf, s.limit, key)
					continue
				}
			}
			cal := CalleeOf(c)
			// (b) atomic counter
			if cal.Is("atomic:Int32.Add", "atomic:Int64.Add") {
				r.Pass("R-C17-1", s.cmp.Pos(), "limit "+s.limit+" is compared with the result of the atomic add that reserves the slot", key...)
				continue
			}
			if cal.Is("atomic:Int32.Load", "atomic:Int64.Load") {
				r.Fail("R-C17-1", s.cmp.Pos(), "limit "+s.limit+" is compared with a separately loaded counter value: concurrent admissions at limit-1 all read the same value and all pass (decide on the result of the atomic Add instead)", key...)
				continue
			}
			// a count obtained from a call that can fail is compared only where the call succeeded: a
			// failed count must refuse, not let the request through with the zero value
			if sig := c.Common().Signature(); sig.Results().Len() >= 2 && sig.Results().At(sig.Results().Len()-1).Type().String() == "error" {
				r.Ob("R-C17-1", s.cmp.Pos(), ErrOK(s.cmp.Block(), c), "quota "+s.limit+" is decided only where the count ("+cal.Name+") was obtained without error (a failed count refuses the request instead of deciding on zero)", fn, "count-failure-refuses:"+s.limit)
			}
			// (c) storage count
			if strings.HasPrefix(cal.Name, "Count") || strings.HasPrefix(cal.Name, "count") {
				r.Fail("R-C17-1", s.cmp.Pos(), "quota "+s.limit+" is decided on a count read from storage ("+cal.Name+") and the create happens later with nothing serialising the two: concurrent requests at limit-1 all pass", key...)
				continue
			}
		}
		// parameter: all callers must pass the result of an atomic add
		if p, ok := counted.(*ssa.Parameter); ok || isConvOfParam(counted) {
			if !ok {
				p = paramOf(counted)
			}
			okAll, n := true, 0
			for _, g := range r.P.Funcs {
				Instrs(g, func(in ssa.Instruction) {
					ci, isC := in.(ssa.CallInstruction)
					if !isC || CalleeOf(ci).Fn != s.fn {
						return
					}
					n++
					idx := -1
					for i, q := range s.fn.Params {
						if q == p {
							idx = i
						}
					}
					if idx < 0 || idx >= len(ci.Common().Args) {
						okAll = false
						return
					}
					c, _ := CallOfValue(ci.Common().Args[idx])
					if c == nil || !CalleeOf(c).Is("atomic:Int32.Add", "atomic:Int64.Add") {
						okAll = false
						return
					}
					if k, isK := ConstInt(Arg(c, 0)); !isK || k != 1 {
						okAll = false
					}
				})
			}
			r.Ob("R-C17-1", s.cmp.Pos(), okAll && n > 0, fmt.Sprintf("limit %s is compared with a count that every caller (%d) obtains from the atomic Add(1) reserving the slot", s.limit, n), key...)
			continue
		}
		// counting loop over a storage listing (phi accumulator)
		if _, isPhi := counted.(*ssa.Phi); isPhi {
			r.Fail("R-C17-1", s.cmp.Pos(), "quota "+s.limit+" is decided on a count computed from a storage listing and the create happens later with nothing serialising the two: concurrent requests at limit-1 all pass", key...)
			continue
		}
		r.Fail("R-C17-1", s.cmp.Pos(), "undecided: cannot classify the quantity compared with limit "+s.limit+" ("+originSummary(s.other)+")", key...)
	}

	// ---- R-C17-2 refusal is inert ------------------------------------------------------------
	// quota refusals of the connection-code service: the refusing return (under limit exceeded) is
	// not preceded by a recording action (claim, create, save, update ...) that is not undone
	for _, s := range sites {
		pk := ""
		if s.fn.Pkg != nil {
			pk = rel(s.fn.Pkg.Pkg.Path())
		}
		if !strings.HasPrefix(pk, "internal/cloud/services/conncode") {
			continue
		}
		recording := func(in ssa.Instruction) bool {
			ci, ok := in.(ssa.CallInstruction)
			if !ok || !ci.Common().IsInvoke() && CalleeOf(ci).Fn == nil {
				return false
			}
			n := CalleeOf(ci).Name
			for _, p := range []string{"ClaimForUse", "Create", "Save", "Update", "Activate", "Revoke", "Add", "Append", "Incr", "Mark"} {
				if strings.HasPrefix(n, p) {
					return true
				}
			}
			return false
		}
		undo := func(in ssa.Instruction) bool {
			ci, ok := in.(ssa.CallInstruction)
			if !ok {
				return false
			}
			n := CalleeOf(ci).Name
			return strings.HasPrefix(n, "Release") || strings.HasPrefix(n, "Delete") || strings.HasPrefix(n, "Remove") || strings.HasPrefix(n, "Rollback") || strings.HasPrefix(n, "rollback")
		}
		for _, ret := range Returns(s.fn) {
			if RetErrKind(ret) == "nil" {
				continue
			}
			exceeded := false
			for _, ft := range Facts(ret.Block()) {
				if ft.Cond == ssa.Value(s.cmp) && ft.Pol == (s.cmp.Op == token.GEQ || s.cmp.Op == token.GTR) {
					exceeded = true
				}
			}
			if !exceeded {
				continue
			}
			bad := token.NoPos
			Instrs(s.fn, func(in ssa.Instruction) {
				if !recording(in) || !CanReachBlock(in.Block(), ret.Block()) {
					return
				}
				if reachesFromWithout(in, ret, undo) {
					bad = in.Pos()
				}
			})
			pos := ret.Pos()
			if bad != token.NoPos {
				pos = bad
			}
			r.Ob("R-C17-2", pos, bad == token.NoPos, "a quota refusal ("+s.limit+") is not preceded by a recording action that is left in place (a refused request changes no state)", r.P.FuncName(s.fn), "quota-refusal-inert:"+s.limit)
		}
	}
	if cc := r.need("R-C17-2", sessPkg, "SessionManager.CreateConnection"); cc != nil {
		creates := Calls(cc, false, "CreateStream")
		for _, ret := range Returns(cc) {
			if RetErrKind(ret) == "nil" {
				continue
			}
			// refusal returns: dominated by a limit-exceeded fact
			lim := false
			for _, ft := range Facts(ret.Block()) {
				if bo, ok := ft.Cond.(*ssa.BinOp); ok && ft.Pol && (bo.Op == token.GEQ || bo.Op == token.GTR) && limitOf(bo.Y) != "" {
					lim = true
				}
			}
			if !lim {
				continue
			}
			for _, cr := range creates {
				if !ErrOK(ret.Block(), cr) {
					continue // stream not created on this path
				}
				released := !reachesFromWithout(cr.(ssa.Instruction), ret, func(in ssa.Instruction) bool {
					ci, ok := in.(ssa.CallInstruction)
					return ok && CalleeOf(ci).Is("RemoveStream")
				})
				r.Ob("R-C17-2", ret.Pos(), released, "a connection refused at the cap releases the stream created for it (a refused request changes no state)", "CreateConnection", "refusal-releases-stream")
			}
			// no insertion before the refusal
			inserted := false
			Instrs(cc, func(in ssa.Instruction) {
				if mu, ok := in.(*ssa.MapUpdate); ok {
					if _, f, _, ok := FieldOf(mu.Map); ok && f == "connMap" && CanReachBlock(in.Block(), ret.Block()) && in.Block() != ret.Block() {
						inserted = true
					}
				}
			})
			r.Ob("R-C17-2", ret.Pos(), !inserted, "a refusal is not preceded by the insertion it refuses", "CreateConnection", "refusal-no-insert")
		}
	}
	for _, name := range []string{"TunnelRegistry.Register", "ClientRegistry.Register"} {
		f := r.need("R-C17-2", sessPkg, name)
		if f == nil {
			continue
		}
		for _, ret := range Returns(f) {
			if RetErrKind(ret) == "nil" {
				continue
			}
			bad := false
			Instrs(f, func(in ssa.Instruction) {
				if _, ok := in.(*ssa.MapUpdate); ok && in.Block() != ret.Block() && CanReachBlock(in.Block(), ret.Block()) {
					bad = true
				}
			})
			r.Ob("R-C17-2", ret.Pos(), !bad, "a refusing return of "+name+" is not preceded by an insertion", name, "refusal-no-insert")
		}
	}
	if hc := r.need("R-C17-2", "internal/client/mapping", "BaseMappingHandler.handleConnection"); hc != nil {
		// the reserved slot is released on every exit (deferred Add(-1) registered right after Add(1))
		adds := Calls(hc, false, "atomic:Int32.Add")
		var inc, dec ssa.CallInstruction
		for _, a := range adds {
			if k, ok := ConstInt(Arg(a, 0)); ok {
				if k == 1 {
					inc = a
				}
				if _, isDefer := a.(*ssa.Defer); isDefer && k == -1 {
					dec = a
				}
			}
		}
		// the reservation and the release may be helpers of the handler: an acquire helper returns
		// nil with the counter one higher and an error with the counter unchanged; a release helper
		// lowers it by one on every path
		incIsHelper := false
		if inc == nil || dec == nil {
			Instrs(hc, func(in ssa.Instruction) {
				ci, ok := in.(ssa.CallInstruction)
				if !ok {
					return
				}
				h := ci.Common().StaticCallee()
				if h == nil || h.Pkg != hc.Pkg || len(h.Blocks) == 0 {
					return
				}
				okd, errd, any := counterDeltas(h, "activeConnCount")
				if !any {
					return
				}
				if _, isDefer := in.(*ssa.Defer); isDefer && dec == nil && len(okd) == 1 && okd[0] == -1 && len(errd) == 0 {
					dec = ci
				}
				if _, isCall := in.(*ssa.Call); isCall && inc == nil && len(okd) == 1 && okd[0] == 1 && (len(errd) == 0 || (len(errd) == 1 && errd[0] == 0)) {
					inc = ci
					incIsHelper = true
				}
			})
		}
		ok := inc != nil && dec != nil && Before(inc.(ssa.Instruction), dec.(ssa.Instruction))
		if ok {
			// no return between the reservation and the registration of its release (the failure edge
			// of an acquire helper holds nothing and may return)
			hits := WalkFrom(nil, inc.(ssa.Instruction), func(in ssa.Instruction) int {
				if in == dec.(ssa.Instruction) {
					return Stop
				}
				if ret, isRet := in.(*ssa.Return); isRet {
					if incIsHelper && ErrFailed(ret.Block(), inc) {
						return Stop
					}
					return Hit
				}
				return Cont
			}, nil)
			ok = len(hits) == 0
			// ... and the release is registered only once the reservation succeeded
			if ok && incIsHelper && !ErrOK(dec.Block(), inc) {
				ok = false
			}
		}
		r.Ob("R-C17-2", hc.Pos(), ok, "the slot reserved by Add(1) is released by a deferred Add(-1) registered before any return (a refused or finished connection gives its slot back)", "handleConnection", "slot-released")
		// exactly once: with the deferred release registered no other decrement of the counter exists
		// (neither here nor in the deferred closures / helpers called with the handler as receiver)
		extra := 0
		var extraPos token.Pos
		scan := []*ssa.Function{hc}
		scan = append(scan, hc.AnonFuncs...)
		for _, g := range scan {
			for _, a := range Calls(g, false, "atomic:Int32.Add", "atomic:Int64.Add") {
				if a == dec {
					continue
				}
				if _, fld, _, isF := FieldOf(Recv(a)); !isF || fld != "activeConnCount" {
					continue
				}
				if k, isK := ConstInt(Arg(a, 0)); !isK || k < 0 {
					extra++
					extraPos = CallPos(a)
				}
			}
		}
		if extraPos == token.NoPos {
			extraPos = hc.Pos()
		}
		r.Ob("R-C17-2", extraPos, extra == 0, "the reserved slot is given back exactly once: no decrement of the active-connection counter besides the deferred release (a refusal that also decrements makes the counter drift below the number of live connections and admits beyond the limit)", "handleConnection", "slot-released-once")
		// the quota decision follows the reservation
		for _, q := range Calls(hc, false, "BaseMappingHandler.checkConnectionQuota") {
			r.Ob("R-C17-2", CallPos(q), inc != nil && Before(inc.(ssa.Instruction), q.(ssa.Instruction)), "the quota decision is taken after the slot was reserved", "handleConnection", "reserve-then-decide")
		}
	}

	// a mapping's own positive limit is always applied: in the quota decision, once the mapping's
	// MaxConnections is known positive, no "allow" (nil) return is reached without comparing the count
	// with a limit - whatever else the function consults on the way (a failed user-quota lookup may
	// waive the user quota, never the mapping's own limit)
	for _, f := range r.P.FuncsIn("internal/client/mapping") {
		if f.Parent() != nil || len(f.Blocks) == 0 || f.Signature.Results().Len() != 1 || f.Signature.Results().At(0).Type().String() != "error" {
			continue
		}
		var own ssa.Value // the load of MappingConfig.MaxConnections
		Instrs(f, func(in ssa.Instruction) {
			if u, ok := in.(*ssa.UnOp); ok && u.Op == token.MUL && own == nil {
				if t, fld, _, ok := FieldOf(u); ok && t == "MappingConfig" && fld == "MaxConnections" {
					own = u
				}
			}
		})
		if own == nil {
			continue
		}
		var count *ssa.Parameter
		for _, p := range f.Params {
			if b, ok := p.Type().Underlying().(*types.Basic); ok && b.Info()&types.IsInteger != 0 {
				count = p
			}
		}
		if count == nil {
			continue
		}
		isOwn := func(v ssa.Value, env map[*ssa.Phi]ssa.Value) bool {
			v = stripValue(v)
			if v == own || sameExpr(v, own) {
				return true
			}
			if ph, ok := v.(*ssa.Phi); ok {
				if in, ok := env[ph]; ok {
					in = stripValue(in)
					return in == own || sameExpr(in, own)
				}
			}
			return false
		}
		type start struct{ b, pred *ssa.BasicBlock }
		compares := func(in ssa.Instruction) bool {
			bo, ok := in.(*ssa.BinOp)
			if !ok {
				return false
			}
			switch bo.Op {
			case token.GTR, token.GEQ, token.LSS, token.LEQ:
			default:
				return false
			}
			for _, side := range []ssa.Value{bo.X, bo.Y} {
				for _, rt := range Origins(side) {
					if rt.V == ssa.Value(count) {
						return true
					}
				}
			}
			return false
		}
		var bad ssa.Instruction
		seen := map[start]bool{}
		type pfact struct {
			bo  *ssa.BinOp
			pol bool
		}
		// status of the mapping's own limit on the current path: 0 unknown, 1 positive, -1 not positive
		var walk func(b, pred *ssa.BasicBlock, env map[*ssa.Phi]ssa.Value, path []pfact, status int)
		walk = func(b, pred *ssa.BasicBlock, env map[*ssa.Phi]ssa.Value, path []pfact, status int) {
			if bad != nil {
				return
			}
			if len(path) > 24 || (seen[start{b, pred}] && len(path) > 12) {
				return
			}
			seen[start{b, pred}] = true
			env2 := map[*ssa.Phi]ssa.Value{}
			for k, v := range env {
				env2[k] = v
			}
			for _, in := range b.Instrs {
				if ph, ok := in.(*ssa.Phi); ok {
					for i, p := range b.Preds {
						if p == pred && i < len(ph.Edges) {
							env2[ph] = ph.Edges[i]
						}
					}
					continue
				}
				if compares(in) {
					return // the count is compared with a limit on this path
				}
				if ret, ok := in.(*ssa.Return); ok {
					if RetErrKind(ret) == "nil" && status >= 0 {
						bad = ret // allowed without a comparison although the mapping may have its own limit
					}
					return
				}
			}
			iff, isIf := b.Instrs[len(b.Instrs)-1].(*ssa.If)
			for si, sb := range b.Succs {
				np := path
				status2 := status
				if isIf {
					c, pol := normCond(iff.Cond, si == 0)
					if bo, ok := c.(*ssa.BinOp); ok {
						ns := status
						if k, isK := ConstInt(bo.Y); isK && k == 0 && isOwn(bo.X, env2) && (bo.Op == token.GTR || bo.Op == token.LEQ) {
							positive := (bo.Op == token.GTR && pol) || (bo.Op == token.LEQ && !pol)
							if (positive && status < 0) || (!positive && status > 0) {
								continue // contradicts what this path knows about the mapping's own limit
							}
							if positive {
								ns = 1
							} else {
								ns = -1
							}
						}
						status2 = ns
						// the same test on a value this path has already decided (a phi that received a value
						// tested earlier: `if q > 0 && q < m { m = q }; if m > 0`)
						x := stripValue(bo.X)
						if ph, isPhi := x.(*ssa.Phi); isPhi {
							if in, ok := env2[ph]; ok {
								x = stripValue(in)
							}
						}
						contradicted := false
						for _, pf := range path {
							if pf.bo.Op == bo.Op && (stripValue(pf.bo.X) == x || sameExpr(stripValue(pf.bo.X), x)) && (pf.bo.Y == bo.Y || sameExpr(pf.bo.Y, bo.Y)) && pf.pol != pol {
								contradicted = true
							}
						}
						if contradicted {
							continue
						}
						np = append(append([]pfact{}, path...), pfact{bo, pol})
					}
				}
				walk(sb, b, env2, np, status2)
			}
		}
		walk(f.Blocks[0], nil, nil, nil, 0)
		pos := f.Pos()
		if bad != nil {
			pos = bad.Pos()
		}
		r.Ob("R-C17-1", pos, bad == nil, "an allowing (nil) return that has not compared the connection count with a limit lies only where the mapping is known to have no positive limit of its own", r.P.FuncName(f), "own-limit-always-applied")
	}

	// ---- R-C17-3 eviction at the control cap -----------------------------------------------------
	if rg := r.need("R-C17-3", sessPkg, "ClientRegistry.Register"); rg != nil {
		ls := ComputeLockSets(rg, nil)
		find := Calls(rg, false, "ClientRegistry.findOldestConnectionLocked")
		rem := Calls(rg, false, "ClientRegistry.removeConnectionLocked")
		var evict ssa.CallInstruction
		for _, c := range rem {
			if cc, _ := CallOfValue(Arg(c, 0)); cc != nil && len(find) == 1 && ssa.CallInstruction(cc) == find[0] {
				evict = c
			}
		}
		ok := evict != nil
		why := "the oldest connection found is not the one removed"
		if ok {
			atCap := false
			for _, ft := range Facts(evict.Block()) {
				if bo, isB := ft.Cond.(*ssa.BinOp); isB && ft.Pol && bo.Op == token.GEQ && limitOf(bo.Y) == "ClientRegistry.maxConnections" {
					atCap = true
				}
			}
			locked := r.held(ls, evict.(ssa.Instruction), sessPkg, "ClientRegistry", "mu") == "W"
			var ins ssa.Instruction
			Instrs(rg, func(in ssa.Instruction) {
				if mu, isM := in.(*ssa.MapUpdate); isM {
					if _, f, _, isF := FieldOf(mu.Map); isF && f == "connMap" {
						ins = in
					}
				}
			})
			before := ins != nil && CanReachBlock(evict.Block(), ins.Block()) && !CanReach(ins.Block(), evict.Block())
			ok = atCap && locked && before
			why = fmt.Sprintf("at-cap=%v locked=%v before-insert=%v", atCap, locked, before)
		}
		r.Ob("R-C17-3", rg.Pos(), ok, "at the control-connection cap the oldest connection is evicted under the registry lock before the new one is inserted ("+why+")", "ClientRegistry.Register", "evict-oldest")
	}
}

func isConvOfParam(v ssa.Value) bool { return paramOf(v) != nil }

func paramOf(v ssa.Value) *ssa.Parameter {
	v = stripValue(v)
	p, _ := v.(*ssa.Parameter)
	return p
}

// reachesFromWithout: is target reachable from `from` without passing via?
func reachesFromWithout(from ssa.Instruction, target ssa.Instruction, via func(ssa.Instruction) bool) bool {
	hits := WalkFrom(nil, from, func(in ssa.Instruction) int {
		if in == target {
			return Hit
		}
		if OrDeferred(via)(in) {
			return Stop
		}
		return Cont
	}, nil)
	return len(hits) > 0
}

// checkLenLimit: limit compared with len(x.mapField). The insertion into that
// map must be in the same write-locked section as a deciding comparison.
func checkLenLimit(r *Report, f *ssa.Function, cmp *ssa.BinOp, mapField, limit string, key []string) {
	ls := ComputeLockSets(f, nil)
	// insertions into the map in this function
	var ins []ssa.Instruction
	Instrs(f, func(in ssa.Instruction) {
		if mu, ok := in.(*ssa.MapUpdate); ok {
			if _, fld, _, ok := FieldOf(mu.Map); ok && fld == mapField {
				ins = append(ins, in)
			}
		}
	})
	if len(ins) == 0 {
		r.Pass("R-C17-1", cmp.Pos(), "limit "+limit+" compared with len("+mapField+") in a function that does not insert (informational comparison)", key...)
		return
	}
	// nearest write-lock acquisition dominating a given instruction
	nearestLock := func(in ssa.Instruction) ssa.Instruction {
		var k ssa.Instruction
		Instrs(f, func(l ssa.Instruction) {
			if lc, ok := l.(*ssa.Call); ok {
				if _, op, ok := lockOp(lc); ok && op == "Lock" && Before(l, in) && (k == nil || Before(k, l)) {
					k = l
				}
			}
		})
		return k
	}
	held := func(in ssa.Instruction) bool {
		for _, m := range ls.HeldAll(in) {
			if m == "W" {
				return true
			}
		}
		return false
	}
	for _, i := range ins {
		ki := nearestLock(i)
		kc := nearestLock(cmp)
		same := ki != nil && kc == ki && held(i) && held(cmp)
		if same {
			// the count compared is the population BEFORE this insertion: the request at count == limit
			// must be refused (`len >= limit`); `len > limit` admits one too many
			lenOnX := false
			if c, _ := CallOfValue(cmp.X); c != nil {
				if b, ok := c.Call.Value.(*ssa.Builtin); ok && b.Name() == "len" {
					lenOnX = true
				}
			}
			refusesAtLimit := (lenOnX && cmp.Op == token.GEQ) || (!lenOnX && cmp.Op == token.LEQ)
			if !refusesAtLimit {
				r.Fail("R-C17-1", cmp.Pos(), "limit "+limit+": the deciding comparison is `"+cmp.Op.String()+"`: a request arriving when len("+mapField+") equals the limit is admitted (limit+1 members)", key...)
				continue
			}
			// every admitted member is counted: the insertion into the counted map is on every success path
			counted := true
			for _, ret := range Returns(f) {
				if RetErrKind(ret) != "nil" {
					continue
				}
				// a success that found the member already in the table admits nobody
				present := false
				for _, ft := range Facts(ret.Block()) {
					if ex, isE := ft.Cond.(*ssa.Extract); isE && ft.Pol && ex.Index == 1 {
						if lk, isL := ex.Tuple.(*ssa.Lookup); isL {
							if _, fld, _, ok := FieldOf(lk.X); ok && fld == mapField {
								present = true
							}
						}
					}
				}
				if present {
					continue
				}
				// path search from the entry: stop at an insertion; do not follow the edge on which a lookup
				// found the member already present (nobody is admitted on it)
				hits := WalkFrom(f.Blocks[0], nil, func(x ssa.Instruction) int {
					if x == ssa.Instruction(ret) {
						return Hit
					}
					if mu, ok := x.(*ssa.MapUpdate); ok {
						if _, fld, _, ok := FieldOf(mu.Map); ok && fld == mapField {
							return Stop
						}
					}
					return Cont
				}, func(b *ssa.BasicBlock, succ int) bool {
					iff, ok := b.Instrs[len(b.Instrs)-1].(*ssa.If)
					if !ok {
						return true
					}
					c, pol := normCond(iff.Cond, succ == 0)
					if ex, isE := c.(*ssa.Extract); isE && ex.Index == 1 && pol {
						if lk, isL := ex.Tuple.(*ssa.Lookup); isL {
							if _, fld, _, ok := FieldOf(lk.X); ok && fld == mapField {
								return false
							}
						}
					}
					return true
				})
				if len(hits) > 0 {
					counted = false
				}
			}
			if !counted {
				r.Fail("R-C17-1", cmp.Pos(), "limit "+limit+" is compared with len("+mapField+"), but a success return is reachable without inserting into "+mapField+": members admitted on that path are never counted", key...)
				continue
			}
			if u := unlockBetween(cmp, i); u != nil {
				r.Fail("R-C17-1", u.Pos(), "limit "+limit+": the registry lock is released between the comparison with len("+mapField+") and the insertion (the cap must be re-decided after re-acquiring: concurrent admissions both pass the stale comparison)", key...)
				continue
			}
			r.Pass("R-C17-1", cmp.Pos(), "limit "+limit+": comparison with len("+mapField+") and the insertion lie in one write-locked section", key...)
			continue
		}
		// this comparison is not in the insert's section: accepted only as a fast path if another
		// comparison of the same limit is
		decided := false
		Instrs(f, func(in ssa.Instruction) {
			bo, ok := in.(*ssa.BinOp)
			if !ok || bo == cmp {
				return
			}
			if limitOf(bo.Y) == limit || limitOf(bo.X) == limit {
				if _, isC := ConstInt(bo.Y); isC {
					return
				}
				if nearestLock(in) == ki && ki != nil && held(in) && CanReachBlock(in.Block(), i.Block()) {
					// the exceeded edge of this comparison must not reach the insertion
					exceededReaches := false
					if bo.Referrers() != nil {
						for _, u := range *bo.Referrers() {
							if iff, ok := u.(*ssa.If); ok && (bo.Op == token.GEQ || bo.Op == token.GTR) {
								if CanReachBlock(iff.Block().Succs[0], i.Block()) {
									exceededReaches = true
								}
							}
						}
					}
					if !exceededReaches {
						decided = true
					}
				}
			}
		})
		r.Ob("R-C17-1", cmp.Pos(), decided, "limit "+limit+": this comparison with len("+mapField+") is made outside the critical section that inserts; without a deciding comparison inside that section concurrent admissions at limit-1 all pass", key...)
	}
}

// counterDeltas summarises what h does to the atomic counter field: the net constant added on
// paths to returns whose error is nil (or that have no error result) and on paths to returns with a
// non-nil error. any is false when h does not touch the counter. Loops are not followed.
func counterDeltas(h *ssa.Function, field string) (okDeltas, errDeltas []int64, any bool) {
	if len(h.Blocks) == 0 {
		return
	}
	okSet, errSet := map[int64]bool{}, map[int64]bool{}
	type st struct {
		b *ssa.BasicBlock
		d int64
	}
	seen := map[st]bool{}
	var walk func(b *ssa.BasicBlock, d int64, path map[*ssa.BasicBlock]bool)
	walk = func(b *ssa.BasicBlock, d int64, path map[*ssa.BasicBlock]bool) {
		if path[b] || seen[st{b, d}] {
			return
		}
		seen[st{b, d}] = true
		path[b] = true
		defer delete(path, b)
		for _, in := range b.Instrs {
			if c, ok := in.(*ssa.Call); ok && CalleeOf(c).Is("atomic:Int32.Add", "atomic:Int64.Add") {
				if _, f, _, isF := FieldOf(Recv(c)); isF && f == field {
					if k, isK := ConstInt(Arg(c, 0)); isK {
						d += k
						any = true
					}
				}
			}
			if ret, ok := in.(*ssa.Return); ok {
				if len(ret.Results) > 0 && ret.Results[len(ret.Results)-1].Type().String() == "error" && RetErrKind(ret) != "nil" {
					errSet[d] = true
				} else {
					okSet[d] = true
				}
			}
		}
		for _, s := range b.Succs {
			walk(s, d, path)
		}
	}
	walk(h.Blocks[0], 0, map[*ssa.BasicBlock]bool{})
	for k := range okSet {
		okDeltas = append(okDeltas, k)
	}
	for k := range errSet {
		errDeltas = append(errDeltas, k)
	}
	return
}

// fieldOwnerPath: package path + type name of the struct whose field the value is loaded from.
func fieldOwnerPath(v ssa.Value) string {
	v = stripValue(v)
	if u, ok := v.(*ssa.UnOp); ok {
		v = u.X
	}
	fa, ok := v.(*ssa.FieldAddr)
	if !ok {
		return ""
	}
	return structKey(fa.X.Type())
}
