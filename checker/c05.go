package main

import (
	"fmt"
	"go/token"
	"go/types"
	"strings"

	"golang.org/x/tools/go/ssa"
)

func init() {
	register(&PropCheck{
		ID: "C05",
		Explanation: "Static rules on the pre-authentication decode and dispatch path. " +
			"R-C05-1: every allocation reachable from ReadPacket whose size derives from a wire-decoded parameter is dominated by an upper-bound comparison of that value against a constant. " +
			"R-C05-2: every unbounded sink (io.Copy / io.ReadAll / ReadFrom) fed by a gzip reader on that path reads through io.LimitReader with a constant limit and the copied size is compared against the limit before success. " +
			"R-C05-6: a json.Unmarshal whose destination is the address of a pointer variable (JSON null stores nil) is followed only by nil-tested dereferences (program-wide). " +
			"R-C05-3: the server's packet read loops end on any ReadPacket error that is not a timeout-and-temporary one (retry classifiers answer true only under Timeout()); every loop that reads the peer's reader leaves the loop when the read reports an error (a finite stream ends in EOF, so the loop terminates). " +
			"R-C05-4: the dispatcher refuses nil packets before any field access, its fall-through returns an error, special-case command handlers run only under CommandPacket != nil, and optional SessionManager components (fields that are nil-tested somewhere in the package) are nil-tested before use in every function reachable from the dispatcher. " +
			"R-C05-5: no single-value type assertion is applied to JSON-decoded data in those functions. " +
			"Decides these necessary conditions; does not decide absence of all panics or CPU time.",
		Run: runC05,
		Mutants: []Mutant{
			{Name: "inflater-not-closed", File: "internal/stream/stream_processor_read.go", Rule: "R-C05-2",
				Old: "\tdefer gzipReader.Close()\n", New: ""},
			{Name: "body-cap-removed", File: "internal/stream/stream_processor_read.go", Rule: "R-C05-1",
				Old: "if bodySize > constants.MaxPacketBodySize {", New: "if bodySize > constants.MaxPacketBodySize && false {"},
			{Name: "inflate-unlimited", File: "internal/stream/stream_processor_read.go", Rule: "R-C05-2",
				Old: "limited := io.LimitReader(gzipReader, int64(constants.MaxPacketBodySize)+1)", New: "limited := io.Reader(gzipReader)"},
			{Name: "inflate-limit-not-checked", File: "internal/stream/stream_processor_read.go", Rule: "R-C05-2",
				Old: "if n > int64(constants.MaxPacketBodySize) {", New: "if n < 0 {"},
			{Name: "body-loop-ignores-error", File: "internal/stream/stream_processor_read.go", Rule: "R-C05-3",
				Old: "\t\tn, err := ps.reader.Read(buffer[totalRead:])\n\t\tif err != nil {\n\t\t\tps.bufferMgr.Release(buffer)\n\t\t\treturn nil, errors.NewStreamError(\"read_packet_body\", \"failed to read packet body\", err)\n\t\t}\n",
				New: "\t\tn, err := ps.reader.Read(buffer[totalRead:])\n\t\tif err != nil && n == 0 && totalRead == 0 {\n\t\t\tps.bufferMgr.Release(buffer)\n\t\t\treturn nil, errors.NewStreamError(\"read_packet_body\", \"failed to read packet body\", err)\n\t\t}\n"},
			{Name: "dispatcher-default-returns-nil", File: "internal/protocol/session/packet_handler.go", Rule: "R-C05-4",
				Old: "return coreerrors.Newf(coreerrors.CodeInvalidPacket, \"unhandled packet type: %v\", packetType)", New: "return nil"},
			{Name: "dispatcher-nil-check-dropped", File: "internal/protocol/session/packet_handler.go", Rule: "R-C05-4",
				Old: "if connPacket == nil || connPacket.Packet == nil {", New: "if connPacket == nil {"},
		},
	})
}

const sessPkg = "internal/protocol/session"

func runC05(r *Report) {
	readPacket := r.need("R-C05-1", "internal/stream", "StreamProcessor.ReadPacket")
	if readPacket == nil {
		return
	}
	reach := samePkgReach(readPacket, 3)

	// ---- R-C05-1 capped allocations ----------------------------------------
	for _, g := range reach {
		Instrs(g, func(in ssa.Instruction) {
			var size ssa.Value
			what := ""
			switch x := in.(type) {
			case *ssa.MakeSlice:
				size, what = x.Len, "make"
				if _, isC := ConstInt(x.Cap); !isC && (wireDerived(x.Cap) != nil || x.Cap != x.Len) {
					size = x.Cap
				}
			case *ssa.Call:
				if CalleeOf(x).Is("BufferManager.Allocate") {
					size, what = Arg(x, 0), "BufferManager.Allocate"
				}
			}
			if size == nil {
				return
			}
			if _, isC := ConstInt(size); isC {
				return
			}
			p := wireDerived(size)
			if p == nil {
				// a size computed in place (an estimate, a helper's result, a decoded field): it must be
				// bounded by a constant or by the data already held, and cannot be negative
				okb := allocBounded(r.P, in.Block(), size, 2, map[ssa.Value]bool{})
				r.Ob("R-C05-1", in.Pos(), okb, what+" sized by a computed value ("+originSummary(size)+") is bounded by a constant or by the amount of data already received", r.P.FuncName(g), "alloc-computed-bounded:"+what)
				return
			}
			ok := sizeBounded(r.P, in.Block(), size, 2)
			r.Ob("R-C05-1", in.Pos(), ok, fmt.Sprintf("%s sized by wire-derived parameter %q must be dominated by an upper-bound comparison against a constant", what, p.Name()),
				r.P.FuncName(g), "alloc-by:"+p.Name())
			if ok {
				r.Ob("R-C05-1", in.Pos(), nonNegative(r.P, in.Block(), size, 2, map[ssa.Value]bool{}), fmt.Sprintf("%s size %q cannot be negative (unsigned, a length, or compared with zero): an upper bound alone admits a decoded length with the top bit set", what, p.Name()),
					r.P.FuncName(g), "alloc-nonneg:"+p.Name())
			}
		})
	}
	r.Floor("R-C05-1", 1, "wire-sized allocation in the packet reader")

	// ---- R-C05-2 bounded inflate --------------------------------------------
	for _, g := range reach {
		Instrs(g, func(in ssa.Instruction) {
			ci, ok := in.(*ssa.Call)
			if !ok {
				return
			}
			c := CalleeOf(ci)
			var src ssa.Value
			switch {
			case c.Is("io:Copy", "io:CopyBuffer"):
				src = Arg(ci, 1)
			case c.Is("io:ReadAll", "ioutil:ReadAll"):
				src = Arg(ci, 0)
			case c.Is("bytes:Buffer.ReadFrom"):
				src = Arg(ci, 0)
			default:
				return
			}
			gz, lim := gzipSource(src, 0)
			if !gz {
				return
			}
			key := []string{r.P.FuncName(g), "inflate-sink:" + c.Name}
			if lim == nil {
				r.Fail("R-C05-2", ci.Pos(), "gzip stream copied without a size limit: a small body can inflate to gigabytes", key...)
				return
			}
			limN, isC := ConstInt(lim)
			if !isC || limN > 16*1024*1024+1 || limN <= 0 {
				r.Fail("R-C05-2", ci.Pos(), fmt.Sprintf("inflate limit is not a constant within the maximum body size (+1): %v", lim), key...)
				return
			}
			// the amount copied is compared with the cap and the over-limit edge returns an error
			checked := false
			n := ssa.Value(nil)
			if c.Is("io:Copy", "io:CopyBuffer", "bytes:Buffer.ReadFrom") {
				n = extractOf(ci, 0)
			}
			if n != nil && n.Referrers() != nil {
				for _, ref := range *n.Referrers() {
					bo, ok := ref.(*ssa.BinOp)
					if !ok || (bo.Op != token.GTR && bo.Op != token.GEQ) || bo.X != n {
						continue
					}
					// the smallest size the comparison refuses must be reachable through the limiter
					// (n never exceeds limN): `n > limN` can never fire and truncates silently
					k, ok := ConstInt(bo.Y)
					if !ok {
						continue
					}
					smallest := k
					if bo.Op == token.GTR {
						smallest = k + 1
					}
					if smallest > limN {
						continue
					}
					// true edge must lead to an error return only
					for _, u := range *bo.Referrers() {
						iff, ok := u.(*ssa.If)
						if !ok {
							continue
						}
						bad := WalkFrom(iff.Block().Succs[0], nil, func(in ssa.Instruction) int {
							if ret, ok := in.(*ssa.Return); ok {
								if RetErrKind(ret) == "nil" {
									return Hit
								}
								return Stop
							}
							return Cont
						}, nil)
						if len(bad) == 0 {
							checked = true
						}
					}
				}
			}
			r.Ob("R-C05-2", ci.Pos(), checked, "inflate goes through io.LimitReader; the copied size must be compared with the limit and the over-limit edge must return an error (otherwise the body is silently truncated or unbounded)", key...)
		})
	}
	r.Floor("R-C05-2", 1, "gzip inflate sink in the packet reader")
	// the inflater is closed on every path: each reader registers with the connection's context, so a
	// reader that is not closed stays referenced for the life of the connection - memory that grows
	// with the number of (small, valid) compressed packets a peer sends
	for _, g := range reach {
		for _, nc := range Calls(g, false, "compression:NewGzipReader", "gzip:NewReader") {
			cv, ok := nc.(*ssa.Call)
			if !ok {
				continue
			}
			var rd ssa.Value = cv
			if cv.Common().Signature().Results().Len() > 1 {
				rd = extractOf(cv, 0)
			}
			isClose := func(in ssa.Instruction) bool {
				ci, ok := in.(ssa.CallInstruction)
				if !ok || CalleeOf(ci).Name != "Close" {
					return false
				}
				rv := Recv(ci)
				if ci.Common().IsInvoke() {
					rv = ci.Common().Value
				}
				return rv != nil && rd != nil && (stripValue(rv) == stripValue(rd) || valueFromCall(rv, cv))
			}
			leaks := false
			for _, ret := range Returns(g) {
				hits := WalkFrom(nil, cv, func(in ssa.Instruction) int {
					if OrDeferred(isClose)(in) {
						return Stop
					}
					if in == ssa.Instruction(ret) {
						// the error edge of the constructor holds no reader
						if cv.Common().Signature().Results().Len() > 1 && ErrFailed(ret.Block(), cv) {
							return Stop
						}
						return Hit
					}
					return Cont
				}, nil)
				if len(hits) > 0 {
					leaks = true
				}
			}
			r.Ob("R-C05-2", CallPos(nc), !leaks, "the gzip reader created for a packet is closed (call or defer) on every path out of the function", r.P.FuncName(g), "inflater-closed")
		}
	}

	// ---- R-C05-3 read loops leave on error -----------------------------------
	for _, g := range reach {
		for _, ci := range Calls(g, false, "Read") {
			if !isReadMethod(ci) || !InLoop(ci.Block()) {
				continue
			}
			if t, f, _, ok := FieldOf(Recv(ci)); !ok || t != "StreamProcessor" || f != "reader" {
				continue
			}
			ok, why := readErrorLeavesLoop(ci)
			r.Ob("R-C05-3", CallPos(ci), ok, "a failed read must leave the read loop: "+why, r.P.FuncName(g), "read-error-exits-loop")
		}
	}
	for _, g := range reach {
		for _, ci := range Calls(g, false, "io:ReadFull", "io:ReadAtLeast") {
			if t, f, _, ok := FieldOf(Arg(ci, 0)); ok && t == "StreamProcessor" && f == "reader" {
				r.Pass("R-C05-3", CallPos(ci), "the field is read by the library's full-read loop, which returns on the first error", r.P.FuncName(g), "read-error-exits-loop:full-read")
			}
		}
	}
	r.Floor("R-C05-3", 1, "read loops on the peer's reader")
	// the server's packet loops: a ReadPacket error other than a timeout that is also temporary
	// ends the loop (directly, or through the wrapper's exit flag the loop obeys)
	nLoops := 0
	for _, pk := range []string{"internal/protocol/adapter", "internal/httpservice/modules/websocket"} {
		for _, g := range r.P.FuncsIn(pk) {
			for _, ci := range Calls(g, true, "ReadPacket") {
				if ci.Common().Signature().Results().Len() != 3 {
					continue
				}
				nLoops++
				ok, why := CheckPacketReadLoop(r.P, ci, 2)
				r.Ob("R-C05-3", CallPos(ci), ok, "a failed packet read ends the connection's read loop: "+why, r.P.FuncName(ci.Parent()), "packet-read-error-exits-loop")
			}
		}
	}
	// packets of one connection are handled in the read loop, one at a time: a `go HandlePacket(...)`
	// removes the back-pressure (a peer that never reads its replies makes packets and their payloads
	// pile up in goroutines without bound) and the order
	for _, f := range r.P.Funcs {
		Instrs(f, func(in ssa.Instruction) {
			gs, ok := in.(*ssa.Go)
			if !ok {
				return
			}
			started := CalleeOf(gs).Name == "HandlePacket"
			if fnv := resolveClosure(gs.Call.Value, f, 0); fnv != nil && fnv.Parent() != nil && len(Calls(fnv, false, "HandlePacket")) > 0 {
				started = true // go func() { ... HandlePacket(p) ... }()
			}
			if started {
				r.Ob("R-C05-3", gs.Pos(), false, "HandlePacket is started as a goroutine from the read loop: the number of packets in flight per connection is no longer bounded by the loop", r.P.FuncName(f), "dispatch-synchronous")
			}
		})
	}
	if nLoops < 1 { // alarm below 40% of the 2 sites confirmed by hand
		r.Fail("R-C05-3", 0, fmt.Sprintf("only %d server packet read loops found (2 confirmed by hand)", nLoops), "packet-loops", "floor")
	}

	// ---- R-C05-6 JSON null cannot nil a pointer that is then dereferenced ---------------
	nNull := 0
	for _, g := range r.P.Funcs {
		for _, nd := range nullDecodes(r.P, g) {
			nNull++
			pos := nd.call
			if nd.bad != token.NoPos {
				pos = nd.bad
			}
			r.Ob("R-C05-6", pos, nd.bad == token.NoPos, "json.Unmarshal into the address of a pointer variable: the body `null` leaves the pointer nil, so every dereference after it needs a nil test (decode into the pointed-to struct instead)", r.P.FuncName(g), "null-decode-deref")
		}
	}
	r.Note("R-C05-6: %d json.Unmarshal call(s) decode into the address of a pointer variable (expected 0 on the reference tree; the rule is exercised by the null-decode control)", nNull)

	// ---- R-C05-4 dispatcher totality -----------------------------------------
	hp := r.need("R-C05-4", sessPkg, "SessionManager.HandlePacket")
	if hp == nil {
		return
	}
	handlers := []string{"SessionManager.handleCommandPacket", "SessionManager.handleHandshake", "SessionManager.handleTunnelOpen", "SessionManager.handleHeartbeat"}
	param := hp.Params[1]
	for _, ci := range Calls(hp, false, handlers...) {
		okP, okPkt := false, false
		for _, ft := range Facts(ci.Block()) {
			x, isnil, ok := ft.FactNil()
			if !ok || isnil {
				continue
			}
			if x == ssa.Value(param) {
				okP = true
			}
			if t, f, b, ok := FieldOf(x); ok && t == "StreamPacket" && f == "Packet" && b == ssa.Value(param) {
				okPkt = true
			}
		}
		r.Ob("R-C05-4", CallPos(ci), okP && okPkt, "dispatch to "+CalleeOf(ci).Name+" must be dominated by connPacket != nil and connPacket.Packet != nil", "HandlePacket", "nil-packet-refused:"+CalleeOf(ci).Name)
	}
	r.Floor("R-C05-4", 4, "dispatch sites in HandlePacket")
	for _, ret := range Returns(hp) {
		v := RetVal(ret, 0)
		if c, _ := CallOfValue(v); c != nil && CalleeOf(c).Is(handlers...) {
			continue
		}
		r.Ob("R-C05-4", ret.Pos(), RetErrKind(ret) == "nonnil", "every return of the dispatcher that is not a handler's result must be an error (unknown types are refused, not ignored)", "HandlePacket", "fallthrough-is-error")
	}
	// special-case command handlers only under CommandPacket != nil
	if hc := r.need("R-C05-4", sessPkg, "SessionManager.handleCommandPacket"); hc != nil {
		special := []string{"SessionManager.handleHTTPProxyResponsePacket", "SessionManager.HandleSOCKS5TunnelRequest", "SessionManager.HandleDNSResolveResponse",
			"SessionManager.HandleDNSResolveRequest", "SessionManager.HandleDNSQueryResponse", "SessionManager.HandleDNSQueryRequest",
			"SessionManager.HandleTrafficReport", "SessionManager.handleDisconnectCommand"}
		n := 0
		isCmdPacket := func(x ssa.Value) bool {
			t, f, _, ok2 := FieldOf(x)
			return ok2 && t == "TransferPacket" && f == "CommandPacket"
		}
		nonNilAt := func(b *ssa.BasicBlock, site *ssa.Call) bool {
			for _, ft := range Facts(b) {
				x, isnil, isN := ft.FactNil()
				if !isN || isnil {
					continue
				}
				if isCmdPacket(x) {
					return true
				}
				// inside a dispatch helper: the tested value is the parameter that receives the command packet
				if p, isP := stripValue(x).(*ssa.Parameter); isP && site != nil {
					for i, q := range site.Common().StaticCallee().Params {
						if q == p && i < len(site.Call.Args) && isCmdPacket(site.Call.Args[i]) {
							return true
						}
					}
				}
			}
			return false
		}
		type spSite struct {
			ci   ssa.CallInstruction
			site *ssa.Call // call of the dispatch helper in handleCommandPacket (nil: direct)
		}
		var sps []spSite
		for _, ci := range Calls(hc, false, special...) {
			sps = append(sps, spSite{ci, nil})
		}
		Instrs(hc, func(in ssa.Instruction) {
			if c, ok := in.(*ssa.Call); ok && !CalleeOf(c).Is(special...) {
				if h := c.Common().StaticCallee(); h != nil && h.Pkg == hc.Pkg && len(h.Blocks) > 0 {
					for _, ci := range Calls(h, false, special...) {
						sps = append(sps, spSite{ci, c})
					}
				}
			}
		})
		for _, sp := range sps {
			ci := sp.ci
			ok := nonNilAt(ci.Block(), sp.site)
			if !ok && sp.site != nil {
				ok = nonNilAt(sp.site.Block(), nil)
			}
			n++
			r.Ob("R-C05-4", CallPos(ci), ok, "special-case command handler "+CalleeOf(ci).Name+" must run only under CommandPacket != nil", "handleCommandPacket", "cmdpacket-nonnil:"+CalleeOf(ci).Name)
		}
		if n < 2 { // alarm below 40% of the 6 sites confirmed by hand
			r.Fail("R-C05-4", hc.Pos(), fmt.Sprintf("only %d special-case command dispatch sites found (8 confirmed by hand)", n), "handleCommandPacket", "floor")
		}
	}
	// createCommandContext tolerates a nil CommandPacket
	if cc := r.need("R-C05-4", "internal/command", "CommandExecutor.createCommandContext"); cc != nil {
		fieldDerefGuarded(r, "R-C05-4", cc, "TransferPacket", "CommandPacket")
	}
	// optional components are nil-tested before use
	nilGuardBelief(r, "R-C05-4", sessPkg, "SessionManager", hp, 4, map[string]string{
		"forwardToSourceNode:crossNodePool": "used only in the tunnelConnMgr == nil branch; the only caller, handleCrossNodeTargetConnection, returns early when tunnelConnMgr and crossNodePool are both nil (compound guard across two functions, confirmed by reading)",
	})

	// the per-connection record: RawConn / Stream are nil for some transports and after close
	nilGuardBeliefT(r, "R-C05-4", sessPkg, "Connection", hp, 4, map[string]string{})

	// ---- R-C05-5 no unchecked assertions on JSON-decoded data -----------------
	n5 := 0
	for _, g := range samePkgReach(hp, 4) {
		for _, h := range WithAnon(g) {
			Instrs(h, func(in ssa.Instruction) {
				ta, ok := in.(*ssa.TypeAssert)
				if !ok || ta.CommaOk {
					return
				}
				// only data-shaped assertions matter: operand of interface{} type (any)
				if it, ok := ta.X.Type().Underlying().(*types.Interface); !ok || it.NumMethods() != 0 {
					return
				}
				n5++
				r.Fail("R-C05-5", ta.Pos(), "single-value type assertion on an `any` value in a function reachable from the dispatcher: a peer-controlled JSON shape would panic", r.P.FuncName(h), "assert:"+ta.AssertedType.String())
			})
		}
	}
	r.Pass("R-C05-5", hp.Pos(), fmt.Sprintf("%d unchecked assertions on `any` values in %d functions reachable from the dispatcher", n5, len(samePkgReach(hp, 4))), "HandlePacket", "reach-scan")
}

// wireDerived returns the integer parameter a size value derives from, if any.
func wireDerived(v ssa.Value) *ssa.Parameter {
	for _, rt := range Origins(v) {
		if p, ok := rt.V.(*ssa.Parameter); ok {
			if b, ok := p.Type().Underlying().(*types.Basic); ok && b.Info()&types.IsInteger != 0 {
				return p
			}
		}
	}
	return nil
}

func sameRoot(v ssa.Value, p *ssa.Parameter) bool {
	for _, rt := range Origins(v) {
		if rt.V == ssa.Value(p) {
			return true
		}
	}
	return false
}

// gzipSource: does the reader value come from a gzip reader, and through
// which io.LimitReader call (nil if none)?
func gzipSource(v ssa.Value, depth int) (isGzip bool, limit ssa.Value) {
	if depth > 6 || v == nil {
		return false, nil
	}
	v = stripValue(v)
	if isGzipType(v.Type()) {
		return true, nil
	}
	switch x := v.(type) {
	case *ssa.Call:
		c := CalleeOf(x)
		if c.Is("io:LimitReader") {
			gz, _ := gzipSource(Arg(x, 0), depth+1)
			return gz, Arg(x, 1)
		}
		if c.Is("compression:NewGzipReader", "gzip:NewReader") {
			return true, nil
		}
	case *ssa.Alloc:
		// &io.LimitedReader{R: src, N: limit}: the literal form of io.LimitReader
		if pt, ok := x.Type().Underlying().(*types.Pointer); ok {
			if nt, ok := pt.Elem().(*types.Named); ok && nt.Obj().Name() == "LimitedReader" && nt.Obj().Pkg() != nil && nt.Obj().Pkg().Path() == "io" {
				var src, lim ssa.Value
				for _, st := range fieldStores(x) {
					switch st.field {
					case "R":
						src = st.val
					case "N":
						lim = st.val
					}
				}
				if src != nil && lim != nil {
					gz, _ := gzipSource(src, depth+1)
					return gz, lim
				}
			}
		}
	case *ssa.Phi:
		for _, e := range x.Edges {
			if gz, l := gzipSource(e, depth+1); gz {
				return gz, l
			}
		}
	case *ssa.UnOp:
		if x.Op == token.MUL {
			if a, ok := x.X.(*ssa.Alloc); ok {
				for _, s := range storesTo(a) {
					if gz, l := gzipSource(s.Val, depth+1); gz {
						return gz, l
					}
				}
			}
		}
	case *ssa.Extract:
		return gzipSource(x.Tuple, depth+1)
	}
	return false, nil
}

func isGzipType(t types.Type) bool {
	pk, n := recvTypeName(t)
	return (strings.HasSuffix(pk, "compress/gzip") && n == "Reader") || (strings.HasSuffix(pk, "stream/compression") && n == "GzipReader")
}

// readErrorLeavesLoop: the error result of the read is tested and the
// error edge cannot come back to the read.
func readErrorLeavesLoop(ci ssa.CallInstruction) (bool, string) {
	errv := extractOf(ci, 1)
	if errv == nil || errv.Referrers() == nil {
		return false, "the read's error result is discarded"
	}
	tested := false
	for _, ref := range *errv.Referrers() {
		bo, ok := ref.(*ssa.BinOp)
		if !ok {
			continue
		}
		x, trueMeansNil, ok := NilTest(bo)
		if !ok {
			// comparison with a sentinel (`err == io.EOF`): the equal edge is an error edge too; a
			// stream that has ended keeps answering EOF, so re-reading from it never terminates
			if (bo.Op == token.EQL || bo.Op == token.NEQ) && (bo.X == errv || bo.Y == errv) && bo.Referrers() != nil {
				for _, u := range *bo.Referrers() {
					if iff, isIf := u.(*ssa.If); isIf {
						eqSucc := iff.Block().Succs[0]
						if bo.Op == token.NEQ {
							eqSucc = iff.Block().Succs[1]
						}
						if eqSucc == ci.Block() || CanReachBlock(eqSucc, ci.Block()) {
							return false, "the edge on which the error equals a sentinel (end of stream) can reach the same read again (spin on a dead stream)"
						}
					}
				}
			}
			continue
		}
		if x != errv || bo.Referrers() == nil {
			continue
		}
		for _, u := range *bo.Referrers() {
			iff, ok := u.(*ssa.If)
			if !ok {
				continue
			}
			tested = true
			errSucc := iff.Block().Succs[0]
			if trueMeansNil {
				errSucc = iff.Block().Succs[1]
			}
			if errSucc == ci.Block() || CanReachBlock(errSucc, ci.Block()) {
				return false, "the error edge can reach the same read again (spin on a dead stream)"
			}
		}
	}
	if !tested {
		return false, "the read's error result is never tested against nil"
	}
	return true, "error edge leaves the loop"
}

// CanReachBlock: path from the start of a to the start of b (a==b counts).
func CanReachBlock(a, b *ssa.BasicBlock) bool {
	if a == b {
		return true
	}
	return CanReach(a, b)
}

// fieldDerefGuarded: every dereference of a pointer loaded from typ.field in
// fn is dominated by a non-nil fact on (a load of) that field.
func fieldDerefGuarded(r *Report, rule string, fn *ssa.Function, typ, field string) {
	Instrs(fn, func(in ssa.Instruction) {
		var base ssa.Value
		switch x := in.(type) {
		case *ssa.FieldAddr:
			base = x.X
		default:
			return
		}
		t, f, _, ok := FieldOf(base)
		if !ok || t != typ || f != field {
			return
		}
		guarded := false
		for _, ft := range Facts(in.Block()) {
			x, isnil, isN := ft.FactNil()
			if isN && !isnil {
				if t2, f2, _, ok2 := FieldOf(x); ok2 && t2 == typ && f2 == field {
					guarded = true
				}
			}
		}
		if !guarded {
			// all callers guard?
			n, all := 0, true
			for _, f := range r.P.Funcs {
				Instrs(f, func(cin ssa.Instruction) {
					ci, ok := cin.(ssa.CallInstruction)
					if !ok || CalleeOf(ci).Fn != fn {
						return
					}
					n++
					g := false
					for _, ft := range Facts(cin.Block()) {
						x, isnil, isN := ft.FactNil()
						if isN && !isnil {
							if t2, f2, _, ok2 := FieldOf(x); ok2 && t2 == typ && f2 == field {
								g = true
							}
						}
					}
					if !g {
						all = false
					}
				})
			}
			guarded = n > 0 && all
		}
		r.Ob(rule, in.Pos(), guarded, fmt.Sprintf("dereference of %s.%s must be dominated by its non-nil test (here or at every call site)", typ, field), r.P.FuncName(fn), "deref:"+typ+"."+field)
	})
}

// nilGuardBelief (Engler-style belief contradiction): a field of struct typ
// that is nil-tested somewhere in the package is optional; every method call
// or dereference through it in a function reachable from root must be
// dominated by its non-nil test in that function, or the function must be
// called only from sites dominated by such a test.
func nilGuardBeliefT(r *Report, rule, pkg, typ string, root *ssa.Function, depth int, exceptions map[string]string) {
	nilGuardBeliefImpl(r, rule, pkg, typ, root, depth, exceptions, false)
}

func nilGuardBelief(r *Report, rule, pkg, typ string, root *ssa.Function, depth int, exceptions map[string]string) {
	nilGuardBeliefImpl(r, rule, pkg, typ, root, depth, exceptions, true)
}

func nilGuardBeliefImpl(r *Report, rule, pkg, typ string, root *ssa.Function, depth int, exceptions map[string]string, ctorExempt bool) {
	optional := map[string]bool{}
	for _, f := range r.P.FuncsIn(pkg) {
		for _, b := range f.Blocks {
			if len(b.Instrs) == 0 {
				continue
			}
			iff, ok := b.Instrs[len(b.Instrs)-1].(*ssa.If)
			if !ok {
				continue
			}
			c, _ := normCond(iff.Cond, true)
			if x, _, ok := NilTest(c); ok {
				if t, fld, _, ok := FieldOf(x); ok && t == typ {
					optional[fld] = true
				}
			}
		}
	}
	// fields initialised (non-nil) on the freshly allocated object in a constructor are not optional
	for _, f := range r.P.FuncsIn(pkg) {
		if !ctorExempt || !strings.HasPrefix(f.Name(), "New") {
			continue
		}
		Instrs(f, func(in ssa.Instruction) {
			st, ok := in.(*ssa.Store)
			if !ok || isNil(st.Val) {
				return
			}
			if t, fld, base, ok := FieldOf(st.Addr); ok && t == typ && IsFresh(base) {
				delete(optional, fld)
			}
		})
	}
	reach := samePkgReach(root, depth)
	inReach := map[*ssa.Function]bool{}
	for _, g := range reach {
		inReach[g] = true
	}
	guardedAt := func(b *ssa.BasicBlock, fld string) bool {
		for _, ft := range Facts(b) {
			x, isnil, isN := ft.FactNil()
			if isN && !isnil {
				if t, f2, _, ok := FieldOf(x); ok && t == typ && f2 == fld {
					return true
				}
			}
		}
		return false
	}
	// an early `if s.F == nil { return }` in the entry chain also guards: covered by Facts (false edge dominates the rest)
	callersGuard := func(g *ssa.Function, fld string) bool {
		n := 0
		all := true
		for _, f := range r.P.FuncsIn(pkg) {
			Instrs(f, func(in ssa.Instruction) {
				ci, ok := in.(ssa.CallInstruction)
				if !ok || CalleeOf(ci).Fn != g {
					return
				}
				n++
				if !guardedAt(in.Block(), fld) {
					all = false
				}
			})
		}
		return n > 0 && all
	}
	count := 0
	for _, g := range reach {
		for _, h := range WithAnon(g) {
			Instrs(h, func(in ssa.Instruction) {
				ci, ok := in.(ssa.CallInstruction)
				if !ok {
					return
				}
				rv := Recv(ci)
				if rv == nil {
					return
				}
				t, fld, _, ok := FieldOf(rv)
				if !ok || t != typ || !optional[fld] {
					return
				}
				// method call on a nil *pointer* receiver only panics if the method dereferences; interface nil always panics.
				count++
				ok2 := guardedAt(in.Block(), fld)
				if !ok2 && h.Parent() != nil {
					// closure: guard may dominate the closure creation site
					for _, pin := range closureSites(h) {
						if guardedAt(pin.Block(), fld) {
							ok2 = true
						}
					}
				}
				if !ok2 && callersGuard(Outermost(h), fld) {
					ok2 = true
				}
				if why, isEx := exceptions[Outermost(h).Name()+":"+fld]; isEx && !ok2 {
					r.Pass(rule, CallPos(ci), "accepted (one named site): "+why, r.P.FuncName(h), "nil-guard:"+fld+"."+CalleeOf(ci).Name)
					return
				}
				r.Ob(rule, CallPos(ci), ok2,
					fmt.Sprintf("optional component %s.%s (nil-tested elsewhere in the package) is used by %s without a dominating non-nil test", typ, fld, CalleeOf(ci).Name),
					r.P.FuncName(h), "nil-guard:"+fld+"."+CalleeOf(ci).Name)
			})
		}
	}
	r.Note("%s: %d uses of optional %s fields %v examined in %d functions reachable from %s", rule, count, typ, keys(optional), len(reach), root.Name())
}

// closureSites returns the MakeClosure instructions creating fn in its parent.
func closureSites(fn *ssa.Function) []ssa.Instruction {
	var out []ssa.Instruction
	if fn.Parent() == nil {
		return nil
	}
	Instrs(fn.Parent(), func(in ssa.Instruction) {
		if mc, ok := in.(*ssa.MakeClosure); ok && mc.Fn == fn {
			out = append(out, in)
		}
	})
	return out
}

type nullDecode struct {
	call token.Pos
	bad  token.Pos // an unguarded dereference after the decode (NoPos when all are nil-tested)
}

// nullDecodes lists the json.Unmarshal calls of g whose destination is **T (JSON null stores a
// nil *T) together with a dereference of that variable that is not under a non-nil test.
func nullDecodes(pr *Prog, g *ssa.Function) []nullDecode {
	var out []nullDecode
	for _, um := range Calls(g, false, "json:Unmarshal") {
		mi, ok := Arg(um, 1).(*ssa.MakeInterface)
		if !ok {
			continue
		}
		pt, ok := mi.X.Type().Underlying().(*types.Pointer)
		if !ok {
			continue
		}
		if _, isPP := pt.Elem().Underlying().(*types.Pointer); !isPP {
			continue
		}
		nd := nullDecode{call: CallPos(um)}
		al, ok := mi.X.(*ssa.Alloc)
		if !ok {
			nd.bad = um.Pos()
		} else if al.Referrers() != nil {
			for _, ref := range *al.Referrers() {
				ld, ok := ref.(*ssa.UnOp)
				if !ok || ld.Op != token.MUL || ld.Referrers() == nil {
					continue
				}
				for _, use := range *ld.Referrers() {
					// the possibly-nil pointer is handed back to the callers (`return req, nil`): every
					// caller's dereference of that result needs the nil test
					if ret, isRet := use.(*ssa.Return); isRet && pr != nil && CanReachBlock(um.Block(), ret.Block()) {
						for j, rv := range ret.Results {
							if rv != ssa.Value(ld) {
								continue
							}
							for _, site := range staticCallSites(pr, g) {
								var got ssa.Value = site
								if g.Signature.Results().Len() > 1 {
									got = extractOf(site, j)
								}
								if got == nil || got.Referrers() == nil {
									continue
								}
								for _, u2 := range *got.Referrers() {
									fa2, isFA := u2.(*ssa.FieldAddr)
									if !isFA {
										continue
									}
									guarded := false
									for _, ft := range Facts(fa2.Block()) {
										if x, isnil, ok := ft.FactNil(); ok && !isnil && stripValue(x) == stripValue(got) {
											guarded = true
										}
									}
									if !guarded {
										nd.bad = fa2.Pos()
									}
								}
							}
						}
						continue
					}
					fa, isFA := use.(*ssa.FieldAddr)
					if !isFA || !CanReachBlock(um.Block(), fa.Block()) {
						continue
					}
					guarded := false
					for _, ft := range Facts(fa.Block()) {
						if x, isnil, ok := ft.FactNil(); ok && !isnil {
							if u, ok := stripValue(x).(*ssa.UnOp); ok && u.X == ssa.Value(al) {
								guarded = true
							}
						}
					}
					if !guarded {
						nd.bad = fa.Pos()
					}
				}
			}
		}
		out = append(out, nd)
	}
	return out
}

// losslessFrom: v is parameter p itself or p seen through conversions that keep every value
// (widening, same width and signedness). A narrowing or sign-changing conversion of an
// attacker-chosen length (uint32 -> int32) lets huge values slip under an upper bound.
func losslessFrom(v ssa.Value, p *ssa.Parameter) bool {
	for i := 0; i < 6; i++ {
		if v == ssa.Value(p) {
			return true
		}
		switch x := v.(type) {
		case *ssa.ChangeType:
			v = x.X
		case *ssa.UnOp:
			// load of a variable spilled to a cell because a closure captures it: lossless when the
			// cell is written exactly once
			al, isA := x.X.(*ssa.Alloc)
			if x.Op != token.MUL || !isA {
				return false
			}
			sts := storesTo(al)
			if len(sts) != 1 || closureWrites(al) {
				return false
			}
			v = sts[0].Val
		case *ssa.Convert:
			from, ok1 := x.X.Type().Underlying().(*types.Basic)
			to, ok2 := x.Type().Underlying().(*types.Basic)
			if !ok1 || !ok2 || from.Info()&types.IsInteger == 0 || to.Info()&types.IsInteger == 0 {
				return false
			}
			size := func(b *types.Basic) int {
				switch b.Kind() {
				case types.Int8, types.Uint8:
					return 8
				case types.Int16, types.Uint16:
					return 16
				case types.Int32, types.Uint32:
					return 32
				default:
					return 64
				}
			}
			fu, tu := from.Info()&types.IsUnsigned != 0, to.Info()&types.IsUnsigned != 0
			switch {
			case fu == tu && size(to) >= size(from):
			case fu && !tu && size(to) > size(from):
			default:
				return false
			}
			v = x.X
		default:
			return false
		}
	}
	return false
}

// staticCallSites lists the call instructions of the program whose static callee is f.
func staticCallSites(p *Prog, f *ssa.Function) []*ssa.Call {
	var out []*ssa.Call
	for _, g := range p.Funcs {
		Instrs(g, func(in ssa.Instruction) {
			if c, ok := in.(*ssa.Call); ok && c.Common().StaticCallee() == f {
				out = append(out, c)
			}
		})
	}
	return out
}

// sizeBounded: the wire-derived size is a constant, or compared against a constant upper bound on
// every path to block at, or it is the parameter of an unexported helper every call site of which
// passes a bounded size (a shared "allocate, read full, hand over" helper is bounded by its callers).
func sizeBounded(pr *Prog, at *ssa.BasicBlock, size ssa.Value, depth int) bool {
	if _, isC := ConstInt(size); isC {
		return true
	}
	p := wireDerived(size)
	if p == nil {
		// a value decoded in this function (a header field, a call result): bounded when a dominating
		// comparison bounds that very value, seen through lossless conversions only
		base, ok := losslessBase(size)
		if !ok {
			return false
		}
		for _, ft := range Facts(at) {
			bo, isB := ft.Cond.(*ssa.BinOp)
			if !isB {
				continue
			}
			_, yC := ConstInt(bo.Y)
			_, xC := ConstInt(bo.X)
			same := func(v ssa.Value) bool {
				b2, ok2 := losslessBase(v)
				return ok2 && (b2 == base || sameExpr(b2, base))
			}
			switch {
			case yC && same(bo.X) && ((bo.Op == token.GTR && !ft.Pol) || (bo.Op == token.GEQ && !ft.Pol) || (bo.Op == token.LEQ && ft.Pol) || (bo.Op == token.LSS && ft.Pol)):
				return true
			case xC && same(bo.Y) && ((bo.Op == token.LSS && !ft.Pol) || (bo.Op == token.LEQ && !ft.Pol) || (bo.Op == token.GEQ && ft.Pol) || (bo.Op == token.GTR && ft.Pol)):
				return true
			}
		}
		return false
	}
	for _, ft := range Facts(at) {
		bo, isB := ft.Cond.(*ssa.BinOp)
		if !isB {
			continue
		}
		_, yC := ConstInt(bo.Y)
		_, xC := ConstInt(bo.X)
		switch {
		case yC && losslessFrom(bo.X, p) && ((bo.Op == token.GTR && !ft.Pol) || (bo.Op == token.GEQ && !ft.Pol) || (bo.Op == token.LEQ && ft.Pol) || (bo.Op == token.LSS && ft.Pol)):
			return true
		case xC && losslessFrom(bo.Y, p) && ((bo.Op == token.LSS && !ft.Pol) || (bo.Op == token.LEQ && !ft.Pol) || (bo.Op == token.GEQ && ft.Pol) || (bo.Op == token.GTR && ft.Pol)):
			return true
		}
	}
	f := p.Parent()
	if depth <= 0 || f == nil || f.Object() == nil || f.Object().Exported() || !losslessFrom(size, p) {
		return false
	}
	idx := -1
	for i, q := range f.Params {
		if q == p {
			idx = i
		}
	}
	sites := staticCallSites(pr, f)
	if idx < 0 || len(sites) == 0 {
		return false
	}
	for _, c := range sites {
		if idx >= len(c.Call.Args) || !sizeBounded(pr, c.Block(), c.Call.Args[idx], depth-1) {
			return false
		}
	}
	return true
}

// closureWrites: a closure that captures the cell stores to it.
func closureWrites(al *ssa.Alloc) bool {
	if al.Referrers() == nil {
		return false
	}
	for _, ref := range *al.Referrers() {
		mc, ok := ref.(*ssa.MakeClosure)
		if !ok {
			continue
		}
		fn, _ := mc.Fn.(*ssa.Function)
		for i, b := range mc.Bindings {
			if b != ssa.Value(al) || fn == nil || i >= len(fn.FreeVars) {
				continue
			}
			fv := fn.FreeVars[i]
			if fv.Referrers() == nil {
				continue
			}
			for _, u := range *fv.Referrers() {
				if st, ok := u.(*ssa.Store); ok && st.Addr == ssa.Value(fv) {
					return true
				}
				if _, ok := u.(*ssa.MakeClosure); ok {
					return true // handed further down: not followed
				}
			}
		}
	}
	return false
}

// losslessBase peels conversions that keep every value (widening, same width and signedness) and
// loads of single-assignment cells; ok is false when a narrowing or sign-changing conversion is met.
func losslessBase(v ssa.Value) (ssa.Value, bool) {
	for i := 0; i < 8; i++ {
		switch x := v.(type) {
		case *ssa.ChangeType:
			v = x.X
			continue
		case *ssa.Convert:
			from, ok1 := x.X.Type().Underlying().(*types.Basic)
			to, ok2 := x.Type().Underlying().(*types.Basic)
			if !ok1 || !ok2 || from.Info()&types.IsInteger == 0 || to.Info()&types.IsInteger == 0 {
				return nil, false
			}
			size := func(b *types.Basic) int {
				switch b.Kind() {
				case types.Int8, types.Uint8:
					return 8
				case types.Int16, types.Uint16:
					return 16
				case types.Int32, types.Uint32:
					return 32
				default:
					return 64
				}
			}
			fu, tu := from.Info()&types.IsUnsigned != 0, to.Info()&types.IsUnsigned != 0
			switch {
			case fu == tu && size(to) >= size(from):
			case fu && !tu && size(to) > size(from):
			default:
				return nil, false
			}
			v = x.X
			continue
		case *ssa.UnOp:
			if al, isA := x.X.(*ssa.Alloc); isA && x.Op == token.MUL {
				if sts := storesTo(al); len(sts) == 1 && !closureWrites(al) {
					v = sts[0].Val
					continue
				}
			}
		}
		break
	}
	return v, true
}
