package main

import (
	_ "embed"
	"encoding/json"
	"go/ast"
	"go/token"
	"go/types"
	"os"
	"path/filepath"
	"sort"
	"strings"

	"golang.org/x/tools/go/packages"

	"golang.org/x/tools/go/ssa"
)

// Parameter names of the reference tree. Origin strings ("param:clientID") are how the rules name
// the value a function was given; a maintainer who renames a parameter changes nothing the rules are
// about. The names recorded here for every top-level function of the reference tree are therefore
// used instead of the current source names whenever the function still exists with the same number
// of parameters; a function that is new or whose signature changed is read with its own names.
// Regenerate with `tvcheck -dump-params checker/paramnames.json` after an accepted change of /repo.
//
//go:embed paramnames.json
var paramNamesJSON []byte

var paramNamesRef map[string][]string
var theProg *Prog

func loadParamNames() {
	if paramNamesRef != nil {
		return
	}
	paramNamesRef = map[string][]string{}
	_ = json.Unmarshal(paramNamesJSON, &paramNamesRef)
}

func canonParamName(p *ssa.Parameter) string {
	loadParamNames()
	f := p.Parent()
	if f == nil || f.Parent() != nil || theProg == nil {
		return p.Name()
	}
	ref, ok := paramNamesRef[theProg.FuncName(f)]
	if !ok || len(ref) != len(f.Params) {
		return p.Name()
	}
	for _, rn := range ref {
		if rn == p.Name() {
			return p.Name() // a name the reference signature already had (parameters may have been reordered)
		}
	}
	for i, q := range f.Params {
		if q == p && ref[i] != "" {
			for _, o := range f.Params {
				if o.Name() == ref[i] {
					return p.Name() // the reference name is in use by another parameter
				}
			}
			return ref[i]
		}
	}
	return p.Name()
}

// canonFreeVarName: a captured parameter of the enclosing function keeps the parameter's reference name.
func canonFreeVarName(fv *ssa.FreeVar) string {
	for _, b := range freeVarBindings(fv) {
		switch x := b.(type) {
		case *ssa.Parameter:
			return canonParamName(x)
		case *ssa.Alloc:
			// a parameter spilled to a cell because the closure captures it by reference
			sts := storesTo(x)
			if len(sts) >= 1 {
				if p, ok := sts[0].Val.(*ssa.Parameter); ok && p.Name() == fv.Name() {
					return canonParamName(p)
				}
			}
		case *ssa.FreeVar:
			return canonFreeVarName(x)
		}
	}
	return fv.Name()
}

func dumpParamNames(p *Prog, file string) error {
	out := map[string][]string{}
	for _, f := range p.Funcs {
		if f.Parent() != nil || len(f.Params) == 0 {
			continue
		}
		var ns []string
		for _, q := range f.Params {
			ns = append(ns, q.Name())
		}
		out[p.FuncName(f)] = ns
	}
	keys := make([]string, 0, len(out))
	for k := range out {
		keys = append(keys, k)
	}
	sort.Strings(keys)
	b, err := json.MarshalIndent(out, "", " ")
	if err != nil {
		return err
	}
	return os.WriteFile(file, b, 0o644)
}

// Field names of the reference tree, by (package path, type name) and field index: a struct that
// still has the same number of fields is read with the reference names (an unexported field or
// mutex may be renamed freely); a struct whose field list changed is read with its own names.
//
//go:embed fieldnames.json
var fieldNamesJSON []byte

var fieldNamesRef map[string][]string

func structKey(t types.Type) string {
	if p, ok := t.Underlying().(*types.Pointer); ok {
		t = p.Elem()
	}
	if p, ok := t.(*types.Pointer); ok {
		t = p.Elem()
	}
	n, ok := t.(*types.Named)
	if !ok {
		return ""
	}
	n = n.Origin()
	if n.Obj() == nil || n.Obj().Pkg() == nil {
		return ""
	}
	return n.Obj().Pkg().Path() + "." + n.Obj().Name()
}

func canonFieldName(t types.Type, st *types.Struct, idx int) string {
	actual := st.Field(idx).Name()
	if fieldNamesRef == nil {
		fieldNamesRef = map[string][]string{}
		_ = json.Unmarshal(fieldNamesJSON, &fieldNamesRef)
	}
	k := structKey(t)
	if k == "" || !strings.HasPrefix(k, Module) {
		return actual
	}
	ref, ok := fieldNamesRef[k]
	if !ok || len(ref) != st.NumFields() {
		return actual
	}
	// exported fields are part of wire formats and APIs: a reference name is used only when the
	// field is unexported now and was unexported then
	if st.Field(idx).Exported() || (len(ref[idx]) > 0 && ref[idx][0] >= 'A' && ref[idx][0] <= 'Z') {
		return actual
	}
	// a name the reference struct already had is that field (fields may have been reordered); only a
	// name the reference does not know is read as the reference name of its position, and only when
	// that reference name is no longer in use
	for _, rn := range ref {
		if rn == actual {
			return actual
		}
	}
	for i := 0; i < st.NumFields(); i++ {
		if st.Field(i).Name() == ref[idx] {
			return actual
		}
	}
	return ref[idx]
}

func dumpFieldNames(p *Prog, file string) error {
	out := map[string][]string{}
	for path, sp := range p.SSAPkgs {
		if !strings.HasPrefix(path, Module) {
			continue
		}
		for _, m := range sp.Members {
			tm, ok := m.(*ssa.Type)
			if !ok {
				continue
			}
			st, ok := tm.Type().Underlying().(*types.Struct)
			if !ok {
				continue
			}
			var ns []string
			for i := 0; i < st.NumFields(); i++ {
				ns = append(ns, st.Field(i).Name())
			}
			if k := structKey(tm.Type()); k != "" {
				out[k] = ns
			}
		}
	}
	b, err := json.MarshalIndent(out, "", " ")
	if err != nil {
		return err
	}
	return os.WriteFile(file, b, 0o644)
}

// ---------------------------------------------------------------------------
// Unexported functions and methods that were renamed are read under their reference names: the
// loader compares the functions of every repository package with the reference list (receiver,
// name, signature without parameter names, in source order); a reference function that no longer
// exists and a function the reference does not know, with the same receiver and signature, are the
// same function under a new name. The identifiers are rewritten to the reference name in an
// in-memory overlay and the program is loaded again, so that every rule, every obligation key and
// every known-finding key sees the reference name. Nothing is written to disk.
//
//go:embed funcnames.json
var funcNamesJSON []byte

type funcRef struct {
	R string `json:"r"` // receiver type name ("" for plain functions)
	N string `json:"n"`
	S string `json:"s"` // signature, parameter names stripped
}

func sigKey(sig *types.Signature) string {
	var sb strings.Builder
	q := func(p *types.Package) string { return p.Path() }
	sb.WriteString("(")
	for i := 0; i < sig.Params().Len(); i++ {
		if i > 0 {
			sb.WriteString(",")
		}
		if sig.Variadic() && i == sig.Params().Len()-1 {
			sb.WriteString("...")
		}
		sb.WriteString(types.TypeString(sig.Params().At(i).Type(), q))
	}
	sb.WriteString(")(")
	for i := 0; i < sig.Results().Len(); i++ {
		if i > 0 {
			sb.WriteString(",")
		}
		sb.WriteString(types.TypeString(sig.Results().At(i).Type(), q))
	}
	sb.WriteString(")")
	return sb.String()
}

func recvName(sig *types.Signature) string {
	if sig.Recv() == nil {
		return ""
	}
	t := sig.Recv().Type()
	if p, ok := t.(*types.Pointer); ok {
		t = p.Elem()
	}
	if n, ok := t.(*types.Named); ok {
		return n.Obj().Name()
	}
	return "?"
}

// declaredFuncs lists the top-level functions and methods of a package in source order.
func declaredFuncs(pk *packages.Package) []*types.Func {
	type fp struct {
		f    *types.Func
		file string
		off  int
	}
	var l []fp
	for id, obj := range pk.TypesInfo.Defs {
		fn, ok := obj.(*types.Func)
		if !ok || fn.Pkg() == nil {
			continue
		}
		if fn.Parent() != nil && fn.Parent() != pk.Types.Scope() {
			continue
		}
		ps := pk.Fset.Position(id.Pos())
		l = append(l, fp{fn, filepath.Base(ps.Filename), ps.Offset})
	}
	sort.Slice(l, func(i, j int) bool {
		if l[i].file != l[j].file {
			return l[i].file < l[j].file
		}
		return l[i].off < l[j].off
	})
	out := make([]*types.Func, len(l))
	for i := range l {
		out[i] = l[i].f
	}
	return out
}

func dumpFuncNames(pkgs []*packages.Package, file string) error {
	out := map[string][]funcRef{}
	for _, pk := range pkgs {
		for _, fn := range declaredFuncs(pk) {
			sig := fn.Type().(*types.Signature)
			out[pk.PkgPath] = append(out[pk.PkgPath], funcRef{recvName(sig), fn.Name(), sigKey(sig)})
		}
	}
	b, err := json.MarshalIndent(out, "", " ")
	if err != nil {
		return err
	}
	return os.WriteFile(file, b, 0o644)
}

// funcRenames returns, for the loaded repository packages, the functions whose identifiers must be
// rewritten and the reference name of each.
func funcRenames(pkgs []*packages.Package) map[*types.Func]string {
	ref := map[string][]funcRef{}
	if err := json.Unmarshal(funcNamesJSON, &ref); err != nil {
		return nil
	}
	out := map[*types.Func]string{}
	for _, pk := range pkgs {
		rl, ok := ref[pk.PkgPath]
		if !ok {
			continue
		}
		cur := declaredFuncs(pk)
		curKeys := map[string]bool{}
		for _, fn := range cur {
			curKeys[recvName(fn.Type().(*types.Signature))+"."+fn.Name()] = true
		}
		refKeys := map[string]bool{}
		for _, e := range rl {
			refKeys[e.R+"."+e.N] = true
		}
		// group the missing reference functions and the unknown current functions by receiver+signature
		missing := map[string][]string{}
		for _, e := range rl {
			if !curKeys[e.R+"."+e.N] && !token.IsExported(e.N) {
				missing[e.R+"|"+e.S] = append(missing[e.R+"|"+e.S], e.N)
			}
		}
		added := map[string][]*types.Func{}
		for _, fn := range cur {
			sig := fn.Type().(*types.Signature)
			if !refKeys[recvName(sig)+"."+fn.Name()] && !fn.Exported() {
				k := recvName(sig) + "|" + sigKey(sig)
				added[k] = append(added[k], fn)
			}
		}
		for k, ms := range missing {
			as := added[k]
			if len(as) != len(ms) {
				continue // not a pure rename: functions were added or removed as well
			}
			for i := range ms {
				out[as[i]] = ms[i]
			}
		}
	}
	return out
}

// renameOverlay rewrites every identifier that denotes one of the renamed functions and returns the
// new contents of the files touched (absolute file name -> bytes).
func renameOverlay(pkgs []*packages.Package, ren map[*types.Func]string, base map[string][]byte) map[string][]byte {
	type edit struct {
		off, n int
		to     string
	}
	edits := map[string][]edit{}
	for _, pk := range pkgs {
		visit := func(id *ast.Ident, obj types.Object) {
			fn, ok := obj.(*types.Func)
			if !ok {
				return
			}
			to, ok := ren[fn.Origin()]
			if !ok {
				return
			}
			ps := pk.Fset.Position(id.Pos())
			edits[ps.Filename] = append(edits[ps.Filename], edit{ps.Offset, len(id.Name), to})
		}
		for id, obj := range pk.TypesInfo.Defs {
			if obj != nil {
				visit(id, obj)
			}
		}
		for id, obj := range pk.TypesInfo.Uses {
			visit(id, obj)
		}
	}
	out := map[string][]byte{}
	for file, es := range edits {
		src, ok := base[file]
		if !ok {
			b, err := os.ReadFile(file)
			if err != nil {
				return nil
			}
			src = b
		}
		sort.Slice(es, func(i, j int) bool { return es[i].off > es[j].off })
		buf := append([]byte{}, src...)
		last := -1
		for _, e := range es {
			if e.off == last || e.off+e.n > len(buf) {
				continue
			}
			last = e.off
			buf = append(buf[:e.off], append([]byte(e.to), buf[e.off+e.n:]...)...)
		}
		out[file] = buf
	}
	return out
}

// ---------------------------------------------------------------------------
// A struct's responsibilities may be split into an embedded unexported struct (`Bridge` embeds a new
// `bridgeEndpoints` that takes over some of its fields). The fields are still fields of the outer
// object for every purpose of the rules: a struct type the reference does not know, embedded in
// exactly one struct the reference knows (same package), is described under the outer type's name.

var embedOwner map[string]string // key of the new embedded struct -> key of its unique known embedder

func computeEmbedOwners() {
	if embedOwner != nil || theProg == nil {
		return
	}
	embedOwner = map[string]string{}
	if fieldNamesRef == nil {
		fieldNamesRef = map[string][]string{}
		_ = json.Unmarshal(fieldNamesJSON, &fieldNamesRef)
	}
	count := map[string]int{}
	first := map[string]string{}
	for path, sp := range theProg.SSAPkgs {
		if !strings.HasPrefix(path, Module) {
			continue
		}
		for _, m := range sp.Members {
			tm, ok := m.(*ssa.Type)
			if !ok {
				continue
			}
			st, ok := tm.Type().Underlying().(*types.Struct)
			if !ok {
				continue
			}
			outer := structKey(tm.Type())
			if _, known := fieldNamesRef[outer]; !known {
				continue
			}
			for i := 0; i < st.NumFields(); i++ {
				if !st.Field(i).Embedded() {
					continue
				}
				inner := structKey(st.Field(i).Type())
				if inner == "" || !strings.HasPrefix(inner, path+".") {
					continue
				}
				if _, known := fieldNamesRef[inner]; known {
					continue
				}
				count[inner]++
				first[inner] = outer
			}
		}
	}
	for k, n := range count {
		if n == 1 {
			embedOwner[k] = first[k]
		}
	}
}

// ownerTypeName is recvTypeName for the owner of a field: an embedded helper struct introduced since
// the reference is named after the struct that embeds it.
func ownerTypeName(t types.Type) (pkg, name string) {
	pkg, name = recvTypeName(t)
	computeEmbedOwners()
	if o, ok := embedOwner[structKey(t)]; ok {
		i := strings.LastIndex(o, ".")
		return o[:i], o[i+1:]
	}
	return
}
