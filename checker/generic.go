package main

import (
	"encoding/json"
	"fmt"
	"go/token"
	"go/types"
	"os"
	"path/filepath"
	"regexp"
	"sort"
	"strings"

	"golang.org/x/tools/go/ssa"
)

// Generic consistency rules ("bugs as deviant behaviour"): contradictions between what a path
// has established and what it then does. They need no knowledge of the property beyond WHERE it
// lives: each property's check runs them over the functions of its anchor files (the anchors are
// part of the given property definitions, properties.jsonl), under the rule ids
//
//	R-Cxx-G1  lock pairing: a Lock is released on every path; an Unlock releases a lock that is held
//	R-Cxx-G2  an error known to be nil is not reported / wrapped as a failure
//	R-Cxx-G3  a value known to be nil is not dereferenced
//	R-Cxx-G4  the value result of a call is not used where the call's error is known non-nil
//	R-Cxx-G5  a response literal says Success:true only where no error is known
//	R-Cxx-G6  two same-typed arguments are not handed over crosswise to the parameters that bear their names
//
// They catch the local slips that keep every architectural rule intact: an inverted error test, a
// dropped or misplaced unlock, a flipped nil guard, a failure acknowledged as success.

var verifRoot = "/verif"

// anchorFiles returns the repository-relative .go files named by the property's anchors
// (directories are expanded), read from properties.jsonl.
func anchorFiles(prop string, repo string) map[string]bool {
	out := map[string]bool{}
	var b []byte
	var err error
	cands := []string{verifRoot}
	if exe, e := os.Executable(); e == nil {
		cands = append(cands, filepath.Dir(filepath.Dir(exe)))
	}
	cands = append(cands, "/verif")
	for _, c := range cands {
		if b, err = os.ReadFile(filepath.Join(c, "properties.jsonl")); err == nil {
			break
		}
	}
	if err != nil {
		return out
	}
	for _, line := range strings.Split(string(b), "\n") {
		if strings.TrimSpace(line) == "" {
			continue
		}
		var d struct {
			ID      string `json:"id"`
			Anchors struct {
				Files []string `json:"files"`
			} `json:"anchors"`
		}
		if json.Unmarshal([]byte(line), &d) != nil || d.ID != prop {
			continue
		}
		for _, a := range d.Anchors.Files {
			p := filepath.Join(repo, a)
			if st, err := os.Stat(p); err == nil && st.IsDir() {
				ms, _ := filepath.Glob(filepath.Join(p, "*.go"))
				for _, m := range ms {
					if !strings.HasSuffix(m, "_test.go") {
						rel, _ := filepath.Rel(repo, m)
						out[rel] = true
					}
				}
			} else {
				out[filepath.Clean(a)] = true
			}
		}
	}
	return out
}

// lockHeldAtReturn lists functions that return with a lock held by design (acquire helpers).
var lockHeldAtReturn = map[string]string{
	"acquireReadLock":  "acquire helper: returns nil with readLock held, the caller unlocks (R-C01-7 decides both halves)",
	"acquireWriteLock": "acquire helper: returns nil with writeLock held, the caller unlocks (R-C01-7 decides both halves)",
}

var handlersMemo map[*ssa.Function]bool

func runGeneric(r *Report, prop string) {
	files := anchorFiles(prop, r.P.Repo)
	if len(files) == 0 {
		r.Fail("R-"+prop+"-G1", 0, "anchor files of the property could not be read from properties.jsonl", prop, "generic:anchors")
		return
	}
	g := func(n int) string { return fmt.Sprintf("R-%s-G%d", prop, n) }
	for _, n := range canonNotes {
		r.Note("%s", n)
	}
	runLockOrder(r, prop, files)
	nf, nLock, nErr, nNil, nBound, nRel, nBuf, nCloseLock := 0, 0, 0, 0, 0, 0, 0, 0
	for _, f := range r.P.Funcs {
		if len(f.Blocks) == 0 {
			continue
		}
		pos := r.P.Fset.Position(f.Pos())
		rel, err := filepath.Rel(r.P.Repo, pos.Filename)
		if err != nil || !files[rel] {
			continue
		}
		nf++
		fn := r.P.FuncName(f)
		runReadBufferRetained(r, g(8), f)
		runWriteAfterSave(r, g(10), f)
		runPooledObjectEscapes(r, g(11), f)
		runErrorSwallowed(r, g(12), f)
		nBound += runConstBoundUnchecked(r, g(13), f)
		nRel += runReleasedBufferEscapes(r, g(14), f)
		nBuf += runReadAheadDiscarded(r, g(15), f)
		if handlersMemo == nil {
			handlersMemo = cleanHandlers(r.P)
		}
		nCloseLock += runCloseWaitsForIOLock(r, g(16), f, handlersMemo)
		// G9: every read->write copy loop of the anchored code (discovered by shape: a Read in a loop
		// whose buffer is handed to a Write in the same loop) keeps the copy-loop obligations
		Instrs(f, func(in ssa.Instruction) {
			rd, ok := in.(*ssa.Call)
			if !ok || !isReadMethod(rd) || !InLoop(rd.Block()) || extractOf(rd, 0) == nil {
				return
			}
			buf := bufArg(rd)
			if buf == nil {
				return
			}
			found := false
			for b := range loopBlocks(rd.Block()) {
				for _, x := range b.Instrs {
					if w, ok := x.(ssa.CallInstruction); ok && isWriteMethod(w) {
						if a := bufArg(w); a != nil && aliases(a, buf, map[ssa.Value]bool{}) {
							found = true
						}
					}
				}
			}
			if found {
				CheckCopyLoop(r, g(9), f, rd, false)
			}
		})
		// ---- G1 lock pairing ------------------------------------------------------
		ls := lockSetsOf(f)
		entryHeld := strings.HasSuffix(Outermost(f).Name(), "Locked") || strings.HasSuffix(Outermost(f).Name(), "locked")
		Instrs(f, func(in ssa.Instruction) {
			ci, ok := in.(ssa.CallInstruction)
			if !ok {
				return
			}
			id, op, ok := lockOp(ci)
			if !ok {
				return
			}
			short := id
			if i := strings.LastIndex(short, "."); i >= 0 {
				short = short[i+1:]
			}
			nLock++
			switch op {
			case "Unlock", "RUnlock":
				if entryHeld {
					return
				}
				held := ls.Held(in, short) != "" || acquiredByHelper(in, short)
				what := "an Unlock"
				if _, isDefer := in.(*ssa.Defer); isDefer {
					what = "a deferred Unlock"
				}
				if _, isGo := in.(*ssa.Go); isGo {
					return
				}
				if f.Parent() != nil && !held {
					// closure (e.g. deferred func() { mu.Unlock() }): the lock is taken by the enclosing function
					return
				}
				r.Ob(g(1), in.Pos(), held, what+" of "+short+" releases a lock that is held on every path to it (unlock of an unheld lock panics; a missing Lock leaves the section unprotected)", fn, "unlock-of-held:"+short)
			case "Lock", "RLock":
				if _, isDefer := in.(*ssa.Defer); isDefer {
					return
				}
				_, acquireHelper := lockHeldAtReturn[Outermost(f).Name()]
				rel := "Unlock"
				if op == "RLock" {
					rel = "RUnlock"
				}
				leak := WalkFrom(nil, in, func(x ssa.Instruction) int {
					if c2, ok := x.(ssa.CallInstruction); ok {
						if id2, op2, ok := lockOp(c2); ok && id2 == id && op2 == rel {
							return Stop
						}
						// the same mutex locked again before it was released (write lock: self-deadlock)
						if id2, op2, ok := lockOp(c2); ok && id2 == id && op2 == "Lock" && x != in {
							if _, isD := x.(*ssa.Defer); !isD {
								return Hit
							}
						}
						// a deferred closure that unlocks
						if d, isD := x.(*ssa.Defer); isD {
							if cl := resolveClosure(d.Call.Value, f, 0); cl != nil {
								found := false
								Instrs(cl, func(y ssa.Instruction) {
									if c3, ok := y.(ssa.CallInstruction); ok {
										if _, op3, ok := lockOp(c3); ok && op3 == rel {
											found = true
										}
									}
								})
								if found {
									return Stop
								}
							}
						}
					}
					if ret, isRet := x.(*ssa.Return); isRet {
						// an acquire helper hands the lock to its caller on success; its failure returns
						// must have released it
						if acquireHelper && RetErrKind(ret) == "nil" {
							return Stop
						}
						// ... or hands the caller the release itself: the function returns a closure that
						// unlocks (`unlock := s.lockKey(k); defer unlock()`)
						for i := range ret.Results {
							if mc, ok := stripValue(RetVal(ret, i)).(*ssa.MakeClosure); ok {
								if cl, ok := mc.Fn.(*ssa.Function); ok {
									releases := false
									Instrs(cl, func(y ssa.Instruction) {
										if c3, ok := y.(ssa.CallInstruction); ok {
											if _, op3, ok := lockOp(c3); ok && op3 == rel {
												releases = true
											}
										}
									})
									if releases {
										return Stop
									}
								}
							}
						}
						return Hit
					}
					return Cont
				}, nil)
				r.Ob(g(1), in.Pos(), len(leak) == 0, "every path from this "+op+" of "+short+" to a return releases it (call or defer); a leaked lock blocks every later caller", fn, "lock-released:"+short)
			}
		})
		// ---- G2 / G3 / G5: contradictions with an established nil-ness ---------------
		for _, b := range f.Blocks {
			facts := localFacts(b)
			var nilVals, nonNilErrs []ssa.Value
			for _, ft := range facts {
				x, isnil, ok := ft.FactNil()
				if !ok {
					continue
				}
				if isnil {
					nilVals = append(nilVals, x)
				} else if x.Type().String() == "error" {
					nonNilErrs = append(nonNilErrs, x)
				}
			}
			same := func(a, v ssa.Value) bool {
				a, v = stripValue(a), stripValue(v)
				return a == v || sameExpr(a, v)
			}
			for _, in := range b.Instrs {
				for _, x := range nilVals {
					isErr := x.Type().String() == "error"
					switch y := in.(type) {
					case *ssa.FieldAddr:
						if !isErr && same(y.X, x) {
							nNil++
							r.Fail(g(3), in.Pos(), "field access through a value this path has established to be nil ("+originSummary(x)+"): the guard is inverted or was dropped", fn, "deref-of-known-nil")
						}
					case *ssa.Call:
						if y.Call.IsInvoke() && same(y.Call.Value, x) && !isErr {
							nNil++
							r.Fail(g(3), in.Pos(), "method call on an interface value this path has established to be nil ("+originSummary(x)+")", fn, "deref-of-known-nil")
						}
						if isErr {
							if _, isB := y.Call.Value.(*ssa.Builtin); isB {
								continue
							}
							for _, a := range y.Call.Args {
								for _, e := range variadicElems(a) {
									if same(e, x) {
										nErr++
										r.Fail(g(2), in.Pos(), "an error this path has established to be nil is handed to "+CalleeOf(y).Name+" (wrapped / logged / returned as a failure): the error test is inverted", fn, "nil-error-as-failure")
									}
								}
							}
						}
					}
				}
				// G2: the function's error result is a variable this path has established to be nil,
				// returned from inside the branch that tested it (`if err == nil { return ..., err }`)
				if ret, ok := in.(*ssa.Return); ok && len(ret.Results) > 0 {
					last := ret.Results[len(ret.Results)-1]
					if last.Type().String() == "error" {
						if _, isC := last.(*ssa.Const); !isC {
							for _, x := range nilVals {
								if x.Type().String() == "error" && stripValue(RetVal(ret, len(ret.Results)-1)) == stripValue(x) && directBranchReturn(ret, x) {
									r.Fail(g(2), in.Pos(), "the branch taken when the error is nil returns that very error: the error test is inverted (failure paths fall through, success returns early)", fn, "returns-known-nil-error")
								}
							}
						}
					}
				}
				// G5: a response literal marked Success:true returned together with a non-nil error
				if ret, ok := in.(*ssa.Return); ok && len(ret.Results) >= 2 && RetErrKind(ret) == "nonnil" {
					for i := 0; i < len(ret.Results)-1; i++ {
						if al, isA := stripValue(RetVal(ret, i)).(*ssa.Alloc); isA {
							for _, fs := range fieldStores(al) {
								if fs.field == "Success" {
									if v, isC := ConstBool(fs.val); isC && v {
										r.Fail(g(5), fs.pos, "a response marked Success:true is returned together with a non-nil error", fn, "success-with-error")
									}
								}
							}
						}
					}
				}
				// G5: a literal with Success:true built where an error is known non-nil
				if len(nonNilErrs) > 0 && !errorClassified(facts, nonNilErrs) && !errorConsulted(b, nonNilErrs) {
					if st, ok := in.(*ssa.Store); ok {
						if fa, ok := st.Addr.(*ssa.FieldAddr); ok && fieldName(fa.X.Type(), fa.Field) == "Success" {
							if v, isC := ConstBool(st.Val); isC && v {
								r.Fail(g(5), in.Pos(), "a response is marked Success:true on a path where an error is known to be non-nil", fn, "success-on-error-path")
							}
						}
					}
				}
			}
		}
		// ---- G6 arguments handed over in the wrong order -------------------------------------
		// two parameters of one type whose names the arguments carry crosswise (nodeID given for connID
		// and connID for nodeID): names are compared on the last identifier of the argument's origin
		Instrs(f, func(in ssa.Instruction) {
			ci, ok := in.(ssa.CallInstruction)
			if !ok {
				return
			}
			sig := ci.Common().Signature()
			args := ci.Common().Args
			off := 0
			if !ci.Common().IsInvoke() && sig.Recv() != nil {
				off = 1
			}
			n := sig.Params().Len()
			if sig.Variadic() {
				n--
			}
			for i := 0; i < n; i++ {
				for j := i + 1; j < n; j++ {
					pi, pj := sig.Params().At(i), sig.Params().At(j)
					if pi.Name() == "" || pj.Name() == "" || !types.Identical(pi.Type(), pj.Type()) || i+off >= len(args) || j+off >= len(args) {
						continue
					}
					ai, aj := argName(args[i+off]), argName(args[j+off])
					if ai == "" || aj == "" {
						continue
					}
					ni, nj := normName(pi.Name()), normName(pj.Name())
					if ni == nj {
						continue
					}
					if normName(ai) == nj && normName(aj) == ni {
						r.Fail(g(6), in.Pos(), fmt.Sprintf("arguments of %s are crossed: %q is passed for parameter %s and %q for parameter %s", CalleeOf(ci).Name, ai, pi.Name(), aj, pj.Name()), fn, "swapped-arguments:"+CalleeOf(ci).Name)
					}
				}
			}
		})
		// ---- G4 result used where the call's error is known non-nil ---------------------
		Instrs(f, func(in ssa.Instruction) {
			c, ok := in.(*ssa.Call)
			if !ok {
				return
			}
			res := c.Call.Signature().Results()
			if res.Len() < 2 || res.At(res.Len()-1).Type().String() != "error" || c.Referrers() == nil {
				return
			}
			for _, ref := range *c.Referrers() {
				ex, ok := ref.(*ssa.Extract)
				if !ok || ex.Index == res.Len()-1 || ex.Referrers() == nil {
					continue
				}
				if _, isPtr := ex.Type().Underlying().(*types.Pointer); !isPtr {
					if _, isIf := ex.Type().Underlying().(*types.Interface); !isIf {
						continue
					}
				}
				for _, use := range *ex.Referrers() {
					deref := false
					switch u := use.(type) {
					case *ssa.FieldAddr:
						deref = u.X == ssa.Value(ex)
					case *ssa.Call:
						deref = u.Call.IsInvoke() && u.Call.Value == ssa.Value(ex)
					}
					if !deref || use.Block() == nil || !ErrFailed(use.Block(), c) {
						continue
					}
					// tolerated when the use itself is under a non-nil test of the value
					guarded := false
					for _, ft := range localFacts(use.Block()) {
						if x, isnil, ok := ft.FactNil(); ok && !isnil && stripValue(x) == ssa.Value(ex) {
							guarded = true
						}
					}
					if !guarded {
						r.Fail(g(4), use.Pos(), "the result of "+CalleeOf(c).Name+" is used on a path where its error is known to be non-nil (the error test is inverted)", fn, "result-used-on-error-path")
					}
				}
			}
		})
	}
	// the contradiction rules are expected to match nothing on a correct tree: record what was scanned
	r.Pass(g(2), token.NoPos, fmt.Sprintf("%d functions of %d anchor files scanned; %d lock operations paired; no nil error reported as a failure, no dereference of a known-nil value, no result used on its error path, no Success:true on an error path", nf, len(files), nLock), prop, "generic:scan")
	if nf < 5 {
		r.Fail(g(1), 0, fmt.Sprintf("only %d functions found in the property's anchor files", nf), prop, "generic:floor")
	}
	r.Pass(g(13), token.NoPos, fmt.Sprintf("%d constant-bound slice/index operations on strings and slices scanned; each is applied to a value built here with that length, a parameter, or a value whose length is tested on the way", nBound), prop, "generic:const-bound-scan")
	r.Pass(g(14), token.NoPos, fmt.Sprintf("%d give-backs of a buffer to a pool scanned: none of the buffers is returned, sent or stored in a field before it is given back; %d per-call buffered readers scanned (G15)", nRel, nBuf), prop, "generic:released-buffer-scan")
	r.Pass(g(16), token.NoPos, fmt.Sprintf("close paths of the anchored code scanned: %d acquisition(s) of a lock held across blocking I/O, each after the endpoint was closed", nCloseLock), prop, "generic:close-io-lock-scan")
	_ = sort.Strings
	_ = nErr
	_ = nNil
}

// acquiredByHelper: the lock named short is held at in because a same-package helper whose every
// success return holds it (an acquire wrapper: lock, test state, unlock-and-fail or succeed) was
// called and its success dominates in.
func acquiredByHelper(in ssa.Instruction, short string) bool {
	f := in.Parent()
	found := false
	Instrs(f, func(x ssa.Instruction) {
		c, ok := x.(*ssa.Call)
		if !ok || found {
			return
		}
		h := c.Common().StaticCallee()
		if h == nil || h.Pkg != f.Pkg || len(h.Blocks) == 0 || h == f {
			return
		}
		if !ErrOK(in.Block(), c) {
			return
		}
		ls := lockSetsOf(h)
		n := 0
		all := true
		for _, ret := range Returns(h) {
			if RetErrKind(ret) != "nil" {
				continue
			}
			n++
			if ls.Held(ret, short) == "" {
				all = false
			}
		}
		if n > 0 && all {
			found = true
		}
	})
	return found
}

// directBranchReturn: ret sits in the block that is the direct nil-successor of the test of x
// (`if x == nil { return ..., x }`), not in a later join.
func directBranchReturn(ret *ssa.Return, x ssa.Value) bool {
	b := ret.Block()
	if len(b.Preds) != 1 {
		return false
	}
	p := b.Preds[0]
	if len(p.Instrs) == 0 {
		return false
	}
	iff, ok := p.Instrs[len(p.Instrs)-1].(*ssa.If)
	if !ok {
		return false
	}
	c, _ := normCond(iff.Cond, true)
	v, _, ok := NilTest(c)
	return ok && stripValue(v) == stripValue(x)
}

// argName: the identifier an argument is read from: a parameter, a struct field, or the result of a
// getter (GetX -> X); "" when the argument has no name of its own.
func argName(v ssa.Value) string {
	v = stripValue(v)
	switch x := v.(type) {
	case *ssa.Parameter:
		return x.Name()
	case *ssa.UnOp:
		if x.Op == token.MUL {
			if fa, ok := x.X.(*ssa.FieldAddr); ok {
				return fieldName(fa.X.Type(), fa.Field)
			}
		}
	case *ssa.Field:
		return fieldName(x.X.Type(), x.Field)
	case *ssa.Call:
		n := CalleeOf(x).Name
		if strings.HasPrefix(n, "Get") && len(n) > 3 {
			return n[3:]
		}
	}
	return ""
}

func normName(s string) string {
	s = strings.ToLower(s)
	s = strings.ReplaceAll(s, "_", "")
	return s
}

// ---------------------------------------------------------------------------
// G7 lock order: two mutex fields are never acquired in both orders (a deadlock needs only the two
// paths to run at the same time). Lock identity is (struct type, field); acquisitions through
// same-package callees count (depth 2).

type lockEdge struct {
	from, to string
	pos      token.Pos
	fn       string
}

var lockOrderEdges []lockEdge
var lockOrderDone bool

func lockIdent(v ssa.Value) string {
	v = stripValue(v)
	if fa, ok := v.(*ssa.FieldAddr); ok {
		t := fa.X.Type()
		if p, ok := t.Underlying().(*types.Pointer); ok {
			t = p.Elem()
		}
		if n, ok := t.(*types.Named); ok {
			return n.Obj().Pkg().Name() + "." + n.Obj().Name() + "." + fieldName(fa.X.Type(), fa.Field)
		}
	}
	return ""
}

func computeLockOrder(p *Prog) {
	if lockOrderDone {
		return
	}
	lockOrderDone = true
	direct := map[*ssa.Function]map[string]bool{}
	for _, f := range p.Funcs {
		Instrs(f, func(in ssa.Instruction) {
			ci, ok := in.(*ssa.Call)
			if !ok {
				return
			}
			if _, op, ok := lockOp(ci); ok && (op == "Lock" || op == "RLock") {
				if id := lockIdent(Recv(ci)); id != "" {
					if direct[f] == nil {
						direct[f] = map[string]bool{}
					}
					direct[f][id] = true
				}
			}
		})
	}
	var acquires func(f *ssa.Function, depth int) map[string]bool
	memo := map[*ssa.Function]map[string]bool{}
	acquires = func(f *ssa.Function, depth int) map[string]bool {
		if m, ok := memo[f]; ok && depth == 2 {
			return m
		}
		out := map[string]bool{}
		for k := range direct[f] {
			out[k] = true
		}
		if depth > 0 {
			Instrs(f, func(in ssa.Instruction) {
				if c, ok := in.(*ssa.Call); ok {
					if g := c.Common().StaticCallee(); g != nil && g != f && g.Pkg == f.Pkg && len(g.Blocks) > 0 {
						for k := range acquires(g, depth-1) {
							out[k] = true
						}
					}
				}
			})
		}
		if depth == 2 {
			memo[f] = out
		}
		return out
	}
	for _, f := range p.Funcs {
		hasLock := len(direct[f]) > 0
		if !hasLock {
			continue
		}
		ls := lockSetsOf(f)
		// path -> identity for the locks taken in f
		ident := map[string]string{}
		Instrs(f, func(in ssa.Instruction) {
			if ci, ok := in.(ssa.CallInstruction); ok {
				if path, _, ok := lockOp(ci); ok {
					if id := lockIdent(Recv(ci)); id != "" {
						ident[path] = id
					}
				}
			}
		})
		Instrs(f, func(in ssa.Instruction) {
			c, ok := in.(*ssa.Call)
			if !ok {
				return
			}
			var taken map[string]bool
			if _, op, ok := lockOp(c); ok && (op == "Lock" || op == "RLock") {
				if id := lockIdent(Recv(c)); id != "" {
					taken = map[string]bool{id: true}
				}
			} else if g := c.Common().StaticCallee(); g != nil && g != f && g.Pkg == f.Pkg && len(g.Blocks) > 0 {
				taken = acquires(g, 2)
			}
			if len(taken) == 0 {
				return
			}
			for path := range ls.HeldAll(in) {
				from := ident[path]
				if from == "" {
					continue
				}
				for to := range taken {
					if to != from {
						lockOrderEdges = append(lockOrderEdges, lockEdge{from, to, in.Pos(), p.FuncName(f)})
					}
				}
			}
		})
	}
}

func runLockOrder(r *Report, prop string, files map[string]bool) {
	computeLockOrder(r.P)
	rule := fmt.Sprintf("R-%s-G7", prop)
	inAnchor := func(pos token.Pos) bool {
		ps := r.P.Fset.Position(pos)
		rel, err := filepath.Rel(r.P.Repo, ps.Filename)
		return err == nil && files[rel]
	}
	seen := map[string]bool{}
	for _, a := range lockOrderEdges {
		if !inAnchor(a.pos) {
			continue
		}
		k := a.from + "->" + a.to + "|" + a.fn
		if seen[k] {
			continue
		}
		seen[k] = true
		var rev *lockEdge
		for i := range lockOrderEdges {
			b := &lockOrderEdges[i]
			if b.from == a.to && b.to == a.from {
				rev = b
				break
			}
		}
		msg := fmt.Sprintf("%s is acquired while %s is held; no path acquires them in the opposite order", a.to, a.from)
		if rev != nil {
			msg = fmt.Sprintf("%s is acquired while %s is held here, and %s acquires them in the opposite order at %s: the two paths deadlock when they run together", a.to, a.from, rev.fn, r.P.Pos(rev.pos))
		}
		r.Ob(rule, a.pos, rev == nil, msg, a.fn, "lock-order:"+a.from+"->"+a.to)
	}
}

// ---------------------------------------------------------------------------
// G8 a read buffer that the loop refills is not handed on without a copy: a sub-slice of a buffer
// allocated outside a loop, filled by a Read inside the loop, must not be sent on a channel, stored
// in a field / element, or passed to a goroutine - the next iteration overwrites what the receiver
// still holds.

func bufferRoot(v ssa.Value) ssa.Value {
	for i := 0; i < 8; i++ {
		v = stripValue(v)
		if sl, ok := v.(*ssa.Slice); ok {
			v = sl.X
			continue
		}
		break
	}
	return v
}

func runReadBufferRetained(r *Report, rule string, f *ssa.Function) int {
	n := 0
	fn := r.P.FuncName(f)
	Instrs(f, func(in ssa.Instruction) {
		ci, ok := in.(*ssa.Call)
		if !ok || !InLoop(ci.Block()) {
			return
		}
		switch CalleeOf(ci).Name {
		case "Read", "ReadFrom", "ReadFromUDP", "ReadFromUDPAddrPort", "ReadMsgUDP":
		default:
			return
		}
		b := Arg(ci, 0)
		if b == nil {
			return
		}
		if st, ok := b.Type().Underlying().(*types.Slice); !ok || st.Elem().String() != "byte" {
			return
		}
		root := bufferRoot(b)
		ri, isInstr := root.(ssa.Instruction)
		if !isInstr || ri.Block() == nil || InLoop(ri.Block()) || ri.Parent() != f {
			return
		}
		switch root.(type) {
		case *ssa.Alloc, *ssa.MakeSlice, *ssa.Call:
		default:
			return
		}
		n++
		// every slice derived from the root inside the loop
		bad := ""
		var visit func(v ssa.Value, depth int)
		visit = func(v ssa.Value, depth int) {
			if depth > 4 || v.Referrers() == nil || bad != "" {
				return
			}
			for _, ref := range *v.Referrers() {
				// a parser that returns a part of what it was given (`_, _, payload, _ := parse(buf[:n])`)
				if hc, isCall := ref.(*ssa.Call); isCall && InLoop(hc.Block()) {
					h := hc.Common().StaticCallee()
					if h != nil && len(h.Blocks) > 0 && h.Pkg != nil && strings.HasPrefix(h.Pkg.Pkg.Path(), Module) {
						for ai, a := range hc.Call.Args {
							if a != v || ai >= len(h.Params) {
								continue
							}
							for _, ret := range Returns(h) {
								for j := range ret.Results {
									if _, isSl := ret.Results[j].Type().Underlying().(*types.Slice); !isSl {
										continue
									}
									if !aliases(RetVal(ret, j), h.Params[ai], map[ssa.Value]bool{}) {
										continue
									}
									var out ssa.Value = hc
									if h.Signature.Results().Len() > 1 {
										out = extractOf(hc, j)
									}
									if out == nil {
										continue
									}
									if how := retains(out, 0, map[ssa.Value]bool{}); how != "" && bad == "" {
										bad = how + " (the part of it returned by " + h.Name() + ") at " + r.P.Pos(hc.Pos())
									}
								}
							}
						}
					}
				}
				sl, ok := ref.(*ssa.Slice)
				if !ok {
					continue
				}
				if InLoop(sl.Block()) && ssa.Value(sl) != stripValue(b) {
					if how := retains(sl, 0, map[ssa.Value]bool{}); how != "" {
						bad = how + " at " + r.P.Pos(sl.Pos())
						return
					}
				}
				visit(sl, depth+1)
			}
		}
		visit(root, 0)
		r.Ob(rule, ci.Pos(), bad == "", "bytes of the buffer this loop refills are handed on only as a copy (a sub-slice of it is "+bad+": the next read overwrites what the receiver still holds)", fn, "read-buffer-not-retained")
	})
	return n
}

// ---------------------------------------------------------------------------
// G10 write after save: a field of a record is assigned after the record was handed to a persisting
// call (Create*/Update*/Save*/Store*/Put* taking the record) and the record is not persisted again
// afterwards: what is stored lacks the assignment (the caller's copy and the stored copy disagree -
// e.g. an expiry shown in the response but never stored).

var persistName = regexp.MustCompile(`^(Create|Update|Save|Store|Put)([A-Z].*)?$`)

func runWriteAfterSave(r *Report, rule string, f *ssa.Function) {
	fn := r.P.FuncName(f)
	type persist struct {
		c   ssa.CallInstruction
		rec ssa.Value
	}
	var ps []persist
	Instrs(f, func(in ssa.Instruction) {
		ci, ok := in.(*ssa.Call)
		if !ok {
			return
		}
		name := ""
		if ci.Common().IsInvoke() {
			name = ci.Common().Method.Name()
		} else if h := ci.Common().StaticCallee(); h != nil {
			name = h.Name()
		}
		viaParam := -1
		if !persistName.MatchString(name) {
			// a same-package helper that hands one of its parameters to a persisting call
			h := ci.Common().StaticCallee()
			if h == nil || h.Pkg != f.Pkg || len(h.Blocks) == 0 {
				return
			}
			Instrs(h, func(x ssa.Instruction) {
				hc, ok := x.(*ssa.Call)
				if !ok {
					return
				}
				n2 := ""
				if hc.Common().IsInvoke() {
					n2 = hc.Common().Method.Name()
				} else if g := hc.Common().StaticCallee(); g != nil {
					n2 = g.Name()
				}
				if !persistName.MatchString(n2) {
					return
				}
				for _, a := range hc.Common().Args {
					if p, isP := stripValue(a).(*ssa.Parameter); isP {
						for i, q := range h.Params {
							if q == p {
								viaParam = i
							}
						}
					}
				}
			})
			if viaParam < 0 {
				return
			}
		}
		for ai, a := range ci.Common().Args {
			if viaParam >= 0 && ai != viaParam {
				continue
			}
			pt, ok := a.Type().Underlying().(*types.Pointer)
			if !ok {
				continue
			}
			nt, ok := pt.Elem().(*types.Named)
			if !ok || nt.Obj().Pkg() == nil || !strings.HasPrefix(nt.Obj().Pkg().Path(), Module) {
				continue
			}
			if _, isSt := nt.Underlying().(*types.Struct); !isSt {
				continue
			}
			if _, isP := stripValue(a).(*ssa.Parameter); isP && ci.Common().Args[0] == a && !ci.Common().IsInvoke() {
				continue // the receiver
			}
			ps = append(ps, persist{ci, a})
		}
	})
	for _, p := range ps {
		rec := stripValue(p.rec)
		Instrs(f, func(in ssa.Instruction) {
			st, ok := in.(*ssa.Store)
			if !ok {
				return
			}
			fa, ok := st.Addr.(*ssa.FieldAddr)
			if !ok || stripValue(fa.X) != rec {
				return
			}
			after := st.Block() == p.c.Block() && Before(p.c.(ssa.Instruction), st) || (st.Block() != p.c.Block() && CanReach(p.c.Block(), st.Block()) && !CanReach(st.Block(), p.c.Block()))
			if !after {
				return
			}
			// persisted again afterwards?
			again := false
			for _, q := range ps {
				if stripValue(q.rec) != rec || q.c == p.c {
					continue
				}
				if st.Block() == q.c.Block() && Before(st, q.c.(ssa.Instruction)) || (st.Block() != q.c.Block() && CanReach(st.Block(), q.c.Block())) {
					again = true
				}
			}
			r.Ob(rule, st.Pos(), again, fmt.Sprintf("%s is assigned after the record was handed to %s and the record is not persisted again: the stored copy lacks the assignment", fieldDesc(fa.X.Type(), fa.Field), CalleeOf(p.c).Name), fn, "write-after-save:"+fieldDesc(fa.X.Type(), fa.Field))
		})
	}
}

// ---------------------------------------------------------------------------
// G11 a pooled object is not given back while a goroutine started here still holds it: an object
// obtained from a sync.Pool (directly or through a same-package getter that returns Pool.Get()),
// handed to a `go` statement, and returned to the pool by this function (Put, also deferred, also
// through a same-package release helper) can be re-issued to another caller while the goroutine is
// still using it.

func poolGets(f *ssa.Function) []ssa.Value {
	var out []ssa.Value
	Instrs(f, func(in ssa.Instruction) {
		c, ok := in.(*ssa.Call)
		if !ok {
			return
		}
		if CalleeOf(c).Is("sync:Pool.Get") {
			out = append(out, c)
			return
		}
		if h := c.Common().StaticCallee(); h != nil && h.Pkg == f.Pkg && len(h.Blocks) > 0 && len(Calls(h, false, "sync:Pool.Get")) > 0 {
			for _, ret := range Returns(h) {
				for i := range ret.Results {
					if cc, _ := CallOfValue(RetVal(ret, i)); cc != nil && CalleeOf(cc).Is("sync:Pool.Get") {
						out = append(out, c)
						return
					}
				}
			}
		}
	})
	return out
}

func runPooledObjectEscapes(r *Report, rule string, f *ssa.Function) {
	fn := r.P.FuncName(f)
	roots := poolGets(f)
	// a parameter this function gives back to a pool (directly or through a release helper) is a
	// pooled object as well
	Instrs(f, func(in ssa.Instruction) {
		ci, ok := in.(ssa.CallInstruction)
		if !ok {
			return
		}
		puts := CalleeOf(ci).Is("sync:Pool.Put")
		if h := ci.Common().StaticCallee(); !puts && h != nil && h.Pkg == f.Pkg && len(h.Blocks) > 0 && len(Calls(h, false, "sync:Pool.Put")) > 0 {
			puts = true
		}
		if !puts {
			return
		}
		for _, a := range ci.Common().Args {
			av := stripValue(a)
			// a parameter spilled to a cell because a closure captures it
			if u, ok := av.(*ssa.UnOp); ok && u.Op == token.MUL {
				if al, ok := u.X.(*ssa.Alloc); ok {
					for _, st := range storesTo(al) {
						if pp, ok := st.Val.(*ssa.Parameter); ok {
							av = pp
						}
					}
				}
			}
			if p, isP := av.(*ssa.Parameter); isP && p.Parent() == f {
				dup := false
				for _, x := range roots {
					if x == ssa.Value(p) {
						dup = true
					}
				}
				if !dup {
					roots = append(roots, p)
				}
			}
		}
	})
	for _, g := range roots {
		// values derived from the pooled object (type assertions, conversions, loads of a cell it was stored in)
		derived := map[ssa.Value]bool{g: true}
		for round := 0; round < 4; round++ {
			Instrs(f, func(in ssa.Instruction) {
				switch x := in.(type) {
				case *ssa.TypeAssert:
					if derived[x.X] {
						derived[x] = true
					}
				case *ssa.Extract:
					if derived[x.Tuple] {
						derived[x] = true
					}
				case *ssa.ChangeType:
					if derived[x.X] {
						derived[x] = true
					}
				case *ssa.MakeInterface:
					if derived[x.X] {
						derived[x] = true
					}
				case *ssa.Store:
					if derived[x.Val] {
						if al, ok := x.Addr.(*ssa.Alloc); ok {
							derived[al] = true
						}
					}
				case *ssa.UnOp:
					if x.Op == token.MUL && derived[x.X] {
						derived[x] = true
					}
				}
			})
		}
		isPut := func(ci ssa.CallInstruction) bool {
			if CalleeOf(ci).Is("sync:Pool.Put") {
				for _, a := range ci.Common().Args {
					if derived[a] {
						return true
					}
				}
				return false
			}
			if h := ci.Common().StaticCallee(); h != nil && h.Pkg == f.Pkg && len(h.Blocks) > 0 && len(Calls(h, false, "sync:Pool.Put")) > 0 {
				for _, a := range ci.Common().Args {
					if derived[a] {
						return true
					}
				}
			}
			return false
		}
		given := false
		Instrs(f, func(in ssa.Instruction) {
			if ci, ok := in.(ssa.CallInstruction); ok && isPut(ci) {
				given = true
			}
		})
		if !given {
			continue
		}
		bad := token.NoPos
		Instrs(f, func(in ssa.Instruction) {
			gs, ok := in.(*ssa.Go)
			if !ok {
				return
			}
			for _, a := range gs.Call.Args {
				if derived[a] {
					bad = gs.Pos()
				}
			}
			if mc, ok := gs.Call.Value.(*ssa.MakeClosure); ok {
				for _, b := range mc.Bindings {
					if derived[b] {
						bad = gs.Pos()
					}
				}
			}
		})
		pos := g.Pos()
		if bad != token.NoPos {
			pos = bad
		}
		r.Ob(rule, pos, bad == token.NoPos, "an object taken from a pool and given back by this function is not handed to a goroutine started here (the goroutine may outlive the function - e.g. on a timeout path - and then works on an object the pool has re-issued to another caller)", fn, "pooled-object-not-shared-with-goroutine")
	}
}

// ---------------------------------------------------------------------------
// G12 an error that was just found non-nil is not reset to nil after being only logged:
// `if err != nil { log(err); err = nil }` turns a failure into a success for everything that
// follows (a sentinel test such as `err == ErrKeyNotFound` is a different matter and is not touched).

func runErrorSwallowed(r *Report, rule string, f *ssa.Function) {
	fn := r.P.FuncName(f)
	Instrs(f, func(in ssa.Instruction) {
		ph, ok := in.(*ssa.Phi)
		if !ok || ph.Type().String() != "error" {
			return
		}
		for i, e := range ph.Edges {
			if !isNil(e) {
				continue
			}
			pred := ph.Block().Preds[i]
			// the variable's previous value: another edge of this phi
			for j, o := range ph.Edges {
				if j == i || isNil(o) {
					continue
				}
				known := false
				for _, ft := range Facts(pred) {
					if x, isnil, ok := ft.FactNil(); ok && !isnil && (x == o || stripValue(x) == stripValue(o)) {
						known = true
					}
				}
				if !known {
					continue
				}
				// used for anything but logging on the way? (wrapped, appended, returned, compared with a sentinel)
				used := false
				if o.Referrers() != nil {
					for _, ref := range *o.Referrers() {
						ri, ok := ref.(ssa.Instruction)
						if !ok || ri.Block() == nil || !(ri.Block() == pred || pred.Dominates(ri.Block()) || ri.Block().Dominates(pred)) {
							continue
						}
						switch x := ref.(type) {
						case *ssa.Return, *ssa.Store, *ssa.Send:
							used = true
						case *ssa.BinOp:
							if !isNil(x.X) && !isNil(x.Y) {
								used = true // compared with a sentinel: a deliberate classification
							}
						case ssa.CallInstruction:
							c := CalleeOf(x)
							if !strings.Contains(c.Pkg, "log") && !strings.Contains(c.Pkg, "dispose") && c.Pkg != "fmt" {
								used = true
							}
						case *ssa.MakeInterface:
							if x.Referrers() != nil {
								for _, r2 := range *x.Referrers() {
									if ci, ok := r2.(ssa.CallInstruction); ok {
										c := CalleeOf(ci)
										if !strings.Contains(c.Pkg, "log") && !strings.Contains(c.Pkg, "dispose") && c.Pkg != "fmt" {
											used = true
										}
									} else if _, isStore := r2.(*ssa.Store); !isStore {
										used = true
									}
								}
							}
						case *ssa.Phi:
							if x != ph {
								used = true
							}
						}
					}
				}
				r.Ob(rule, pred.Instrs[len(pred.Instrs)-1].Pos(), used, "an error just found non-nil is reset to nil after being at most logged: the failure is reported as success to everything that follows", fn, "error-not-swallowed")
			}
		}
	})
}

// errorClassified: on this path the non-nil error was also recognised as a particular one (a predicate
// such as IsNotFound(err) / errors.Is(err, X) answered true, or err == sentinel): what the code does
// next is its deliberate answer to that condition (an idempotent delete reports success when the
// object is already gone), not a failure acknowledged as success by accident.
func errorClassified(facts []Fact, errs []ssa.Value) bool {
	isErr := func(v ssa.Value) bool {
		v = stripValue(v)
		for _, e := range errs {
			if stripValue(e) == v || sameExpr(stripValue(e), v) {
				return true
			}
		}
		return false
	}
	for _, ft := range facts {
		if c, ok := ft.Cond.(*ssa.Call); ok && ft.Pol {
			for _, a := range c.Call.Args {
				if isErr(a) {
					return true
				}
			}
		}
		if bo, ok := ft.Cond.(*ssa.BinOp); ok && ((bo.Op == token.EQL && ft.Pol) || (bo.Op == token.NEQ && !ft.Pol)) {
			if (isErr(bo.X) && !isNil(bo.Y)) || (isErr(bo.Y) && !isNil(bo.X)) {
				return true
			}
		}
	}
	return false
}

// errorConsulted: on the way to b a predicate was asked about the error (a bool-returning call that
// takes it, branched on): `if !Is(err, A) && !IsNotFound(err) { return failure }` leaves the success
// answer reachable only for the errors the predicates recognised, through a join no single edge dominates.
func errorConsulted(b *ssa.BasicBlock, errs []ssa.Value) bool {
	isErr := func(v ssa.Value) bool {
		v = stripValue(v)
		for _, e := range errs {
			if stripValue(e) == v || sameExpr(stripValue(e), v) {
				return true
			}
		}
		return false
	}
	for d := b; d != nil; d = d.Idom() {
		for _, in := range d.Instrs {
			c, ok := in.(*ssa.Call)
			if !ok || c.Type().String() != "bool" {
				continue
			}
			for _, a := range c.Call.Args {
				if isErr(a) {
					return true
				}
			}
		}
	}
	return false
}
