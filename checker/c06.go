package main

import (
	"fmt"
	"go/token"
	"strings"

	"golang.org/x/tools/go/ssa"
)

func init() {
	register(&PropCheck{
		ID: "C06",
		Explanation: "Static rules on connection-code activation (cloud/services/conncode/activation.go, models/tunnel_connection_code.go, repos/connection_code_repository.go). " +
			"R-C06-1: the success return of ActivateConnectionCode is dominated, in this order, by the validity test, the atomic one-time claim, the successful creation of the mapping, the marking of the code and the successful update of the record. " +
			"R-C06-2: every failure return after the mapping was created deletes exactly that mapping, and every failure return after the claim releases it. " +
			"R-C06-3: in the mapping that is created the target client and target address (and the host/port parsed from it) originate from the code record only, the listen side from the request. " +
			"R-C06-4: the validity predicate is false for revoked, activated and expired codes; Activate is guarded by it; Revoke refuses an activated code. " +
			"R-C06-5: the claim is a set-if-absent on a key derived from the code, in the shared storage tier, taken by both activation and revocation before their first write. " +
			"Decides these necessary conditions; does not decide storage-failure orders beyond the rollback edges or clock skew.",
		Run: runC06,
		Mutants: []Mutant{
			{Name: "validity-test-dropped", File: "internal/cloud/services/conncode/activation.go", Rule: "R-C06-1",
				Old: "if !connCode.CanBeActivatedBy(req.ListenClientID) {\n\t\tif connCode.IsRevoked {", New: "if !connCode.CanBeActivatedBy(req.ListenClientID) && req.ListenClientID < 0 {\n\t\tif connCode.IsRevoked {"},
			{Name: "claim-after-create", File: "internal/cloud/services/conncode/activation.go", Rule: "R-C06-1",
				Old: "\tif !claimed {\n\t\treturn nil, coreerrors.New(coreerrors.CodeConflict, \"connection code has already been used\")\n\t}\n\n\t// 7.", New: "\tif !claimed && req.Code == \"\" {\n\t\treturn nil, coreerrors.New(coreerrors.CodeConflict, \"connection code has already been used\")\n\t}\n\n\t// 7."},
			{Name: "creator-fails-after-store", File: "internal/cloud/services/port_mapping_service.go", Rule: "R-C06-2",
				Old: "\t\t\ts.baseService.LogWarning(\"add mapping to listen client list\", err)\n", New: "\t\t\treturn nil, s.baseService.WrapError(err, \"add mapping to listen client list\")\n"},
			{Name: "rollback-forgotten-on-update-failure", File: "internal/cloud/services/conncode/activation.go", Rule: "R-C06-2",
				Old: "\tif err := s.connCodeRepo.Update(connCode); err != nil {\n\t\t// 回滚：删除已创建的映射（忽略删除错误，主流程已失败）\n\t\t_ = s.portMappingService.DeletePortMapping(createdMapping.ID)\n\t\ts.connCodeRepo.ReleaseClaim(req.Code)\n\t\treturn nil, coreerrors.Wrap(err, coreerrors.CodeStorageError, \"failed to update connection code\")",
				New: "\tif err := s.connCodeRepo.Update(connCode); err != nil {\n\t\ts.connCodeRepo.ReleaseClaim(req.Code)\n\t\treturn nil, coreerrors.Wrap(err, coreerrors.CodeStorageError, \"failed to update connection code\")"},
			{Name: "target-from-request", File: "internal/cloud/services/conncode/activation.go", Rule: "R-C06-3",
				Old: "TargetClientID: connCode.TargetClientID,\n", New: "TargetClientID: req.ListenClientID,\n"},
			{Name: "validity-ignores-revoked", File: "internal/cloud/models/tunnel_connection_code.go", Rule: "R-C06-4",
				Old: "\tif c.IsRevoked {\n\t\treturn false\n\t}\n\tif c.IsActivated {\n\t\treturn false\n\t}\n\tif c.IsExpired() {", New: "\tif c.IsActivated {\n\t\treturn false\n\t}\n\tif c.IsExpired() {"},
			{Name: "claim-not-atomic", File: "internal/cloud/repos/connection_code_repository.go", Rule: "R-C06-5",
				Old: "\treturn casStore.SetNX(constants.KeyPrefixRuntimeConnectionCodeClaim+code, \"1\", ttl)", New: "\t_ = casStore\n\tkey := constants.KeyPrefixRuntimeConnectionCodeClaim + code\n\tif ok, _ := r.storage.Exists(key); ok {\n\t\treturn false, nil\n\t}\n\treturn true, r.storage.Set(key, \"1\", ttl)"},
		},
	})
}

const ccPkg = "internal/cloud/services/conncode"

func runC06(r *Report) {
	act := r.need("R-C06-1", ccPkg, "Service.ActivateConnectionCode")
	if act == nil {
		return
	}
	one := func(spec string) ssa.CallInstruction {
		cs := Calls(act, false, spec)
		if len(cs) == 0 {
			// the step may be wrapped in a same-package helper that performs it once and hands its
			// result back (lookupCode-style): the helper's call is then the step's site
			Instrs(act, func(in ssa.Instruction) {
				hc, ok := in.(*ssa.Call)
				if !ok {
					return
				}
				h := hc.Common().StaticCallee()
				if h == nil || h.Pkg != act.Pkg || len(h.Blocks) == 0 || h == act {
					return
				}
				inner := Calls(h, false, spec)
				if len(inner) != 1 {
					return
				}
				passes := false
				for _, ret := range Returns(h) {
					if RetErrKind(ret) == "nil" && len(ret.Results) > 0 && valueIsResultOf(RetVal(ret, 0), inner[0], 0) {
						passes = true
					}
				}
				res := h.Signature.Results()
				if passes || res.Len() <= 1 || res.At(res.Len()-1).Type().String() == "error" {
					cs = append(cs, hc)
				}
			})
		}
		if len(cs) != 1 {
			r.Fail("R-C06-1", act.Pos(), fmt.Sprintf("expected exactly one call of %s in ActivateConnectionCode, found %d", spec, len(cs)), "ActivateConnectionCode", "anchor:"+spec)
			return nil
		}
		return cs[0]
	}
	valid := one("TunnelConnectionCode.CanBeActivatedBy")
	claim := one("ConnectionCodeRepository.ClaimForUse")
	create := one("CreatePortMapping")
	mark := one("TunnelConnectionCode.Activate")
	upd := one("ConnectionCodeRepository.Update")
	get := one("ConnectionCodeRepository.GetByCode")
	if valid == nil || claim == nil || create == nil || mark == nil || upd == nil || get == nil {
		return
	}
	// ---- R-C06-1 order on the success path ---------------------------------------
	for _, ret := range Returns(act) {
		if RetErrKind(ret) != "nil" {
			continue
		}
		b := ret.Block()
		_, vpol, vfound := CallFact(b, "TunnelConnectionCode.CanBeActivatedBy")
		claimedOK := claimWonAt(b, claim)
		steps := []struct {
			what string
			ok   bool
		}{
			{"validity test CanBeActivatedBy()==true", vfound && vpol},
			{"atomic claim succeeded (claimed==true, no error)", claimedOK},
			{"mapping created without error", ErrOK(b, create)},
			{"code marked activated without error", ErrOK(b, mark)},
			{"code record updated without error", ErrOK(b, upd)},
		}
		for _, s := range steps {
			r.Ob("R-C06-1", ret.Pos(), s.ok, "success return is dominated by: "+s.what, "ActivateConnectionCode", "success-needs:"+s.what)
		}
		// the mapping returned is the created one
		c, idx := CallOfValue(RetVal(ret, 0))
		r.Ob("R-C06-1", ret.Pos(), c != nil && ssa.CallInstruction(c) == create && idx == 0, "the mapping returned is the one that was created", "ActivateConnectionCode", "returns-created")
	}
	seq := []ssa.CallInstruction{get, valid, claim, create, mark, upd}
	names := []string{"GetByCode", "CanBeActivatedBy", "ClaimForUse", "CreatePortMapping", "Activate", "Update"}
	for i := 0; i+1 < len(seq); i++ {
		r.Ob("R-C06-1", CallPos(seq[i+1]), Before(seq[i].(ssa.Instruction), seq[i+1].(ssa.Instruction)), names[i]+" precedes "+names[i+1]+" on every path", "ActivateConnectionCode", "order:"+names[i]+"<"+names[i+1])
	}
	// the validity test is on the record that was read for req.Code
	r.Ob("R-C06-1", CallPos(valid), valueIsResultOf(Recv(valid), get, 0), "validity is tested on the record read by GetByCode", "ActivateConnectionCode", "validity-of-read-record")
	r.Ob("R-C06-1", CallPos(get), originSummary(Arg(get, 0)) == "field:ActivateRequest.Code(param:req)", "the record is read for req.Code", "ActivateConnectionCode", "read-by-code")

	// ---- R-C06-2 rollback ------------------------------------------------------------
	created := extractOf(create, 0)
	isDeleteCreated := func(in ssa.Instruction) bool {
		ci, ok := in.(ssa.CallInstruction)
		if !ok || CalleeOf(ci).Name != "DeletePortMapping" {
			return false
		}
		_, f, base, ok := FieldOf(ci.Common().Args[0])
		return ok && f == "ID" && base == created
	}
	isRelease := func(in ssa.Instruction) bool {
		ci, ok := in.(ssa.CallInstruction)
		return ok && CalleeOf(ci).Is("ConnectionCodeRepository.ReleaseClaim") && originSummary(Arg(ci, 0)) == "field:ActivateRequest.Code(param:req)"
	}
	// a same-package helper that performs the action on every one of its paths counts as the action
	throughHelper := func(direct func(ssa.Instruction) bool, calleeName string) func(ssa.Instruction) bool {
		return func(in ssa.Instruction) bool {
			if direct(in) {
				return true
			}
			ci, ok := in.(ssa.CallInstruction)
			if !ok {
				return false
			}
			g := CalleeOf(ci).Fn
			if g == nil || g.Pkg != act.Pkg || len(g.Blocks) == 0 || g == act {
				return false
			}
			all, _ := exitsPass(g, func(x ssa.Instruction) bool {
				c2, ok := x.(ssa.CallInstruction)
				return ok && CalleeOf(c2).Name == calleeName
			})
			return all
		}
	}
	isDeleteCreatedH := throughHelper(isDeleteCreated, "DeletePortMapping")
	isReleaseH := throughHelper(isRelease, "ReleaseClaim")
	checkAfter := func(rule string, anchor ssa.CallInstruction, via func(ssa.Instruction) bool, what, key string) {
		var start *ssa.BasicBlock
		for _, b := range act.Blocks {
			if ErrOK(b, anchor) && (start == nil || b.Dominates(start)) {
				start = b
			}
		}
		if start == nil {
			r.Fail(rule, CallPos(anchor), "success edge of "+CalleeOf(anchor).Name+" not found", "ActivateConnectionCode", key)
			return
		}
		hits := WalkFrom(start, nil, func(in ssa.Instruction) int {
			if OrDeferred(via)(in) {
				return Stop
			}
			if ret, ok := in.(*ssa.Return); ok {
				if RetErrKind(ret) != "nil" {
					return Hit
				}
				return Stop
			}
			return Cont
		}, nil)
		pos := CallPos(anchor)
		if len(hits) > 0 {
			pos = hits[0].Pos()
		}
		r.Ob(rule, pos, len(hits) == 0, what, "ActivateConnectionCode", key)
	}
	checkAfter("R-C06-2", create, isDeleteCreatedH, "every failure return after the mapping was created deletes the created mapping (a failed activation leaves no mapping behind)", "rollback-mapping")
	// claim success edge: ErrOK(claim) and claimed == true; use the block where both hold
	var claimBlk *ssa.BasicBlock
	for _, b := range act.Blocks {
		if claimWonAt(b, claim) && (claimBlk == nil || b.Dominates(claimBlk)) {
			claimBlk = b
		}
	}
	if claimBlk == nil {
		r.Fail("R-C06-2", CallPos(claim), "no block is dominated by a successful claim", "ActivateConnectionCode", "rollback-claim")
	} else {
		hits := WalkFrom(claimBlk, nil, func(in ssa.Instruction) int {
			if OrDeferred(isReleaseH)(in) {
				return Stop
			}
			if ret, ok := in.(*ssa.Return); ok {
				if RetErrKind(ret) != "nil" {
					return Hit
				}
				return Stop
			}
			return Cont
		}, nil)
		pos := CallPos(claim)
		if len(hits) > 0 {
			pos = hits[0].Pos()
		}
		r.Ob("R-C06-2", pos, len(hits) == 0, "every failure return after the claim releases it (otherwise a failed activation burns the code)", "ActivateConnectionCode", "rollback-claim")
	}

	// the claim is kept when the operation succeeds (it is what makes the code one-time)
	keepClaim := func(f *ssa.Function, name string) {
		for _, g := range WithAnon(f) {
			Instrs(g, func(in ssa.Instruction) {
				ci, ok := in.(ssa.CallInstruction)
				if !ok || !CalleeOf(ci).Is("ConnectionCodeRepository.ReleaseClaim") {
					return
				}
				bad := false
				if g != f && releaseDisarmedOnSuccess(f, g, in) {
					// a deferred release behind a captured flag that every success exit has switched off
				} else if _, isDefer := in.(*ssa.Defer); isDefer || g != f {
					bad = true // a deferred release also runs on the success exit
				} else {
					hits := WalkFrom(nil, in, func(x ssa.Instruction) int {
						if ret, ok := x.(*ssa.Return); ok && RetErrKind(ret) == "nil" {
							return Hit
						}
						return Cont
					}, nil)
					bad = len(hits) > 0
				}
				r.Ob("R-C06-2", CallPos(ci), !bad, "the one-time claim is released only on failure paths: releasing it after a success lets a stale concurrent activation (or revocation) use the code again", name, "claim-kept-on-success")
			})
		}
	}
	keepClaim(act, "ActivateConnectionCode")
	if rv := r.P.Fn(ccPkg, "Service.RevokeConnectionCode"); rv != nil {
		keepClaim(rv, "RevokeConnectionCode")
	}

	// the creation primitive the activation relies on is all-or-nothing: once the record is stored,
	// CreatePortMapping either succeeds or removes the record again (the activation rolls back only
	// a mapping it received; a mapping stored by a create that then reports failure would stay active)
	if cpm := r.need("R-C06-2", "internal/cloud/services", "portMappingService.CreatePortMapping"); cpm != nil {
		stores := Calls(cpm, false, "PortMappingRepository.CreatePortMapping", "PortMappingRepo.CreatePortMapping", "CreatePortMapping")
		var store ssa.CallInstruction
		for _, c := range stores {
			if c.Parent() == cpm {
				store = c
			}
		}
		if store == nil {
			r.Fail("R-C06-2", cpm.Pos(), "the repository call that stores the mapping was not found", "CreatePortMapping", "creator-all-or-nothing")
		} else {
			var start *ssa.BasicBlock
			for _, b := range cpm.Blocks {
				if ErrOK(b, store) && (start == nil || b.Dominates(start)) {
					start = b
				}
			}
			bad := token.NoPos
			if start == nil {
				bad = CallPos(store)
			} else {
				hits := WalkFrom(start, nil, func(in ssa.Instruction) int {
					if ci, ok := in.(ssa.CallInstruction); ok && CalleeOf(ci).Name == "DeletePortMapping" {
						return Stop
					}
					if ret, ok := in.(*ssa.Return); ok {
						if RetErrKind(ret) != "nil" {
							return Hit
						}
						return Stop
					}
					return Cont
				}, nil)
				if len(hits) > 0 {
					bad = hits[0].Pos()
				}
			}
			pos := CallPos(store)
			if bad != token.NoPos {
				pos = bad
			}
			r.Ob("R-C06-2", pos, bad == token.NoPos, "CreatePortMapping never reports failure after the record was stored without deleting it (a failed activation must leave no mapping)", "CreatePortMapping", "creator-all-or-nothing")
		}
	}

	// ---- R-C06-3 what the mapping binds -------------------------------------------------
	mappingArg := Arg(create, 0)
	fields := map[string]string{}
	Instrs(act, func(in ssa.Instruction) {
		st, ok := in.(*ssa.Store)
		if !ok {
			return
		}
		t, f, base, ok := FieldOf(st.Addr)
		if !ok || t != "PortMapping" || base != mappingArg {
			return
		}
		fields[f] = originSummary(st.Val)
	})
	wantFrom := map[string]string{
		"TargetClientID": "field:TunnelConnectionCode.TargetClientID", "TargetAddress": "field:TunnelConnectionCode.TargetAddress",
		"TargetHost": "ParseTargetAddress", "TargetPort": "ParseTargetAddress",
		"ListenClientID": "field:ActivateRequest.ListenClientID(param:req)", "ListenAddress": "field:ActivateRequest.ListenAddress(param:req)",
	}
	for f, w := range wantFrom {
		o, set := fields[f]
		good := set && strings.Contains(o, w)
		if strings.HasPrefix(f, "Target") {
			good = good && !strings.Contains(o, "param:req")
		}
		r.Ob("R-C06-3", CallPos(create), good, fmt.Sprintf("mapping.%s comes from %s (found: %s)", f, w, o), "ActivateConnectionCode", "binds:"+f)
	}
	for _, pt := range Calls(act, false, "ParseTargetAddress") {
		o := originSummary(Arg(pt, 0))
		r.Ob("R-C06-3", CallPos(pt), strings.HasPrefix(o, "field:TunnelConnectionCode.TargetAddress"), "target host/port are parsed from "+o+" (want the address fixed in the code record)", "ActivateConnectionCode", "target-parsed-from-code")
	}

	// ---- R-C06-4 model predicates --------------------------------------------------------
	const modPkg = "internal/cloud/models"
	if iv := r.need("R-C06-4", modPkg, "TunnelConnectionCode.IsValidForActivation"); iv != nil {
		for _, ret := range Returns(iv) {
			if b, ok := ConstBool(RetVal(ret, 0)); !ok || !b {
				continue
			}
			rev, actv, exp := false, false, false
			for _, ft := range Facts(ret.Block()) {
				if _, f, _, ok := FieldOf(ft.Cond); ok && !ft.Pol {
					if f == "IsRevoked" {
						rev = true
					}
					if f == "IsActivated" {
						actv = true
					}
				}
				if c, ok := stripValue(ft.Cond).(*ssa.Call); ok && CalleeOf(c).Is("TunnelConnectionCode.IsExpired") && !ft.Pol {
					exp = true
				}
			}
			r.Ob("R-C06-4", ret.Pos(), rev && actv && exp, fmt.Sprintf("`return true` of the validity predicate is dominated by !IsRevoked (%v), !IsActivated (%v), !IsExpired() (%v)", rev, actv, exp), "IsValidForActivation", "predicate")
		}
	}
	if cb := r.need("R-C06-4", modPkg, "TunnelConnectionCode.CanBeActivatedBy"); cb != nil {
		for _, ret := range Returns(cb) {
			if b, ok := ConstBool(RetVal(ret, 0)); ok && b {
				_, pol, found := CallFact(ret.Block(), "TunnelConnectionCode.IsValidForActivation")
				r.Ob("R-C06-4", ret.Pos(), found && pol, "CanBeActivatedBy returns true only under IsValidForActivation()", "CanBeActivatedBy", "predicate")
			}
		}
	}
	if am := r.need("R-C06-4", modPkg, "TunnelConnectionCode.Activate"); am != nil {
		Instrs(am, func(in ssa.Instruction) {
			st, ok := in.(*ssa.Store)
			if !ok {
				return
			}
			if _, f, _, ok := FieldOf(st.Addr); ok && f == "IsActivated" {
				_, pol, found := CallFact(st.Block(), "TunnelConnectionCode.CanBeActivatedBy", "TunnelConnectionCode.IsValidForActivation")
				r.Ob("R-C06-4", st.Pos(), found && pol, "the code is marked activated only while it is valid for activation", "Activate", "guarded-mark")
			}
		})
	}
	if rv := r.need("R-C06-4", modPkg, "TunnelConnectionCode.Revoke"); rv != nil {
		Instrs(rv, func(in ssa.Instruction) {
			st, ok := in.(*ssa.Store)
			if !ok {
				return
			}
			if _, f, _, ok := FieldOf(st.Addr); ok && f == "IsRevoked" {
				okA := false
				for _, ft := range Facts(st.Block()) {
					if _, f2, _, ok := FieldOf(ft.Cond); ok && f2 == "IsActivated" && !ft.Pol {
						okA = true
					}
				}
				r.Ob("R-C06-4", st.Pos(), okA, "an activated code cannot be revoked", "Revoke", "guarded-revoke")
			}
		})
	}

	// ---- R-C06-5 the claim is atomic, shared, and taken by both users ------------------------
	if cf := r.need("R-C06-5", reposPkg, "ConnectionCodeRepository.ClaimForUse"); cf != nil {
		nx := Calls(cf, false, "SetNX")
		okNX := len(nx) == 1
		prefix := ""
		if okNX {
			for _, rt := range Origins(nx[0].Common().Args[0]) {
				_ = rt
			}
			// the key is evaluated from the source with the code parameter left symbolic (directly, or
			// through a key helper such as claimKey(code))
			env := map[*ssa.Parameter]string{}
			for _, pp := range cf.Params {
				if canonParamName(pp) == "code" {
					env[pp] = "\x00CODE\x00"
				}
			}
			key, okKey := evalString(nx[0].Common().Args[0], env, 0)
			if i := strings.Index(key, "\x00CODE\x00"); okKey && i >= 0 {
				prefix = key[:i]
			}
			r.Ob("R-C06-5", CallPos(nx[0]), okKey && strings.Contains(key, "\x00CODE\x00") && prefix != "", "the claim key is a constant prefix followed by the code ("+strings.ReplaceAll(key, "\x00", "")+")", "ClaimForUse", "claim-key")
			// result returned unchanged
			for _, ret := range Returns(cf) {
				if c, idx := CallOfValue(RetVal(ret, 0)); c != nil && ssa.CallInstruction(c) == nx[0] {
					r.Ob("R-C06-5", ret.Pos(), idx == 0, "the set-if-absent verdict is returned unchanged", "ClaimForUse", "claim-verdict")
				}
			}
		}
		// no non-atomic emulation (Exists followed by Set)
		emul := len(Calls(cf, false, "Exists")) > 0 || len(Calls(cf, false, "Set")) > 0 || len(Calls(cf, false, "Get")) > 0
		r.Ob("R-C06-5", cf.Pos(), okNX && !emul, "the claim is a single SetNX (no Exists/Get followed by Set)", "ClaimForUse", "claim-atomic")
		cat := hybridCategory(r, prefix)
		r.Ob("R-C06-5", cf.Pos(), cat == "shared", fmt.Sprintf("claim key prefix %q classifies as %q in the hybrid configuration (want shared: one claim for the whole cluster)", prefix, cat), "ClaimForUse", "claim-shared")
	}
	// activation and revocation claim the same thing: the code string itself (claiming the record id
	// in one place and the code in the other makes the two claims independent)
	for _, nm := range []string{"Service.ActivateConnectionCode", "Service.RevokeConnectionCode"} {
		if fn := r.P.Fn(ccPkg, nm); fn != nil {
			for _, c := range Calls(fn, false, "ConnectionCodeRepository.ClaimForUse", "ConnectionCodeRepository.ReleaseClaim") {
				o := originSummary(Arg(c, 0))
				r.Ob("R-C06-5", CallPos(c), o == "param:code" || o == "field:ActivateRequest.Code(param:req)", CalleeOf(c).Name+" is applied to the code the caller presented ("+o+")", nm, "claims-the-code:"+CalleeOf(c).Name)
			}
		}
	}
	if rv := r.need("R-C06-5", ccPkg, "Service.RevokeConnectionCode"); rv != nil {
		cl := Calls(rv, false, "ConnectionCodeRepository.ClaimForUse")
		if len(cl) == 0 {
			// the claim step shared with the activation (`s.claimCode(code, connCode, msg)`)
			Instrs(rv, func(in ssa.Instruction) {
				if hc, ok := in.(*ssa.Call); ok && len(cl) == 0 {
					if h := hc.Common().StaticCallee(); h != nil && h.Pkg == rv.Pkg && len(h.Blocks) > 0 && len(Calls(h, false, "ConnectionCodeRepository.ClaimForUse")) == 1 {
						cl = append(cl, hc)
					}
				}
			})
		}
		up := Calls(rv, false, "ConnectionCodeRepository.Update")
		ok := len(cl) == 1 && len(up) == 1
		if ok {
			ok = claimWonAt(up[0].Block(), cl[0])
		}
		r.Ob("R-C06-5", rv.Pos(), ok, "revocation writes the record only after winning the same one-time claim (a concurrent activation and revocation cannot both succeed)", "RevokeConnectionCode", "revoke-claims")
	}
}

// valueIsResultOf: v is result #idx of call c (through spills/phis).
func valueIsResultOf(v ssa.Value, c ssa.CallInstruction, idx int) bool {
	cc, i := CallOfValue(v)
	return cc != nil && ssa.CallInstruction(cc) == c && (i == idx || (idx == 0 && i == -1))
}

// claimWonAt: at block b the one-time claim is known to have been won: the ClaimForUse call
// returned (true, nil), or - when the step is a helper that returns only an error - the helper
// returned nil and every nil return of the helper is dominated by its ClaimForUse having returned
// (true, nil).
func claimWonAt(b *ssa.BasicBlock, claim ssa.CallInstruction) bool {
	direct := func(at *ssa.BasicBlock, c ssa.CallInstruction) bool {
		if !ErrOK(at, c) {
			return false
		}
		cv := extractOf(c, 0)
		for _, ft := range Facts(at) {
			if ft.Cond == cv && ft.Pol {
				return true
			}
		}
		return false
	}
	if CalleeOf(claim).Name == "ClaimForUse" {
		return direct(b, claim)
	}
	cc, ok := claim.(*ssa.Call)
	if !ok || !ErrOK(b, claim) {
		return false
	}
	h := cc.Common().StaticCallee()
	if h == nil || len(h.Blocks) == 0 {
		return false
	}
	inner := Calls(h, false, "ConnectionCodeRepository.ClaimForUse")
	if len(inner) != 1 {
		return false
	}
	n := 0
	for _, ret := range Returns(h) {
		if RetErrKind(ret) == "nonnil" {
			continue
		}
		n++
		if !direct(ret.Block(), inner[0]) {
			return false
		}
	}
	return n > 0
}

// releaseDisarmedOnSuccess: the release in closure g runs only while a captured bool has the value p,
// and every success return of f is preceded on all paths by a store of !p into that variable
// (`done := false; defer func() { if !done { release() } }(); ...; done = true; return nil`).
func releaseDisarmedOnSuccess(f, g *ssa.Function, rel ssa.Instruction) bool {
	for _, ft := range Facts(rel.Block()) {
		ld, ok := ft.Cond.(*ssa.UnOp)
		if !ok || ld.Op != token.MUL {
			continue
		}
		fv, ok := ld.X.(*ssa.FreeVar)
		if !ok {
			continue
		}
		runsWhen := ft.Pol
		var cell *ssa.Alloc
		for _, bv := range freeVarBindings(fv) {
			if al, ok := bv.(*ssa.Alloc); ok && al.Parent() == f {
				cell = al
			}
		}
		if cell == nil {
			continue
		}
		disarm := func(in ssa.Instruction) bool {
			st, ok := in.(*ssa.Store)
			if !ok || st.Addr != ssa.Value(cell) {
				return false
			}
			b, isC := ConstBool(st.Val)
			return isC && b != runsWhen
		}
		n, all := 0, true
		for _, ret := range Returns(f) {
			if RetErrKind(ret) != "nil" {
				continue
			}
			n++
			if !MustPass(f, ret, disarm) {
				all = false
			}
		}
		if n > 0 && all {
			return true
		}
	}
	return false
}
