package main

import (
	"fmt"
	"go/token"
	"sort"
	"strings"

	"golang.org/x/tools/go/ssa"
)

func init() {
	register(&PropCheck{
		ID: "C16",
		Explanation: "Static rules on shutdown paths (core/dispose, client/tunnel, session/tunnel bridge, stream processor, memory storage). " +
			"R-C16-1: Dispose.Close runs the cleanup handlers only on the not-yet-closed edge of the closed flag, sets the flag first, all under currentLock, and is the only caller of runCleanHandlers. " +
			"R-C16-2: the exactly-once actions of component close bodies are latched: Tunnel.Close's body is dominated by the success of a compare-and-swap from the freshly loaded state to Closing; close(ready) of the bridge happens inside sync.Once; Bridge.Close closes each end only if still set and clears it under a lock; the traffic report reads, adds and stores its totals under one mutex; StopCleanup closes its stop channel only under the running flag it then clears. " +
			"R-C16-3: operations after close fail cleanly: every use of the stream processor's reader/writer is dominated by the successful acquire of the read/write lock (which tests closed and nil); every write into the memory storage's map is preceded by the nil-map re-initialisation. " +
			"R-C16-4: every goroutine started by these components either has no loop or its loops leave on the component's context / stop channel, and every ticker or timer they create is stopped. " +
			"Decides these necessary conditions; does not decide goroutine counts at run time or re-entrancy deadlocks.",
		Run: runC16,
		Mutants: []Mutant{
			{Name: "close-waits-for-write-lock", File: "internal/stream/stream_processor.go", Rule: "R-C16-G16",
				Old: "\t// 关闭 writer\n", New: "\tps.writeLock.Lock()\n\tdefer ps.writeLock.Unlock()\n\t// 关闭 writer\n"},
			{Name: "started-before-context", File: "internal/client/tunnel/tunnel.go", Rule: "R-C16-4",
				Old: "\tt.SetCtx(t.manager.Ctx(), t.onClose)\n\n\t// 更新状态\n\tif !t.state.CompareAndSwap(int32(TunnelStateConnecting), int32(TunnelStateConnected)) {\n\t\treturn coreerrors.New(coreerrors.CodeInvalidState, \"invalid state transition\")\n\t}\n", New: "\t// 更新状态\n\tif !t.state.CompareAndSwap(int32(TunnelStateConnecting), int32(TunnelStateConnected)) {\n\t\treturn coreerrors.New(coreerrors.CodeInvalidState, \"invalid state transition\")\n\t}\n\tt.SetCtx(t.manager.Ctx(), t.onClose)\n"},
			{Name: "dispose-latch-removed", File: "internal/core/dispose/dispose.go", Rule: "R-C16-1",
				Old: "\tif c.closed {\n\t\treturn &DisposeResult{Errors: c.errors}\n\t}\n\tc.closed = true\n\tif c.cancel != nil {", New: "\tc.closed = true\n\tif c.cancel != nil {"},
			{Name: "tunnel-close-cas-fallthrough", File: "internal/client/tunnel/tunnel.go", Rule: "R-C16-2",
				Old: "\t\tif t.state.CompareAndSwap(currentState, int32(TunnelStateClosing)) {\n\t\t\tbreak\n\t\t}\n\t}", New: "\t\tif !t.state.CompareAndSwap(currentState, int32(TunnelStateClosing)) {\n\t\t\tt.state.Store(int32(TunnelStateClosing))\n\t\t}\n\t\tbreak\n\t}"},
			{Name: "ready-select-close", File: "internal/protocol/session/tunnel/bridge_connection.go", Rule: "R-C16-2",
				Old: "\tb.readyOnce.Do(func() {\n\t\tclose(b.ready)\n\t})", New: "\tselect {\n\tcase <-b.ready:\n\tdefault:\n\t\tclose(b.ready)\n\t}"},
			{Name: "traffic-report-unlocked", File: "internal/protocol/session/tunnel/bridge_traffic.go", Rule: "R-C16-2",
				Old: "\tb.reportMu.Lock()\n\tdefer b.reportMu.Unlock()\n", New: ""},
			{Name: "stream-read-without-acquire", File: "internal/stream/stream_processor_read.go", Rule: "R-C16-3",
				Old: "func (ps *StreamProcessor) ReadAvailable(maxLength int) ([]byte, error) {\n\tif err := ps.acquireReadLock(); err != nil {\n\t\treturn nil, err\n\t}\n\tdefer ps.readLock.Unlock()\n", New: "func (ps *StreamProcessor) ReadAvailable(maxLength int) ([]byte, error) {\n\tps.readLock.Lock()\n\tdefer ps.readLock.Unlock()\n"},
			{Name: "memory-incr-nil-map", File: "internal/core/storage/memory/memory_ops.go", Rule: "R-C16-3",
				Old: "func (m *Storage) IncrBy(key string, value int64) (int64, error) {\n\tm.mu.Lock()\n\tdefer m.mu.Unlock()\n\n\t// 修复：存储关闭后 m.data 为 nil，写入前重新初始化（与 Set 保持一致），避免向 nil map 赋值而 panic\n\tif m.data == nil {\n\t\tm.data = make(map[string]*StorageItem)\n\t}\n", New: "func (m *Storage) IncrBy(key string, value int64) (int64, error) {\n\tm.mu.Lock()\n\tdefer m.mu.Unlock()\n"},
			{Name: "monitor-loop-ignores-ctx", File: "internal/client/tunnel/tunnel.go", Rule: "R-C16-4",
				Old: "\t\tselect {\n\t\tcase <-t.Ctx().Done():\n\t\t\treturn\n\t\tcase <-timer.C:\n\t\t\tif time.Since(lastActivity) >= idleTimeout {", New: "\t\tselect {\n\t\tcase <-timer.C:\n\t\t\tif time.Since(lastActivity) >= idleTimeout {"},
			{Name: "traffic-ticker-not-stopped", File: "internal/protocol/session/tunnel/bridge_traffic.go", Rule: "R-C16-4",
				Old: "\tticker := time.NewTicker(30 * time.Second)\n\tdefer ticker.Stop()\n\n\tfor {\n\t\tselect {\n\t\tcase <-ticker.C:\n\t\t\tb.reportTrafficStats()", New: "\tticker := time.NewTicker(30 * time.Second)\n\n\tfor {\n\t\tselect {\n\t\tcase <-ticker.C:\n\t\t\tb.reportTrafficStats()"},
		},
	})
}

// inOnce: instruction lies in a closure that is passed to sync.Once.Do.
func inOnce(in ssa.Instruction) bool {
	fn := in.Parent()
	for _, site := range closureSites(fn) {
		mc := site.(*ssa.MakeClosure)
		if mc.Referrers() == nil {
			continue
		}
		for _, ref := range *mc.Referrers() {
			if ci, ok := ref.(ssa.CallInstruction); ok && CalleeOf(ci).Is("sync:Once.Do") {
				return true
			}
		}
	}
	return false
}

// exitChannelKinds: does function f leave its loops on a context / stop channel?
// For every block that lies on a cycle there must be a path to a Return that
// passes a receive (select state or <-) on a channel from Done() or a field
// whose name looks like a stop channel.
func stopRecvIn(f *ssa.Function) bool {
	isStop := func(ch ssa.Value) bool {
		o := originSummary(ch)
		lo := strings.ToLower(o)
		return strings.Contains(o, ".Done") || strings.Contains(lo, "stop") || strings.Contains(lo, "closech") || strings.Contains(lo, "closed") || strings.Contains(lo, "done") || strings.Contains(lo, "quit")
	}
	found := false
	Instrs(f, func(in ssa.Instruction) {
		switch x := in.(type) {
		case *ssa.Select:
			for _, st := range x.States {
				if st.Dir == 2 /* types.RecvOnly */ && isStop(st.Chan) {
					found = true
				}
			}
		case *ssa.UnOp:
			if x.Op == token.ARROW && isStop(x.X) {
				found = true
			}
		}
	})
	return found
}

func hasLoop(f *ssa.Function) bool {
	for _, b := range f.Blocks {
		if InLoop(b) {
			return true
		}
	}
	return false
}

func runC16(r *Report) {
	// both copy directions of the server bridge defer the bridge close (shared with R-C02-3): when one
	// side finishes the other is shut down and Start returns
	if bs := r.need("R-C16-4", "internal/protocol/session/tunnel", "Bridge.Start"); bs != nil {
		if n := checkDirectionsDeferClose(r, "R-C16-4", bs); n != 2 {
			r.Fail("R-C16-4", bs.Pos(), fmt.Sprintf("expected 2 copy goroutines in Bridge.Start, found %d", n), "Bridge.Start", "directions")
		}
	}
	// a close-all sweep visits every element: the callback of a sync.Map.Range (or similar visitor) in a
	// CloseAll / DisposeAll / onClose function never answers false ("stop") on its normal path
	nSweep := 0
	for _, pk := range []string{"internal/client/tunnel", "internal/core/dispose", "internal/protocol/session", "internal/client/mapping"} {
		for _, f := range r.P.FuncsIn(pk) {
			nm := Outermost(f).Name()
			if f.Parent() != nil || !(strings.HasPrefix(nm, "CloseAll") || strings.HasPrefix(nm, "DisposeAll") || nm == "onClose" || nm == "Close") {
				continue
			}
			for _, rg := range Calls(f, false, "sync:Map.Range") {
				cb := resolveClosure(Arg(rg, 0), f, 0)
				if cb == nil {
					continue
				}
				nSweep++
				all := true
				for _, ret := range Returns(cb) {
					if v, isC := ConstBool(RetVal(ret, 0)); isC && !v {
						all = false
					}
				}
				r.Ob("R-C16-2", CallPos(rg), all, "the close sweep visits every element (its Range callback never returns false)", r.P.FuncName(f), "sweep-visits-all")
			}
		}
	}
	if nSweep < 1 {
		r.Fail("R-C16-2", 0, "no close sweep over a sync.Map found (tunnel manager CloseAll confirmed by hand)", "sweeps", "sweep-visits-all:floor")
	}
	// the resource manager forgets everything it has disposed: DisposeAll resets the registration order
	// together with the resource table (a name left in one of them is disposed again after re-registration)
	if da := r.need("R-C16-1", "internal/core/dispose", "ResourceManager.DisposeAll"); da != nil {
		reset := map[string]bool{}
		Instrs(da, func(in ssa.Instruction) {
			st, ok := in.(*ssa.Store)
			if !ok {
				return
			}
			if t, fld, _, isF := FieldOf(st.Addr); isF && t == "ResourceManager" {
				switch st.Val.(type) {
				case *ssa.MakeMap, *ssa.MakeSlice, *ssa.Slice:
					reset[fld] = true
				default:
					if isNil(st.Val) {
						reset[fld] = true
					}
				}
			}
		})
		// the collections the manager registers into (map + order slice): every field Register writes
		want := map[string]bool{}
		if rg := r.P.Fn("internal/core/dispose", "ResourceManager.Register"); rg != nil {
			Instrs(rg, func(in ssa.Instruction) {
				switch x := in.(type) {
				case *ssa.MapUpdate:
					if _, fld, _, ok := FieldOf(x.Map); ok {
						want[fld] = true
					}
				case *ssa.Store:
					if t, fld, _, ok := FieldOf(x.Addr); ok && t == "ResourceManager" {
						if c, _ := CallOfValue(x.Val); c != nil {
							if b, isB := c.Call.Value.(*ssa.Builtin); isB && b.Name() == "append" {
								want[fld] = true
							}
						}
					}
				}
			})
		}
		var miss []string
		for f := range want {
			if !reset[f] {
				miss = append(miss, f)
			}
		}
		sort.Strings(miss)
		r.Ob("R-C16-1", da.Pos(), len(want) >= 2 && len(miss) == 0, fmt.Sprintf("DisposeAll re-initialises every collection Register fills (%d collections, not reset: %v)", len(want), miss), "ResourceManager.DisposeAll", "forgets-all")
	}
	// what Bridge.Close sets to nil under a lock is read elsewhere only under that lock: a reader
	// that skips it can observe the nil (or a half-written interface) in the middle of its work
	if bc := r.need("R-C16-3", "internal/protocol/session/tunnel", "Bridge.Close"); bc != nil {
		ls := lockSetsOf(bc)
		niled := map[string]string{}
		niledCand := map[string]map[string]bool{}
		Instrs(bc, func(in ssa.Instruction) {
			st, ok := in.(*ssa.Store)
			if !ok || !isNil(st.Val) {
				return
			}
			t, fld, _, ok := FieldOf(st.Addr)
			if !ok || t != "Bridge" {
				return
			}
			cur := map[string]bool{}
			for l, m := range ls.HeldAll(in) {
				if m == "W" {
					if i := strings.LastIndex(l, "."); i >= 0 {
						l = l[i+1:]
					}
					cur[l] = true
				}
			}
			// the guarding lock is one that is held at every nil-store of the field
			if prev, seen := niledCand[fld]; seen {
				for l := range prev {
					if !cur[l] {
						delete(prev, l)
					}
				}
			} else {
				niledCand[fld] = cur
			}
		})
		for fld, cands := range niledCand {
			var names []string
			for l := range cands {
				names = append(names, l)
			}
			sort.Strings(names)
			switch len(names) {
			case 0:
				continue
			case 1:
				niled[fld] = names[0]
				continue
			}
			// several locks are held around every nil-store (a nested teardown section): the guarding one is
			// the lock held at most of the field's other accesses
			best, bn := names[0], -1
			for _, l := range names {
				n := 0
				for _, fa := range r.P.FieldAccesses("internal/protocol/session/tunnel", "Bridge", fld) {
					if lockSetsOf(fa.Fn).Held(fa.In, l) != "" {
						n++
					}
				}
				if n > bn {
					best, bn = l, n
				}
			}
			niled[fld] = best
		}
		var flds []string
		for f := range niled {
			flds = append(flds, f)
		}
		sort.Strings(flds)
		for _, f := range flds {
			guardedBy(r, "R-C16-3", "internal/protocol/session/tunnel", "Bridge", f, niled[f], map[string]string{
				"NewBridge": "constructor: the bridge is not shared yet",
			})
		}
		if len(flds) < 1 { // alarm below 40% of the 4 sites confirmed by hand
			r.Fail("R-C16-3", bc.Pos(), fmt.Sprintf("only %d fields set to nil under a lock by Bridge.Close found (6 confirmed by hand)", len(flds)), "Bridge.Close", "nil-on-close:floor")
		}
	}
	// the close handler of the stream processor releases both endpoints whatever the other one says:
	// no return of onClose is reachable without examining reader and writer (an early return on a
	// failing writer Close would leave the reader open for ever: the close latch is already set)
	if oc := r.need("R-C16-2", "internal/stream", "StreamProcessor.onClose"); oc != nil {
		for _, fld := range []string{"reader", "writer"} {
			f2 := fld
			isGuard := func(in ssa.Instruction) bool {
				bo, isB := in.(*ssa.BinOp)
				if !isB || (bo.Op != token.NEQ && bo.Op != token.EQL) {
					return false
				}
				u, isU := stripValue(bo.X).(*ssa.UnOp)
				if !isU || u.Op != token.MUL {
					return false
				}
				_, f, _, isF := FieldOf(u.X)
				return isF && f == f2
			}
			bad := token.NoPos
			for _, ret := range Returns(oc) {
				if ReachesWithout(oc, ret, isGuard) {
					bad = ret.Pos()
				}
			}
			pos := oc.Pos()
			if bad != token.NoPos {
				pos = bad
			}
			r.Ob("R-C16-2", pos, bad == token.NoPos, "every path through the stream processor's close handler examines (and closes) its "+fld, "StreamProcessor.onClose", "close-handler-covers:"+fld)
		}
	}
	// a Start that can still refuse does not leave goroutines behind: no `go` statement of
	// Tunnel.Start lies on a path to an error return (the state latch is won first)
	if ts := r.need("R-C16-4", "internal/client/tunnel", "Tunnel.Start"); ts != nil {
		nGo := 0
		startsGoroutine := func(h *ssa.Function) bool {
			for _, u := range samePkgReach(h, 1) {
				found := false
				Instrs(u, func(x ssa.Instruction) {
					if _, ok := x.(*ssa.Go); ok {
						found = true
					}
				})
				if found {
					return true
				}
			}
			return false
		}
		Instrs(ts, func(in ssa.Instruction) {
			var g ssa.Instruction
			if gg, ok := in.(*ssa.Go); ok {
				g = gg
			} else if hc, ok := in.(*ssa.Call); ok {
				// the workers may be started by a helper (`t.spawnWorkers(...)`)
				if h := hc.Common().StaticCallee(); h != nil && h.Pkg == ts.Pkg && len(h.Blocks) > 0 && h != ts && startsGoroutine(h) {
					g = hc
				}
			}
			if g == nil {
				return
			}
			nGo++
			hits := WalkFrom(nil, in, func(x ssa.Instruction) int {
				if ret, isR := x.(*ssa.Return); isR {
					if RetErrKind(ret) != "nil" {
						return Hit
					}
					return Stop
				}
				return Cont
			}, nil)
			r.Ob("R-C16-4", g.Pos(), len(hits) == 0, "goroutine started by Tunnel.Start is not followed by a refusing return (it would run under a context nothing cancels)", "Tunnel.Start", "no-goroutine-before-refusal")
		})
		if nGo < 1 { // alarm below 40% of the 2 sites confirmed by hand
			r.Fail("R-C16-4", ts.Pos(), fmt.Sprintf("only %d goroutines started by Tunnel.Start found (3 confirmed by hand)", nGo), "Tunnel.Start", "floor-goroutines")
		}
		// the cancellable context is installed before the state is published as started: a Close that
		// sees the started state must find a context to cancel, otherwise Start goes on to install a
		// fresh context nobody cancels and the monitors outlive Close
		isSetCtx := func(in ssa.Instruction) bool {
			ci, ok := in.(ssa.CallInstruction)
			return ok && CalleeOf(ci).Name == "SetCtx"
		}
		for _, cas := range Calls(ts, false, "atomic:Int32.CompareAndSwap", "atomic:Int64.CompareAndSwap", "atomic:Int32.Store") {
			if _, f, _, ok := FieldOf(Recv(cas)); !ok || f != "state" {
				continue
			}
			r.Ob("R-C16-4", CallPos(cas), !ReachesWithout(ts, cas.(ssa.Instruction), isSetCtx), "Tunnel.Start installs its context (SetCtx) before it publishes the started state", "Tunnel.Start", "context-before-started")
		}
	}
	const dispPkg = "internal/core/dispose"
	// ---- R-C16-1 the dispose latch -------------------------------------------------
	dc := r.need("R-C16-1", dispPkg, "Dispose.Close")
	if dc != nil {
		rch := Calls(dc, false, "Dispose.runCleanHandlers")
		var runner *ssa.Function
		if len(rch) == 0 {
			// the runner may have a new name and shape (`runHandlers(c.snapshotHandlers(), record)`): it is
			// the function of the package, called from Close, that invokes `func() error` values
			Instrs(dc, func(in ssa.Instruction) {
				c, ok := in.(*ssa.Call)
				if !ok || len(rch) > 0 {
					return
				}
				h := c.Common().StaticCallee()
				if h == nil || h.Pkg != dc.Pkg || len(h.Blocks) == 0 {
					return
				}
				dyn := false
				for _, u := range WithAnon(h) {
					Instrs(u, func(x ssa.Instruction) {
						if dc2, ok := x.(*ssa.Call); ok && !dc2.Common().IsInvoke() && dc2.Common().StaticCallee() == nil {
							if _, isB := dc2.Common().Value.(*ssa.Builtin); !isB && dc2.Common().Signature().Params().Len() == 0 && dc2.Common().Signature().Results().Len() == 1 {
								dyn = true
							}
						}
					})
				}
				if dyn {
					rch = append(rch, c)
					runner = h
				}
			})
		}
		if len(rch) != 1 {
			r.Fail("R-C16-1", dc.Pos(), "expected one runCleanHandlers call in Dispose.Close", "Dispose.Close", "anchor")
		} else {
			c := rch[0]
			notClosed := false
			ls := ComputeLockSets(dc, nil)
			dlock := r.lockFor("internal/core/dispose", "Dispose", "closed", "currentLock")
			for _, ft := range Facts(c.Block()) {
				if _, f, _, ok := FieldOf(ft.Cond); ok && f == "closed" && !ft.Pol {
					notClosed = true
				}
				// an atomic flag: the deciding test is a Load made while the lock is held (a Load before the
				// lock is only a fast path: two closers can both pass it)
				if lc, ok := stripValue(ft.Cond).(*ssa.Call); ok && !ft.Pol && CalleeOf(lc).Is("atomic:Bool.Load") {
					if _, f, _, ok := FieldOf(Recv(lc)); ok && f == "closed" && r.held(ls, lc, "internal/core/dispose", "Dispose", dlock) == "W" {
						notClosed = true
					}
				}
			}
			setFirst := !ReachesWithout(dc, c.(ssa.Instruction), func(in ssa.Instruction) bool {
				if sc, ok := in.(*ssa.Call); ok && CalleeOf(sc).Is("atomic:Bool.Store") {
					if _, f, _, isF := FieldOf(Recv(sc)); isF && f == "closed" {
						b, isC := ConstBool(Arg(sc, 0))
						return isC && b
					}
				}
				st, ok := in.(*ssa.Store)
				if !ok {
					return false
				}
				_, f, _, isF := FieldOf(st.Addr)
				b, isC := ConstBool(st.Val)
				return isF && f == "closed" && isC && b
			})
			r.Ob("R-C16-1", CallPos(c), notClosed, "cleanup handlers run only on the not-yet-closed edge of the closed flag", "Dispose.Close", "latch-tested")
			r.Ob("R-C16-1", CallPos(c), setFirst, "the closed flag is set before the handlers run (a re-entrant or concurrent Close sees it)", "Dispose.Close", "latch-set-first")
			r.Ob("R-C16-1", CallPos(c), ls.Held(c.(ssa.Instruction), r.lockFor("internal/core/dispose", "Dispose", "closed", "currentLock")) == "W", "test, set and run happen under the lock of the closed flag (currentLock)", "Dispose.Close", "latch-locked")
		}
		n := 0
		runnerCalls := r.P.AllCalls("Dispose.runCleanHandlers")
		if runner != nil {
			for _, c := range staticCallSites(r.P, runner) {
				runnerCalls = append(runnerCalls, c)
			}
		}
		for _, c := range runnerCalls {
			n++
			r.Ob("R-C16-1", CallPos(c), c.Parent() == dc, "runCleanHandlers is called only from Dispose.Close (found in "+r.P.FuncName(c.Parent())+")", r.P.FuncName(c.Parent()), "single-caller")
		}
		if n == 0 {
			r.Fail("R-C16-1", dc.Pos(), "no caller of runCleanHandlers", "Dispose.Close", "single-caller")
		}
	}

	// ---- R-C16-2 component latches ----------------------------------------------------
	const ctPkg = "internal/client/tunnel"
	if tc := r.need("R-C16-2", ctPkg, "Tunnel.Close"); tc != nil {
		once := []string{"Dispose.Close", "UnregisterTunnel", "Tunnel.sendCloseNotification"}
		var sites []ssa.CallInstruction
		sites = append(sites, Calls(tc, false, once...)...)
		// dynamic call of the onClosed callback field
		Instrs(tc, func(in ssa.Instruction) {
			if ci, ok := in.(*ssa.Call); ok && !ci.Call.IsInvoke() {
				if _, f, _, ok := FieldOf(ci.Call.Value); ok && f == "onClosed" {
					sites = append(sites, ci)
				}
			}
		})
		if len(sites) < 1 { // alarm below 40% of the 4 sites confirmed by hand
			r.Fail("R-C16-2", tc.Pos(), fmt.Sprintf("only %d exactly-once actions found in Tunnel.Close (4 confirmed by hand)", len(sites)), "Tunnel.Close", "floor")
		}
		for _, s := range sites {
			cas, pol, found := CallFact(s.Block(), "atomic:Int32.CompareAndSwap")
			ok := found && pol
			why := "not dominated by a successful CompareAndSwap"
			if ok {
				// new state is Closing (2), old state is the freshly loaded one
				k, isC := ConstInt(Arg(cas, 1))
				old := Arg(cas, 0)
				oc, _ := CallOfValue(old)
				fresh := oc != nil && CalleeOf(oc).Is("atomic:Int32.Load") && Before(oc, cas)
				if !isC || k != 2 {
					ok, why = false, "the CAS does not move the state to Closing"
				} else if !fresh {
					ok, why = false, "the CAS expects a fixed state instead of the state just loaded (a failed CAS must re-read, not continue)"
				} else {
					// the state the CAS starts from is known not to be Closing: Closing -> Closing succeeds and
					// would let a second closer into the body while the first is still inside it
					notClosing := false
					// the CAS may have been found through a helper's imported facts (a rewritten copy): judge
					// the original instruction in its own function
					casAt, oldAt := cas, old
					for _, f2 := range r.P.FuncsIn(ctPkg) {
						for _, c2 := range Calls(f2, false, "atomic:Int32.CompareAndSwap") {
							if c2.Pos() == cas.Pos() {
								if cc, ok := c2.(*ssa.Call); ok {
									casAt, oldAt = cc, Arg(cc, 0)
								}
							}
						}
					}
					for _, ft := range Facts(casAt.Block()) {
						bo, isB := ft.Cond.(*ssa.BinOp)
						if !isB || !(stripValue(bo.X) == stripValue(oldAt) || sameExpr(bo.X, oldAt) || losslessSame(bo.X, oldAt)) {
							continue
						}
						k2, isK := ConstInt(bo.Y)
						if !isK {
							continue
						}
						switch {
						case k2 == 2 && ((bo.Op == token.EQL && !ft.Pol) || (bo.Op == token.NEQ && ft.Pol)):
							notClosing = true
						case k2 == 2 && ((bo.Op == token.LSS && ft.Pol) || (bo.Op == token.GEQ && !ft.Pol)):
							notClosing = true
						case k2 == 1 && ((bo.Op == token.LEQ && ft.Pol) || (bo.Op == token.GTR && !ft.Pol)):
							notClosing = true
						}
					}
					if !notClosing {
						ok, why = false, "the state the CAS starts from may be Closing itself (the early return does not exclude it): Closing -> Closing succeeds for a second closer"
					}
				}
			}
			name := CalleeOf(s).Name
			if name == "" {
				name = "onClosed"
			}
			r.Ob("R-C16-2", CallPos(s), ok, "close action "+name+" runs only for the single closer that won the state CAS ("+map[bool]string{true: "ok", false: why}[ok]+")", "Tunnel.Close", "latched:"+name)
		}
		// no unconditional overwrite of the state to Closing
		Instrs(tc, func(in ssa.Instruction) {
			if ci, ok := in.(*ssa.Call); ok && CalleeOf(ci).Is("atomic:Int32.Store") {
				if k, isC := ConstInt(Arg(ci, 0)); isC && k == 2 {
					r.Fail("R-C16-2", ci.Pos(), "state is overwritten to Closing without winning the CAS: a second concurrent closer continues into the close body", "Tunnel.Close", "no-blind-closing-store")
				}
			}
		})
	}
	// bridge ready channel
	nReady := 0
	for _, f := range r.P.FuncsIn(tunPkg) {
		Instrs(f, func(in ssa.Instruction) {
			c, ok := in.(*ssa.Call)
			if !ok {
				return
			}
			b, ok := c.Call.Value.(*ssa.Builtin)
			if !ok || b.Name() != "close" {
				return
			}
			if _, fld, _, ok := FieldOf(c.Call.Args[0]); !ok || fld != "ready" {
				return
			}
			nReady++
			r.Ob("R-C16-2", c.Pos(), inOnce(in), "close(ready) happens inside sync.Once.Do (a select-default guard lets two concurrent callers both close the channel: panic)", r.P.FuncName(f), "ready-closed-once")
		})
	}
	if nReady == 0 {
		r.Fail("R-C16-2", 0, "close(ready) not found in the bridge", tunPkg, "ready-closed-once")
	}
	if bc := r.need("R-C16-2", tunPkg, "Bridge.Close"); bc != nil {
		ls := ComputeLockSets(bc, nil)
		n := 0
		for _, c := range Calls(bc, false, "Close") {
			_, fld, _, ok := FieldOf(Recv(c))
			if !ok || fld == "ManagerBase" || fld == "ResourceBase" || fld == "Dispose" {
				continue
			}
			n++
			nonNil := false
			for _, ft := range Facts(c.Block()) {
				if x, isnil, ok := ft.FactNil(); ok && !isnil {
					if _, f2, _, ok := FieldOf(x); ok && f2 == fld {
						nonNil = true
					}
				}
			}
			cleared := false
			for _, in := range c.Block().Instrs {
				if st, ok := in.(*ssa.Store); ok && isNil(st.Val) {
					if _, f2, _, ok := FieldOf(st.Addr); ok && f2 == fld {
						cleared = true
					}
				}
			}
			locked := len(ls.HeldAll(c.(ssa.Instruction))) > 0
			r.Ob("R-C16-2", CallPos(c), nonNil && cleared && locked, fmt.Sprintf("Bridge.Close closes %s only if still set (%v), clears it (%v) and does so under a lock (%v): a second Close is a no-op for it", fld, nonNil, cleared, locked), "Bridge.Close", "idempotent:"+fld)
		}
		if n < 2 { // alarm below 40% of the 6 sites confirmed by hand
			r.Fail("R-C16-2", bc.Pos(), fmt.Sprintf("only %d end-point closes found in Bridge.Close (8 confirmed by hand)", n), "Bridge.Close", "floor")
		}
	}
	if rt := r.need("R-C16-2", tunPkg, "Bridge.reportTrafficStats"); rt != nil {
		ls := ComputeLockSets(rt, nil)
		n := 0
		isLast := func(in ssa.Instruction) bool {
			ci, ok := in.(*ssa.Call)
			if !ok || !CalleeOf(ci).Is("atomic:Int64.Load", "atomic:Int64.Store") {
				return false
			}
			_, f, _, ok := FieldOf(Recv(ci))
			return ok && strings.HasPrefix(f, "lastReported")
		}
		rlock := r.lockFor("internal/protocol/session/tunnel", "Bridge", "", "reportMu")
		var sites []ssa.Instruction // in reportTrafficStats: the accesses, or the calls of helpers that make them
		for _, u := range samePkgReach(rt, 1) {
			if u.Parent() != nil {
				continue
			}
			uls := lockSetsOf(u)
			Instrs(u, func(in ssa.Instruction) {
				if !isLast(in) {
					return
				}
				n++
				held := r.held(uls, in, "internal/protocol/session/tunnel", "Bridge", "reportMu") == "W"
				if u == rt {
					held = r.held(ls, in, "internal/protocol/session/tunnel", "Bridge", "reportMu") == "W"
					sites = append(sites, in)
				} else if !held {
					held = callersHold(r.P, u, rlock, true, 2, map[*ssa.Function]bool{})
				}
				r.Ob("R-C16-2", in.Pos(), held, "the last-reported totals are read and written inside one section of reportMu (the close handler and the final periodic report cannot both add the same delta)", "reportTrafficStats", "report-serialised:"+CalleeOf(in.(*ssa.Call)).Name)
			})
			if u != rt {
				Instrs(rt, func(in ssa.Instruction) {
					if c, ok := in.(*ssa.Call); ok && c.Common().StaticCallee() == u {
						has := false
						Instrs(u, func(x ssa.Instruction) {
							if isLast(x) {
								has = true
							}
						})
						if has {
							sites = append(sites, in)
						}
					}
				})
			}
		}
		if n < 4 {
			r.Fail("R-C16-2", rt.Pos(), "accesses to lastReported* not found", "reportTrafficStats", "floor")
		}
		// ... one section: the lock is not released between the first and the last of them
		for i := range sites {
			for j := range sites {
				if i != j && (sites[i].Block() == sites[j].Block() && Before(sites[i], sites[j]) || sites[i].Block() != sites[j].Block() && CanReach(sites[i].Block(), sites[j].Block())) {
					if ub := unlockBetween(sites[i], sites[j]); ub != nil {
						r.Ob("R-C16-2", ub.Pos(), false, "reportMu is released between reading the last-reported totals and advancing them: the close handler and the final periodic report can both compute and add the same delta", "reportTrafficStats", "report-one-section")
					}
				}
			}
		}
		for _, c := range Calls(rt, false, "UpdatePortMappingStats") {
			r.Ob("R-C16-2", CallPos(c), r.held(ls, c.(ssa.Instruction), "internal/protocol/session/tunnel", "Bridge", "reportMu") == "W", "the report itself is issued inside the same section", "reportTrafficStats", "report-serialised:update")
		}
	}
	if sc := r.need("R-C16-2", memPkg, "Storage.StopCleanup"); sc != nil {
		ls := ComputeLockSets(sc, nil)
		Instrs(sc, func(in ssa.Instruction) {
			c, ok := in.(*ssa.Call)
			if !ok {
				return
			}
			if b, ok := c.Call.Value.(*ssa.Builtin); !ok || b.Name() != "close" {
				return
			}
			running := false
			for _, ft := range Facts(in.Block()) {
				if _, f, _, ok := FieldOf(ft.Cond); ok && f == "cleanupRunning" && ft.Pol {
					running = true
				}
			}
			cleared := false
			WalkFrom(nil, in, func(x ssa.Instruction) int {
				if st, ok := x.(*ssa.Store); ok {
					if _, f, _, ok := FieldOf(st.Addr); ok && f == "cleanupRunning" {
						cleared = true
					}
				}
				return Cont
			}, nil)
			r.Ob("R-C16-2", c.Pos(), running && cleared && r.held(ls, in, "internal/core/storage/memory", "Storage", "mu") == "W", "the cleanup stop channel is closed only while the running flag is set, the flag is then cleared, all under the storage lock", "memory.Storage.StopCleanup", "stop-closed-once")
		})
	}

	// ---- R-C16-3 use after close -------------------------------------------------------
	nUse := 0
	for _, f := range r.P.FuncsIn("internal/stream") {
		top := Outermost(f)
		if top.Signature.Recv() == nil {
			continue
		}
		if _, n := recvTypeName(top.Signature.Recv().Type()); n != "StreamProcessor" {
			continue
		}
		switch top.Name() {
		case "NewStreamProcessor", "onClose", "GetReader", "GetWriter", "acquireReadLock", "acquireWriteLock":
			continue
		}
		Instrs(f, func(in ssa.Instruction) {
			fa, ok := in.(*ssa.FieldAddr)
			if !ok {
				return
			}
			t, fld, _, ok := FieldOf(fa)
			if !ok || t != "StreamProcessor" || (fld != "reader" && fld != "writer") {
				return
			}
			nUse++
			acq := "StreamProcessor.acquireReadLock"
			if fld == "writer" {
				acq = "StreamProcessor.acquireWriteLock"
			}
			ok2 := false
			for _, a := range Calls(f, false, acq) {
				if ErrOK(in.Block(), a) {
					ok2 = true
				}
			}
			if !ok2 {
				// helper called only from functions that hold the acquire (readPacketType etc.)
				ok2 = callersAcquire(r.P, top, acq)
			}
			r.Ob("R-C16-3", in.Pos(), ok2, "use of ps."+fld+" is dominated by a successful "+acq+" (which tests closed and nil), here or in every caller", r.P.FuncName(f), "acquire-before-use:"+fld)
		})
	}
	if nUse < 3 { // alarm below 40% of the 8 sites confirmed by hand
		r.Fail("R-C16-3", 0, fmt.Sprintf("only %d uses of the stream processor's reader/writer found (>=8 confirmed by hand)", nUse), "internal/stream", "floor-uses")
	}
	for _, name := range []string{"StreamProcessor.acquireReadLock", "StreamProcessor.acquireWriteLock"} {
		if f := r.need("R-C16-3", "internal/stream", name); f != nil {
			for _, ret := range Returns(f) {
				if RetErrKind(ret) != "nil" {
					continue
				}
				_, pol, found := CallFact(ret.Block(), "Dispose.IsClosed")
				nonNil := false
				for _, ft := range Facts(ret.Block()) {
					if x, isnil, ok := ft.FactNil(); ok && !isnil {
						if _, fld, _, ok := FieldOf(x); ok && (fld == "reader" || fld == "writer") {
							nonNil = true
						}
					}
				}
				r.Ob("R-C16-3", ret.Pos(), found && !pol && nonNil, "the acquire succeeds only if the processor is not closed and the endpoint is non-nil", name, "acquire-tests-closed")
			}
		}
	}
	nMU := 0
	for _, f := range r.P.FuncsIn(memPkg) {
		top := Outermost(f)
		if top.Name() == "New" {
			continue
		}
		Instrs(f, func(in ssa.Instruction) {
			mu, ok := in.(*ssa.MapUpdate)
			if !ok {
				return
			}
			if t, fld, _, ok := FieldOf(mu.Map); !ok || t != "Storage" || fld != "data" {
				return
			}
			nMU++
			skipped := ReachesWithout(f, in, func(x ssa.Instruction) bool {
				bo, ok := x.(*ssa.BinOp)
				if !ok {
					return false
				}
				v, _, isN := NilTest(bo)
				if !isN {
					return false
				}
				t, fld, _, isF := FieldOf(v)
				return isF && t == "Storage" && fld == "data"
			})
			r.Ob("R-C16-3", mu.Pos(), !skipped, "a write into the storage map is preceded on every path by the nil-map test (the map is nil after Close; writing into it panics)", r.P.FuncName(f), "nil-map-guard")
		})
	}
	if nMU < 3 { // alarm below 40% of the 9 sites confirmed by hand
		r.Fail("R-C16-3", 0, fmt.Sprintf("only %d writes into the memory storage map found (9 confirmed by hand)", nMU), memPkg, "floor-writes")
	}

	// ---- R-C16-4 goroutines and timers ------------------------------------------------------
	type scope struct{ pkg, typ string }
	scopes := []scope{{dispPkg, ""}, {ctPkg, "Tunnel"}, {tunPkg, "Bridge"}, {"internal/stream", "StreamProcessor"}, {memPkg, "Storage"}}
	nGo := 0
	for _, sc := range scopes {
		for _, f := range r.P.FuncsIn(sc.pkg) {
			top := Outermost(f)
			if sc.typ != "" {
				if top.Signature.Recv() == nil {
					continue
				}
				if _, n := recvTypeName(top.Signature.Recv().Type()); n != sc.typ {
					continue
				}
			}
			Instrs(f, func(in ssa.Instruction) {
				g, ok := in.(*ssa.Go)
				if !ok {
					return
				}
				callee := CalleeOf(g).Fn
				if callee == nil || len(callee.Blocks) == 0 {
					return
				}
				nGo++
				name := callee.Name()
				if !hasLoop(callee) {
					r.Pass("R-C16-4", g.Pos(), "goroutine "+name+" has no loop: it ends when its calls return", r.P.FuncName(f), "go:"+name)
					return
				}
				ok2 := stopRecvIn(callee)
				if !ok2 {
					// loops inside are copy loops ended by closing the connections (CopyWithControl): accepted when the
					// goroutine's only loop re-checks the context
					ok2 = len(Calls(callee, false, "Bridge.CopyWithControl")) > 0 && stopRecvIn(callee)
				}
				r.Ob("R-C16-4", g.Pos(), ok2, "goroutine "+name+" loops: it must leave on the component's context / stop channel", r.P.FuncName(f), "go:"+name)
			})
			for _, tc := range Calls(f, false, "time:NewTicker", "time:NewTimer") {
				tv := tc.(ssa.Value)
				stopped := false
				Instrs(f, func(in ssa.Instruction) {
					if ci, ok := in.(ssa.CallInstruction); ok && CalleeOf(ci).Is("Ticker.Stop", "Timer.Stop") && Recv(ci) == tv {
						if _, isDefer := in.(*ssa.Defer); isDefer {
							stopped = true
						}
					}
				})
				if !stopped {
					// stored in a field and stopped by the component's stop method
					if tv.Referrers() != nil {
						for _, ref := range *tv.Referrers() {
							if st, ok := ref.(*ssa.Store); ok {
								if _, fld, _, ok := FieldOf(st.Addr); ok {
									for _, g := range r.P.FuncsIn(sc.pkg) {
										for _, c := range Calls(g, false, "Ticker.Stop", "Timer.Stop") {
											if _, f2, _, ok := FieldOf(Recv(c)); ok && f2 == fld {
												stopped = true
											}
										}
									}
								}
							}
						}
					}
				}
				r.Ob("R-C16-4", CallPos(tc), stopped, "ticker/timer is stopped when its owner ends (defer Stop, or the field is stopped by the component's stop method)", r.P.FuncName(f), "timer-stopped")
			}
		}
	}
	if nGo < 2 { // alarm below 40% of the 6 sites confirmed by hand
		r.Fail("R-C16-4", 0, fmt.Sprintf("only %d goroutine starts found in the anchored components (>=6 confirmed by hand)", nGo), "components", "floor-go")
	}
}

// callersAcquire: every static caller of helper (same package) calls acq and
// reaches the helper call only on its success edge.
func callersAcquire(p *Prog, helper *ssa.Function, acq string) bool {
	n := 0
	all := true
	for _, f := range p.Funcs {
		if f.Pkg != helper.Pkg {
			continue
		}
		Instrs(f, func(in ssa.Instruction) {
			ci, ok := in.(ssa.CallInstruction)
			if !ok || CalleeOf(ci).Fn != helper {
				return
			}
			n++
			ok2 := false
			for _, a := range Calls(f, false, acq) {
				if ErrOK(in.Block(), a) {
					ok2 = true
				}
			}
			if !ok2 && f != helper {
				// one more level (readPacketBody <- ReadPacket)
				ok2 = callersAcquire(p, Outermost(f), acq)
			}
			if !ok2 {
				all = false
			}
		})
	}
	return n > 0 && all
}

// losslessSame: a and b are the same value seen through value-preserving conversions
// (`TunnelState(current)` and `current`).
func losslessSame(a, b ssa.Value) bool {
	ba, ok1 := losslessBase(a)
	bb, ok2 := losslessBase(b)
	return ok1 && ok2 && (ba == bb || sameExpr(ba, bb))
}
