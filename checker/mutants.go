package main

import (
	"encoding/json"
	"fmt"
	"os"
	"os/exec"
	"path/filepath"
	"sort"
	"strings"
	"sync"
)

// Mutant is a must-fire witness: a textual edit of one repository file,
// applied in memory only (packages.Config.Overlay), on which rule Rule must
// report a new violated obligation. If Old no longer occurs in the file the
// witness is stale (the code was rewritten) and is reported, not failed.
type Mutant struct {
	Name string
	File string // repository-relative
	Old  string
	New  string
	Rule string // rule id expected to fire
}

func applyMutant(repo string, m Mutant) (map[string][]byte, error) {
	path := filepath.Join(repo, m.File)
	b, err := os.ReadFile(path)
	if err != nil {
		return nil, err
	}
	s := string(b)
	if strings.Count(s, m.Old) != 1 {
		return nil, fmt.Errorf("stale: %d occurrence(s) of the witness anchor text", strings.Count(s, m.Old))
	}
	s = strings.Replace(s, m.Old, m.New, 1)
	return map[string][]byte{path: []byte(s)}, nil
}

type childOut struct {
	Failed []string `json:"failed"` // keys of violated obligations
	Err    string   `json:"err,omitempty"`
	Stale  bool     `json:"stale,omitempty"`
}

// runMutantChild runs in a child process: load with overlay, run rules, print failing keys.
func runMutantChild(pc *PropCheck, repo, name string) int {
	out := childOut{}
	defer func() {
		b, _ := json.Marshal(out)
		fmt.Println("MUTANT-RESULT " + string(b))
	}()
	var m *Mutant
	for i := range pc.Mutants {
		if pc.Mutants[i].Name == name {
			m = &pc.Mutants[i]
		}
	}
	if m == nil {
		out.Err = "no such mutant"
		return 2
	}
	ov, err := applyMutant(repo, *m)
	if err != nil {
		out.Err = err.Error()
		out.Stale = strings.HasPrefix(err.Error(), "stale")
		return 0
	}
	p, err := Load(repo, ov)
	if err != nil {
		out.Err = "mutant does not type-check: " + err.Error()
		return 0
	}
	r := NewReport(pc.ID, "mutant", p)
	pc.Run(r)
	runGeneric(r, pc.ID)
	for _, o := range r.Obs {
		if !o.OK {
			out.Failed = append(out.Failed, o.Key)
		}
	}
	sort.Strings(out.Failed)
	return 0
}

// runMutants (thorough tier) executes every witness in its own child process
// and demands that the named rule reports a violation that the unchanged tree
// does not have.
func runMutants(pc *PropCheck, r *Report, repo string) {
	base := map[string]bool{}
	for _, o := range r.Obs {
		if !o.OK {
			base[o.Key] = true
		}
	}
	self, err := os.Executable()
	if err != nil {
		r.Broken("cannot find own executable: %v", err)
		return
	}
	results := make([]MutantResult, len(pc.Mutants))
	sem := make(chan struct{}, 4)
	var wg sync.WaitGroup
	for i, m := range pc.Mutants {
		wg.Add(1)
		go func(i int, m Mutant) {
			defer wg.Done()
			sem <- struct{}{}
			defer func() { <-sem }()
			res := MutantResult{Name: m.Name, Rule: m.Rule}
			cmd := exec.Command(self, "-prop", pc.ID, "-repo", repo, "-mutant", m.Name)
			outb, err := cmd.Output()
			var co childOut
			found := false
			for _, line := range strings.Split(string(outb), "\n") {
				if strings.HasPrefix(line, "MUTANT-RESULT ") {
					if json.Unmarshal([]byte(strings.TrimPrefix(line, "MUTANT-RESULT ")), &co) == nil {
						found = true
					}
				}
			}
			switch {
			case !found:
				res.Status, res.Message = "error", fmt.Sprintf("child failed: %v", err)
			case co.Stale:
				res.Status, res.Message = "stale", co.Err
			case co.Err != "":
				res.Status, res.Message = "error", co.Err
			default:
				for _, k := range co.Failed {
					if !base[k] && strings.HasPrefix(k, m.Rule+"|") {
						res.Fired = append(res.Fired, k)
					}
				}
				if len(res.Fired) > 0 {
					res.Status = "fired"
				} else {
					res.Status = "silent"
					res.Message = fmt.Sprintf("rule %s did not report a new violation; new keys: %v", m.Rule, diffKeys(co.Failed, base))
				}
			}
			results[i] = res
		}(i, m)
	}
	wg.Wait()
	for _, res := range results {
		r.Mutants = append(r.Mutants, res)
		switch res.Status {
		case "silent", "error":
			r.Broken("mutant witness %s (%s): %s %s", res.Name, res.Rule, res.Status, res.Message)
		case "stale":
			r.Note("mutant witness %s is stale (anchor text rewritten): not evaluated", res.Name)
			if os.Getenv("TV_STRICT") != "" {
				r.Broken("mutant witness %s is stale: %s", res.Name, res.Message)
			}
		}
	}
}

func diffKeys(keys []string, base map[string]bool) []string {
	var out []string
	for _, k := range keys {
		if !base[k] {
			out = append(out, k)
		}
	}
	return out
}
