package main

import (
	"fmt"
	"go/token"
	"strings"

	"golang.org/x/tools/go/ssa"
)

func init() {
	register(&PropCheck{
		ID: "C02",
		Explanation: "Static rules on the server-side bridge (internal/protocol/session/tunnel, session/server_bridge.go). " +
			"R-C02-1: the copy loop of Bridge.CopyWithControl writes exactly buf[:n] of what the same iteration read, writes before reading again or leaving (a failed pacing wait may only leave), and leaves on write error, short write and read error (timeout-and-temporary retry accepted); the stream adapter keeps the unread remainder of a chunk and serves it first. " +
			"R-C02-2: Bridge.sourceForwarder is accessed only under sourceConnMu (write lock for writers), and the target->source writer resolves the current source forwarder on every write (never a cached one). " +
			"R-C02-3: both copy goroutines of Bridge.Start defer the once-guarded bridge close, Start returns only after waiting for both, Bridge.Close closes both forwarders before the context is cancelled, and the bridge lifecycle removes the bridge from the tunnel map under bridgeLock, removes the routing record and closes the bridge on every exit. " +
			"Decides these necessary conditions; does not decide ordering/timing under real schedules or byte equality end to end.",
		Run: runC02,
		Mutants: []Mutant{
			{Name: "copy-continue-after-wait-failure", File: "internal/protocol/session/tunnel/bridge_forward.go", Rule: "R-C02-1",
				Old: "if waitErr := b.waitBandwidth(nr); waitErr != nil {\n\t\t\t\t\tbreak\n\t\t\t\t}", New: "if waitErr := b.waitBandwidth(nr); waitErr != nil {\n\t\t\t\t\tcontinue\n\t\t\t\t}"},
			{Name: "wait-whole-read-at-once", File: "internal/protocol/session/tunnel/bridge_forward.go", Rule: "R-C02-1",
				Old: "\t\tif burst > 0 && k > burst {\n\t\t\tk = burst\n\t\t}\n", New: "\t\t_ = burst\n"},
			{Name: "target-forwarder-read-unlocked", File: "internal/protocol/session/tunnel/bridge_accessor.go", Rule: "R-C02-2",
				Old: "\tb.tunnelConnMu.RLock()\n\tdefer b.tunnelConnMu.RUnlock()\n\treturn b.targetForwarder", New: "\treturn b.targetForwarder"},
			{Name: "copy-short-write-ignored", File: "internal/protocol/session/tunnel/bridge_forward.go", Rule: "R-C02-1",
				Old: "\t\t\tif nr != nw {\n\t\t\t\tbreak\n\t\t\t}\n", New: ""},
			{Name: "adapter-drops-remainder", File: "internal/protocol/session/tunnel/bridge_forward.go", Rule: "R-C02-1",
				Old: "\tn := copy(p, data)\n\tif n < len(data) {\n\t\ta.buf = append(a.buf, data[n:]...)\n\t}\n\treturn n, nil", New: "\tn := copy(p, data)\n\treturn n, nil"},
			{Name: "set-source-under-wrong-lock", File: "internal/protocol/session/tunnel/bridge_connection.go", Rule: "R-C02-2",
				Old: "\tb.sourceConnMu.Lock()\n\tb.sourceForwarder = forwarder\n\tb.sourceConnMu.Unlock()\n", New: "\tb.sourceForwarder = forwarder\n"},
			{Name: "start-goroutine-without-close", File: "internal/protocol/session/tunnel/bridge_forward.go", Rule: "R-C02-3",
				Old: "\t\tdefer wg.Done()\n\t\tdefer closeBridge()\n\n\t\tdynamicWriter := &dynamicSourceWriter{bridge: b}", New: "\t\tdefer wg.Done()\n\n\t\tdynamicWriter := &dynamicSourceWriter{bridge: b}"},
			{Name: "lifecycle-forgets-map-delete-on-error", File: "internal/protocol/session/server_bridge.go", Rule: "R-C02-3",
				Old: "\tif err := bridge.Start(); err != nil {\n\t\tcorelog.Errorf(\"Tunnel[%s]: bridge failed: %v\", tunnelID, err)\n\t}", New: "\tif err := bridge.Start(); err != nil {\n\t\tcorelog.Errorf(\"Tunnel[%s]: bridge failed: %v\", tunnelID, err)\n\t\treturn\n\t}"},
		},
	})
}

const tunPkg = "internal/protocol/session/tunnel"

func runC02(r *Report) {
	// delegating Read/Write wrappers on the server data path are transparent (R-C02-1)
	nWait := 0
	for _, f := range r.P.FuncsIn("internal/protocol/session/tunnel") {
		checkSyncPoolOwnership(r, "R-C02-1", f)
		// the bandwidth limiter only delays: the amount handed to WaitN is clamped to the bucket size
		// (WaitN(n > burst) fails at once, which would drop the bytes just read and end the tunnel)
		for _, w := range Calls(f, false, "rate:Limiter.WaitN") {
			nWait++
			clamped := false
			for _, rt := range Origins(Arg(w, 1)) {
				if c, ok := rt.V.(*ssa.Call); ok && CalleeOf(c).Is("rate:Limiter.Burst") {
					clamped = true
				}
			}
			// ... and it only delays: the wait is bounded by the life of the bridge, not by a deadline of its
			// own (WaitN fails at once when the wait would exceed the context's deadline; the copy loop
			// treats that as fatal and the bytes just read are dropped although neither end closed)
			deadline := ""
			for _, rt := range Origins(Arg(w, 0)) {
				if c, ok := rt.V.(*ssa.Call); ok && CalleeOf(c).Is("context:WithTimeout", "context:WithDeadline") {
					deadline = CalleeOf(c).Name
				}
				if e, ok := rt.V.(*ssa.Extract); ok {
					if c, ok := e.Tuple.(*ssa.Call); ok && CalleeOf(c).Is("context:WithTimeout", "context:WithDeadline") {
						deadline = CalleeOf(c).Name
					}
				}
			}
			// a deadline-bounded attempt is fine when its failure is followed by a wait on the bridge's own
			// context (an observation window that only warns)
			retried := false
			if deadline != "" {
				hasDeadline := func(v ssa.Value) bool {
					for _, rt := range Origins(v) {
						if c, ok := rt.V.(*ssa.Call); ok && CalleeOf(c).Is("context:WithTimeout", "context:WithDeadline") {
							return true
						}
						if e, ok := rt.V.(*ssa.Extract); ok {
							if c, ok := e.Tuple.(*ssa.Call); ok && CalleeOf(c).Is("context:WithTimeout", "context:WithDeadline") {
								return true
							}
						}
					}
					return false
				}
				for _, w2 := range Calls(f, false, "rate:Limiter.WaitN") {
					if w2 != w && !hasDeadline(Arg(w2, 0)) && ErrFailed(w2.Block(), w) {
						retried = true
					}
				}
			}
			r.Ob("R-C02-1", CallPos(w), deadline == "" || retried, "the bandwidth wait runs under the bridge's own context ("+originSummary(Arg(w, 0))+"), or a deadline-bounded attempt is retried on it when it fails: a limit only delays bytes", r.P.FuncName(f), "wait-without-deadline")
			r.Ob("R-C02-1", CallPos(w), clamped, "the token amount waited for is clamped to the limiter's burst ("+originSummary(Arg(w, 1))+"): a read larger than the bucket is waited for in slices, never refused", r.P.FuncName(f), "wait-clamped-to-burst")
		}
	}
	if nWait < 1 {
		r.Fail("R-C02-1", 0, "no bandwidth wait (Limiter.WaitN) found in the bridge package", "internal/protocol/session/tunnel", "wait-clamped-to-burst:floor")
	}
	checkDelegatingWrappers(r, "R-C02-1", "internal/protocol/session/tunnel", "internal/protocol/adapter", "internal/stream", "internal/protocol/session")
	// ---- R-C02-1 copy loop ---------------------------------------------------
	cwc := r.need("R-C02-1", tunPkg, "Bridge.CopyWithControl")
	if cwc != nil {
		rds := readsInLoops(cwc)
		if len(rds) != 1 {
			r.Fail("R-C02-1", cwc.Pos(), fmt.Sprintf("expected one read in the copy loop, found %d", len(rds)), "CopyWithControl", "anchor")
		}
		for _, rd := range rds {
			CheckCopyLoop(r, "R-C02-1", cwc, rd, true)
		}
	}
	if bidi := r.need("R-C02-1", "internal/utils/iocopy", "Bidirectional"); bidi != nil {
		// the same relay is used by the cross-node forwarders of the server
		for _, rd := range readsInLoops(bidi) {
			CheckCopyLoop(r, "R-C02-1", rd.Parent(), rd, true)
		}
	}
	if ad := r.need("R-C02-1", tunPkg, "streamDataForwarderAdapter.Read"); ad != nil {
		for _, ra := range Calls(ad, false, "ReadAvailable") {
			checkChunkAdapter(r, "R-C02-1", ad, ra)
		}
		r.Floor("R-C02-1", 17, "copy-loop and adapter obligations")
	}

	// ---- R-C02-2 source forwarder access --------------------------------------
	// the forwarders are taken away only by Close: a re-attach replaces the source forwarder in one
	// step; a nil stored in between is visible to the target->source writer, which then fails with
	// ErrClosedPipe, loses the chunk and tears the bridge down although neither end closed
	for _, fld := range []string{"sourceForwarder", "targetForwarder"} {
		for _, fa := range r.P.FieldAccesses("internal/protocol/session/tunnel", "Bridge", fld) {
			if !fa.Write {
				continue
			}
			fad, ok := fa.In.(*ssa.FieldAddr)
			if !ok || fad.Referrers() == nil {
				continue
			}
			for _, ref := range *fad.Referrers() {
				st, ok := ref.(*ssa.Store)
				if !ok || !isNil(st.Val) {
					continue
				}
				top := Outermost(fa.Fn).Name()
				r.Ob("R-C02-2", st.Pos(), top == "Close" || top == "cleanup", "Bridge."+fld+" is set to nil only by the bridge's teardown (Close), never as an intermediate state of a re-attach", r.P.FuncName(fa.Fn), "forwarder-nil-only-on-close:"+fld)
			}
		}
	}
	guardedBy(r, "R-C02-2", tunPkg, "Bridge", "sourceForwarder", "sourceConnMu", map[string]string{
		"NewBridge": "constructor: the bridge is not shared yet",
	})
	guardedBy(r, "R-C02-2", tunPkg, "Bridge", "targetForwarder", "tunnelConnMu", map[string]string{
		"NewBridge": "constructor: the bridge is not shared yet",
	})
	r.Floor("R-C02-2", 13, "accesses to Bridge.sourceForwarder / Bridge.targetForwarder")
	if dw := r.need("R-C02-2", tunPkg, "dynamicSourceWriter.Write"); dw != nil {
		n := 0
		for _, w := range Calls(dw, false, "Write") {
			if !isWriteMethod(w) {
				continue
			}
			n++
			rv := Recv(w)
			okOrigin := true
			isFwdField := func(rt Root) bool {
				return rt.Kind == "field" && strings.HasPrefix(rt.Desc, "Bridge.sourceForwarder")
			}
			for _, rt := range Origins(rv) {
				// must be a load of Bridge.sourceForwarder made in this call, directly or through a
				// same-package getter whose every result is such a load (currentSourceForwarder()-style)
				if isFwdField(rt) {
					continue
				}
				getter := false
				if c, ok := rt.V.(*ssa.Call); ok && rt.Kind == "call" {
					if g := c.Common().StaticCallee(); g != nil && g.Pkg == dw.Pkg && len(g.Blocks) > 0 && g.Signature.Results().Len() == 1 {
						getter = true
						for _, ret := range Returns(g) {
							for _, r2 := range Origins(RetVal(ret, 0)) {
								if !isFwdField(r2) {
									getter = false
								}
							}
						}
					}
				}
				if !getter {
					okOrigin = false
				}
			}
			r.Ob("R-C02-2", CallPos(w), okOrigin, "the target->source writer must resolve Bridge.sourceForwarder on every write (origin: "+originSummary(rv)+"); a cached forwarder keeps writing to a replaced source connection", "dynamicSourceWriter.Write", "resolves-current-forwarder")
		}
		if n == 0 {
			r.Fail("R-C02-2", dw.Pos(), "no forwarding write found in dynamicSourceWriter.Write", "dynamicSourceWriter.Write", "anchor")
		}
	}

	// ---- R-C02-3 close propagation ---------------------------------------------
	start := r.need("R-C02-3", tunPkg, "Bridge.Start")
	if start != nil {
		n := checkDirectionsDeferClose(r, "R-C02-3", start)
		if n != 2 {
			r.Fail("R-C02-3", start.Pos(), fmt.Sprintf("expected 2 copy goroutines in Bridge.Start, found %d", n), "Bridge.Start", "anchor")
		}
		// Start returns after wg.Wait on the forwarding path
		waits := Calls(start, false, "sync:WaitGroup.Wait")
		gos := 0
		Instrs(start, func(in ssa.Instruction) {
			if _, ok := in.(*ssa.Go); ok {
				gos++
			}
		})
		okWait := len(waits) == 1
		if okWait {
			w := waits[0].(ssa.Instruction)
			Instrs(start, func(in ssa.Instruction) {
				if g, ok := in.(*ssa.Go); ok {
					// from each go statement every path to return passes Wait
					hits := WalkFrom(nil, g, func(x ssa.Instruction) int {
						if x == w {
							return Stop
						}
						if _, isRet := x.(*ssa.Return); isRet {
							return Hit
						}
						return Cont
					}, nil)
					if len(hits) > 0 {
						okWait = false
					}
				}
			})
		}
		r.Ob("R-C02-3", start.Pos(), okWait && gos == 2, "Bridge.Start returns only after waiting for both copy goroutines", "Bridge.Start", "waits-for-both")
	}
	// target attach: Start is released (ready closed) only after the target end and its forwarder are
	// installed; a Start woken earlier finds no forwarder and never copies
	if st := r.need("R-C02-3", tunPkg, "Bridge.SetTargetConnection"); st != nil {
		mrs := Calls(st, true, "Bridge.markReady")
		if len(mrs) == 0 {
			r.Fail("R-C02-3", st.Pos(), "SetTargetConnection does not signal readiness", "SetTargetConnection", "ready-after-install")
		}
		for _, mr := range mrs {
			late := WalkFrom(nil, mr.(ssa.Instruction), func(in ssa.Instruction) int {
				if s2, ok := in.(*ssa.Store); ok {
					if _, f, _, isF := FieldOf(s2.Addr); isF && (f == "targetForwarder" || f == "targetConn" || f == "targetStream" || f == "targetTunnelConn") {
						return Hit
					}
				}
				return Cont
			}, nil)
			r.Ob("R-C02-3", CallPos(mr), len(late) == 0, "readiness is signalled after the target connection, stream and forwarder are stored (no store of a target field follows markReady)", "SetTargetConnection", "ready-after-install")
		}
	}
	if cl := r.need("R-C02-3", tunPkg, "Bridge.Close"); cl != nil {
		mb := Calls(cl, false, "ManagerBase.Close", "ResourceBase.Close", "Dispose.Close")
		for _, fld := range []string{"sourceForwarder", "targetForwarder"} {
			var closeCall ssa.Instruction
			for _, c := range Calls(cl, false, "Close") {
				if _, f, _, ok := FieldOf(Recv(c)); ok && f == fld {
					closeCall = c.(ssa.Instruction)
				}
			}
			ok := closeCall != nil && len(mb) > 0 && Before(closeCall.Block().Instrs[0], mb[0].(ssa.Instruction)) || (closeCall != nil && len(mb) > 0 && CanReach(closeCall.Block(), mb[0].Block()))
			pos := cl.Pos()
			if closeCall != nil {
				pos = closeCall.Pos()
			}
			r.Ob("R-C02-3", pos, ok, "Bridge.Close closes "+fld+" (so a blocked read returns) before cancelling the context", "Bridge.Close", "closes:"+fld)
			// ... on every call: no return of Close is reachable without passing the `fld != nil`
			// test that leads to the close (an early `already closed` return would leave an end that
			// was attached after the first Close open for ever)
			isGuard := func(in ssa.Instruction) bool {
				bo, isB := in.(*ssa.BinOp)
				if !isB || (bo.Op != token.NEQ && bo.Op != token.EQL) {
					return false
				}
				u, isU := stripValue(bo.X).(*ssa.UnOp)
				if !isU || u.Op != token.MUL {
					return false
				}
				_, f, _, isF := FieldOf(u.X)
				return isF && f == fld
			}
			every := closeCall != nil
			for _, ret := range Returns(cl) {
				if ReachesWithout(cl, ret, isGuard) {
					every = false
				}
			}
			r.Ob("R-C02-3", pos, every, "every call of Bridge.Close examines "+fld+" and closes it when set (no early return before it: ends attached after a first Close must still see closure)", "Bridge.Close", "closes-on-every-call:"+fld)
		}
	}
	if lc := r.need("R-C02-3", sessPkg, "SessionManager.runBridgeLifecycle"); lc != nil {
		delUnderLock := func(in ssa.Instruction) bool {
			c, ok := in.(*ssa.Call)
			if !ok {
				return false
			}
			b, ok := c.Call.Value.(*ssa.Builtin)
			if !ok || b.Name() != "delete" {
				return false
			}
			if _, f, _, ok := FieldOf(c.Call.Args[0]); !ok || f != "tunnelBridges" {
				return false
			}
			return r.held(lockSetsOf(in.Parent()), in, "internal/protocol/session", "SessionManager", "bridgeLock") == "W"
		}
		var ls *LockSets
		for _, ret := range Returns(lc) {
			// delete(tunnelBridges, id) under bridgeLock
			okDel := !ReachesWithout(lc, ret, func(in ssa.Instruction) bool {
				if in.Parent() == lc && performsVia(in, delUnderLock, nil) {
					return true
				}
				if d, isDefer := in.(*ssa.Defer); isDefer {
					// a deferred closure that deletes under the lock runs on every exit after this point
					if g := resolveClosure(d.Call.Value, lc, 0); g != nil && g.Parent() == lc {
						gls := ComputeLockSets(g, nil)
						for _, del := range mapDeletes(g, "tunnelBridges") {
							if r.held(gls, del, "internal/protocol/session", "SessionManager", "bridgeLock") == "W" {
								return true
							}
						}
					}
					return false
				}
				c, ok := in.(*ssa.Call)
				if !ok {
					return false
				}
				b, ok := c.Call.Value.(*ssa.Builtin)
				if !ok || b.Name() != "delete" {
					return false
				}
				if _, f, _, ok := FieldOf(c.Call.Args[0]); !ok || f != "tunnelBridges" {
					return false
				}
				if ls == nil {
					ls = ComputeLockSets(lc, nil)
				}
				return r.held(ls, in, "internal/protocol/session", "SessionManager", "bridgeLock") == "W"
			})
			r.Ob("R-C02-3", ret.Pos(), okDel, "every exit of the bridge lifecycle removes the bridge from tunnelBridges under bridgeLock (the server forgets the tunnel)", "runBridgeLifecycle", "forgets-bridge")
			okClose := !ReachesWithout(lc, ret, func(in ssa.Instruction) bool {
				ci, ok := in.(ssa.CallInstruction)
				return ok && CalleeOf(ci).Name == "Close" && CalleeOf(ci).Recv == "Bridge"
			})
			r.Ob("R-C02-3", ret.Pos(), okClose, "every exit of the bridge lifecycle closes the bridge", "runBridgeLifecycle", "closes-bridge")
			okRoute := !ReachesWithout(lc, ret, func(in ssa.Instruction) bool {
				ci, ok := in.(ssa.CallInstruction)
				if ok && CalleeOf(ci).Name == "RemoveWaitingTunnel" {
					return true
				}
				// or the routing table is absent (tunnelRouting == nil edge)
				return false
			})
			if !okRoute {
				// accept paths on which tunnelRouting is nil
				okRoute = !reachesReturnWithoutUnlessNil(lc, ret, "RemoveWaitingTunnel", "tunnelRouting")
			}
			r.Ob("R-C02-3", ret.Pos(), okRoute, "every exit of the bridge lifecycle removes the waiting-tunnel routing record (when a routing table is configured)", "runBridgeLifecycle", "forgets-routing-record")
		}
	}
}

// reachesCall: does f (transitively through closures/once.Do, bounded) call a function matching spec?
func reachesCall(f *ssa.Function, spec string, depth int) bool {
	if f == nil || depth < 0 {
		return false
	}
	found := false
	Instrs(f, func(in ssa.Instruction) {
		ci, ok := in.(ssa.CallInstruction)
		if !ok || found {
			return
		}
		c := CalleeOf(ci)
		if c.Is(spec) {
			found = true
			return
		}
		if c.Is("sync:Once.Do") {
			if g := resolveClosure(Arg(ci, 0), f, 0); g != nil && reachesCall(g, spec, depth-1) {
				found = true
			}
			return
		}
		if c.Name == "$closure" && reachesCall(c.Fn, spec, depth-1) {
			found = true
			return
		}
		if c.Name == "" {
			if g := resolveClosure(ci.Common().Value, f, 0); g != nil && reachesCall(g, spec, depth-1) {
				found = true
			}
		}
	})
	return found
}

// reachesReturnWithoutUnlessNil: is ret reachable from entry without calling
// `call`, considering only paths on which field `fld` was NOT observed nil?
func reachesReturnWithoutUnlessNil(f *ssa.Function, ret *ssa.Return, call, fld string) bool {
	hits := WalkFrom(f.Blocks[0], nil, func(in ssa.Instruction) int {
		if in == ssa.Instruction(ret) {
			return Hit
		}
		direct := func(x ssa.Instruction) bool {
			ci, ok := x.(ssa.CallInstruction)
			return ok && CalleeOf(ci).Name == call
		}
		if OrDeferred(direct)(in) || (in.Parent() == f && performsVia(in, direct, nil)) {
			return Stop
		}
		return Cont
	}, func(b *ssa.BasicBlock, succ int) bool {
		iff, ok := b.Instrs[len(b.Instrs)-1].(*ssa.If)
		if !ok {
			return true
		}
		c, pol := normCond(iff.Cond, true)
		if x, tmn, ok := NilTest(c); ok {
			if _, f2, _, ok := FieldOf(x); ok && f2 == fld {
				nilSucc := 0
				if tmn != pol {
					nilSucc = 1
				}
				return succ != nilSucc // prune the "component absent" edge
			}
		}
		return true
	})
	return len(hits) > 0
}

// checkChunkAdapter: a chunk source adapted to io.Reader keeps data[n:] in a
// receiver field when the caller's buffer is smaller, and serves that field first.
func checkChunkAdapter(r *Report, rule string, f *ssa.Function, src ssa.CallInstruction) {
	fn := r.P.FuncName(f)
	data := extractOf(src, 0)
	if data == nil || data.Referrers() == nil {
		r.Fail(rule, CallPos(src), "chunk result unused", fn, "adapter-remainder-kept")
		return
	}
	kept := false
	bufField := ""
	for _, ref := range *data.Referrers() {
		sl, ok := ref.(*ssa.Slice)
		if !ok || sl.High != nil || sl.Low == nil {
			continue
		}
		// Low must be the count of a copy(p, data)
		cp, ok := sl.Low.(*ssa.Call)
		if !ok {
			continue
		}
		if b, ok := cp.Call.Value.(*ssa.Builtin); !ok || b.Name() != "copy" || cp.Call.Args[1] != data {
			continue
		}
		seen := map[ssa.Value]bool{}
		var follow func(v ssa.Value)
		follow = func(v ssa.Value) {
			if seen[v] || v.Referrers() == nil {
				return
			}
			seen[v] = true
			for _, u := range *v.Referrers() {
				switch y := u.(type) {
				case *ssa.Store:
					if _, fld, _, ok := FieldOf(y.Addr); ok && y.Val == v {
						kept, bufField = true, fld
					}
				case *ssa.Call:
					if b, ok := y.Call.Value.(*ssa.Builtin); ok && b.Name() == "append" {
						follow(y)
					}
				}
			}
		}
		follow(sl)
	}
	r.Ob(rule, CallPos(src), kept, "the part of a chunk that does not fit the caller's buffer is kept in a receiver field (data[n:])", fn, "adapter-remainder-kept")
	served := false
	if kept {
		for _, ft := range Facts(src.Block()) {
			if lenFieldIsZeroFact(ft, bufField) {
				served = true
			}
		}
	}
	r.Ob(rule, CallPos(src), served, "the next chunk is fetched only when the remainder buffer is empty (buffered bytes are served first, in order)", fn, "adapter-remainder-served-first")
}

// lenFieldIsZeroFact: the fact states len(recv.field) == 0.
func lenFieldIsZeroFact(ft Fact, field string) bool {
	b, ok := ft.Cond.(*ssa.BinOp)
	if !ok {
		return false
	}
	lc, ok := stripValue(b.X).(*ssa.Call)
	if !ok {
		return false
	}
	bi, ok := lc.Call.Value.(*ssa.Builtin)
	if !ok || bi.Name() != "len" {
		return false
	}
	if _, fld, _, ok := FieldOf(lc.Call.Args[0]); !ok || fld != field {
		return false
	}
	z, isC := ConstInt(b.Y)
	if !isC || z != 0 {
		return false
	}
	switch b.Op.String() {
	case ">":
		return !ft.Pol
	case "==":
		return ft.Pol
	case "!=":
		return !ft.Pol
	}
	return false
}

// checkDirectionsDeferClose: each copy goroutine of Bridge.Start defers the once-guarded bridge
// close before it starts copying (the first direction to finish closes the other end). Returns the
// number of copy directions found.
func checkDirectionsDeferClose(r *Report, rule string, start *ssa.Function) int {
	n := 0
	for _, g := range start.AnonFuncs {
		if len(Calls(g, false, "Bridge.CopyWithControl")) == 0 {
			continue
		}
		n++
		okClose := false
		Instrs(g, func(in ssa.Instruction) {
			d, ok := in.(*ssa.Defer)
			if !ok {
				return
			}
			if f := resolveClosure(d.Call.Value, g, 0); f != nil && reachesCall(f, "Bridge.Close", 3) {
				first := true
				for _, c := range Calls(g, false, "Bridge.CopyWithControl") {
					if !Before(in, c.(ssa.Instruction)) {
						first = false
					}
				}
				if first {
					okClose = true
				}
			}
		})
		r.Ob(rule, g.Pos(), okClose, "each copy direction must defer the once-guarded bridge close before copying, so that the first direction to finish closes the other end", r.P.FuncName(g), "direction-defers-bridge-close")
	}
	return n
}
