package main

import (
	"fmt"
	"go/constant"
	"go/token"
	"go/types"
	"strings"

	"golang.org/x/tools/go/ssa"
)

func init() {
	register(&PropCheck{
		ID: "C15",
		Explanation: "Static rules on identifier generation (core/idgen/generator.go, core/node/node_id_allocator.go, the SetNX/IncrBy implementers). " +
			"R-C15-1: Generate returns a candidate only on the success edge of the atomic mark of that same candidate in the same iteration; every other exit returns an error. " +
			"R-C15-2: the mark returns the store's set-if-absent verdict unchanged, and the non-atomic fallback holds the generator's mutex from the existence test to the write. " +
			"R-C15-3: every SetNX implementer is one critical section (memory), one backend primitive (redis) or a delegation to such (hybrid), and hybrid's non-atomic degradations are dead because every cache-tier implementer in the program provides SetNX and IncrBy. " +
			"R-C15-4: the node-id claim and its renewal resolve to the same tiers, the key family is classified shared, and the claim result is returned unchanged. " +
			"R-C15-5: counters used for id generation delegate to the tier's atomic increment. " +
			"R-C15-6: mark, release and is-used build the marker key with the same constructor. " +
			"Decides these necessary conditions; does not decide collision probability or marker TTL expiry.",
		Run: runC15,
		Mutants: []Mutant{
			{Name: "generate-returns-on-failed-mark", File: "internal/core/idgen/generator.go", Rule: "R-C15-1",
				Old: "\t\tif success {\n\t\t\treturn candidate, nil\n\t\t}", New: "\t\tif success || attempts == MaxAttempts-1 {\n\t\t\treturn candidate, nil\n\t\t}"},
			{Name: "mark-verdict-ignored", File: "internal/core/idgen/generator.go", Rule: "R-C15-2",
				Old: "\t\treturn casStore.SetNX(key, string(data), g.ttl)", New: "\t\t_, err := casStore.SetNX(key, string(data), g.ttl)\n\t\treturn err == nil, err"},
			{Name: "fallback-unlocked", File: "internal/core/idgen/generator.go", Rule: "R-C15-2",
				Old: "\tg.mu.Lock()\n\tdefer g.mu.Unlock()\n\n\texists, err := g.storage.Exists(key)", New: "\texists, err := g.storage.Exists(key)"},
			{Name: "memory-setnx-two-sections", File: "internal/core/storage/memory/memory_ops.go", Rule: "R-C15-3",
				Old: "\t\t// 键已过期，删除后继续设置\n\t\tdelete(m.data, key)\n\t}\n", New: "\t\t// 键已过期，删除后继续设置\n\t\tdelete(m.data, key)\n\t}\n\tm.mu.Unlock()\n\tm.mu.Lock()\n"},
			{Name: "renew-local-only", File: "internal/core/storage/hybrid/hybrid.go", Rule: "R-C15-4",
				Old: "\tif h.sharedCache != nil {\n\t\tif ttl == 0 {\n\t\t\tttl = h.config.DefaultCacheTTL\n\t\t}\n\t\treturn h.sharedCache.Set(key, value, ttl)\n\t}\n\treturn h.setRuntime(key, value, ttl)", New: "\treturn h.setRuntime(key, value, ttl)"},
			{Name: "incr-nonatomic", File: "internal/core/storage/hybrid/hybrid_ops.go", Rule: "R-C15-5",
				Old: "\tif counter, ok := cache.(interface {\n\t\tIncrBy(string, int64) (int64, error)\n\t}); ok {\n\t\treturn counter.IncrBy(key, delta)\n\t}\n", New: ""},
			{Name: "release-other-key", File: "internal/core/idgen/generator.go", Rule: "R-C15-6",
				Old: "func (g *StorageIDGenerator[T]) Release(id T) error {\n\tkey := g.getKey(id)", New: "func (g *StorageIDGenerator[T]) Release(id T) error {\n\tkey := fmt.Sprintf(\"%s%v\", g.keyPrefix, id)"},
		},
	})
}

const idgPkg = "internal/core/idgen"

// genericMethod finds method name of generic type typ in package pkg (the generic body).
func genericMethod(p *Prog, pkg, typ, name string) *ssa.Function {
	for _, f := range p.Funcs {
		if f.Pkg == nil || f.Pkg.Pkg.Path() != Module+"/"+pkg || f.Name() != name || f.Parent() != nil {
			continue
		}
		if f.Signature.Recv() == nil {
			continue
		}
		if _, n := recvTypeName(f.Signature.Recv().Type()); n == typ {
			return f
		}
	}
	// generic bodies are not in p.Funcs when only instances are enumerated: look through the type's methods
	sp := p.SSAPkgs[Module+"/"+pkg]
	if sp == nil {
		return nil
	}
	if tm, ok := sp.Members[typ].(*ssa.Type); ok {
		if nt, ok := tm.Type().(*types.Named); ok {
			for i := 0; i < nt.NumMethods(); i++ {
				if nt.Method(i).Name() == name {
					if fn := p.SSA.FuncValue(nt.Method(i)); fn != nil && len(fn.Blocks) > 0 {
						return fn
					}
				}
			}
		}
	}
	return nil
}

func runC15(r *Report) {
	gen := genericMethod(r.P, idgPkg, "StorageIDGenerator", "Generate")
	mark := genericMethod(r.P, idgPkg, "StorageIDGenerator", "tryMarkAsUsed")
	if gen == nil || mark == nil {
		r.Fail("R-C15-1", 0, "anchor lost: StorageIDGenerator.Generate / tryMarkAsUsed not found", idgPkg, "anchor")
		return
	}
	// ---- R-C15-1 returned = marked ------------------------------------------------
	marks := Calls(gen, false, "tryMarkAsUsed")
	if len(marks) != 1 {
		r.Fail("R-C15-1", gen.Pos(), fmt.Sprintf("expected one atomic mark per iteration in Generate, found %d", len(marks)), "Generate", "anchor")
	} else {
		mk := marks[0]
		ok0 := extractOf(mk, 0)
		nOK := 0
		for _, ret := range Returns(gen) {
			if RetErrKind(ret) != "nil" {
				continue
			}
			nOK++
			succ := false
			for _, ft := range Facts(ret.Block()) {
				if ft.Cond == ok0 && ft.Pol {
					succ = true
				}
			}
			// the facts must not be weakened by a disjunction: the return block must have the success fact itself
			same := sameCandidate(RetVal(ret, 0), Arg(mk, 0))
			r.Ob("R-C15-1", ret.Pos(), succ && ErrOK(ret.Block(), mk), "an id is returned only on the success edge of its atomic mark (success==true and err==nil)", "Generate", "return-on-success-edge")
			r.Ob("R-C15-1", ret.Pos(), same, "the id returned is the candidate that was marked in this iteration", "Generate", "returned-is-marked")
		}
		if nOK != 1 {
			r.Fail("R-C15-1", gen.Pos(), fmt.Sprintf("expected exactly one success return in Generate, found %d", nOK), "Generate", "single-success-return")
		}
		r.Ob("R-C15-1", CallPos(mk), InLoop(mk.Block()), "the mark is retried inside the bounded attempt loop", "Generate", "bounded-retry")
	}

	// ---- R-C15-2 the mark ------------------------------------------------------------
	nx := Calls(mark, false, "SetNX")
	if len(nx) != 1 {
		r.Fail("R-C15-2", mark.Pos(), "expected one SetNX call in tryMarkAsUsed", "tryMarkAsUsed", "anchor")
	} else {
		found := false
		for _, ret := range Returns(mark) {
			c0, i0 := CallOfValue(RetVal(ret, 0))
			c1, i1 := CallOfValue(RetVal(ret, 1))
			if c0 != nil && ssa.CallInstruction(c0) == nx[0] {
				found = true
				r.Ob("R-C15-2", ret.Pos(), i0 == 0 && c1 != nil && ssa.CallInstruction(c1) == nx[0] && i1 == 1, "the set-if-absent verdict and error are returned unchanged", "tryMarkAsUsed", "verdict-unchanged")
			}
		}
		if !found {
			r.Fail("R-C15-2", CallPos(nx[0]), "the verdict of SetNX is not what tryMarkAsUsed returns (a failed claim would be reported as success)", "tryMarkAsUsed", "verdict-unchanged")
		}
		// key marked is getKey(id)
		kc, _ := CallOfValue(nx[0].Common().Args[0])
		r.Ob("R-C15-6", CallPos(nx[0]), kc != nil && CalleeOf(kc).Name == "getKey", "the marker key is built by getKey(id)", "tryMarkAsUsed", "key-ctor:mark")
	}
	// the fallback may live in a helper of tryMarkAsUsed (`markWithLocalLock`): the whole unit is scanned
	for _, u := range samePkgReach(mark, 2) {
		ls := ComputeLockSets(u, nil)
		var exists, sets []ssa.CallInstruction
		heldW := map[ssa.CallInstruction]bool{}
		for _, c := range Calls(u, false, "Exists", "Set") {
			if !c.Common().IsInvoke() {
				continue
			}
			if CalleeOf(c).Name == "Exists" {
				exists = append(exists, c)
			} else {
				sets = append(sets, c)
			}
			heldW[c] = r.held(ls, c.(ssa.Instruction), "internal/core/idgen", "StorageIDGenerator", "mu") == "W" ||
				callersHold(r.P, u, r.lockFor("internal/core/idgen", "StorageIDGenerator", "", "mu"), true, 2, map[*ssa.Function]bool{})
		}
		// the deciding check of a write: an existence check, write-locked, in the same locked section as
		// the write.  Another check made earlier without the write lock is a pre-check (it can only
		// refuse early); it does not decide.
		decided := map[ssa.CallInstruction]bool{}
		for _, st := range sets {
			for _, e := range exists {
				if heldW[e] && heldW[st] && CanReach(e.Block(), st.Block()) && unlockBetween(e.(ssa.Instruction), st.(ssa.Instruction)) == nil {
					decided[st] = true
				}
			}
		}
		allDecided := len(sets) > 0
		for _, st := range sets {
			if !decided[st] {
				allDecided = false
			}
		}
		for _, c := range append(append([]ssa.CallInstruction{}, exists...), sets...) {
			ok := heldW[c]
			if !ok && CalleeOf(c).Name == "Exists" && allDecided {
				ok = true // a pre-check before the locked re-check
			}
			r.Ob("R-C15-2", CallPos(c), ok, "the non-atomic fallback ("+CalleeOf(c).Name+") runs under the generator's mutex, write-locked (an unlocked existence check is only a pre-check of a locked one)", "tryMarkAsUsed", "fallback-locked:"+CalleeOf(c).Name)
		}
		for _, st := range sets {
			if len(exists) == 0 {
				continue
			}
			r.Ob("R-C15-2", CallPos(st), decided[st], "the fallback's write is decided by an existence check in the same write-locked section (released in between, two callers both find the id free and both take it)", "tryMarkAsUsed", "fallback-one-section")
		}
	}
	for _, name := range []string{"Release", "IsUsed"} {
		f := genericMethod(r.P, idgPkg, "StorageIDGenerator", name)
		if f == nil {
			r.Fail("R-C15-6", 0, "anchor lost: "+name, idgPkg, "anchor:"+name)
			continue
		}
		for _, c := range Calls(f, false, "Delete", "Exists") {
			kc, _ := CallOfValue(c.Common().Args[0])
			r.Ob("R-C15-6", CallPos(c), kc != nil && CalleeOf(kc).Name == "getKey", name+" addresses the marker through getKey(id)", name, "key-ctor:"+name)
		}
	}
	r.Floor("R-C15-6", 3, "marker key constructor uses")

	// ---- R-C15-3 atomic primitive in every implementer ----------------------------------
	if ms := r.need("R-C15-3", memPkg, "Storage.SetNX"); ms != nil {
		mls := ComputeLockSets(ms, nil)
		nLock := 0
		Instrs(ms, func(in ssa.Instruction) {
			if c, ok := in.(*ssa.Call); ok {
				if _, op, ok := lockOp(c); ok && (op == "Lock" || op == "RLock") {
					nLock++
				}
			}
		})
		allW := true
		for _, fa := range r.P.FieldAccesses(memPkg, "Storage", "data") {
			if fa.Fn == ms && r.held(mls, fa.In, memPkg, "Storage", "mu") != "W" {
				allW = false
			}
		}
		r.Ob("R-C15-3", ms.Pos(), nLock == 1 && allW, fmt.Sprintf("memory SetNX is one write-locked critical section (%d lock acquisitions)", nLock), "memory.Storage.SetNX", "single-section")
	}
	if rs := r.need("R-C15-3", "internal/core/storage/redis", "Storage.SetNX"); rs != nil {
		prim := 0
		other := 0
		for _, c := range Calls(rs, false, "SetNX", "Get", "Exists", "Set") {
			if strings.Contains(CalleeOf(c).Pkg, "go-redis") {
				if CalleeOf(c).Name == "SetNX" {
					prim++
				} else {
					other++
				}
			}
		}
		r.Ob("R-C15-3", rs.Pos(), prim == 1 && other == 0, "redis SetNX is a single SETNX command (no read before it)", "redis.Storage.SetNX", "single-primitive")
	}
	// hybrid degradations are dead: every CacheStorage implementer provides SetNX and IncrBy
	var cacheIface *types.Interface
	if tp := r.P.ByPath[Module+"/internal/core/storage/types"]; tp != nil {
		if o := tp.Types.Scope().Lookup("CacheStorage"); o != nil {
			cacheIface, _ = o.Type().Underlying().(*types.Interface)
		}
	}
	if cacheIface == nil {
		r.Fail("R-C15-3", 0, "types.CacheStorage not found", "internal/core/storage/types", "anchor")
	} else {
		n := 0
		for _, pk := range r.P.Pkgs {
			sc := pk.Types.Scope()
			for _, name := range sc.Names() {
				tn, ok := sc.Lookup(name).(*types.TypeName)
				if !ok || tn.IsAlias() {
					continue
				}
				if _, isI := tn.Type().Underlying().(*types.Interface); isI {
					continue
				}
				pt := types.NewPointer(tn.Type())
				if !types.Implements(pt, cacheIface) {
					continue
				}
				// cache tiers are the concrete storages; the hybrid facade itself and null/test doubles are not tiers
				if rel(pk.PkgPath) == hybPkg || strings.Contains(name, "Null") || strings.Contains(name, "Mock") {
					continue
				}
				if !strings.HasPrefix(rel(pk.PkgPath), "internal/core/storage/") {
					continue
				}
				n++
				ms := types.NewMethodSet(pt)
				hasNX := ms.Lookup(pk.Types, "SetNX") != nil
				hasInc := ms.Lookup(pk.Types, "IncrBy") != nil
				r.Ob("R-C15-3", tn.Pos(), hasNX && hasInc, fmt.Sprintf("cache-tier implementer %s.%s provides SetNX (%v) and IncrBy (%v), so hybrid's non-atomic degradations are unreachable", rel(pk.PkgPath), name, hasNX, hasInc), rel(pk.PkgPath)+"."+name, "tier-has-atomics")
			}
		}
		if n < 1 { // alarm below 40% of the 2 sites confirmed by hand
			r.Fail("R-C15-3", 0, fmt.Sprintf("only %d cache-tier implementers found (memory and redis confirmed by hand)", n), "internal/core/storage", "floor")
		}
	}
	if hs := r.need("R-C15-3", hybPkg, "Storage.SetNX"); hs != nil {
		deleg := false
		for _, c := range Calls(hs, false, "SetNX") {
			if c.Common().IsInvoke() {
				// returned unchanged
				for _, ret := range Returns(hs) {
					if cc, _ := CallOfValue(RetVal(ret, 0)); cc != nil && ssa.CallInstruction(cc) == c {
						deleg = true
					}
				}
			}
		}
		r.Ob("R-C15-3", hs.Pos(), deleg, "hybrid SetNX returns the tier's SetNX verdict unchanged", "hybrid.Storage.SetNX", "delegates")
		// ... and the claim lives as long as the claimant asked: the lifetime handed to the tier is the
		// caller's ttl itself (a marker that expires earlier than its id frees the id for a second owner)
		var ttlParam *ssa.Parameter
		for _, p := range hs.Params {
			if _, n := recvTypeName(p.Type()); n == "Duration" {
				ttlParam = p
			}
		}
		for _, c := range Calls(hs, false, "SetNX", "Set") {
			if !c.Common().IsInvoke() || ttlParam == nil {
				continue
			}
			args := c.Common().Args
			if len(args) == 0 {
				continue
			}
			last := args[len(args)-1]
			if _, n := recvTypeName(last.Type()); n != "Duration" {
				continue
			}
			r.Ob("R-C15-3", CallPos(c), ttlPreserved(last, ttlParam, 0), "hybrid SetNX hands the caller's ttl to the tier unchanged, or through a helper that returns every positive ttl as it is ("+originSummary(last)+")", "hybrid.Storage.SetNX", "claim-lifetime-unchanged:"+c.Common().Method.Name())
		}
	}

	// a claim attempted in one tier is final: no fall-through to another tier's claim or write
	for _, name := range []string{"Storage.SetNX", "Storage.SetNXRuntime"} {
		f := r.need("R-C15-3", hybPkg, name)
		if f == nil {
			continue
		}
		n := 0
		for _, c := range Calls(f, false, "SetNX") {
			if !c.Common().IsInvoke() {
				continue
			}
			n++
			hits := WalkFrom(nil, c.(ssa.Instruction), func(in ssa.Instruction) int {
				if ci, ok := in.(ssa.CallInstruction); ok && ci != c {
					cal := CalleeOf(ci)
					if cal.Is("SetNX", "Set", "Storage.setRuntime", "Storage.Set") {
						return Hit
					}
				}
				return Cont
			}, nil)
			r.Ob("R-C15-3", CallPos(c), len(hits) == 0, "the verdict (or error) of a tier's SetNX is final: falling through to another tier after a failed or refused claim hands out an identifier that another node may hold", "hybrid."+name, "claim-no-fallthrough")
		}
		if n == 0 {
			r.Fail("R-C15-3", f.Pos(), "no tier SetNX in "+name, "hybrid."+name, "anchor")
		}
	}

	// ---- R-C15-4 node id claim / renewal ---------------------------------------------------
	consts := categoryConsts(r.P)
	tiersOf := func(name string) map[string]bool {
		f := r.need("R-C15-4", hybPkg, "Storage."+name)
		if f == nil {
			return nil
		}
		tbl := map[string][]tierUse{}
		n := 0
		evalTierTable(r.P, f, consts, map[string]bool{"Runtime": true}, 0, false, tbl, &n)
		out := map[string]bool{}
		for _, u := range tbl["Runtime"] {
			if u.method == "SetNX" || u.method == "Set" {
				out[u.tier] = true
			}
		}
		return out
	}
	// id markers are shared keys: the set-if-absent the generators use claims them in the key cache
	// (the shared cache when one is configured), never in the node-local cache
	if snx := r.need("R-C15-4", hybPkg, "Storage.SetNX"); snx != nil {
		tbl := map[string][]tierUse{}
		n := 0
		evalTierTable(r.P, snx, consts, nil, 0, false, tbl, &n)
		used := map[string]bool{}
		for _, u := range tbl["Shared"] {
			used[u.tier] = true
		}
		r.Ob("R-C15-4", snx.Pos(), len(used) == 1 && used["keycache"], "hybrid SetNX on a shared key (id markers) operates on "+setStr(used)+" (want exactly the key cache: a marker claimed in a node-local cache is invisible to the other nodes)", "hybrid.Storage.SetNX", "marker-claim-tier")
	}
	claimT, renewT := tiersOf("SetNXRuntime"), tiersOf("SetRuntime")
	if claimT != nil && renewT != nil {
		r.Ob("R-C15-4", 0, setStr(claimT) == setStr(renewT) && len(claimT) > 0, fmt.Sprintf("node-id claim writes %s and renewal writes %s (they must be the same tiers, otherwise the claim expires where other nodes look)", setStr(claimT), setStr(renewT)), "hybrid.Storage", "claim-renew-tier")
	}
	const nodePkg = "internal/core/node"
	if ta := r.need("R-C15-4", nodePkg, "NodeIDAllocator.tryAcquireNodeID"); ta != nil {
		for _, c := range Calls(ta, false, "SetNXRuntime", "SetNX") {
			okRet := false
			for _, ret := range Returns(ta) {
				if cc, idx := CallOfValue(RetVal(ret, 0)); cc != nil && ssa.CallInstruction(cc) == c && idx == 0 {
					okRet = true
				}
			}
			r.Ob("R-C15-4", CallPos(c), okRet, "the node-id claim verdict of "+CalleeOf(c).Name+" is returned unchanged", "tryAcquireNodeID", "claim-verdict:"+CalleeOf(c).Name)
		}
	}
	if al := r.need("R-C15-4", nodePkg, "NodeIDAllocator.AllocateNodeID"); al != nil {
		for _, ret := range Returns(al) {
			if RetErrKind(ret) != "nil" {
				continue
			}
			acq := Calls(al, false, "NodeIDAllocator.tryAcquireNodeID")
			ok := false
			if len(acq) == 1 {
				a0 := extractOf(acq[0], 0)
				for _, ft := range Facts(ret.Block()) {
					if ft.Cond == a0 && ft.Pol {
						ok = true
					}
				}
				ok = ok && ErrOK(ret.Block(), acq[0])
			}
			r.Ob("R-C15-4", ret.Pos(), ok, "a node id is returned only on the success edge of its claim", "AllocateNodeID", "return-on-claim")
		}
	}
	if hb := r.need("R-C15-4", nodePkg, "NodeIDAllocator.heartbeatLoop"); hb != nil {
		n := len(Calls(hb, false, "SetRuntime")) + len(Calls(hb, false, "Set"))
		r.Ob("R-C15-4", hb.Pos(), n >= 1, "the claim is renewed periodically", "heartbeatLoop", "renews")
	}
	// the key families are read from the source on every run: the node-id lock prefix constant and the
	// marker prefixes NewIDManager hands to its storage-backed generators (evaluated through helpers)
	nodePrefix := ""
	if npk := r.P.ByPath[Module+"/"+nodePkg]; npk != nil {
		if c, _ := npk.Types.Scope().Lookup("NodeIDKeyPrefix").(*types.Const); c != nil && c.Val().Kind() == constant.String {
			nodePrefix = constant.StringVal(c.Val())
		}
	}
	if nodePrefix == "" {
		r.Fail("R-C15-4", 0, "node-id lock key prefix (NodeIDKeyPrefix) not found", nodePkg, "node-key-shared")
	} else {
		cat := hybridCategory(r, nodePrefix+"node-0001")
		r.Ob("R-C15-4", 0, cat == "shared", "node-id lock keys ("+nodePrefix+"*) classify as "+cat+" (release through Delete must reach the tier the claim lives in)", hybPkg, "node-key-shared")
	}
	nMarker := 0
	if nim := r.need("R-C15-4", idgPkg, "NewIDManager"); nim != nil {
		Instrs(nim, func(in ssa.Instruction) {
			ci, ok := in.(ssa.CallInstruction)
			if !ok || !strings.HasPrefix(CalleeOf(ci).Name, "NewStorageIDGenerator") || len(ci.Common().Args) < 3 {
				return
			}
			nMarker++
			pfx, okE := evalString(ci.Common().Args[2], nil, 0)
			if !okE {
				r.Fail("R-C15-4", CallPos(ci), "undecided: the marker key prefix of this generator cannot be evaluated from the source ("+originSummary(ci.Common().Args[2])+")", "NewIDManager", "id-key-shared")
				return
			}
			cat2 := hybridCategory(r, pfx+":123")
			r.Ob("R-C15-4", CallPos(ci), cat2 == "shared", "id marker keys ("+pfx+":*) classify as "+cat2+" (markers must be visible to every node)", "NewIDManager", "id-key-shared:"+pfx)
		})
	}
	if nMarker < 1 { // alarm below 40% of the 3 sites confirmed by hand
		r.Fail("R-C15-4", 0, fmt.Sprintf("only %d storage-backed id generators found in NewIDManager (4 confirmed by hand)", nMarker), idgPkg, "id-key-shared:floor")
	}

	// ---- R-C15-5 counters --------------------------------------------------------------------
	if hi := r.need("R-C15-5", hybPkg, "Storage.IncrBy"); hi != nil {
		deleg := false
		for _, c := range Calls(hi, false, "IncrBy") {
			if !c.Common().IsInvoke() {
				continue
			}
			for _, ret := range Returns(hi) {
				if cc, idx := CallOfValue(RetVal(ret, 0)); cc != nil && ssa.CallInstruction(cc) == c && idx == 0 {
					deleg = true
				}
			}
		}
		r.Ob("R-C15-5", hi.Pos(), deleg, "hybrid IncrBy returns the tier's atomic IncrBy result (the get+set fallback is dead, see R-C15-3)", "hybrid.Storage.IncrBy", "delegates")
	}
	if hi := r.need("R-C15-5", hybPkg, "Storage.Incr"); hi != nil {
		ok := len(Calls(hi, false, "Storage.IncrBy")) == 1 && len(Calls(hi, false, "Get")) == 0
		r.Ob("R-C15-5", hi.Pos(), ok, "hybrid Incr is IncrBy(key, 1)", "hybrid.Storage.Incr", "delegates")
	}
	if mi := r.need("R-C15-5", memPkg, "Storage.IncrBy"); mi != nil {
		mls := ComputeLockSets(mi, nil)
		allW := true
		n := 0
		for _, fa := range r.P.FieldAccesses(memPkg, "Storage", "data") {
			if fa.Fn == mi {
				n++
				if r.held(mls, fa.In, memPkg, "Storage", "mu") != "W" {
					allW = false
				}
			}
		}
		r.Ob("R-C15-5", mi.Pos(), allW && n > 0, "memory IncrBy reads and writes the counter in one write-locked section", "memory.Storage.IncrBy", "single-section")
	}
	if gm := r.need("R-C15-5", reposPkg, "HTTPDomainMappingRepository.generateMappingID"); gm != nil {
		ok := len(Calls(gm, false, "Incr")) == 1
		r.Ob("R-C15-5", gm.Pos(), ok, "HTTP domain mapping ids come from one counter increment", "generateMappingID", "counter")
	}
}

// sameCandidate: the returned value and the marked value are the same
// variable of the same iteration (same SSA value, or loads of the same local
// with no intervening store in between on the success edge).
func sameCandidate(a, b ssa.Value) bool {
	if a == b {
		return true
	}
	if a == nil || b == nil {
		return false
	}
	ua, ok1 := a.(*ssa.UnOp)
	ub, ok2 := b.(*ssa.UnOp)
	if ok1 && ok2 && ua.X == ub.X {
		return true
	}
	return originSummary(a) == originSummary(b) && originSummary(a) != ""
}

// ttlPreserved: v is the ttl parameter itself, or the result of a same-package helper applied to a
// preserved ttl whose every return hands its own ttl parameter back, except constants returned on the
// edge where that parameter is not positive (normalising "no expiry"): a positive lifetime is never
// shortened or replaced.
func ttlPreserved(v ssa.Value, ttl *ssa.Parameter, depth int) bool {
	v = stripValue(v)
	if v == ssa.Value(ttl) {
		return true
	}
	// a reassigned parameter (`ttl = h.normalise(ttl)`) reads through its cell / phi
	if ph, ok := v.(*ssa.Phi); ok && depth < 3 {
		for _, e := range ph.Edges {
			if !ttlPreserved(e, ttl, depth+1) {
				return false
			}
		}
		return true
	}
	c, ok := v.(*ssa.Call)
	if !ok || depth > 2 {
		return false
	}
	h := c.Common().StaticCallee()
	if h == nil || len(h.Blocks) == 0 || h.Pkg != ttl.Parent().Pkg {
		return false
	}
	var hp *ssa.Parameter
	for i, a := range c.Call.Args {
		if ttlPreserved(a, ttl, depth+1) && i < len(h.Params) {
			if _, n := recvTypeName(h.Params[i].Type()); n == "Duration" {
				hp = h.Params[i]
			}
		}
	}
	if hp == nil {
		return false
	}
	for _, ret := range Returns(h) {
		if len(ret.Results) != 1 {
			return false
		}
		rv := stripValue(RetVal(ret, 0))
		if rv == ssa.Value(hp) {
			continue
		}
		if _, isC := rv.(*ssa.Const); isC {
			nonPos := false
			for _, ft := range Facts(ret.Block()) {
				bo, ok := ft.Cond.(*ssa.BinOp)
				if !ok || stripValue(bo.X) != ssa.Value(hp) {
					continue
				}
				k, isK := ConstInt(bo.Y)
				if !isK || k != 0 {
					continue
				}
				if (bo.Op == token.LEQ && ft.Pol) || (bo.Op == token.GTR && !ft.Pol) || (bo.Op == token.EQL && ft.Pol) || (bo.Op == token.LSS && ft.Pol) {
					nonPos = true
				}
			}
			if nonPos {
				continue
			}
		}
		return false
	}
	return true
}
