package main

import (
	"fmt"
	"go/token"
	"go/types"

	"golang.org/x/tools/go/ssa"
)

// ReadSite classifies one consumption of an io.Reader.
type ReadSite struct {
	Call   ssa.CallInstruction
	Shape  string // full | single | stream | unknown
	Width  int64  // buffer length when constant, -1 otherwise
	Detail string
	Reader ssa.Value
}

// isReadMethod: method named Read with signature func([]byte) (int, error).
func isReadMethod(ci ssa.CallInstruction) bool {
	c := CalleeOf(ci)
	if c.Name != "Read" || c.Obj == nil {
		return false
	}
	sig, ok := c.Obj.Type().(*types.Signature)
	if !ok || sig.Recv() == nil || sig.Params().Len() != 1 || sig.Results().Len() != 2 {
		return false
	}
	sl, ok := sig.Params().At(0).Type().Underlying().(*types.Slice)
	if !ok {
		return false
	}
	b, ok := sl.Elem().Underlying().(*types.Basic)
	return ok && b.Kind() == types.Uint8
}

// extractOf finds the Extract #idx of a tuple-valued call.
func extractOf(ci ssa.CallInstruction, idx int) ssa.Value {
	v, ok := ci.(ssa.Value)
	if !ok || v.Referrers() == nil {
		return nil
	}
	for _, r := range *v.Referrers() {
		if e, ok := r.(*ssa.Extract); ok && e.Index == idx {
			return e
		}
	}
	return nil
}

// sameExpr: structural equality of two SSA values (SSA has no CSE, so the
// same source expression evaluated twice yields distinct instructions).
func sameExpr(a, b ssa.Value) bool {
	if a == b {
		return true
	}
	if a == nil || b == nil {
		return false
	}
	switch x := a.(type) {
	case *ssa.Const:
		y, ok := b.(*ssa.Const)
		if !ok {
			return false
		}
		if x.Value == nil || y.Value == nil {
			return x.Value == y.Value
		}
		return x.Value.ExactString() == y.Value.ExactString()
	case *ssa.Convert:
		if y, ok := b.(*ssa.Convert); ok {
			return types.Identical(x.Type(), y.Type()) && sameExpr(x.X, y.X)
		}
	case *ssa.ChangeType:
		if y, ok := b.(*ssa.ChangeType); ok {
			return sameExpr(x.X, y.X)
		}
	case *ssa.BinOp:
		if y, ok := b.(*ssa.BinOp); ok {
			return x.Op == y.Op && sameExpr(x.X, y.X) && sameExpr(x.Y, y.Y)
		}
	case *ssa.UnOp:
		if y, ok := b.(*ssa.UnOp); ok && x.Op == y.Op {
			if x.Op == token.MUL {
				// loads: equal only if same address expression of a field chain
				return sameAddr(x.X, y.X)
			}
			return sameExpr(x.X, y.X)
		}
	case *ssa.Call:
		if y, ok := b.(*ssa.Call); ok {
			bx, ok1 := x.Call.Value.(*ssa.Builtin)
			by, ok2 := y.Call.Value.(*ssa.Builtin)
			if ok1 && ok2 && bx.Name() == by.Name() && (bx.Name() == "len" || bx.Name() == "cap") {
				return sameExpr(x.Call.Args[0], y.Call.Args[0])
			}
		}
	}
	return false
}

func sameAddr(a, b ssa.Value) bool {
	if a == b {
		return true
	}
	x, ok1 := a.(*ssa.FieldAddr)
	y, ok2 := b.(*ssa.FieldAddr)
	if ok1 && ok2 && x.Field == y.Field {
		return sameExpr(x.X, y.X) || sameAddr(x.X, y.X)
	}
	return false
}

// bufLen determines the length expression of a byte-slice value: the size
// argument of the allocation that produced it (make, BufferManager.Allocate,
// a [N]byte array sliced whole).
func bufLen(v ssa.Value) (lenVal ssa.Value, konst int64) {
	konst = -1
	v = stripValue(v)
	switch x := v.(type) {
	case *ssa.MakeSlice:
		lenVal = x.Len
	case *ssa.Call:
		c := CalleeOf(x)
		if c.Is("BufferManager.Allocate", "BufferPool.Get") {
			lenVal = Arg(x, 0)
		}
	case *ssa.Slice:
		if x.Low == nil && x.High == nil {
			if pt, ok := x.X.Type().Underlying().(*types.Pointer); ok {
				if at, ok := pt.Elem().Underlying().(*types.Array); ok {
					return nil, at.Len()
				}
			}
			return bufLen(x.X)
		}
		if x.Low == nil && x.High != nil {
			lenVal = x.High
		}
	case *ssa.UnOp:
		if x.Op == token.MUL {
			if a, ok := x.X.(*ssa.Alloc); ok {
				st := storesTo(a)
				if len(st) == 1 {
					return bufLen(st[0].Val)
				}
			}
		}
	case *ssa.Phi:
		// all edges same length?
		var first ssa.Value
		k := int64(-2)
		for _, e := range x.Edges {
			l, c := bufLen(e)
			if first == nil && k == -2 {
				first, k = l, c
				continue
			}
			if c != k || !(l == first || sameExpr(l, first)) {
				return nil, -1
			}
		}
		if k == -2 {
			k = -1
		}
		return first, k
	}
	if lenVal != nil {
		if n, ok := ConstInt(lenVal); ok {
			konst = n
		}
	}
	return lenVal, konst
}

// AccumLoop recognises the accumulate-until-size idiom around a Read call:
//
//	for t < L { n, err := r.Read(buf[t:]); ...; t += n }   with len(buf) == L
//
// It returns the accumulator phi and the bound when the shape matches.
func AccumLoop(ci ssa.CallInstruction) (acc *ssa.Phi, bound ssa.Value, buf ssa.Value, why string) {
	arg := Arg(ci, 0)
	if com := ci.Common(); com.IsInvoke() && len(com.Args) > 0 {
		arg = com.Args[0]
	}
	sl, ok := arg.(*ssa.Slice)
	if !ok {
		return nil, nil, nil, "buffer argument is not a re-slice of an accumulating buffer"
	}
	if sl.High != nil {
		// buf[t:L] form is fine too, bound must match High
	}
	phi, ok := sl.Low.(*ssa.Phi)
	if !ok {
		return nil, nil, nil, "low bound of the buffer slice is not a loop-carried accumulator"
	}
	if !InLoop(ci.Block()) {
		return nil, nil, nil, "read is not inside a loop"
	}
	n := extractOf(ci, 0)
	if n == nil {
		return nil, nil, nil, "byte count of the read is discarded"
	}
	// the accumulator advances by exactly n
	adv := false
	for _, e := range phi.Edges {
		if b, ok := e.(*ssa.BinOp); ok && b.Op == token.ADD &&
			((b.X == ssa.Value(phi) && b.Y == n) || (b.Y == ssa.Value(phi) && b.X == n)) {
			adv = true
		}
	}
	if !adv {
		return nil, nil, nil, "accumulator is not advanced by the read's byte count"
	}
	// loop guard: acc < L on the edge that dominates the read
	for _, f := range Facts(ci.Block()) {
		b, ok := f.Cond.(*ssa.BinOp)
		if !ok {
			continue
		}
		var L ssa.Value
		switch {
		case b.Op == token.LSS && b.X == ssa.Value(phi) && f.Pol:
			L = b.Y
		case b.Op == token.GTR && b.Y == ssa.Value(phi) && f.Pol:
			L = b.X
		case b.Op == token.GEQ && b.X == ssa.Value(phi) && !f.Pol:
			L = b.Y
		case b.Op == token.LEQ && b.Y == ssa.Value(phi) && !f.Pol:
			L = b.X
		case b.Op == token.NEQ && b.X == ssa.Value(phi) && f.Pol:
			L = b.Y
		}
		if L == nil {
			// `remaining > 0` forms: remaining = L - acc (directly, or a loop-carried
			// variable initialised to L and recomputed as L - acc after each read)
			isZero := func(v ssa.Value) bool { c, ok := ConstInt(v); return ok && c == 0 }
			var rem ssa.Value
			switch {
			case b.Op == token.GTR && isZero(b.Y) && f.Pol, b.Op == token.LEQ && isZero(b.Y) && !f.Pol, b.Op == token.NEQ && isZero(b.Y) && f.Pol:
				rem = b.X
			case b.Op == token.LSS && isZero(b.X) && f.Pol, b.Op == token.GEQ && isZero(b.X) && !f.Pol:
				rem = b.Y
			}
			if rem != nil {
				L = remainderBound(rem, phi)
			}
		}
		if L == nil {
			continue
		}
		// the buffer is exactly L long (so the read cannot overshoot the field)
		lenVal, k := bufLen(sl.X)
		if sl.High != nil {
			lenVal, k = sl.High, -1
			if c, ok := ConstInt(sl.High); ok {
				k = c
			}
		}
		if lenVal != nil && sameExpr(lenVal, L) {
			return phi, L, sl.X, ""
		}
		if c, ok := ConstInt(L); ok && k == c {
			return phi, L, sl.X, ""
		}
		// `for total < len(buf) { Read(buf[total:]) }`: the bound is the length of the very buffer
		if lc, ok := stripValue(L).(*ssa.Call); ok && sl.High == nil {
			if bi, isB := lc.Call.Value.(*ssa.Builtin); isB && bi.Name() == "len" && len(lc.Call.Args) == 1 {
				if stripValue(lc.Call.Args[0]) == stripValue(sl.X) || sameExpr(lc.Call.Args[0], sl.X) {
					return phi, L, sl.X, ""
				}
			}
		}
		return nil, nil, nil, fmt.Sprintf("loop bound %s is not the length of the buffer being filled", L)
	}
	return nil, nil, nil, "no loop guard `accumulated < size` dominates the read"
}

// ClassifyRead decides the shape of a read site.
func ClassifyRead(ci ssa.CallInstruction) ReadSite {
	rs := ReadSite{Call: ci, Width: -1, Shape: "unknown"}
	c := CalleeOf(ci)
	switch {
	case c.Is("io:ReadFull"):
		rs.Shape, rs.Reader = "full", Arg(ci, 0)
		_, rs.Width = bufLen(Arg(ci, 1))
		rs.Detail = "io.ReadFull"
		return rs
	case c.Is("io:ReadAtLeast"):
		// full only when min is the length of the buffer (len(buf), the value it was
		// made with, or the same constant); ReadAtLeast(r, buf, 1) is a single read.
		rs.Reader = Arg(ci, 0)
		buf, min := Arg(ci, 1), stripValue(Arg(ci, 2))
		lv, k := bufLen(buf)
		_, rs.Width = lv, k
		full := false
		if c, ok := ConstInt(min); ok && k >= 0 && c == k {
			full = true
		}
		if lv != nil && sameExpr(min, lv) {
			full = true
		}
		if lc, ok := min.(*ssa.Call); ok {
			if b, ok := lc.Call.Value.(*ssa.Builtin); ok && b.Name() == "len" && sameExpr(lc.Call.Args[0], buf) {
				full = true
			}
		}
		if full {
			rs.Shape, rs.Detail = "full", "io.ReadAtLeast(min = len(buf))"
		} else {
			rs.Shape, rs.Detail = "single", "io.ReadAtLeast with min below the buffer length"
		}
		return rs
	case c.Is("binary:Read"):
		// encoding/binary.Read of a fixed-size value reads exactly its size with io.ReadFull
		rs.Reader = Arg(ci, 0)
		w := int64(-1)
		d := stripValue(Arg(ci, 2))
		if p, ok := d.Type().Underlying().(*types.Pointer); ok {
			if b, ok := p.Elem().Underlying().(*types.Basic); ok {
				switch b.Kind() {
				case types.Uint8, types.Int8, types.Bool:
					w = 1
				case types.Uint16, types.Int16:
					w = 2
				case types.Uint32, types.Int32, types.Float32:
					w = 4
				case types.Uint64, types.Int64, types.Float64:
					w = 8
				}
			}
		}
		if w > 0 {
			rs.Shape, rs.Width, rs.Detail = "full", w, "encoding/binary.Read of a fixed-size value"
		}
		return rs
	case isReadMethod(ci):
		rs.Reader = Recv(ci)
		buf := Arg(ci, 0)
		if ci.Common().IsInvoke() {
			buf = ci.Common().Args[0]
		}
		if acc, _, _, why := AccumLoop(ci); acc != nil {
			rs.Shape, rs.Detail = "full", "accumulate-until-size loop"
			return rs
		} else {
			rs.Detail = why
		}
		_, rs.Width = bufLen(buf)
		rs.Shape = "single"
		return rs
	}
	return rs
}

// remainderBound: v is `L - acc` for the accumulator phi acc (or for its advanced value
// acc+n), or a loop-carried variable all of whose edges are L itself or such a difference.
// Returns L.
func remainderBound(v ssa.Value, acc *ssa.Phi) ssa.Value {
	isAcc := func(x ssa.Value) bool {
		x = stripValue(x)
		if x == ssa.Value(acc) {
			return true
		}
		for _, e := range acc.Edges {
			if _, isC := e.(*ssa.Const); !isC && stripValue(e) == x {
				return true
			}
		}
		return false
	}
	diff := func(x ssa.Value) ssa.Value {
		if b, ok := stripValue(x).(*ssa.BinOp); ok && b.Op == token.SUB && isAcc(b.Y) {
			return b.X
		}
		return nil
	}
	v = stripValue(v)
	if L := diff(v); L != nil {
		return L
	}
	ph, ok := v.(*ssa.Phi)
	if !ok {
		return nil
	}
	var L ssa.Value
	for _, e := range ph.Edges {
		if d := diff(e); d != nil {
			if L != nil && !(L == d || sameExpr(L, d)) {
				return nil
			}
			L = d
		}
	}
	if L == nil {
		return nil
	}
	for _, e := range ph.Edges {
		if diff(e) != nil {
			continue
		}
		if !(stripValue(e) == stripValue(L) || sameExpr(e, L)) {
			return nil
		}
	}
	return L
}
