package main

import (
	"go/token"
	"sort"
	"strings"

	"golang.org/x/tools/go/ssa"
)

// G16 the close path waits for a lock that is held across blocking I/O.  A reader or writer blocked in
// the peer's Read/Write is released only by closing the endpoint; a close handler that first takes the
// lock the blocked call holds waits for the very call it is supposed to release.  I/O locks are
// discovered (a mutex field held - directly, or through an acquire helper that returns with it held -
// at a call of Read/Write on an interface value, io.ReadFull, io.Copy); close paths are the methods
// named Close/onClose/close and the handlers registered with AddCleanHandler.  A close path that closes
// an endpoint before taking the lock is fine (the blocked call returns).
var ioLockAt map[string]string // lock identity -> where it is held across I/O
var ioLockDone bool

func isBlockingIO(ci ssa.CallInstruction) bool {
	com := ci.Common()
	if com.IsInvoke() {
		switch com.Method.Name() {
		case "Read", "Write", "ReadFrom", "WriteTo", "ReadPacket", "WritePacket":
			return true
		}
		return false
	}
	return CalleeOf(ci).Is("io:ReadFull", "io:ReadAtLeast", "io:Copy", "io:CopyBuffer", "io:CopyN", "io:ReadAll")
}

func computeIOLocks(p *Prog) {
	if ioLockDone {
		return
	}
	ioLockDone = true
	ioLockAt = map[string]string{}
	// helpers that return success with a lock held
	holdsOnReturn := map[*ssa.Function][]string{}
	for _, h := range p.Funcs {
		if len(h.Blocks) == 0 {
			continue
		}
		ids := map[string]string{}
		Instrs(h, func(in ssa.Instruction) {
			if c, ok := in.(*ssa.Call); ok {
				if _, op, ok := lockOp(c); ok && (op == "Lock" || op == "RLock") {
					if id := lockIdent(Recv(c)); id != "" {
						ids[lockPath(Recv(c))] = id
					}
				}
			}
		})
		if len(ids) == 0 {
			continue
		}
		ls := lockSetsOf(h)
		var common map[string]bool
		for _, ret := range Returns(h) {
			if RetErrKind(ret) == "nonnil" {
				continue
			}
			cur := map[string]bool{}
			for path, id := range ids {
				if m := ls.HeldAll(ret)[path]; m != "" {
					cur[id] = true
				}
			}
			if common == nil {
				common = cur
			} else {
				for k := range common {
					if !cur[k] {
						delete(common, k)
					}
				}
			}
		}
		for k := range common {
			holdsOnReturn[h] = append(holdsOnReturn[h], k)
		}
	}
	for _, f := range p.Funcs {
		if len(f.Blocks) == 0 {
			continue
		}
		ids := map[string]string{}
		var viaHelper []struct {
			c   *ssa.Call
			ids []string
		}
		Instrs(f, func(in ssa.Instruction) {
			c, ok := in.(*ssa.Call)
			if !ok {
				return
			}
			if _, op, ok := lockOp(c); ok && (op == "Lock" || op == "RLock") {
				if id := lockIdent(Recv(c)); id != "" {
					ids[lockPath(Recv(c))] = id
				}
				return
			}
			if h := c.Common().StaticCallee(); h != nil && len(holdsOnReturn[h]) > 0 {
				viaHelper = append(viaHelper, struct {
					c   *ssa.Call
					ids []string
				}{c, holdsOnReturn[h]})
			}
		})
		if len(ids) == 0 && len(viaHelper) == 0 {
			continue
		}
		ls := lockSetsOf(f)
		Instrs(f, func(in ssa.Instruction) {
			ci, ok := in.(ssa.CallInstruction)
			if !ok || !isBlockingIO(ci) {
				return
			}
			if _, isGo := in.(*ssa.Go); isGo {
				return
			}
			for path, id := range ids {
				if ls.HeldAll(in)[path] != "" {
					if _, dup := ioLockAt[id]; !dup {
						ioLockAt[id] = p.Pos(in.Pos())
					}
				}
			}
			for _, vh := range viaHelper {
				if vh.c.Block().Dominates(in.Block()) && (vh.c.Block() != in.Block() || Before(vh.c, in)) && ErrOK(in.Block(), vh.c) {
					for _, id := range vh.ids {
						if _, dup := ioLockAt[id]; !dup {
							ioLockAt[id] = p.Pos(in.Pos())
						}
					}
				}
			}
		})
	}
}

func runCloseWaitsForIOLock(r *Report, rule string, f *ssa.Function, handlers map[*ssa.Function]bool) int {
	name := Outermost(f).Name()
	isCloser := name == "Close" || name == "onClose" || name == "close" || name == "Stop" || handlers[Outermost(f)]
	if !isCloser || f != Outermost(f) {
		return 0
	}
	computeIOLocks(r.P)
	n := 0
	Instrs(f, func(in ssa.Instruction) {
		c, ok := in.(*ssa.Call)
		if !ok {
			return
		}
		_, op, ok := lockOp(c)
		if !ok || (op != "Lock" && op != "RLock") {
			return
		}
		id := lockIdent(Recv(c))
		where, isIO := ioLockAt[id]
		if id == "" || !isIO {
			return
		}
		n++
		// an endpoint closed before the lock is taken releases the blocked call
		closedFirst := false
		Instrs(f, func(x ssa.Instruction) {
			xc, ok := x.(ssa.CallInstruction)
			if !ok || !xc.Common().IsInvoke() || xc.Common().Method.Name() != "Close" {
				return
			}
			if x.Block() == in.Block() && Before(x, in) || (x.Block() != in.Block() && x.Block().Dominates(in.Block())) {
				closedFirst = true
			}
		})
		r.Ob(rule, c.Pos(), closedFirst, "the close path takes "+id+", which is held across blocking I/O at "+where+": unless the endpoint is closed first, Close waits for the very call it has to release", r.P.FuncName(f), "close-waits-for-io-lock:"+id)
	})
	return n
}

// cleanHandlers: functions registered as close handlers (AddCleanHandler(x.onClose)).
func cleanHandlers(p *Prog) map[*ssa.Function]bool {
	out := map[*ssa.Function]bool{}
	for _, f := range p.Funcs {
		Instrs(f, func(in ssa.Instruction) {
			ci, ok := in.(ssa.CallInstruction)
			if !ok || !strings.Contains(CalleeOf(ci).Name, "AddCleanHandler") {
				return
			}
			for _, a := range ci.Common().Args {
				switch x := stripValue(a).(type) {
				case *ssa.MakeClosure:
					if fn, ok := x.Fn.(*ssa.Function); ok {
						out[fn] = true
						// a bound method value: $bound wrapper -> the method
						if fn.Synthetic != "" {
							Instrs(fn, func(y ssa.Instruction) {
								if yc, ok := y.(ssa.CallInstruction); ok {
									if g := yc.Common().StaticCallee(); g != nil {
										out[g] = true
									}
								}
							})
						}
					}
				case *ssa.Function:
					out[x] = true
				}
			}
		})
	}
	return out
}

var _ = sort.Strings
var _ = token.NoPos
