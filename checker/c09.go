package main

import (
	"fmt"
	"go/constant"
	"go/token"
	"go/types"
	"reflect"
	"strings"
	"time"

	"golang.org/x/tools/go/ssa"
)

func init() {
	register(&PropCheck{
		ID: "C09",
		Explanation: "Static rules on the waiting-tunnel routing record (session/tunnel/routing.go, server_bridge.go). " +
			"R-C09-1: every field of the record is exported with pairwise distinct JSON names; the record registered for a new bridge sets all eight identity fields, the node from getNodeID() and the client/target fields from the mapping loaded for req.MappingID. " +
			"R-C09-2: the record is stored with the table's ttl and ExpiresAt = now + the same ttl; a lookup returns a record only on the not-expired edge of the expiry test; the bridge is inserted in the tunnel map before the record is registered; the bridge lifecycle removes the record on every exit. " +
			"R-C09-3: the decoders accept the stored static type and the serialised shapes. " +
			"R-C09-4: register, lookup and remove build the key with the same constructor applied to the tunnel id, and the key prefix classifies as a shared (cross-node, non-persistent) key in the hybrid storage configuration. " +
			"Decides these necessary conditions; does not decide value fidelity through a real Redis or expiry timing.",
		Run: runC09,
		Mutants: []Mutant{
			{Name: "record-field-unexported-json", File: "internal/protocol/session/tunnel/routing.go", Rule: "R-C09-1",
				Old: "TargetClientID int64  `json:\"target_client_id\"`", New: "TargetClientID int64  `json:\"source_client_id\"`"},
			{Name: "record-target-from-request", File: "internal/protocol/session/server_bridge.go", Rule: "R-C09-1",
				Old: "TargetClientID: mapping.TargetClientID,\n\t\t\tTargetHost:     mapping.TargetHost,", New: "TargetClientID: mapping.ListenClientID,\n\t\t\tTargetHost:     req.TargetHost,"},
			{Name: "expires-at-different-ttl", File: "internal/protocol/session/tunnel/routing.go", Rule: "R-C09-2",
				Old: "state.ExpiresAt = now.Add(t.ttl)", New: "state.ExpiresAt = now.Add(NodeAddressTTL)"},
			{Name: "lookup-ignores-expiry", File: "internal/protocol/session/tunnel/routing.go", Rule: "R-C09-2",
				Old: "\tif time.Now().After(state.ExpiresAt) {\n\t\t_ = t.storage.Delete(key)\n\t\treturn nil, ErrExpired\n\t}\n\n\treturn &state, nil", New: "\tif time.Now().After(state.ExpiresAt) {\n\t\t_ = t.storage.Delete(key)\n\t}\n\n\treturn &state, nil"},
			{Name: "register-before-bridge-in-map", File: "internal/protocol/session/server_bridge.go", Rule: "R-C09-2",
				Old: "\ts.tunnelBridges[req.TunnelID] = bridge\n\ts.bridgeLock.Unlock()\n", New: "\ts.bridgeLock.Unlock()\n\tdefer func() {\n\t\ts.bridgeLock.Lock()\n\t\ts.tunnelBridges[req.TunnelID] = bridge\n\t\ts.bridgeLock.Unlock()\n\t}()\n"},
			{Name: "remove-uses-other-key", File: "internal/protocol/session/tunnel/routing.go", Rule: "R-C09-4",
				Old: "\tkey := t.makeKey(tunnelID)\n\tif err := t.storage.Delete(key); err != nil {", New: "\tkey := \"tunnox:tunnel:\" + tunnelID\n\tif err := t.storage.Delete(key); err != nil {"},
			{Name: "lifecycle-skips-routing-removal", File: "internal/protocol/session/server_bridge.go", Rule: "R-C09-2",
				Old: "\tif err := bridge.Start(); err != nil {\n\t\tcorelog.Errorf(\"Tunnel[%s]: bridge failed: %v\", tunnelID, err)\n\t}", New: "\tif err := bridge.Start(); err != nil {\n\t\tcorelog.Errorf(\"Tunnel[%s]: bridge failed: %v\", tunnelID, err)\n\t\ts.bridgeLock.Lock()\n\t\tdelete(s.tunnelBridges, tunnelID)\n\t\ts.bridgeLock.Unlock()\n\t\treturn\n\t}"},
		},
	})
}

// checkLookupsReadStore: every lookup of the routing table (a method that reads the shared store and
// returns a value beside an error) answers from the store on every call: each success return is
// preceded by a read of the store in that call.  An answer kept in the process (a cache of node
// addresses or records) keeps resolving after another node changed or removed the entry.
func checkLookupsReadStore(r *Report) {
	n := 0
	for _, f := range r.P.FuncsIn("internal/protocol/session/tunnel") {
		if f.Signature.Recv() == nil || f.Signature.Results().Len() != 2 || len(f.Blocks) == 0 {
			continue
		}
		if _, tn := recvTypeName(f.Signature.Recv().Type()); tn != "RoutingTable" {
			continue
		}
		isGet := func(in ssa.Instruction) bool {
			ci, ok := in.(ssa.CallInstruction)
			if !ok || !ci.Common().IsInvoke() || ci.Common().Method.Name() != "Get" {
				return false
			}
			return strings.Contains(originSummary(ci.Common().Value), "RoutingTable.storage")
		}
		has := false
		Instrs(f, func(in ssa.Instruction) {
			if isGet(in) {
				has = true
			}
		})
		if !has {
			continue
		}
		for _, ret := range Returns(f) {
			if RetErrKind(ret) != "nil" {
				continue
			}
			n++
			r.Ob("R-C09-2", ret.Pos(), MustPass(f, ret, isGet), "a lookup of the routing table reports success only after reading the shared store in this call (no answer from process-local state)", r.P.FuncName(f), "lookup-reads-store")
			// ... and only where that read succeeded: an answer served when the store could not be read is
			// the last value this process saw, not what the store holds now
			okRead := false
			Instrs(f, func(in ssa.Instruction) {
				if ci, ok := in.(ssa.CallInstruction); ok && isGet(in) && ErrOK(ret.Block(), ci) {
					okRead = true
				}
			})
			r.Ob("R-C09-2", ret.Pos(), okRead, "a lookup of the routing table reports success only on the edge where the read of the shared store succeeded", r.P.FuncName(f), "lookup-success-needs-read-ok")
		}
	}
	if n < 1 {
		r.Fail("R-C09-2", 0, "no success return of a routing-table lookup found (LookupWaitingTunnel, GetNodeAddress confirmed by hand)", "RoutingTable", "lookup-reads-store:floor")
	}
}

func runC09(r *Report) {
	checkLookupsReadStore(r)
	// a record kept alive by periodic re-registration outlives the gap between two refreshes: the
	// node-address TTL exceeds the period of the ticker whose loop re-registers the address
	if pk := r.P.ByPath[Module+"/"+tunPkg]; pk != nil {
		if c, _ := pk.Types.Scope().Lookup("NodeAddressTTL").(*types.Const); c != nil {
			ttl, _ := constant.Int64Val(c.Val())
			n := 0
			for _, f := range r.P.Funcs {
				if len(Calls(f, false, "RoutingTable.RegisterNodeAddress")) == 0 {
					continue
				}
				for _, tk := range Calls(f, false, "time:NewTicker") {
					period, ok := ConstInt(Arg(tk, 0))
					if !ok {
						// `refreshInterval := 1 * time.Hour` is folded; anything else is not evaluated
						continue
					}
					n++
					r.Ob("R-C09-2", CallPos(tk), ttl > period, fmt.Sprintf("node address TTL (%v) is longer than the refresh period (%v): the address never lapses between two refreshes", time.Duration(ttl), time.Duration(period)), r.P.FuncName(f), "ttl-exceeds-refresh")
				}
			}
			if n == 0 {
				r.Fail("R-C09-2", 0, "the periodic node-address refresh (a ticker loop calling RegisterNodeAddress) was not found", "node-address", "ttl-exceeds-refresh")
			}
		}
	}
	// polling for a tunnel that is not registered yet backs off to a bounded interval: every value the
	// loop-carried sleep interval can take is a constant or passed an upper-bound test
	for _, nm := range []string{"SessionManager.lookupTunnelRouting", "SessionManager.handleLocalBridgeWait"} {
		f := r.need("R-C09-2", sessPkg, nm)
		if f == nil {
			continue
		}
		n := 0
		for _, sl := range Calls(f, false, "time:Sleep", "time:After", "time:NewTimer") {
			ph, ok := stripValue(Arg(sl, 0)).(*ssa.Phi)
			if !ok {
				continue
			}
			n++
			bounded := true
			var check func(v ssa.Value, from, to *ssa.BasicBlock, depth int) bool
			check = func(v ssa.Value, from, to *ssa.BasicBlock, depth int) bool {
				if depth > 4 {
					return false
				}
				if _, isC := ConstInt(v); isC {
					return true
				}
				// computed by a same-package helper (nextPollInterval(cur)): bounded if every value the
				// helper returns is
				if hc, isC := v.(*ssa.Call); isC {
					if h := hc.Common().StaticCallee(); h != nil && h.Pkg == f.Pkg && len(h.Blocks) > 0 && h.Signature.Results().Len() == 1 {
						okAll := true
						for _, hr := range Returns(h) {
							rv := RetVal(hr, 0)
							if p3, isP3 := rv.(*ssa.Phi); isP3 {
								for i, e := range p3.Edges {
									if !check(e, p3.Block().Preds[i], p3.Block(), depth+1) {
										okAll = false
									}
								}
							} else if !check(rv, hr.Block(), nil, depth+1) {
								okAll = false
							}
						}
						return okAll
					}
				}
				if p2, isP := v.(*ssa.Phi); isP && p2 != ph {
					for i, e := range p2.Edges {
						if !check(e, p2.Block().Preds[i], p2.Block(), depth+1) {
							return false
						}
					}
					return true
				}
				// an upper bound established on the edge this value arrives on
				fs := localFacts(from)
				if len(from.Instrs) > 0 {
					if iff, isIf := from.Instrs[len(from.Instrs)-1].(*ssa.If); isIf && from.Succs[0] != from.Succs[1] {
						for si, sb := range from.Succs {
							if to != nil && sb == to {
								c, pol := normCond(iff.Cond, si == 0)
								fs = append(fs, Fact{Cond: c, Pol: pol, If: iff})
							}
						}
					}
				}
				for _, ft := range fs {
					bo, isB := ft.Cond.(*ssa.BinOp)
					if !isB || stripValue(bo.X) != stripValue(v) {
						continue
					}
					if _, isC := ConstInt(bo.Y); !isC {
						continue
					}
					if (bo.Op == token.GTR && !ft.Pol) || (bo.Op == token.GEQ && !ft.Pol) || (bo.Op == token.LEQ && ft.Pol) || (bo.Op == token.LSS && ft.Pol) {
						return true
					}
				}
				return false
			}
			for i, e := range ph.Edges {
				if !check(e, ph.Block().Preds[i], ph.Block(), 0) {
					bounded = false
				}
			}
			r.Ob("R-C09-2", CallPos(sl), bounded, "the polling interval is bounded above on every path into the loop (a constant, or a value that passed `interval > max` as false); an unbounded back-off sleeps through the moment the tunnel is registered", nm, "bounded-backoff")
		}
		if n == 0 {
			r.Fail("R-C09-2", f.Pos(), "no loop-carried polling interval found", nm, "bounded-backoff")
		}
	}
	// the in-memory backend installs the new deadline when a record is written again (R-C09-2:
	// a re-registered waiting tunnel lives for its ttl from the last registration)
	checkValueExpiryTogether(r, "R-C09-2")
	// ---- R-C09-1 record fidelity ------------------------------------------------
	pk := r.P.ByPath[Module+"/"+tunPkg]
	if pk == nil {
		r.Fail("R-C09-1", 0, "package missing", tunPkg, "anchor")
		return
	}
	obj := pk.Types.Scope().Lookup("WaitingState")
	st, _ := obj.Type().Underlying().(*types.Struct)
	if obj == nil || st == nil {
		r.Fail("R-C09-1", 0, "record type WaitingState missing", tunPkg, "anchor")
		return
	}
	names := map[string]string{}
	for i := 0; i < st.NumFields(); i++ {
		f := st.Field(i)
		tag := reflect.StructTag(st.Tag(i)).Get("json")
		jn := strings.Split(tag, ",")[0]
		if jn == "" {
			jn = f.Name()
		}
		ok := f.Exported() && jn != "-"
		if prev, dup := names[jn]; dup {
			ok = false
			r.Fail("R-C09-1", f.Pos(), fmt.Sprintf("fields %s and %s share the JSON name %q: one of them is lost when the record crosses a serialising backend", prev, f.Name(), jn), "WaitingState", "json-name:"+f.Name())
			continue
		}
		names[jn] = f.Name()
		r.Ob("R-C09-1", f.Pos(), ok, "field "+f.Name()+" is exported and JSON-visible as "+jn, "WaitingState", "json-name:"+f.Name())
	}
	ssb := r.need("R-C09-1", sessPkg, "SessionManager.startSourceBridge")
	if ssb != nil {
		want := map[string]string{
			"TunnelID": "TunnelOpenRequest.TunnelID(param:req)", "MappingID": "TunnelOpenRequest.MappingID(param:req)",
			"SecretKey": "TunnelOpenRequest.SecretKey(param:req)", "SourceNodeID": "getNodeID",
			"SourceClientID": "PortMapping.ListenClientID", "TargetClientID": "PortMapping.TargetClientID",
			"TargetHost": "PortMapping.TargetHost", "TargetPort": "PortMapping.TargetPort",
		}
		got := map[string]string{}
		scan := func(fn *ssa.Function, subst func(string) string) {
			Instrs(fn, func(in ssa.Instruction) {
				s, ok := in.(*ssa.Store)
				if !ok {
					return
				}
				t, f, base, ok := FieldOf(s.Addr)
				if !ok || t != "WaitingState" || !IsFresh(base) {
					return
				}
				got[f] = subst(originSummary(s.Val))
			})
		}
		scan(ssb, func(o string) string { return o })
		// the record may be built by a helper that startSourceBridge hands the request and the mapping to
		// (registerWaitingRoute-style): its parameters are traced back to the arguments given here
		var regSiteInSsb ssa.CallInstruction
		if len(got) == 0 {
			Instrs(ssb, func(in ssa.Instruction) {
				hc, ok := in.(*ssa.Call)
				if !ok {
					return
				}
				h := hc.Common().StaticCallee()
				if h == nil || h.Pkg != ssb.Pkg || len(h.Blocks) == 0 || h == ssb || len(Calls(h, false, "RegisterWaitingTunnel")) == 0 {
					return
				}
				regSiteInSsb = hc
				scan(h, func(o string) string {
					for i, hp := range h.Params {
						if i < len(hc.Common().Args) {
							a := originSummary(hc.Common().Args[i])
							o = strings.ReplaceAll(o, "(param:"+canonParamName(hp)+")", "("+a+")")
							if o == "param:"+canonParamName(hp) {
								o = a
							}
						}
					}
					return o
				})
			})
		}
		for f, w := range want {
			o, set := got[f]
			good := set && strings.Contains(o, w)
			if strings.HasPrefix(w, "PortMapping.") {
				// the mapping is the one loaded for req.MappingID
				good = good && strings.Contains(o, "GetPortMapping")
			}
			r.Ob("R-C09-1", ssb.Pos(), good, fmt.Sprintf("record field %s is set from %s (found: %s)", f, w, o), "startSourceBridge", "record-field:"+f)
		}
		for _, gp := range Calls(ssb, false, "GetPortMapping") {
			o := originSummary(Arg(gp, 0))
			r.Ob("R-C09-1", CallPos(gp), o == "field:TunnelOpenRequest.MappingID(param:req)", "mapping loaded for "+o+" (want req.MappingID)", "startSourceBridge", "mapping-of-request")
		}
		// ---- R-C09-2: bridge in the map before the record is registered --------------
		regCalls := Calls(ssb, false, "RegisterWaitingTunnel")
		if len(regCalls) == 0 && regSiteInSsb != nil {
			regCalls = []ssa.CallInstruction{regSiteInSsb}
		}
		for _, rw := range regCalls {
			isInsert := func(in ssa.Instruction) bool {
				mu, ok := in.(*ssa.MapUpdate)
				if !ok {
					return false
				}
				_, f, _, ok := FieldOf(mu.Map)
				return ok && f == "tunnelBridges"
			}
			skipped := ReachesWithout(ssb, rw.(ssa.Instruction), func(in ssa.Instruction) bool {
				return performsVia(in, isInsert, rw.Block())
			})
			r.Ob("R-C09-2", CallPos(rw), !skipped, "the bridge is inserted in tunnelBridges before its routing record is registered (a resolvable tunnel id always has a bridge)", "startSourceBridge", "bridge-before-record")
		}
	}

	// ---- R-C09-2 lifetime ---------------------------------------------------------
	regf := r.need("R-C09-2", tunPkg, "RoutingTable.RegisterWaitingTunnel")
	look := r.need("R-C09-2", tunPkg, "RoutingTable.LookupWaitingTunnel")
	rem := r.need("R-C09-4", tunPkg, "RoutingTable.RemoveWaitingTunnel")
	if regf != nil {
		for _, c := range Calls(regf, false, "Set") {
			o := originSummary(c.Common().Args[2])
			r.Ob("R-C09-2", CallPos(c), strings.HasPrefix(o, "field:RoutingTable.ttl"), "record stored with ttl "+o+" (want the table's ttl)", "RegisterWaitingTunnel", "store-ttl")
		}
		found := false
		Instrs(regf, func(in ssa.Instruction) {
			s, ok := in.(*ssa.Store)
			if !ok {
				return
			}
			if t, f, _, ok := FieldOf(s.Addr); ok && t == "WaitingState" && f == "ExpiresAt" {
				found = true
				good := false
				if c, _ := CallOfValue(s.Val); c != nil && CalleeOf(c).Is("time:Time.Add") {
					good = strings.HasPrefix(originSummary(c.Call.Args[1]), "field:RoutingTable.ttl")
				}
				r.Ob("R-C09-2", s.Pos(), good, "ExpiresAt = now + the same ttl the record is stored with", "RegisterWaitingTunnel", "expires-at-ttl")
			}
		})
		if !found {
			r.Fail("R-C09-2", regf.Pos(), "ExpiresAt is not set at registration", "RegisterWaitingTunnel", "expires-at-ttl")
		}
	}
	if look != nil {
		for _, ret := range Returns(look) {
			if RetErrKind(ret) != "nil" {
				continue
			}
			ok := false
			for _, ft := range Facts(ret.Block()) {
				if _, _, tme, isE := expiryCompareT(ft.Cond, 0, "WaitingState", "ExpiresAt"); isE && tme != ft.Pol {
					ok = true
				}
			}
			r.Ob("R-C09-2", ret.Pos(), ok, "a lookup returns a record only on the not-expired edge of the ExpiresAt test (a lapsed id must not resolve)", "LookupWaitingTunnel", "lookup-not-expired")
		}
	}
	if lc := r.need("R-C09-2", sessPkg, "SessionManager.runBridgeLifecycle"); lc != nil {
		for _, ret := range Returns(lc) {
			bad := reachesReturnWithoutUnlessNil(lc, ret, "RemoveWaitingTunnel", "tunnelRouting")
			r.Ob("R-C09-2", ret.Pos(), !bad, "every exit of the bridge lifecycle removes the routing record (after the tunnel ends its id must not resolve to this node)", "runBridgeLifecycle", "record-removed-on-exit")
		}
	}

	// the key constructor of the waiting-tunnel family: makeKey on the reference tree; discovered as
	// the function that builds the key RegisterWaitingTunnel writes (it may have become a plain function)
	ctorName := "makeKey"
	var ctorFn *ssa.Function
	if regf != nil {
		for _, c := range Calls(regf, false, "Set") {
			if c.Common().IsInvoke() {
				if kc, _ := CallOfValue(c.Common().Args[0]); kc != nil && CalleeOf(kc).Fn != nil {
					ctorName, ctorFn = CalleeOf(kc).Name, CalleeOf(kc).Fn
				}
			}
		}
	}
	// ---- R-C09-3 shapes -------------------------------------------------------------
	if look != nil {
		checkShapes(r, "R-C09-3", look, ctorName, storedShapes(r.P.FuncsIn(tunPkg), ctorName), "tunnel_waiting")
	}
	if ga := r.need("R-C09-3", tunPkg, "RoutingTable.GetNodeAddress"); ga != nil {
		checkShapes(r, "R-C09-3", ga, "", map[string]types.Type{}, "node_addr")
	}

	// ---- R-C09-4 key agreement --------------------------------------------------------
	for _, p := range []struct {
		f    *ssa.Function
		op   string
		name string
	}{{regf, "Set", "RegisterWaitingTunnel"}, {look, "Get", "LookupWaitingTunnel"}, {look, "Delete", "LookupWaitingTunnel"}, {rem, "Delete", "RemoveWaitingTunnel"}} {
		if p.f == nil {
			continue
		}
		for _, c := range Calls(p.f, false, p.op) {
			if !c.Common().IsInvoke() {
				continue
			}
			kc, _ := CallOfValue(c.Common().Args[0])
			good := kc != nil && (CalleeOf(kc).Is("RoutingTable.makeKey") || (ctorFn != nil && CalleeOf(kc).Fn == ctorFn))
			det := "key built by " + ctorName + "(tunnel id)"
			if good {
				o := originSummary(Arg(kc, 0))
				good = strings.Contains(o, "tunnelID") || strings.Contains(o, "TunnelID")
				det += " from " + o
			} else {
				det = "key is not built by the shared constructor makeKey: " + originSummary(c.Common().Args[0])
			}
			r.Ob("R-C09-4", CallPos(c), good, det, p.name, "key-ctor:"+p.op)
		}
	}
	mkFn := r.P.Fn(tunPkg, "RoutingTable.makeKey")
	if mkFn == nil {
		mkFn = ctorFn
	}
	if mkFn == nil {
		r.need("R-C09-4", tunPkg, "RoutingTable.makeKey")
	}
	if mk := mkFn; mk != nil {
		prefix := ""
		Instrs(mk, func(in ssa.Instruction) {
			if bo, ok := in.(*ssa.BinOp); ok {
				if c, ok := bo.X.(*ssa.Const); ok {
					prefix = constString(c)
				}
			}
		})
		cat := hybridCategory(r, prefix)
		r.Ob("R-C09-4", mk.Pos(), cat == "shared", fmt.Sprintf("key prefix %q classifies as %q in the hybrid storage configuration (want shared: visible to every node, never persisted)", prefix, cat), "makeKey", "prefix-shared")
	}
	checkSharedFamilyTiers(r, "R-C09-4")
	r.Floor("R-C09-4", 9, "key agreement obligations")
}
