package main

import (
	"fmt"
	"go/token"
	"go/types"
	"os"
	"path/filepath"
	"strings"

	"golang.org/x/tools/go/ssa"
)

func init() {
	register(&PropCheck{
		ID: "C11",
		Explanation: "Static rules on control-channel commands (session/command_integration.go and the special-case handlers, internal/command, app/server/*_command_handlers.go). " +
			"R-C11-0: every dispatch of a command packet (special-case handlers, the command executor, the default handler) is dominated by the test that this packet's connection carries an authenticated client id. " +
			"R-C11-1: the identity fields carried inside a command packet (SenderId, ReceiverId, Token; SenderID/ReceiverID of the context) are read server-side only to be copied into the context or logged; CommandContext.ClientID has one writer whose value comes from the connection registry; StreamPacket.ClientID is never assigned from packet content. " +
			"R-C11-2: at every identity-taking sink (code create/activate/list, mapping listings, HTTP-domain create/delete/list, notification sender, client mapping listings) called from a command handler, the actor argument originates from the connection (ctx.ClientID / GetControlConnection(ctx.ConnectionID).ClientID / getClientIDFromConnection) and never from the decoded request body. " +
			"R-C11-3: object-by-id sinks (delete / read-out of a mapping, traffic statistics update, relaying to another client) are reachable from the object lookup only through the edges on which the connection's identity equals a party of the object (or through an explicit entitlement helper). " +
			"Handlers are discovered (all types with Handle(*CommandContext) in internal/command and internal/app/server, plus every callee of handleCommandPacket). " +
			"Decides these necessary conditions; does not decide ownership semantics of sinks outside the printed table.",
		Run: runC11,
		Mutants: []Mutant{
			{Name: "helper-returns-mapping-without-identity-check", File: "internal/app/server/connection_code_command_handlers.go", Rule: "R-C11-3",
				Old: "// 辅助方法\n", New: "// 辅助方法\n\nfunc (h *ActivateConnectionCodeHandler) zzMappingOfCode(id string) string {\n\tm, err := h.connCodeService.GetMapping(id)\n\tif err != nil || m.ListenClientID != m.TargetClientID {\n\t\treturn \"\"\n\t}\n\treturn m.ID\n}\n"},
			{Name: "gate-removed", File: "internal/protocol/session/command_integration.go", Rule: "R-C11-0",
				Old: "\tif s.getClientIDFromConnection(connPacket.ConnectionID) <= 0 {\n", New: "\tif s.getClientIDFromConnection(connPacket.ConnectionID) < 0 {\n"},
			{Name: "context-identity-from-packet", File: "internal/command/executor.go", Rule: "R-C11-1",
				Old: "\t\tClientID:        clientID,\n", New: "\t\tClientID:        clientID + int64(len(streamPacket.Packet.CommandPacket.SenderId)),\n"},
			{Name: "generate-code-for-body-client", File: "internal/app/server/connection_code_command_handlers.go", Rule: "R-C11-2",
				Old: "\t\tTargetClientID:  clientID,\n", New: "\t\tTargetClientID:  int64(req.ActivationTTL),\n"},
			{Name: "delete-mapping-party-check-dropped", File: "internal/app/server/mapping_command_handlers.go", Rule: "R-C11-3",
				Old: "\tif mapping.ListenClientID != clientID && mapping.TargetClientID != clientID {\n\t\treturn h.errorResponse(ctx, \"mapping not accessible\")\n\t}\n\n\tif err := h.connCodeService.GetPortMappingService().DeletePortMapping(req.MappingID); err != nil {", New: "\tif mapping.ListenClientID != clientID && mapping.TargetClientID != clientID && mapping.UserID != \"\" {\n\t\treturn h.errorResponse(ctx, \"mapping not accessible\")\n\t}\n\n\tif err := h.connCodeService.GetPortMappingService().DeletePortMapping(req.MappingID); err != nil {"},
			{Name: "traffic-report-party-check-dropped", File: "internal/protocol/session/traffic_report_handler.go", Rule: "R-C11-3",
				Old: "if reporterID <= 0 || (reporterID != mapping.ListenClientID && reporterID != mapping.TargetClientID) {", New: "if reporterID <= 0 {"},
			{Name: "dns-forward-to-any-client", File: "internal/protocol/session/dns_handler.go", Rule: "R-C11-3",
				Old: "\tif targetClientID > 0 && !s.clientMayReachClient(sourceClientID, targetClientID) {\n\t\tcorelog.Warnf(\"DNSHandler: client %d has no mapping", New: "\tif targetClientID > 0 && sourceClientID == targetClientID {\n\t\tcorelog.Warnf(\"DNSHandler: client %d has no mapping"},
			{Name: "socks5-source-check-dropped", File: "internal/protocol/session/socks5_tunnel_handler.go", Rule: "R-C11-3",
				Old: "\tif sourceClientID != mapping.ListenClientID {\n", New: "\tif sourceClientID == 0 {\n"},
		},
	})
}

const cmdPkg = "internal/command"

// identityVerdict classifies the origin of an actor / identity argument.
func identityVerdict(v ssa.Value) (ok bool, desc string) {
	desc = originSummary(v)
	good := strings.Contains(desc, ".getClientID") || strings.Contains(desc, "CommandContext.ClientID(param:ctx)") ||
		strings.Contains(desc, ".getClientIDFromConnection") || strings.Contains(desc, "ControlConnection.ClientID(") ||
		strings.Contains(desc, "GetClientIDByConnectionID") || strings.Contains(desc, "ControlConnectionInterface.GetClientID") ||
		strings.Contains(desc, "ControlConnection.GetClientID")
	bad := strings.Contains(desc, "alloc:") || strings.Contains(desc, "RequestBody") || strings.Contains(desc, "CommandBody") ||
		strings.Contains(desc, "SenderI") || strings.Contains(desc, "ReceiverI")
	// a local request struct decoded from the body shows up as a field of an alloc
	return good && !bad, desc
}

func runC11(r *Report) {
	// ---- R-C11-0 central gate ---------------------------------------------------------
	hc := r.need("R-C11-0", sessPkg, "SessionManager.handleCommandPacket")
	if hc == nil {
		return
	}
	param := hc.Params[1]
	var dispatch []ssa.CallInstruction
	Instrs(hc, func(in ssa.Instruction) {
		ci, ok := in.(ssa.CallInstruction)
		if !ok {
			return
		}
		c := CalleeOf(ci)
		if c.Recv == "SessionManager" && (strings.HasPrefix(c.Name, "Handle") || strings.HasPrefix(c.Name, "handle")) && c.Name != "handleCommandPacket" {
			dispatch = append(dispatch, ci)
		}
		if c.Name == "Execute" && ci.Common().IsInvoke() {
			dispatch = append(dispatch, ci)
		}
	})
	// dispatch may be split over helpers of the session manager (`dispatchCommandResponse`,
	// `dispatchCommandRequest`): a callee that itself dispatches to two or more handlers is a dispatch
	// helper; its dispatch sites are gated when every call of the helper is
	isDispatchCall := func(ci ssa.CallInstruction) bool {
		c := CalleeOf(ci)
		if c.Recv == "SessionManager" && (strings.HasPrefix(c.Name, "Handle") || strings.HasPrefix(c.Name, "handle")) && c.Name != "handleCommandPacket" {
			return true
		}
		return c.Name == "Execute" && ci.Common().IsInvoke()
	}
	viaHelper := map[ssa.CallInstruction]ssa.CallInstruction{}
	{
		var direct []ssa.CallInstruction
		seenH := map[*ssa.Function]bool{hc: true}
		var expand func(from *ssa.Function, outer ssa.CallInstruction, depth int)
		expand = func(from *ssa.Function, outer ssa.CallInstruction, depth int) {
			Instrs(from, func(in ssa.Instruction) {
				ci, ok := in.(*ssa.Call)
				if !ok {
					return
				}
				h := ci.Common().StaticCallee()
				if h == nil || h.Pkg != hc.Pkg || len(h.Blocks) == 0 || seenH[h] || depth <= 0 {
					return
				}
				n := 0
				Instrs(h, func(in2 ssa.Instruction) {
					if c2, ok := in2.(ssa.CallInstruction); ok && isDispatchCall(c2) {
						n++
					}
				})
				if n < 2 {
					return
				}
				seenH[h] = true
				top := outer
				if top == nil {
					top = ci
				}
				Instrs(h, func(in2 ssa.Instruction) {
					if c2, ok := in2.(ssa.CallInstruction); ok && isDispatchCall(c2) {
						direct = append(direct, c2)
						viaHelper[c2] = top
					}
				})
				// the helper call itself is no dispatch site
				for i, d := range dispatch {
					if d == ssa.CallInstruction(ci) {
						dispatch = append(dispatch[:i], dispatch[i+1:]...)
						break
					}
				}
				expand(h, top, depth-1)
			})
		}
		expand(hc, nil, 2)
		dispatch = append(dispatch, direct...)
	}
	if len(dispatch) < 3 { // alarm below 40% of the 9 sites confirmed by hand
		r.Fail("R-C11-0", hc.Pos(), fmt.Sprintf("only %d command dispatch sites found (10 confirmed by hand)", len(dispatch)), "handleCommandPacket", "floor")
	}
	gated := func(b *ssa.BasicBlock) bool {
		for _, ft := range Facts(b) {
			bo, ok := ft.Cond.(*ssa.BinOp)
			if !ok {
				continue
			}
			c, _ := CallOfValue(bo.X)
			if c == nil || !CalleeOf(c).Is("SessionManager.getClientIDFromConnection") {
				continue
			}
			if originSummary(Arg(c, 0)) != "field:StreamPacket.ConnectionID(param:"+canonParamName(param)+")" {
				continue
			}
			k, isC := ConstInt(bo.Y)
			if !isC || k != 0 {
				continue
			}
			if (bo.Op == token.LEQ && !ft.Pol) || (bo.Op == token.GTR && ft.Pol) || (bo.Op == token.EQL && !ft.Pol) || (bo.Op == token.NEQ && ft.Pol) {
				return true
			}
		}
		return false
	}
	for _, d := range dispatch {
		ok := gated(d.Block())
		if top := viaHelper[d]; top != nil {
			// inside a dispatch helper: every call of the helper (all of them in handleCommandPacket) is gated
			ok = gated(top.Block())
			if h := d.Parent(); h != nil {
				for _, site := range staticCallSites(r.P, Outermost(h)) {
					if Outermost(site.Parent()) != hc && !seenDispatchHelper(viaHelper, site.Parent()) {
						ok = false
					}
				}
			}
		}
		r.Ob("R-C11-0", CallPos(d), ok, "dispatch to "+CalleeOf(d).Name+" happens only for a connection with an authenticated client id (> 0) of this packet's connection", "handleCommandPacket", "gated:"+CalleeOf(d).Name)
	}

	// ---- R-C11-1 untrusted fields are inert ------------------------------------------------
	untrusted := map[string][]string{"CommandPacket": {"SenderId", "ReceiverId", "Token"}, "CommandContext": {"SenderID", "ReceiverID"},
		// body of the SOCKS5 tunnel request: the recipient is the mapping's target, never the id the body names
		"SOCKS5TunnelRequest": {"TargetClientID"}}
	nReads := 0
	for _, f := range r.P.Funcs {
		pk := ""
		if f.Pkg != nil {
			pk = rel(f.Pkg.Pkg.Path())
		}
		if !(strings.HasPrefix(pk, "internal/command") || strings.HasPrefix(pk, "internal/app/server") || strings.HasPrefix(pk, "internal/protocol/session") || strings.HasPrefix(pk, "internal/cloud")) {
			continue
		}
		Instrs(f, func(in ssa.Instruction) {
			fa, ok := in.(*ssa.FieldAddr)
			if !ok {
				return
			}
			t, fld, _, ok := FieldOf(fa)
			if !ok {
				return
			}
			hit := false
			for _, u := range untrusted[t] {
				if u == fld {
					hit = true
				}
			}
			if !hit || fa.Referrers() == nil {
				return
			}
			for _, ref := range *fa.Referrers() {
				ld, isLoad := ref.(*ssa.UnOp)
				if !isLoad {
					continue // a store (building an outgoing packet / the context) is not a read
				}
				nReads++
				top := Outermost(f).Name()
				okUse := top == "createCommandContext"
				if !okUse && ld.Referrers() != nil {
					okUse = true
					for _, u := range *ld.Referrers() {
						switch x := u.(type) {
						case *ssa.MakeInterface:
							// logging / formatting argument
						case *ssa.Store:
							// copying into another untrusted slot (response echo) is inert
							if t2, f2, _, ok2 := FieldOf(x.Addr); !ok2 || !contains(untrusted[t2], f2) {
								okUse = false
							}
						default:
							okUse = false
						}
					}
				}
				r.Ob("R-C11-1", ld.Pos(), okUse, "packet-carried identity field "+t+"."+fld+" is read only to be copied into the context or logged (it must never influence what a command does)", r.P.FuncName(f), "untrusted-read:"+t+"."+fld)
			}
		})
	}
	if nReads < 3 {
		r.Fail("R-C11-1", 0, fmt.Sprintf("only %d reads of packet-carried identity fields found (createCommandContext has 3)", nReads), "untrusted", "floor")
	}
	// CommandContext.ClientID writers
	for _, f := range r.P.Funcs {
		Instrs(f, func(in ssa.Instruction) {
			st, ok := in.(*ssa.Store)
			if !ok {
				return
			}
			t, fld, _, ok := FieldOf(st.Addr)
			if !ok {
				return
			}
			pk := ""
			if f.Pkg != nil {
				pk = rel(f.Pkg.Pkg.Path())
			}
			if strings.HasPrefix(pk, "internal/client") {
				return
			}
			if t == "CommandContext" && fld == "ClientID" {
				o := originDeep(st.Val, 2)
				good := Outermost(f).Name() == "createCommandContext" && (strings.Contains(o, "GetClientIDByConnectionID") || strings.Contains(o, "StreamPacket.ClientID")) &&
					!strings.Contains(o, "CommandPacket.") && !strings.Contains(o, "binop")
				if !good && o == "field:CommandReceivedEvent.ClientID(param:event)" {
					// event-bus path: accepted while nothing ever assigns the event's ClientID from packet content
					good = true
					for _, g := range r.P.Funcs {
						Instrs(g, func(x ssa.Instruction) {
							if st2, ok := x.(*ssa.Store); ok {
								if t2, f2, _, ok := FieldOf(st2.Addr); ok && t2 == "CommandReceivedEvent" && f2 == "ClientID" {
									o2 := originSummary(st2.Val)
									if strings.Contains(o2, "CommandPacket") || strings.Contains(o2, "Payload") || strings.Contains(o2, "alloc:") {
										good = false
									}
								}
							}
						})
					}
				}
				r.Ob("R-C11-1", st.Pos(), good, "CommandContext.ClientID is written from "+o+" (want: the connection registry only)", r.P.FuncName(f), "context-identity-writer")
			}
			if t == "StreamPacket" && fld == "ClientID" {
				o := originSummary(st.Val)
				bad := strings.Contains(o, "CommandPacket") || strings.Contains(o, "Payload") || strings.Contains(o, "CommandBody")
				r.Ob("R-C11-1", st.Pos(), !bad, "StreamPacket.ClientID is assigned from "+o+" (never from packet content)", r.P.FuncName(f), "streampacket-identity-writer")
			}
		})
	}

	// ---- R-C11-1 identity is stamped AFTER the body is decoded ----------------------------------------
	// a struct that json.Unmarshal fills from the request body must not already hold the actor's
	// identity: a body that carries the field's JSON key overwrites it. (Decoding first and stamping
	// afterwards, or decoding into a separate request type, are both fine.)
	for _, pk := range []string{cmdPkg, authPkg} {
		for _, f := range r.P.FuncsIn(pk) {
			for _, um := range Calls(f, false, "json:Unmarshal") {
				target := stripValue(Arg(um, 1))
				// objects reachable from the decode target: the target cell and what was stored in its
				// pointer fields before the call
				objs := map[ssa.Value]bool{target: true}
				for round := 0; round < 3; round++ {
					Instrs(f, func(in ssa.Instruction) {
						st, ok := in.(*ssa.Store)
						if !ok {
							return
						}
						if fa, isFA := st.Addr.(*ssa.FieldAddr); isFA && objs[stripValue(fa.X)] {
							if _, isPtr := st.Val.Type().Underlying().(*types.Pointer); isPtr {
								objs[stripValue(st.Val)] = true
							}
						}
					})
				}
				Instrs(f, func(in ssa.Instruction) {
					st, ok := in.(*ssa.Store)
					if !ok {
						return
					}
					fa, isFA := st.Addr.(*ssa.FieldAddr)
					if !isFA || !objs[stripValue(fa.X)] {
						return
					}
					o := originSummary(st.Val)
					if !strings.Contains(o, "CommandContext.ClientID") && !strings.Contains(o, "GetClientID") {
						return
					}
					before := st.Block() == um.Block() && Before(st, um.(ssa.Instruction)) || (st.Block() != um.Block() && CanReach(st.Block(), um.Block()))
					r.Ob("R-C11-1", st.Pos(), !before, "the actor's identity ("+o+") is stored into "+fieldDesc(fa.X.Type(), fa.Field)+" of the object the request body is then decoded into: a body carrying that field's JSON key overrides the authenticated sender", r.P.FuncName(f), "identity-stamped-after-decode:"+fieldDesc(fa.X.Type(), fa.Field))
				})
			}
		}
	}

	// ---- discover handlers ------------------------------------------------------------------------
	var handlers []*ssa.Function
	for _, pk := range []string{cmdPkg, authPkg} {
		for _, f := range r.P.FuncsIn(pk) {
			if f.Name() != "Handle" || f.Parent() != nil || f.Signature.Recv() == nil || f.Signature.Params().Len() != 1 {
				continue
			}
			if _, n := recvTypeName(f.Signature.Params().At(0).Type()); n != "CommandContext" {
				continue
			}
			handlers = append(handlers, f)
		}
	}
	for _, d := range dispatch {
		if fn := CalleeOf(d).Fn; fn != nil {
			handlers = append(handlers, fn)
		}
	}
	if len(handlers) < 10 { // alarm below 40% of the 25 sites confirmed by hand
		r.Fail("R-C11-2", 0, fmt.Sprintf("only %d command handlers discovered (>=30 confirmed by hand)", len(handlers)), "handlers", "floor")
	}
	r.Note("R-C11: %d command handlers discovered", len(handlers))

	// ---- R-C11-2 identity-taking sinks -----------------------------------------------------------------
	type sink struct {
		callee string
		arg    int    // explicit argument index of the actor, or -1 when it is a field of the request struct argument
		field  string // field of the request literal
	}
	sinks := []sink{
		{"CreateConnectionCode", -1, "TargetClientID"},
		{"ActivateConnectionCode", -1, "ListenClientID"},
		{"ListConnectionCodesByTargetClient", 0, ""},
		{"ListOutboundMappings", 0, ""}, {"ListInboundMappings", 0, ""},
		{"GetClientPortMappings", 0, ""},
		{"CreateHTTPDomainMapping", 0, ""}, {"DeleteHTTPDomainMapping", 0, ""}, {"ListHTTPDomainMappings", 0, ""},
		{"WithSender", 0, ""},
	}
	nSink := 0
	seenFn := map[*ssa.Function]bool{}
	for _, h := range handlers {
		for _, g := range samePkgReach(h, 2) {
			if seenFn[g] {
				continue
			}
			seenFn[g] = true
			for _, s := range sinks {
				for _, c := range Calls(g, false, s.callee) {
					var actor ssa.Value
					if s.arg >= 0 {
						actor = Arg(c, s.arg)
						if c.Common().IsInvoke() {
							actor = c.Common().Args[s.arg]
						}
					} else {
						// field of the request struct passed as first argument
						reqv := Arg(c, 0)
						if c.Common().IsInvoke() {
							reqv = c.Common().Args[0]
						}
						if reqv != nil && reqv.Referrers() != nil {
							for _, ref := range *reqv.Referrers() {
								if fa, ok := ref.(*ssa.FieldAddr); ok && fieldName(fa.X.Type(), fa.Field) == s.field {
									for _, st := range storesTo(fa) {
										actor = st.Val
									}
								}
							}
						}
					}
					if actor == nil {
						r.Fail("R-C11-2", CallPos(c), "actor argument of "+s.callee+" not found", r.P.FuncName(g), "sink:"+s.callee)
						continue
					}
					// getDefaultTargetClientID(sourceClientID) style helpers: the parameter is checked at their callers
					if p, isP := actor.(*ssa.Parameter); isP {
						okAll, n := true, 0
						for _, caller := range r.P.FuncsIn(rel(g.Pkg.Pkg.Path())) {
							for _, cc := range Calls(caller, false, g.Name()) {
								if CalleeOf(cc).Fn != g {
									continue
								}
								n++
								idx := -1
								for i, q := range g.Params {
									if q == p {
										idx = i
									}
								}
								if idx < 0 {
									okAll = false
									continue
								}
								if ok, _ := identityVerdict(cc.Common().Args[idx]); !ok {
									okAll = false
								}
							}
						}
						nSink++
						r.Ob("R-C11-2", CallPos(c), okAll && n > 0, fmt.Sprintf("actor of %s is a parameter that every caller (%d) fills with the connection's identity", s.callee, n), r.P.FuncName(g), "sink:"+s.callee)
						continue
					}
					ok, desc := identityVerdict(actor)
					nSink++
					r.Ob("R-C11-2", CallPos(c), ok, "actor passed to "+s.callee+" originates from "+desc+" (want the connection's authenticated identity, never the request body)", r.P.FuncName(g), "sink:"+s.callee)
				}
			}
		}
	}
	if nSink < 4 { // alarm below 40% of the 10 sites confirmed by hand
		r.Fail("R-C11-2", 0, fmt.Sprintf("only %d identity-taking sink calls found in command handlers (>=12 confirmed by hand)", nSink), "sinks", "floor")
	}
	// getClientID helpers resolve through the connection id of the context
	nHelpers := 0
	for _, f := range r.P.FuncsIn(authPkg) {
		if f.Name() != "getClientID" || f.Parent() != nil {
			continue
		}
		nHelpers++
		ok := true
		for _, ret := range Returns(f) {
			v := RetVal(ret, 0)
			if k, isC := ConstInt(v); isC && k == 0 {
				continue
			}
			o := originDeep(v, 2)
			if !(strings.Contains(o, "ControlConnection.ClientID(") && strings.Contains(o, "GetControlConnection")) {
				ok = false
			}
			if k0 := strings.Count(o, "const:0"); k0 > 0 && strings.Contains(o, "CommandPacket") {
				ok = false
			}
		}
		// the registry is asked about the connection id of the context (directly or through a shared
		// helper that is handed ctx.ConnectionID)
		nAsk := 0
		for _, c := range Calls(f, false, "GetControlConnection") {
			nAsk++
			if originSummary(Arg(c, 0)) != "field:CommandContext.ConnectionID(param:ctx)" {
				ok = false
			}
		}
		if nAsk == 0 {
			Instrs(f, func(in ssa.Instruction) {
				hc, isC := in.(*ssa.Call)
				if !isC {
					return
				}
				h := hc.Common().StaticCallee()
				if h == nil || h.Pkg != f.Pkg || len(h.Blocks) == 0 {
					return
				}
				for _, c := range Calls(h, false, "GetControlConnection") {
					nAsk++
					o := originSummary(Arg(c, 0))
					for i, hp := range h.Params {
						if i < len(hc.Call.Args) && o == "param:"+canonParamName(hp) {
							o = originSummary(hc.Call.Args[i])
						}
					}
					if o != "field:CommandContext.ConnectionID(param:ctx)" {
						ok = false
					}
				}
			})
		}
		if nAsk == 0 {
			ok = false
		}
		r.Ob("R-C11-2", f.Pos(), ok, "getClientID returns the ClientID of the control connection registered for ctx.ConnectionID (or 0)", r.P.FuncName(f), "identity-helper")
	}
	if nHelpers < 2 { // alarm below 40% of the 5 sites confirmed by hand
		r.Fail("R-C11-2", 0, fmt.Sprintf("only %d getClientID helpers found (7 confirmed by hand)", nHelpers), authPkg, "floor-helpers")
	}

	// ---- R-C11-3 object-by-id sinks need a party comparison ------------------------------------------------
	type objSink struct {
		pkg, fn string
		lookup  string   // callee producing the object
		sinks   []string // callees that must not be reachable without the party edge
		id      string   // substring identifying the caller identity in the comparison
		both    bool     // require both listen and target edges (true) or a single listen edge (false)
	}
	objs := []objSink{
		{authPkg, "DeleteMappingHandler.Handle", "GetMapping", []string{"DeletePortMapping"}, "getClientID", true},
		{authPkg, "GetMappingHandler.Handle", "GetMapping", []string{"Marshal"}, "getClientID", true},
		{sessPkg, "SessionManager.HandleTrafficReport", "GetPortMapping", []string{"UpdatePortMappingStats"}, "getClientIDFromConnection", true},
		{sessPkg, "SessionManager.HandleSOCKS5TunnelRequest", "GetPortMapping", []string{"WritePacket", "BroadcastTunnelOpen"}, "getClientIDFromConnection", false},
	}
	for _, o := range objs {
		f := r.need("R-C11-3", o.pkg, o.fn)
		if f == nil {
			continue
		}
		lk := Calls(f, false, o.lookup)
		if len(lk) == 0 {
			r.Fail("R-C11-3", f.Pos(), "object lookup "+o.lookup+" not found", o.fn, "anchor")
			continue
		}
		var start *ssa.BasicBlock
		for _, b := range f.Blocks {
			if ErrOK(b, lk[0]) && (start == nil || b.Dominates(start)) {
				start = b
			}
		}
		if start == nil {
			r.Fail("R-C11-3", CallPos(lk[0]), "success edge of "+o.lookup+" not found", o.fn, "anchor-edge")
			continue
		}
		eq := 0
		hits := WalkFrom(start, nil, func(in ssa.Instruction) int {
			if ci, ok := in.(ssa.CallInstruction); ok && CalleeOf(ci).Is(o.sinks...) {
				return Hit
			}
			return Cont
		}, func(b *ssa.BasicBlock, succ int) bool {
			iff, ok := b.Instrs[len(b.Instrs)-1].(*ssa.If)
			if !ok {
				return true
			}
			// a party predicate (isParty(identity, listen, target) bool): its true edge is the party edge
			if c0, pol := normCond(iff.Cond, true); true {
				if pc, isCall := c0.(*ssa.Call); isCall {
					if n := partyPredicateArgs(pc, o.id); n > 0 {
						trueSucc := 0
						if !pol {
							trueSucc = 1
						}
						if succ == trueSucc {
							eq += n
							return false
						}
						return true
					}
				}
			}
			bo, ok := iff.Cond.(*ssa.BinOp)
			if !ok || (bo.Op != token.NEQ && bo.Op != token.EQL) {
				return true
			}
			s := originSummary(bo.X) + "|" + originSummary(bo.Y)
			if !(strings.Contains(s, "."+o.id) && (strings.Contains(s, "PortMapping.ListenClientID") || strings.Contains(s, "PortMapping.TargetClientID"))) {
				return true
			}
			eqEdge := 1
			if bo.Op == token.EQL {
				eqEdge = 0
			}
			if succ == eqEdge {
				eq++
				return false
			}
			return true
		})
		need := 1
		if o.both {
			need = 2
		}
		r.Ob("R-C11-3", CallPos(lk[0]), len(hits) == 0 && eq >= need, fmt.Sprintf("%v are reachable from the %s result only through the edges 'connection identity == party of the object' (%d such edges, %d other ways)", o.sinks, o.lookup, eq, len(hits)), o.fn, "party-before-sink")
	}
	// every other function of the command-handler package that fetches a mapping by id (discovered, not
	// listed): somewhere in it a party field of that mapping is compared with the connection's identity
	// (the handler's getClientID / the context's ClientID, or a parameter every caller fills with it).
	// A helper that fetches a mapping for a caller and compares its parties only with other stored
	// values hands one client's mapping to another.
	listed := map[string]bool{}
	for _, o := range objs {
		listed[o.fn] = true
	}
	identityDerived := func(v ssa.Value) bool { return false }
	identityDerived = func(v ssa.Value) bool {
		o := originSummary(v)
		if strings.Contains(o, ".getClientID") || strings.Contains(o, "CommandContext.ClientID") {
			return true
		}
		if p, ok := stripValue(v).(*ssa.Parameter); ok && p.Parent() != nil {
			f := p.Parent()
			idx := -1
			for i, q := range f.Params {
				if q == p {
					idx = i
				}
			}
			sites := staticCallSites(r.P, f)
			if idx < 0 || len(sites) == 0 {
				return false
			}
			for _, c := range sites {
				if idx >= len(c.Call.Args) {
					return false
				}
				ao := originSummary(c.Call.Args[idx])
				if !strings.Contains(ao, ".getClientID") && !strings.Contains(ao, "CommandContext.ClientID") {
					return false
				}
			}
			return true
		}
		return false
	}
	nDisc := 0
	c11Files := anchorFiles("C11", r.P.Repo)
	for _, f := range r.P.FuncsIn(authPkg) {
		if len(f.Blocks) == 0 || f != Outermost(f) {
			continue
		}
		// the command handlers (the property's anchor files); the tunnel-open validator of the same
		// package is C04's subject and identifies the requester differently
		if rp, err := filepath.Rel(r.P.Repo, r.P.Fset.Position(f.Pos()).Filename); err != nil || !c11Files[rp] {
			continue
		}
		short := f.Name()
		if f.Signature.Recv() != nil {
			_, tn := recvTypeName(f.Signature.Recv().Type())
			short = tn + "." + f.Name()
		}
		if listed[short] {
			continue
		}
		lk := Calls(f, false, "GetMapping", "GetPortMapping")
		if len(lk) == 0 {
			continue
		}
		nDisc++
		cmp := 0
		// values the function compares with the identity stand for it (`if *code.ActivatedBy != clientID
		// { refuse }` followed by `mapping.ListenClientID != *code.ActivatedBy`): one step of transitivity
		alias := map[string]bool{}
		Instrs(f, func(in ssa.Instruction) {
			bo, ok := in.(*ssa.BinOp)
			if !ok || (bo.Op != token.EQL && bo.Op != token.NEQ) {
				return
			}
			for _, pair := range [][2]ssa.Value{{bo.X, bo.Y}, {bo.Y, bo.X}} {
				if identityDerived(pair[1]) {
					if o := originSummary(pair[0]); o != "" && !strings.HasPrefix(o, "const:") {
						alias[o] = true
					}
				}
			}
		})
		Instrs(f, func(in ssa.Instruction) {
			bo, ok := in.(*ssa.BinOp)
			if !ok || (bo.Op != token.EQL && bo.Op != token.NEQ) {
				return
			}
			for _, pair := range [][2]ssa.Value{{bo.X, bo.Y}, {bo.Y, bo.X}} {
				po := originSummary(pair[0])
				if (strings.Contains(po, "PortMapping.ListenClientID") || strings.Contains(po, "PortMapping.TargetClientID")) && (identityDerived(pair[1]) || alias[originSummary(pair[1])]) {
					cmp++
					if os.Getenv("TV_DEBUG") != "" {
						fmt.Fprintln(os.Stderr, "DEBUG cmp", short, po, "|", originSummary(pair[1]))
					}
				}
			}
		})
		r.Ob("R-C11-3", CallPos(lk[0]), cmp > 0, fmt.Sprintf("a function of the command-handler package that fetches a mapping by id compares a party of it with the connection's identity (%d such comparison(s))", cmp), short, "fetched-mapping-party-vs-identity")
	}
	r.Note("R-C11-3: %d further function(s) of %s fetch a mapping by id", nDisc, authPkg)
	// DNS relays: explicit targets pass the entitlement helper
	for _, name := range []string{"SessionManager.HandleDNSResolveRequest", "SessionManager.HandleDNSQueryRequest"} {
		f := r.need("R-C11-3", sessPkg, name)
		if f == nil {
			continue
		}
		may := Calls(f, false, "SessionManager.clientMayReachClient")
		ok := len(may) == 1
		if ok {
			a0, a1 := originSummary(Arg(may[0], 0)), originSummary(Arg(may[0], 1))
			ok = strings.Contains(a0, "getClientIDFromConnection") && strings.Contains(a1, "TargetClientID")
			// refusing edge: from the "not entitled" edge no relay is reachable
			mv := may[0].(ssa.Value)
			for _, b := range f.Blocks {
				iff, isIf := b.Instrs[len(b.Instrs)-1].(*ssa.If)
				if !isIf {
					continue
				}
				c, pol := normCond(iff.Cond, true)
				if c != mv {
					continue
				}
				notOK := 1
				if !pol {
					notOK = 0
				}
				hits := WalkFrom(b.Succs[notOK], nil, func(in ssa.Instruction) int {
					if ci, isC := in.(ssa.CallInstruction); isC && CalleeOf(ci).Is("WritePacket", "SessionManager.handleDNSQueryCrossNode", "GetControlConnectionByClientID") {
						if CalleeOf(ci).Name == "WritePacket" && strings.Contains(originSummary(Recv(ci)), "GetControlConnectionByClientID") || CalleeOf(ci).Name != "WritePacket" {
							return Hit
						}
					}
					return Cont
				}, nil)
				if len(hits) > 0 {
					ok = false
				}
			}
		}
		r.Ob("R-C11-3", f.Pos(), ok, "an explicitly named DNS relay target passes clientMayReachClient(connection identity, target) and the refusing edge relays nothing", name, "relay-entitled")
		// every relay path has a source identity > 0
		for _, c := range Calls(f, false, "GetControlConnectionByClientID") {
			idok := false
			for _, ft := range Facts(c.Block()) {
				if bo, isB := ft.Cond.(*ssa.BinOp); isB && strings.Contains(originSummary(bo.X), "getClientIDFromConnection") {
					if k, isC := ConstInt(bo.Y); isC && k == 0 && ((bo.Op == token.LEQ && !ft.Pol) || (bo.Op == token.EQL && !ft.Pol) || (bo.Op == token.GTR && ft.Pol)) {
						idok = true
					}
				}
			}
			r.Ob("R-C11-3", CallPos(c), idok, "the relay target is resolved only for an authenticated source", name, "relay-source-authenticated")
		}
	}
	if mh := r.need("R-C11-3", sessPkg, "SessionManager.clientMayReachClient"); mh != nil {
		ok := false
		for _, ret := range Returns(mh) {
			if b, isC := ConstBool(RetVal(ret, 0)); isC && b {
				l, t, v := false, false, false
				for _, ft := range Facts(ret.Block()) {
					if bo, isB := ft.Cond.(*ssa.BinOp); isB && bo.Op == token.EQL && ft.Pol {
						s := originSummary(bo.X) + originSummary(bo.Y)
						if strings.Contains(s, "PortMapping.ListenClientID") && strings.Contains(s, "param:sourceClientID") {
							l = true
						}
						if strings.Contains(s, "PortMapping.TargetClientID") && strings.Contains(s, "param:targetClientID") {
							t = true
						}
					}
					if c, isC2 := stripValue(ft.Cond).(*ssa.Call); isC2 && CalleeOf(c).Is("PortMapping.IsValid") && ft.Pol {
						v = true
					}
				}
				ok = l && t && v
			}
		}
		r.Ob("R-C11-3", mh.Pos(), ok, "clientMayReachClient is true only for a valid mapping the source listens on and whose target is the named client", "clientMayReachClient", "entitlement-predicate")
		for _, c := range Calls(mh, false, "GetClientPortMappings") {
			r.Ob("R-C11-3", CallPos(c), originSummary(c.Common().Args[0]) == "param:sourceClientID", "the mappings consulted are the source client's", "clientMayReachClient", "entitlement-source")
		}
	}
	// notification: delivered as the connection's identity
	if nh := r.P.Fn(cmdPkg, "SendNotifyToClientHandler.Handle"); nh != nil {
		for _, c := range Calls(nh, false, "WithSender") {
			ok, d := identityVerdict(c.Common().Args[len(c.Common().Args)-1])
			r.Ob("R-C11-3", CallPos(c), ok, "a client-to-client notification carries the sender "+d, "SendNotifyToClientHandler.Handle", "notify-sender")
		}
	}
	_ = types.Typ
}

func contains(l []string, s string) bool {
	for _, x := range l {
		if x == s {
			return true
		}
	}
	return false
}

// partyPredicateArgs: call pc invokes a same-package bool helper with the connection's identity
// (origin contains idMatch) and party fields of a mapping; the helper answers true only on an edge
// where the identity parameter equals one of the party parameters. Returns the number of party
// fields handed in (0 when pc is not such a predicate).
func partyPredicateArgs(pc *ssa.Call, idMatch string) int {
	h := pc.Common().StaticCallee()
	if h == nil || len(h.Blocks) == 0 || h.Signature.Results().Len() != 1 {
		return 0
	}
	if bt, ok := h.Signature.Results().At(0).Type().Underlying().(*types.Basic); !ok || bt.Kind() != types.Bool {
		return 0
	}
	idIdx := -1
	var partyIdx []int
	for i, a := range pc.Call.Args {
		o := originSummary(a)
		switch {
		case strings.Contains(o, "PortMapping.ListenClientID") || strings.Contains(o, "PortMapping.TargetClientID"):
			partyIdx = append(partyIdx, i)
		case strings.Contains(o, idMatch):
			idIdx = i
		}
	}
	if idIdx < 0 || len(partyIdx) == 0 || idIdx >= len(h.Params) {
		return 0
	}
	isParty := func(v ssa.Value) bool {
		for _, i := range partyIdx {
			if i < len(h.Params) && stripValue(v) == ssa.Value(h.Params[i]) {
				return true
			}
		}
		return false
	}
	hits := WalkFrom(h.Blocks[0], nil, func(in ssa.Instruction) int {
		if ret, ok := in.(*ssa.Return); ok {
			if b, isC := ConstBool(RetVal(ret, 0)); isC && !b {
				return Stop
			}
			return Hit
		}
		return Cont
	}, func(b *ssa.BasicBlock, succ int) bool {
		iff, ok := b.Instrs[len(b.Instrs)-1].(*ssa.If)
		if !ok {
			return true
		}
		bo, ok := iff.Cond.(*ssa.BinOp)
		if !ok || (bo.Op != token.EQL && bo.Op != token.NEQ) {
			return true
		}
		idp := ssa.Value(h.Params[idIdx])
		if !((stripValue(bo.X) == idp && isParty(bo.Y)) || (stripValue(bo.Y) == idp && isParty(bo.X))) {
			return true
		}
		eqEdge := 1
		if bo.Op == token.EQL {
			eqEdge = 0
		}
		return succ != eqEdge
	})
	if len(hits) > 0 {
		return 0
	}
	return len(partyIdx)
}

// seenDispatchHelper: f is one of the dispatch helpers already reached from handleCommandPacket.
func seenDispatchHelper(via map[ssa.CallInstruction]ssa.CallInstruction, f *ssa.Function) bool {
	for d := range via {
		if Outermost(d.Parent()) == Outermost(f) {
			return true
		}
	}
	return false
}
