package main

import (
	"fmt"
	"go/token"
	"go/types"
	"strings"

	"golang.org/x/tools/go/ssa"
)

func init() {
	register(&PropCheck{
		ID: "C10",
		Explanation: "Static rules on the cross-node frame codec and stream (session/crossnode/frame.go, stream.go). " +
			"R-C10-1: the decoder reads header and payload with io.ReadFull, and the payload allocation is dominated by the comparison `decoded length > MaxFrameSize -> error` on the raw decoded length with the same constant with which both encoders refuse oversize payloads. " +
			"R-C10-2: WriteFrame, WriteFrameToWriter and ReadFrameFromReader use the same header layout {size 21, id [0,16), type at 16, length [17,21) big-endian}. " +
			"R-C10-3: FrameStream.Write frames consecutive windows p[lo:hi] of the caller's buffer starting at 0 with hi-lo <= MaxFrameSize and the next window starting where the last ended, returns the bytes framed on error and the whole length on success. " +
			"R-C10-4: FrameStream.Read copies a fresh payload to the caller only under tunnel-id equality and frame type data; the (buffer, offset) pair it keeps denotes exactly the unread remainder and is served before the next frame; EOF/Close frames latch end-of-stream. " +
			"Delegating Read/Write wrappers on the cross-node path (CountingReadWriter) return the inner call's byte count on every path. " +
			"R-C10-5: after half-close or close Write is refused, and the closed flag is set only after the EOF/Close frame was written. " +
			"Decides these necessary conditions; does not decide byte equality over TCP or tunnel-id truncation collisions.",
		Run: runC10,
		Mutants: []Mutant{
			{Name: "decoder-cap-includes-header", File: "internal/protocol/session/crossnode/frame.go", Rule: "R-C10-1",
				Old: "if length > MaxFrameSize {", New: "if length+FrameHeaderSize > MaxFrameSize {"},
			{Name: "decoder-payload-single-read", File: "internal/protocol/session/crossnode/frame.go", Rule: "R-C10-1",
				Old: "if _, err = io.ReadFull(r, data); err != nil {", New: "if _, err = r.Read(data); err != nil {"},
			{Name: "writer-length-offset", File: "internal/protocol/session/crossnode/frame.go", Rule: "R-C10-2",
				Old: "\theader[16] = frameType\n\tbinary.BigEndian.PutUint32(header[17:21], uint32(len(data)))\n\n\t// 写入帧头", New: "\theader[16] = frameType\n\tbinary.LittleEndian.PutUint32(header[17:21], uint32(len(data)))\n\n\t// 写入帧头"},
			{Name: "write-chunk-not-advanced", File: "internal/protocol/session/crossnode/stream.go", Rule: "R-C10-3",
				Old: "chunk := p[written : written+chunkSize]", New: "chunk := p[written:]\n\t\t\tif len(chunk) > MaxFrameSize {\n\t\t\t\tchunk = p[:MaxFrameSize]\n\t\t\t}"},
			{Name: "read-delivers-foreign-tunnel", File: "internal/protocol/session/crossnode/stream.go", Rule: "R-C10-4",
				Old: "\t\t\tif s.tracker != nil && s.tracker.IsTunnelClosed(otherTunnelIDStr) {\n\t\t\t\tcontinue // 残留帧，丢弃\n\t\t\t}\n\t\t\tcontinue // 其他 tunnel 的帧，丢弃", New: "\t\t\tif s.tracker != nil && s.tracker.IsTunnelClosed(otherTunnelIDStr) {\n\t\t\t\tcontinue // 残留帧，丢弃\n\t\t\t}"},
			{Name: "read-offset-applied-twice", File: "internal/protocol/session/crossnode/stream.go", Rule: "R-C10-4",
				Old: "\t\t\ts.readBuf = data\n\t\t\ts.readOff = 0\n\t\t\tn = copy(p, s.readBuf)\n\t\t\ts.readOff = n", New: "\t\t\tn = copy(p, data)\n\t\t\ts.readBuf = data[n:]\n\t\t\ts.readOff = n"},
			{Name: "eof-frame-not-latched", File: "internal/protocol/session/crossnode/stream.go", Rule: "R-C10-4",
				Old: "\t\t\t// 半关闭：对端的写入方向结束，但我们仍可以写入\n\t\t\ts.readEOF = true\n", New: "\t\t\t// 半关闭：对端的写入方向结束，但我们仍可以写入\n"},
			{Name: "closewrite-flag-before-frame", File: "internal/protocol/session/crossnode/stream.go", Rule: "R-C10-5",
				Old: "\t// 发送 FrameTypeEOF 帧（空数据）- 半关闭\n\tif err := WriteFrame(tcpConn, s.tunnelID, FrameTypeEOF, nil); err != nil {", New: "\t// 发送 FrameTypeEOF 帧（空数据）- 半关闭\n\ts.writeEOF = true\n\tif err := WriteFrame(tcpConn, s.tunnelID, FrameTypeEOF, nil); err != nil {"},
		},
	})
}

const cnPkg = "internal/protocol/session/crossnode"

// frameLayout extracted from a codec function.
type frameLayout struct {
	headerSize         int64
	idLo, idHi         int64
	typeIdx            int64
	lenLo, lenHi       int64
	endian             string
	found              map[string]bool
	idPos, typePos, lp token.Pos
}

func sliceBounds(v ssa.Value) (lo, hi int64, ok bool) {
	sl, isS := v.(*ssa.Slice)
	if !isS {
		return 0, 0, false
	}
	lo = 0
	if sl.Low != nil {
		k, c := ConstInt(sl.Low)
		if !c {
			return 0, 0, false
		}
		lo = k
	}
	if sl.High == nil {
		return lo, -1, true
	}
	k, c := ConstInt(sl.High)
	if !c {
		return 0, 0, false
	}
	return lo, k, true
}

// extractFrameLayout reads the header layout constants used by f.
func extractFrameLayout(f *ssa.Function) frameLayout {
	l := frameLayout{headerSize: -1, idLo: -1, idHi: -1, typeIdx: -1, lenLo: -1, lenHi: -1, found: map[string]bool{}}
	var header ssa.Value
	Instrs(f, func(in ssa.Instruction) {
		if ms, ok := in.(*ssa.MakeSlice); ok && header == nil {
			if k, ok := ConstInt(ms.Len); ok {
				if b, ok := ms.Type().Underlying().(*types.Slice); ok {
					if e, ok := b.Elem().Underlying().(*types.Basic); ok && e.Kind() == types.Uint8 {
						header, l.headerSize = ms, k
					}
				}
			}
		}
	})
	if header == nil {
		// make([]byte, CONST) lowers to `new [N]byte` + `slice t[:N]`
		Instrs(f, func(in ssa.Instruction) {
			sl, ok := in.(*ssa.Slice)
			if !ok || header != nil {
				return
			}
			al, ok := sl.X.(*ssa.Alloc)
			if !ok || al.Comment != "makeslice" {
				return
			}
			if pt, ok := al.Type().Underlying().(*types.Pointer); ok {
				if at, ok := pt.Elem().Underlying().(*types.Array); ok {
					header, l.headerSize = sl, at.Len()
				}
			}
		})
	}
	if header == nil {
		return l
	}
	scanLayout(f, header, &l, 2)
	return l
}

// scanLayout records the offsets at which f touches the header buffer; the buffer is followed
// into same-package helpers that receive it as an argument (parseFrameHeader-style splits).
func scanLayout(f *ssa.Function, header ssa.Value, l *frameLayout, depth int) {
	isHdr := func(v ssa.Value) bool { return v == header || stripValue(v) == header }
	Instrs(f, func(in ssa.Instruction) {
		switch x := in.(type) {
		case *ssa.Call:
			c := CalleeOf(x)
			if b, ok := x.Call.Value.(*ssa.Builtin); ok && b.Name() == "copy" {
				// copy(header[a:b], id[:]) or copy(id[:], header[a:b])
				for _, a := range x.Call.Args {
					if sl, ok := a.(*ssa.Slice); ok && isHdr(sl.X) {
						if lo, hi, ok := sliceBounds(a); ok {
							l.idLo, l.idHi, l.found["id"], l.idPos = lo, hi, true, x.Pos()
						}
					}
				}
			}
			if c.Name == "PutUint32" || c.Name == "Uint32" {
				for _, a := range x.Call.Args {
					if sl, ok := a.(*ssa.Slice); ok && isHdr(sl.X) {
						if lo, hi, ok := sliceBounds(a); ok {
							l.lenLo, l.lenHi, l.found["len"], l.lp = lo, hi, true, x.Pos()
							l.endian = c.Recv
						}
					}
				}
			}
			if g := x.Common().StaticCallee(); g != nil && depth > 0 && g.Pkg == f.Pkg && len(g.Blocks) > 0 && g != f {
				for i, a := range x.Common().Args {
					if isHdr(a) && i < len(g.Params) {
						scanLayout(g, g.Params[i], l, depth-1)
					}
				}
			}
		case *ssa.IndexAddr:
			if isHdr(x.X) {
				// `_ = hdr[n-1]` is a bounds hint, not a field: an element address whose value is loaded and
				// never used (and never stored to) says nothing about the layout
				used := false
				if x.Referrers() != nil {
					for _, ref := range *x.Referrers() {
						if u, ok := ref.(*ssa.UnOp); ok {
							if u.Referrers() != nil && len(*u.Referrers()) > 0 {
								used = true
							}
							continue
						}
						used = true
					}
				}
				if k, ok := ConstInt(x.Index); ok && used {
					l.typeIdx, l.found["type"], l.typePos = k, true, x.Pos()
				}
			}
		}
	})
}

// decodedLength finds, in the decoder rd, the SSA value that is the decoded payload length:
// the Uint32 call itself, or the result of a same-package helper whose corresponding result
// is such a call on the header it was given.
func decodedLength(rd *ssa.Function) ssa.Value {
	for _, c := range Calls(rd, false, "Uint32") {
		return c.(ssa.Value)
	}
	var out ssa.Value
	Instrs(rd, func(in ssa.Instruction) {
		ci, ok := in.(*ssa.Call)
		if !ok || out != nil {
			return
		}
		g := ci.Common().StaticCallee()
		if g == nil || g.Pkg != rd.Pkg || len(g.Blocks) == 0 {
			return
		}
		nres := g.Signature.Results().Len()
		for i := 0; i < nres; i++ {
			all := true
			rets := Returns(g)
			for _, ret := range rets {
				c, _ := CallOfValue(RetVal(ret, i))
				if c == nil || CalleeOf(c).Name != "Uint32" {
					// named result: look at the stores into the result variable
					all = false
					if u, ok := ret.Results[i].(*ssa.UnOp); ok {
						if a, ok := u.X.(*ssa.Alloc); ok {
							sts := storesTo(a)
							okAll := len(sts) > 0
							for _, st := range sts {
								if k, isC := st.Val.(*ssa.Const); isC && k.IsNil() {
									continue
								}
								if z, isZ := ConstInt(st.Val); isZ && z == 0 {
									continue
								}
								c2, _ := CallOfValue(st.Val)
								if c2 == nil || CalleeOf(c2).Name != "Uint32" {
									okAll = false
								}
							}
							all = okAll
						}
					}
				}
				if !all {
					break
				}
			}
			if all && len(rets) > 0 {
				if nres == 1 {
					out = ci
				} else if ci.Referrers() != nil {
					for _, ref := range *ci.Referrers() {
						if ex, ok := ref.(*ssa.Extract); ok && ex.Index == i {
							out = ex
						}
					}
				}
				return
			}
		}
	})
	if out != nil {
		return out
	}
	// the header is decoded into a struct by a helper (`h := unmarshalFrameHeader(buf)`): the decoded
	// length is the field of that struct the helper fills from the Uint32
	Instrs(rd, func(in ssa.Instruction) {
		ci, ok := in.(*ssa.Call)
		if !ok || out != nil {
			return
		}
		g := ci.Common().StaticCallee()
		if g == nil || g.Pkg != rd.Pkg || len(g.Blocks) == 0 {
			return
		}
		fieldIdx := -1
		Instrs(g, func(x ssa.Instruction) {
			st, ok := x.(*ssa.Store)
			if !ok {
				return
			}
			fa, ok := st.Addr.(*ssa.FieldAddr)
			if !ok {
				return
			}
			if c2, _ := CallOfValue(st.Val); c2 != nil && CalleeOf(c2).Name == "Uint32" {
				fieldIdx = fa.Field
			}
		})
		if fieldIdx < 0 {
			return
		}
		var res ssa.Value = ci
		if g.Signature.Results().Len() > 1 {
			res = extractOf(ci, 0)
		}
		if res == nil || res.Referrers() == nil {
			return
		}
		for _, ref := range *res.Referrers() {
			switch x := ref.(type) {
			case *ssa.Field:
				if x.Field == fieldIdx && out == nil {
					out = x
				}
			case *ssa.Store:
				// spilled: h := f(); ... h.Length
				if al, ok := x.Addr.(*ssa.Alloc); ok && al.Referrers() != nil {
					for _, r2 := range *al.Referrers() {
						if fa, ok := r2.(*ssa.FieldAddr); ok && fa.Field == fieldIdx && fa.Referrers() != nil {
							for _, r3 := range *fa.Referrers() {
								if u, ok := r3.(*ssa.UnOp); ok && out == nil {
									out = u
								}
							}
						}
					}
				}
			}
		}
	})
	return out
}

func runC10(r *Report) {
	rd := r.need("R-C10-1", cnPkg, "ReadFrameFromReader")
	wf := r.need("R-C10-2", cnPkg, "WriteFrame")
	ww := r.need("R-C10-2", cnPkg, "WriteFrameToWriter")
	if rd == nil || wf == nil || ww == nil {
		return
	}
	// ---- R-C10-1 decoder safety --------------------------------------------------
	length := decodedLength(rd)
	if length == nil {
		r.Fail("R-C10-1", rd.Pos(), "decoded length not found", "ReadFrameFromReader", "anchor")
		return
	}
	writerCap := func(f *ssa.Function) (int64, bool) {
		// `len(data) > K` whose true edge returns an error before any write
		var k int64
		found := false
		Instrs(f, func(in ssa.Instruction) {
			bo, ok := in.(*ssa.BinOp)
			if !ok || bo.Op != token.GTR {
				return
			}
			lc, ok := bo.X.(*ssa.Call)
			if !ok {
				return
			}
			if b, ok := lc.Call.Value.(*ssa.Builtin); !ok || b.Name() != "len" || originSummary(lc.Call.Args[0]) != "param:data" {
				return
			}
			if c, ok := ConstInt(bo.Y); ok && c > k {
				k, found = c, true
			}
		})
		return k, found
	}
	k1, ok1 := writerCap(wf)
	k2, ok2 := writerCap(ww)
	r.Ob("R-C10-1", wf.Pos(), ok1 && ok2 && k1 == k2, fmt.Sprintf("both frame writers refuse payloads larger than the same constant (%d / %d)", k1, k2), "WriteFrame", "writer-cap")
	for _, f := range []*ssa.Function{wf, ww} {
		// every raw write is dominated by the cap test being false
		for _, w := range Calls(f, false, "Write", "WriteTo") {
			ok := false
			for _, ft := range Facts(w.Block()) {
				if bo, isB := ft.Cond.(*ssa.BinOp); isB && bo.Op == token.GTR && !ft.Pol {
					if _, isC := ConstInt(bo.Y); isC {
						ok = true
					}
				}
			}
			r.Ob("R-C10-1", CallPos(w), ok, "frame bytes are written only after the payload-size refusal test", f.Name(), "write-after-cap")
		}
	}
	Instrs(rd, func(in ssa.Instruction) {
		ms, ok := in.(*ssa.MakeSlice)
		if !ok {
			return
		}
		if _, isC := ConstInt(ms.Len); isC {
			return
		}
		good := false
		why := "payload allocation is not dominated by `length > MaxFrameSize` on the raw decoded length"
		for _, ft := range Facts(ms.Block()) {
			bo, isB := ft.Cond.(*ssa.BinOp)
			if !isB || bo.Op != token.GTR || ft.Pol {
				continue
			}
			if stripValue(bo.X) != length && bo.X != length {
				why = "the size test is applied to an expression derived from the length, not to the decoded length itself (arithmetic on an attacker-chosen uint32 can wrap)"
				continue
			}
			if c, isC := ConstInt(bo.Y); isC && ok1 && c >= k1 && c <= 1<<24 {
				// the decoder accepts every payload an encoder may emit (it may accept more: a lowered
				// encoder limit still interoperates) and the allocation stays bounded by a constant
				good = true
			} else {
				why = fmt.Sprintf("decoder cap %d is below the encoders' cap %d (or not a sane constant): frames one side emits the other refuses", c, k1)
			}
		}
		lenOK := stripValue(ms.Len) == length || ms.Len == length
		r.Ob("R-C10-1", ms.Pos(), good && lenOK, map[bool]string{true: "payload allocation capped by the encoders' constant on the raw decoded length", false: why}[good && lenOK], "ReadFrameFromReader", "alloc-capped")
	})
	nFull := 0
	for _, c := range Calls(rd, false, "Read", "ReadFull", "ReadAtLeast") {
		rs := ClassifyRead(c)
		if rs.Shape == "unknown" {
			continue
		}
		nFull++
		r.Ob("R-C10-1", CallPos(c), rs.Shape == "full", "decoder field read is "+rs.Shape+" ("+rs.Detail+"): header and payload must be read in full whatever the TCP segmentation", "ReadFrameFromReader", "full-read")
	}
	if nFull < 2 {
		r.Fail("R-C10-1", rd.Pos(), fmt.Sprintf("expected 2 field reads (header, payload) in the decoder, found %d", nFull), "ReadFrameFromReader", "full-read-floor")
	}

	// a decoded payload never aliases a pooled buffer that is given back (also when no pool is in use today:
	// the rule arms itself as soon as a sync.Pool appears in the codec)
	nPool := 0
	for _, f := range r.P.FuncsIn(cnPkg) {
		nPool += checkSyncPoolOwnership(r, "R-C10-1", f)
	}
	r.Note("R-C10-1: %d sync.Pool Get site(s) in the cross-node codec examined for ownership", nPool)

	// ---- R-C10-2 layout agreement ----------------------------------------------------
	ref := frameLayout{headerSize: 21, idLo: 0, idHi: 16, typeIdx: 16, lenLo: 17, lenHi: 21, endian: "bigEndian"}
	for _, f := range []*ssa.Function{wf, ww, rd} {
		l := extractFrameLayout(f)
		ok := l.headerSize == ref.headerSize && l.idLo == ref.idLo && l.idHi == ref.idHi && l.typeIdx == ref.typeIdx && l.lenLo == ref.lenLo && l.lenHi == ref.lenHi && l.endian == ref.endian
		r.Ob("R-C10-2", f.Pos(), ok, fmt.Sprintf("%s header layout {size %d, id [%d,%d), type %d, len [%d,%d) %s} (want {21, [0,16), 16, [17,21) bigEndian})", f.Name(), l.headerSize, l.idLo, l.idHi, l.typeIdx, l.lenLo, l.lenHi, l.endian), f.Name(), "header-layout")
	}

	// ---- R-C10-3 segmentation -----------------------------------------------------------
	if w := r.need("R-C10-3", cnPkg, "FrameStream.Write"); w != nil {
		n := 0
		isLenP := func(v ssa.Value) bool {
			v = stripValue(v)
			if lc, ok := v.(*ssa.Call); ok {
				if b, ok := lc.Call.Value.(*ssa.Builtin); ok && b.Name() == "len" && originSummary(lc.Call.Args[0]) == "param:p" {
					return true
				}
			}
			return false
		}
		for _, c := range Calls(w, false, "WriteFrame") {
			if !InLoop(c.Block()) {
				// single-frame path: whole p, under len(p) <= MaxFrameSize
				okSingle := originSummary(Arg(c, 3)) == "param:p"
				capped := false
				for _, ft := range Facts(c.Block()) {
					bo, isB := ft.Cond.(*ssa.BinOp)
					if !isB || !isLenP(bo.X) {
						continue
					}
					k, isC := ConstInt(bo.Y)
					if !isC || k != k1 {
						continue
					}
					if (bo.Op == token.GTR && !ft.Pol) || (bo.Op == token.LEQ && ft.Pol) {
						capped = true
					}
				}
				r.Ob("R-C10-3", CallPos(c), okSingle && capped, "single-frame path writes the whole p and only when len(p) <= MaxFrameSize", "FrameStream.Write", "single-frame")
				continue
			}
			n++
			sl, isSl := Arg(c, 3).(*ssa.Slice)
			good := false
			why := "chunk is not a window p[lo:hi] of the caller's buffer with a loop-carried lo"
			if isSl && originSummary(sl.X) == "param:p" && sl.High != nil {
				if lo, isPhi := sl.Low.(*ssa.Phi); isPhi {
					hi := sl.High
					capOK := windowBounded(lo, hi, k1)
					// lo starts at 0 and advances to exactly hi (the next window starts where this one ended)
					adv, zero := false, false
					for _, e := range lo.Edges {
						if z, isC := ConstInt(e); isC {
							zero = z == 0
							continue
						}
						if e == hi || sameExpr(e, hi) {
							adv = true
							continue
						}
						if a, ok := e.(*ssa.BinOp); ok && a.Op == token.ADD && a.X == ssa.Value(lo) {
							if h, ok := hi.(*ssa.BinOp); ok && h.Op == token.ADD && h.X == ssa.Value(lo) && (a.Y == h.Y || sameExpr(a.Y, h.Y)) {
								adv = true
								continue
							}
						}
						adv = false
						break
					}
					// the loop frames windows until lo reaches len(p) exactly: the guard that admits this
					// frame is `lo < len(p)` on the raw length (a guard on len(p)-1 drops the last byte)
					covers := false
					for _, ft := range Facts(c.Block()) {
						bo, isB := ft.Cond.(*ssa.BinOp)
						if !isB {
							continue
						}
						switch {
						case bo.Op == token.LSS && ft.Pol && bo.X == ssa.Value(lo) && isLenP(bo.Y),
							bo.Op == token.GEQ && !ft.Pol && bo.X == ssa.Value(lo) && isLenP(bo.Y),
							bo.Op == token.GTR && ft.Pol && bo.Y == ssa.Value(lo) && isLenP(bo.X),
							bo.Op == token.NEQ && ft.Pol && bo.X == ssa.Value(lo) && isLenP(bo.Y):
							covers = true
						}
					}
					good = capOK && adv && zero && covers
					switch {
					case !covers:
						why = "the loop is not guarded by lo < len(p) on the whole buffer (the last bytes would never be framed)"
					case !capOK:
						why = "window size hi-lo is not bounded by MaxFrameSize"
					case !zero:
						why = "the first window does not start at 0"
					case !adv:
						why = "the next window does not start where the framed one ended"
					}
					// returns
					for _, ret := range Returns(w) {
						v := RetVal(ret, 0)
						if RetErrKind(ret) == "nil" && CanReachBlock(c.Block(), ret.Block()) && ret.Block() != c.Block() {
							isW := v == ssa.Value(lo) || isLenP(v)
							// only the loop-exit return
							if _, isConst := ConstInt(v); !isConst {
								r.Ob("R-C10-3", ret.Pos(), isW, "success after segmentation returns the bytes framed (== len(p) at loop exit)", "FrameStream.Write", "segmented-return")
							}
						}
						if ErrFailed(ret.Block(), c) {
							r.Ob("R-C10-3", ret.Pos(), v == ssa.Value(lo), "a failed frame write returns the bytes already framed", "FrameStream.Write", "error-return-count")
						}
					}
				}
			}
			r.Ob("R-C10-3", CallPos(c), good, map[bool]string{true: "segmented write frames consecutive windows p[lo:hi] from 0, hi-lo <= MaxFrameSize, next lo = hi", false: why}[good], "FrameStream.Write", "segmentation")
		}
		if n != 1 {
			r.Fail("R-C10-3", w.Pos(), fmt.Sprintf("expected one segmenting loop in FrameStream.Write, found %d", n), "FrameStream.Write", "anchor")
		}
		// ---- R-C10-5 half-close state (Write side) ---------------------------------------
		for _, c := range Calls(w, false, "WriteFrame") {
			ok := false
			for _, ft := range Facts(c.Block()) {
				if _, f, _, isF := FieldOf(ft.Cond); isF && f == "writeEOF" && !ft.Pol {
					ok = true
				}
			}
			r.Ob("R-C10-5", CallPos(c), ok, "no data frame is written after the stream was (half-)closed", "FrameStream.Write", "no-write-after-close")
		}
	}
	for _, name := range []string{"FrameStream.CloseWrite", "FrameStream.Close"} {
		f := r.need("R-C10-5", cnPkg, name)
		if f == nil {
			continue
		}
		wfc := Calls(f, false, "WriteFrame")
		Instrs(f, func(in ssa.Instruction) {
			st, ok := in.(*ssa.Store)
			if !ok {
				return
			}
			if _, fld, _, ok := FieldOf(st.Addr); !ok || fld != "writeEOF" {
				return
			}
			good := len(wfc) == 1 && ErrOK(st.Block(), wfc[0])
			r.Ob("R-C10-5", st.Pos(), good, "the closed flag is set only after the EOF/Close frame was written successfully (otherwise the peer never learns the stream ended while we refuse further writes)", name, "flag-after-frame")
		})
	}
	r.Floor("R-C10-5", 4, "half-close obligations")

	// ---- R-C10-4 delivery filter and remainder bookkeeping --------------------------------
	rf := r.need("R-C10-4", cnPkg, "FrameStream.Read")
	if rf == nil {
		return
	}
	rfc := Calls(rf, false, "ReadFrame", "ReadFrameFromReader")
	if len(rfc) != 1 {
		r.Fail("R-C10-4", rf.Pos(), "expected one frame read in FrameStream.Read", "FrameStream.Read", "anchor")
		return
	}
	frame := rfc[0]
	payload := extractOf(frame, 2)
	ftype := extractOf(frame, 1)
	tid := extractOf(frame, 0)
	// buffered remainder served before the next frame
	servedFirst := false
	for _, b := range rf.Blocks {
		if len(b.Instrs) == 0 || !CanReach(b, frame.Block()) {
			continue
		}
		iff, ok := b.Instrs[len(b.Instrs)-1].(*ssa.If)
		if !ok {
			continue
		}
		bo, ok := iff.Cond.(*ssa.BinOp)
		if !ok || bo.Op != token.LSS {
			continue
		}
		if _, f, _, isF := FieldOf(bo.X); !isF || f != "readOff" {
			continue
		}
		// pending branch: copies readBuf[readOff:] to p and never reaches the frame read
		copies := false
		hits := WalkFrom(b.Succs[0], nil, func(in ssa.Instruction) int {
			if in == frame.(ssa.Instruction) {
				return Hit
			}
			if c, ok := in.(*ssa.Call); ok {
				if isRemainderCopy(c, "param:p") {
					copies = true
				}
				if g := c.Common().StaticCallee(); g != nil && g.Pkg == rf.Pkg {
					if pi := argIndexOf(c, "param:p"); pi >= 0 && isDrainHelper(g, pi) {
						copies = true
					}
				}
			}
			return Cont
		}, nil)
		// every path to the frame read passes this test, except when the buffer is nil
		skipped := WalkFrom(rf.Blocks[0], nil, func(in ssa.Instruction) int {
			if in == ssa.Instruction(iff) {
				return Stop
			}
			if in == frame.(ssa.Instruction) {
				return Hit
			}
			return Cont
		}, pruneNilComponent("readBuf"))
		if copies && len(hits) == 0 && len(skipped) == 0 {
			servedFirst = true
		}
	}
	r.Ob("R-C10-4", CallPos(frame), servedFirst, "a pending remainder readBuf[readOff:] is copied out and returned before any new frame is read (buffered bytes are served first, in order)", "FrameStream.Read", "remainder-first")
	nCopy := 0
	Instrs(rf, func(in ssa.Instruction) {
		c, ok := in.(*ssa.Call)
		if !ok {
			return
		}
		viaDrain := false
		if b, ok := c.Call.Value.(*ssa.Builtin); ok {
			if b.Name() != "copy" || originSummary(c.Call.Args[0]) != "param:p" {
				return
			}
		} else {
			g := c.Common().StaticCallee()
			if g == nil || g.Pkg != rf.Pkg {
				return
			}
			pi := argIndexOf(c, "param:p")
			if pi < 0 || !isDrainHelper(g, pi) {
				return
			}
			viaDrain = true
		}
		if !CanReachBlock(frame.Block(), c.Block()) || !frame.Block().Dominates(c.Block()) {
			return // the buffered-remainder copy before the frame read
		}
		nCopy++
		sameTunnel, isData := false, false
		for _, ft := range Facts(c.Block()) {
			bo, isB := ft.Cond.(*ssa.BinOp)
			if !isB {
				continue
			}
			if (bo.X == tid || bo.Y == tid) && ((bo.Op == token.EQL && ft.Pol) || (bo.Op == token.NEQ && !ft.Pol)) {
				if _, f, _, isF := FieldOf(bo.X); isF && f == "tunnelID" {
					sameTunnel = true
				}
				if _, f, _, isF := FieldOf(bo.Y); isF && f == "tunnelID" {
					sameTunnel = true
				}
			}
			if (bo.X == ftype || bo.Y == ftype) && bo.Op == token.EQL && ft.Pol {
				if k, isC := ConstInt(bo.Y); isC && k == 1 {
					isData = true
				}
			}
		}
		r.Ob("R-C10-4", c.Pos(), sameTunnel && isData, fmt.Sprintf("payload is delivered to the caller only under tunnel-id equality (%v) and frame type == data (%v)", sameTunnel, isData), "FrameStream.Read", "delivery-filter")
		// remainder bookkeeping in this block: (readBuf, readOff) must denote payload[n:]
		var bufVal, offVal ssa.Value
		for _, x := range c.Block().Instrs {
			if st, ok := x.(*ssa.Store); ok {
				if _, f, _, isF := FieldOf(st.Addr); isF {
					if f == "readBuf" {
						bufVal = st.Val
					}
					if f == "readOff" {
						offVal = st.Val
					}
				}
			}
		}
		good := false
		why := "remainder bookkeeping not recognised"
		if viaDrain {
			// (readBuf, readOff) = (payload, 0) is installed in this block before the drain helper
			// copies readBuf[readOff:] out and advances readOff by the copied count
			k, isC := ConstInt(offVal)
			good = bufVal == payload && offVal != nil && isC && k == 0
			why = "the drain helper must be entered with readBuf = payload and readOff = 0"
			for _, x := range c.Block().Instrs {
				if x == ssa.Instruction(c) {
					break
				}
			}
		} else if bufVal != nil && offVal != nil {
			whole := bufVal == payload
			if sl, ok := bufVal.(*ssa.Slice); ok && sl.X == payload {
				if blockLocalValue(sl.Low) == ssa.Value(c) && sl.High == nil {
					// payload[n:] with offset 0
					k, isC := ConstInt(offVal)
					good = isC && k == 0
					why = "readBuf = payload[n:] requires readOff = 0 (the offset would be applied twice and bytes skipped)"
				}
			} else if whole {
				good = blockLocalValue(offVal) == ssa.Value(c)
				why = "readBuf = payload requires readOff = n (the count just copied)"
			}
			// the copy source must be the payload (or the field just assigned from it)
			src := c.Call.Args[1]
			if !(src == payload || strings.Contains(originSummary(src), "FrameStream.readBuf")) {
				good, why = false, "bytes copied to the caller do not come from the frame payload"
			}
		}
		r.Ob("R-C10-4", c.Pos(), good, map[bool]string{true: "(readBuf, readOff) denotes exactly the unread remainder of the payload", false: why}[good], "FrameStream.Read", "remainder-bookkeeping")
	})
	if nCopy != 1 {
		r.Fail("R-C10-4", rf.Pos(), fmt.Sprintf("expected one delivery site of fresh payloads, found %d", nCopy), "FrameStream.Read", "anchor-copy")
	}
	// EOF / Close frames latch readEOF: every return of io.EOF that follows the frame read (the
	// frame said "end of stream") has stored readEOF = true on every path from the frame read
	isEOFVal := func(v ssa.Value) bool {
		u, ok := stripValue(v).(*ssa.UnOp)
		if !ok || u.Op != token.MUL {
			return false
		}
		g, ok := u.X.(*ssa.Global)
		return ok && g.Name() == "EOF" && g.Pkg != nil && g.Pkg.Pkg.Path() == "io"
	}
	nEOF := 0
	for _, ret := range Returns(rf) {
		if len(ret.Results) < 2 || !isEOFVal(RetVal(ret, 1)) || !frame.Block().Dominates(ret.Block()) {
			continue
		}
		nEOF++
		latched := !reachesFromWithout(frame.(ssa.Instruction), ret, func(x ssa.Instruction) bool {
			st, ok := x.(*ssa.Store)
			if !ok {
				return false
			}
			if _, f, _, isF := FieldOf(st.Addr); isF && f == "readEOF" {
				if b, isC := ConstBool(st.Val); isC && b {
					return true
				}
			}
			return false
		})
		r.Ob("R-C10-4", ret.Pos(), latched, "an EOF/Close frame latches end-of-stream (later reads return EOF instead of reading frames of the next tunnel)", "FrameStream.Read", "eof-latched")
	}
	if nEOF == 0 {
		r.Fail("R-C10-4", rf.Pos(), "no end-of-stream return after the frame read found", "FrameStream.Read", "eof-latched")
	}
	// the two directions of the cross-node forward each publish their own completion flag and consult
	// the OTHER direction's: a direction that reads the flag it has just set tears the pair down as soon
	// as it finishes, losing the reply that follows a half-close
	if bf := r.need("R-C10-5", "internal/protocol/session", "runBidirectionalForward"); bf != nil {
		nDir := 0
		for _, g := range WithAnon(bf) {
			if g == bf {
				continue
			}
			stored := map[ssa.Value]bool{}
			var loaded []ssa.CallInstruction
			for _, h := range WithAnon(g) {
				for _, c := range Calls(h, false, "atomic:StoreInt32") {
					stored[flagVar(Arg(c, 0))] = true
				}
				loaded = append(loaded, Calls(h, false, "atomic:LoadInt32")...)
			}
			if len(stored) == 0 || len(loaded) == 0 || g.Parent() != bf {
				continue
			}
			nDir++
			for _, l := range loaded {
				r.Ob("R-C10-5", CallPos(l), !stored[flagVar(Arg(l, 0))], "a forwarding direction decides 'both finished' on the other direction's completion flag, not on the one it sets itself", r.P.FuncName(g), "consults-other-direction")
			}
		}
		if nDir < 1 { // alarm below 40% of the 2 sites confirmed by hand
			r.Fail("R-C10-5", bf.Pos(), fmt.Sprintf("only %d forwarding directions with completion flags found (2 confirmed by hand)", nDir), "runBidirectionalForward", "directions:floor")
		}
	}

	// wrappers between the local connection and the frame stream are transparent
	if nw := checkDelegatingWrappers(r, "R-C10-4", "internal/protocol/session", cnPkg); nw < 1 { // alarm below 40% of the 2 sites confirmed by hand
		r.Fail("R-C10-4", 0, fmt.Sprintf("only %d delegating Read/Write wrappers found on the cross-node path (2 confirmed by hand: CountingReadWriter.Read/Write)", nw), "wrappers", "floor")
	}
	r.Floor("R-C10-4", 4, "delivery obligations")
}

// windowBounded: hi - lo <= k for the window p[lo:hi] framed in a loop. Accepted shapes:
// hi = lo + c with c a constant <= k, or c a value that is on every edge a constant <= k or a
// difference X - lo (the remaining bytes); hi a phi / value whose every edge is lo + const<=k, or
// a value e reached only under the fact lo + const<=k > e (the clamp `if end > total {end = total}`).
func windowBounded(lo *ssa.Phi, hi ssa.Value, k int64) bool {
	chunkOK := func(chunk ssa.Value) bool {
		if c, isC := ConstInt(chunk); isC {
			return c <= k
		}
		if cp, ok := chunk.(*ssa.Phi); ok {
			for _, e := range cp.Edges {
				if c, isC := ConstInt(e); isC {
					if c > k {
						return false
					}
					continue
				}
				if sub, ok := e.(*ssa.BinOp); !ok || sub.Op != token.SUB || sub.Y != ssa.Value(lo) {
					return false
				}
			}
			return true
		}
		return false
	}
	loPlus := func(v ssa.Value) (ssa.Value, bool) {
		if b, ok := v.(*ssa.BinOp); ok && b.Op == token.ADD {
			if b.X == ssa.Value(lo) {
				return b.Y, true
			}
			if b.Y == ssa.Value(lo) {
				return b.X, true
			}
		}
		return nil, false
	}
	if c, ok := loPlus(hi); ok {
		return chunkOK(c)
	}
	hp, ok := hi.(*ssa.Phi)
	if !ok {
		return false
	}
	for i, e := range hp.Edges {
		if c, ok := loPlus(e); ok {
			if !chunkOK(c) {
				return false
			}
			continue
		}
		// clamp edge: reached only when lo + c > e
		pred := hp.Block().Preds[i]
		clamped := false
		for _, ft := range Facts(pred) {
			bo, isB := ft.Cond.(*ssa.BinOp)
			if !isB {
				continue
			}
			var big, small ssa.Value
			switch {
			case bo.Op == token.GTR && ft.Pol, bo.Op == token.LEQ && !ft.Pol:
				big, small = bo.X, bo.Y
			case bo.Op == token.LSS && ft.Pol, bo.Op == token.GEQ && !ft.Pol:
				big, small = bo.Y, bo.X
			default:
				continue
			}
			if c, ok := loPlus(big); ok && chunkOK(c) && (small == e || sameExpr(small, e)) {
				clamped = true
			}
		}
		if !clamped {
			return false
		}
	}
	return true
}

// argIndexOf: index (in Params order of the callee, receiver included) of the argument of c
// whose origin is `origin`; -1 when absent.
func argIndexOf(c ssa.CallInstruction, origin string) int {
	for i, a := range c.Common().Args {
		if originSummary(a) == origin {
			return i
		}
	}
	return -1
}

// isRemainderCopy: copy(<dst with origin dstOrigin or param index>, x.readBuf[x.readOff:]).
func isRemainderCopy(c *ssa.Call, dstOrigin string) bool {
	bi, ok := c.Call.Value.(*ssa.Builtin)
	if !ok || bi.Name() != "copy" || originSummary(c.Call.Args[0]) != dstOrigin {
		return false
	}
	sl, ok := c.Call.Args[1].(*ssa.Slice)
	if !ok || sl.High != nil {
		return false
	}
	if _, f1, _, ok1 := FieldOf(sl.X); !ok1 || f1 != "readBuf" {
		return false
	}
	_, f2, _, ok2 := FieldOf(sl.Low)
	return ok2 && f2 == "readOff"
}

// isDrainHelper: g copies readBuf[readOff:] into its parameter pi, advances readOff by exactly
// the copied count, and returns that count (the serve-the-remainder step factored out).
func isDrainHelper(g *ssa.Function, pi int) bool {
	if pi >= len(g.Params) || len(g.Blocks) == 0 {
		return false
	}
	dst := "param:" + canonParamName(g.Params[pi])
	var cp *ssa.Call
	n := 0
	Instrs(g, func(in ssa.Instruction) {
		if c, ok := in.(*ssa.Call); ok && isRemainderCopy(c, dst) {
			cp = c
			n++
		}
	})
	if n != 1 {
		return false
	}
	// readOff += copied: a store to readOff of load(readOff) + cp that follows the copy
	adv := false
	Instrs(g, func(in ssa.Instruction) {
		st, ok := in.(*ssa.Store)
		if !ok {
			return
		}
		if _, f, _, isF := FieldOf(st.Addr); !isF || f != "readOff" {
			return
		}
		if b, ok := stripValue(st.Val).(*ssa.BinOp); ok && b.Op == token.ADD {
			x, y := stripValue(b.X), stripValue(b.Y)
			_, fx, _, okx := FieldOf(x)
			_, fy, _, oky := FieldOf(y)
			if (okx && fx == "readOff" && y == ssa.Value(cp)) || (oky && fy == "readOff" && x == ssa.Value(cp)) {
				adv = true
			}
		}
	})
	if !adv {
		return false
	}
	// every other store to readOff / readBuf is the reset (0 / nil) under readOff >= len(readBuf)
	okStores := true
	Instrs(g, func(in ssa.Instruction) {
		st, ok := in.(*ssa.Store)
		if !ok {
			return
		}
		_, f, _, isF := FieldOf(st.Addr)
		if !isF || (f != "readOff" && f != "readBuf") {
			return
		}
		if b, ok := stripValue(st.Val).(*ssa.BinOp); ok && b.Op == token.ADD {
			return
		}
		z, isC := ConstInt(st.Val)
		if !(isNil(st.Val) || (isC && z == 0)) {
			okStores = false
			return
		}
		reset := false
		for _, ft := range Facts(st.Block()) {
			if bo, isB := ft.Cond.(*ssa.BinOp); isB && ((bo.Op == token.GEQ && ft.Pol) || (bo.Op == token.LSS && !ft.Pol)) {
				if _, fx, _, okx := FieldOf(bo.X); okx && fx == "readOff" {
					reset = true
				}
			}
		}
		if !reset {
			okStores = false
		}
	})
	if !okStores {
		return false
	}
	for _, ret := range Returns(g) {
		if len(ret.Results) == 0 || stripValue(RetVal(ret, 0)) != ssa.Value(cp) {
			return false
		}
	}
	return true
}

// flagVar identifies the variable an atomic operation addresses: the alloc / captured variable
// behind &x (looking through the closure binding).
func flagVar(v ssa.Value) ssa.Value {
	v = stripValue(v)
	return rootOfCapture(v)
}
