package main

import (
	"fmt"
	"go/token"
	"go/types"

	"golang.org/x/tools/go/ssa"
)

func init() {
	register(&PropCheck{
		ID: "C12",
		Explanation: "Static rules on the client-side relays (internal/utils/iocopy and the sibling length-prefixed record codecs). " +
			"R-C12-1: both copy loops of Bidirectional write exactly buf[:n] of what the same iteration read, write before reading again or leaving, leave on write error / short write / read error; each direction half-closes or closes a connection on every exit; the function closes both connections only after waiting for both directions. " +
			"R-C12-2: in the UDP relay a failed read leaves the loop (an error latched into a variable that is tested before the next read is accepted). " +
			"R-C12-3: every exit of the tunnel->UDP direction closes the UDP connection (unblocking the other direction), and UDP() returns only after waiting for both. " +
			"R-C12-4: every copy of the record codec encodes and decodes the length as 2 bytes big-endian. " +
			"R-C12-5: every ticker/timer created in the relays is stopped. " +
			"R-C12-7: no Write method of the client relay packages retains its argument (sends it on a channel, stores it in a field or heap slot) - the io.Writer contract the relays rely on when they reuse read buffers. " +
			"R-C12-6: every record decoder reads the prefix with a full read and, after decoding a length, consumes exactly that many bytes with a full read (or leaves) before reading the next prefix. " +
			"Decides these necessary conditions; does not decide datagram content equality, order or promptness.",
		Run: runC12,
		Mutants: []Mutant{
			{Name: "timed-flush-outside-lock", File: "internal/utils/iocopy/copy.go", Rule: "R-C12-4",
				Old: "\t\t\t\t\tbatchMu.Lock()\n\t\t\t\t\tflushLocked()\n\t\t\t\t\tbatchMu.Unlock()\n", New: "\t\t\t\t\tflushLocked()\n"},
			{Name: "bidir-write-whole-buffer", File: "internal/utils/iocopy/copy.go", Rule: "R-C12-1",
				Old: "nw, writeErr := connA.Write(buf[:nr])", New: "nw, writeErr := connA.Write(buf[:len(buf)])"},
			{Name: "bidir-short-write-continues", File: "internal/utils/iocopy/copy.go", Rule: "R-C12-1",
				Old: "\t\t\t\t\tcorelog.Errorf(\"%s: A→B short write: read=%d, wrote=%d\", logPrefix, nr, nw)\n\t\t\t\t\tresult.SendError = io.ErrShortWrite\n\t\t\t\t\tbreak",
				New: "\t\t\t\t\tcorelog.Errorf(\"%s: A→B short write: read=%d, wrote=%d\", logPrefix, nr, nw)\n\t\t\t\t\tresult.SendError = io.ErrShortWrite\n\t\t\t\t\tcontinue"},
			{Name: "bidir-no-half-close", File: "internal/utils/iocopy/copy.go", Rule: "R-C12-1",
				Old: "\t\tcorelog.Debugf(\"%s: B→A attempting half-close on connA\", logPrefix)\n\t\ttryCloseWrite(connA)\n", New: "\t\tcorelog.Debugf(\"%s: B→A attempting half-close on connA\", logPrefix)\n"},
			{Name: "udp-error-does-not-exit", File: "internal/utils/iocopy/copy.go", Rule: "R-C12-2",
				Old: "\t\t\tif readErr != nil {\n\t\t\t\tif flushErr := flush(); flushErr != nil && result.ReceiveError == nil {\n\t\t\t\t\tresult.ReceiveError = flushErr\n\t\t\t\t}\n\t\t\t\tbreak\n\t\t\t}",
				New: "\t\t\tif readErr != nil && buffered == 0 {\n\t\t\t\tif flushErr := flush(); flushErr != nil && result.ReceiveError == nil {\n\t\t\t\t\tresult.ReceiveError = flushErr\n\t\t\t\t}\n\t\t\t\tbreak\n\t\t\t}"},
			{Name: "udp-exit-does-not-unblock-peer", File: "internal/utils/iocopy/copy.go", Rule: "R-C12-3",
				Old: "\t\tdefer closeUDP()\n", New: ""},
			{Name: "udp-encoder-little-endian", File: "internal/utils/iocopy/copy.go", Rule: "R-C12-4",
				Old: "batchBuf[batchPos] = byte(n >> 8)\n\t\t\tbatchBuf[batchPos+1] = byte(n)", New: "batchBuf[batchPos] = byte(n)\n\t\t\tbatchBuf[batchPos+1] = byte(n >> 8)"},
			{Name: "dns-short-record-not-consumed", File: "internal/client/target_handler.go", Rule: "R-C12-6",
				Old: "\t\t\tif _, err := io.ReadFull(tunnelReader, buf[:packetLen]); err != nil {\n\t\t\t\treturn\n\t\t\t}\n\t\t\tcontinue", New: "\t\t\tcontinue"},
		},
	})
}

// readsInLoops lists Read-method calls inside loops in f and its closures.
func readsInLoops(f *ssa.Function) []ssa.CallInstruction {
	var out []ssa.CallInstruction
	for _, g := range WithAnon(f) {
		for _, ci := range Calls(g, false, "Read") {
			if isReadMethod(ci) && InLoop(ci.Block()) {
				out = append(out, ci)
			}
		}
	}
	return out
}

// resolveClosure finds the function literal a called value denotes
// (MakeClosure directly, or a local / captured variable assigned one).
func resolveClosure(v ssa.Value, user *ssa.Function, depth int) *ssa.Function {
	if depth > 4 || v == nil {
		return nil
	}
	switch x := v.(type) {
	case *ssa.MakeClosure:
		f, _ := x.Fn.(*ssa.Function)
		return f
	case *ssa.Function:
		return x
	case *ssa.UnOp:
		if x.Op != token.MUL {
			return nil
		}
		switch a := x.X.(type) {
		case *ssa.Alloc:
			for _, st := range storesTo(a) {
				if f := resolveClosure(st.Val, user, depth+1); f != nil {
					return f
				}
			}
		case *ssa.FreeVar:
			// binding in the parent's MakeClosure of `user`
			par := user.Parent()
			if par == nil {
				return nil
			}
			idx := -1
			for i, fv := range user.FreeVars {
				if fv == a {
					idx = i
				}
			}
			for _, in := range closureSites(user) {
				mc := in.(*ssa.MakeClosure)
				if idx >= 0 && idx < len(mc.Bindings) {
					b := mc.Bindings[idx]
					if al, ok := b.(*ssa.Alloc); ok {
						for _, st := range storesTo(al) {
							if f := resolveClosure(st.Val, par, depth+1); f != nil {
								return f
							}
						}
					}
					if fv2, ok := b.(*ssa.FreeVar); ok {
						// captured through several levels
						fake := &ssa.UnOp{Op: token.MUL, X: fv2}
						if f := resolveClosure(fake, par, depth+1); f != nil {
							return f
						}
					}
				}
			}
		}
	}
	return nil
}

// closesConn: does executing this call/defer close (or half-close) a
// connection-like free variable/parameter? names restricts which; empty = any.
func closesConn(in ssa.Instruction, names map[string]bool, depth int) bool {
	ci, ok := in.(ssa.CallInstruction)
	if !ok || depth > 4 {
		return false
	}
	if _, isGo := in.(*ssa.Go); isGo {
		return false
	}
	c := CalleeOf(ci)
	matchName := func(v ssa.Value) bool {
		for _, rt := range Origins(v) {
			if (rt.Kind == "param" || rt.Kind == "freevar") && (len(names) == 0 || names[rt.Desc]) {
				return true
			}
		}
		return false
	}
	switch {
	case c.Name == "Close" || c.Name == "CloseWrite":
		if rv := Recv(ci); rv != nil && matchName(rv) {
			return true
		}
	case c.Is("iocopy:tryCloseWrite"):
		return matchName(Arg(ci, 0))
	case c.Is("sync:Once.Do"):
		if f := resolveClosure(Arg(ci, 0), in.Parent(), 0); f != nil {
			return funcClosesConn(f, names, depth+1)
		}
	}
	if c.Name == "$closure" && c.Fn != nil {
		return funcClosesConn(c.Fn, names, depth+1)
	}
	if c.Name == "" { // dynamic call of a function value
		if f := resolveClosure(ci.Common().Value, in.Parent(), 0); f != nil {
			return funcClosesConn(f, names, depth+1)
		}
	}
	return false
}

func funcClosesConn(f *ssa.Function, names map[string]bool, depth int) bool {
	found := false
	Instrs(f, func(in ssa.Instruction) {
		if closesConn(in, names, depth) {
			found = true
		}
	})
	return found
}

// exitsPass: every Return of f passes (on every path from entry) an
// instruction satisfying via; a Defer satisfying via counts when passed.
func exitsPass(f *ssa.Function, via func(ssa.Instruction) bool) (bool, *ssa.Return) {
	for _, ret := range Returns(f) {
		if ReachesWithout(f, ret, via) {
			return false, ret
		}
	}
	return true, nil
}

// be16 codec patterns -------------------------------------------------------

type be16Site struct {
	pos   token.Pos
	order string // "BE" | "LE"
}

func byteOf(v ssa.Value) (x ssa.Value, shift int64, ok bool) {
	v = stripValue(v)
	if b, isB := v.(*ssa.BinOp); isB {
		switch b.Op {
		case token.SHR:
			if k, ok := ConstInt(b.Y); ok {
				return stripValue(b.X), k, true
			}
		case token.AND:
			if k, ok := ConstInt(b.Y); ok && k == 0xFF {
				return stripValue(b.X), 0, true
			}
		}
	}
	return v, 0, true
}

func idxPlus(a, b ssa.Value) (delta int64, ok bool) { // b == a + delta ?
	ka, okA := ConstInt(a)
	kb, okB := ConstInt(b)
	if okA && okB {
		return kb - ka, true
	}
	if bo, isB := b.(*ssa.BinOp); isB && bo.Op == token.ADD {
		if k, ok := ConstInt(bo.Y); ok && (bo.X == a || sameExpr(bo.X, a)) {
			return k, true
		}
	}
	if bo, isB := a.(*ssa.BinOp); isB && bo.Op == token.ADD {
		if k, ok := ConstInt(bo.Y); ok && (bo.X == b || sameExpr(bo.X, b)) {
			return -k, true
		}
	}
	return 0, false
}

// encoders16 finds 2-byte length encodes: buf[i]=byte(x>>8); buf[i+1]=byte(x).
func encoders16(f *ssa.Function) []be16Site {
	type st struct {
		x     ssa.Value
		shift int64
		idx   ssa.Value
		base  ssa.Value
		pos   token.Pos
	}
	var stores []st
	for _, g := range WithAnon(f) {
		Instrs(g, func(in ssa.Instruction) {
			s, ok := in.(*ssa.Store)
			if !ok {
				return
			}
			ia, ok := s.Addr.(*ssa.IndexAddr)
			if !ok {
				return
			}
			if b, ok := s.Val.Type().Underlying().(*types.Basic); !ok || b.Kind() != types.Uint8 {
				return
			}
			x, sh, _ := byteOf(s.Val)
			if _, isC := x.(*ssa.Const); isC {
				return
			}
			stores = append(stores, st{x, sh, ia.Index, ia.X, s.Pos()})
		})
	}
	var out []be16Site
	// the library's codec: binary.BigEndian.PutUint16 / binary.LittleEndian.PutUint16
	for _, g := range WithAnon(f) {
		for _, c := range Calls(g, false, "PutUint16") {
			switch CalleeOf(c).Recv {
			case "bigEndian":
				out = append(out, be16Site{CallPos(c), "BE"})
			case "littleEndian":
				out = append(out, be16Site{CallPos(c), "LE"})
			}
		}
	}
	for _, hi := range stores {
		if hi.shift != 8 {
			continue
		}
		for _, lo := range stores {
			if lo.shift != 0 || !(lo.x == hi.x || sameExpr(lo.x, hi.x)) {
				continue
			}
			if d, ok := idxPlus(hi.idx, lo.idx); ok {
				switch d {
				case 1:
					out = append(out, be16Site{hi.pos, "BE"})
				case -1:
					out = append(out, be16Site{hi.pos, "LE"})
				}
			}
		}
	}
	return out
}

// decoders16 finds int(b[i])<<8 | int(b[i+1]) and returns the OR values.
func decoders16(f *ssa.Function) (sites []be16Site, vals []ssa.Value) {
	loadIdx := func(v ssa.Value) (ssa.Value, bool) {
		v = stripValue(v)
		u, ok := v.(*ssa.UnOp)
		if !ok || u.Op != token.MUL {
			return nil, false
		}
		ia, ok := u.X.(*ssa.IndexAddr)
		if !ok {
			return nil, false
		}
		return ia.Index, true
	}
	for _, g := range WithAnon(f) {
		for _, c := range Calls(g, false, "Uint16") {
			cv, isV := c.(*ssa.Call)
			if !isV {
				continue
			}
			var val ssa.Value = cv
			// the decoded length is usually converted: int(binary.BigEndian.Uint16(...))
			if cv.Referrers() != nil {
				for _, ref := range *cv.Referrers() {
					if cvt, ok := ref.(*ssa.Convert); ok {
						val = cvt
					}
				}
			}
			switch CalleeOf(c).Recv {
			case "bigEndian":
				sites = append(sites, be16Site{CallPos(c), "BE"})
				vals = append(vals, val)
			case "littleEndian":
				sites = append(sites, be16Site{CallPos(c), "LE"})
				vals = append(vals, val)
			}
		}
		Instrs(g, func(in ssa.Instruction) {
			or, ok := in.(*ssa.BinOp)
			if !ok || (or.Op != token.OR && or.Op != token.ADD) {
				return
			}
			try := func(a, b ssa.Value) bool {
				sh, ok := a.(*ssa.BinOp)
				if !ok || sh.Op != token.SHL {
					return false
				}
				if k, ok := ConstInt(sh.Y); !ok || k != 8 {
					return false
				}
				hi, ok1 := loadIdx(sh.X)
				lo, ok2 := loadIdx(b)
				if !ok1 || !ok2 {
					return false
				}
				if d, ok := idxPlus(hi, lo); ok {
					switch d {
					case 1:
						sites = append(sites, be16Site{or.Pos(), "BE"})
						vals = append(vals, or)
						return true
					case -1:
						sites = append(sites, be16Site{or.Pos(), "LE"})
						vals = append(vals, or)
						return true
					}
				}
				return false
			}
			if !try(or.X, or.Y) {
				try(or.Y, or.X)
			}
		})
	}
	return
}

func runC12(r *Report) {
	// each direction half-closes the end it WRITES to when its source is exhausted (the peer of that end
	// then sees EOF while the reverse direction keeps flowing); half-closing the end it reads from cuts
	// the wrong way
	if bd := r.P.Fn("internal/utils/iocopy", "Bidirectional"); bd != nil {
		nHC := 0
		var rootVarD func(v ssa.Value, d int) string
		rootVarD = func(v ssa.Value, d int) string {
			for _, rt := range Origins(v) {
				if rt.Kind == "freevar" || rt.Kind == "param" {
					return rt.Desc
				}
				// a wrapper built around the connection (transformer.WrapWriter(ctx, conn)): the connection is
				// among the wrapper constructor's arguments
				c, ok := rt.V.(*ssa.Call)
				if ex, isEx := rt.V.(*ssa.Extract); isEx {
					c, ok = ex.Tuple.(*ssa.Call)
				}
				if ok && d < 2 {
					for _, a := range c.Call.Args {
						if _, isConn := a.Type().Underlying().(*types.Interface); !isConn {
							continue
						}
						if a.Type().String() == "context.Context" {
							continue
						}
						if s := rootVarD(a, d+1); s != "" {
							return s
						}
					}
				}
			}
			return ""
		}
		rootVar := func(v ssa.Value) string { return rootVarD(v, 0) }
		for _, g := range WithAnon(bd) {
			if g.Parent() != bd {
				continue
			}
			var dst string
			for _, h := range WithAnon(g) {
				for _, w := range Calls(h, false, "Write") {
					if isWriteMethod(w) && dst == "" {
						dst = rootVar(Recv(w))
					}
				}
			}
			for _, hc := range Calls(g, false, "tryCloseWrite") {
				nHC++
				tgt := rootVar(Arg(hc, 0))
				r.Ob("R-C12-1", CallPos(hc), dst != "" && tgt == dst, fmt.Sprintf("the direction that writes to %s half-closes %s when it finishes (want the same end)", dst, tgt), r.P.FuncName(g), "half-close-is-destination")
			}
		}
		if nHC < 1 { // alarm below 40% of the 2 sites confirmed by hand
			r.Fail("R-C12-1", bd.Pos(), fmt.Sprintf("only %d half-close calls found in the copy directions of Bidirectional (2 confirmed by hand)", nHC), "Bidirectional", "half-close-is-destination:floor")
		}
	}
	// the datagram batch refuses a datagram only when it is really full: the caller does not look at
	// add's verdict, so an early refusal silently drops a datagram
	if ad := r.P.Fn("internal/utils/iocopy", "udpBatchWriter.add"); ad != nil {
		for _, ret := range Returns(ad) {
			if v, isC := ConstBool(RetVal(ret, 0)); !isC || v {
				continue
			}
			full := false
			for _, ft := range Facts(ret.Block()) {
				bo, ok := ft.Cond.(*ssa.BinOp)
				if !ok || !((bo.Op == token.GEQ && ft.Pol) || (bo.Op == token.LSS && !ft.Pol) || (bo.Op == token.EQL && ft.Pol)) {
					continue
				}
				_, fx, _, okx := FieldOf(bo.X)
				if lc, isL := stripValue(bo.Y).(*ssa.Call); okx && fx == "count" && isL {
					if b, isB := lc.Call.Value.(*ssa.Builtin); isB && b.Name() == "len" {
						if _, fy, _, oky := FieldOf(lc.Call.Args[0]); oky && fy == "messages" {
							full = true
						}
					}
				}
			}
			r.Ob("R-C12-4", ret.Pos(), full, "the batch refuses a datagram only under count >= len(messages) (its true capacity)", "udpBatchWriter.add", "refuses-only-when-full")
		}
	}
	// a half-close never closes: tryCloseWrite and every callback installed as the half-close of a
	// tunnel end (4th argument of NewReadWriteCloserWithCloseWrite, stores into closeWriteFunc) call
	// CloseWrite only. A fallback to Close() kills the reply direction of a request/response exchange
	// on transports without half-close.
	nHalf := 0
	halfClose := func(g *ssa.Function, where string, pos token.Pos) {
		if g == nil {
			return
		}
		nHalf++
		bad := token.NoPos
		for _, h := range WithAnon(g) {
			Instrs(h, func(in ssa.Instruction) {
				ci, ok := in.(ssa.CallInstruction)
				if !ok {
					return
				}
				c := CalleeOf(ci)
				if c.Name == "Close" && ci.Common().Signature().Params().Len() == 0 {
					bad = in.Pos()
				}
			})
		}
		p := pos
		if bad != token.NoPos {
			p = bad
		}
		r.Ob("R-C12-1", p, bad == token.NoPos, "the half-close path ("+where+") only half-closes: it never calls Close() (the opposite direction must keep flowing)", where, "half-close-never-closes")
	}
	if tcw := r.P.Fn("internal/utils/iocopy", "tryCloseWrite"); tcw != nil {
		halfClose(tcw, "tryCloseWrite", tcw.Pos())
	}
	for _, f := range r.P.Funcs {
		Instrs(f, func(in ssa.Instruction) {
			switch x := in.(type) {
			case ssa.CallInstruction:
				if CalleeOf(x).Is("iocopy:NewReadWriteCloserWithCloseWrite") && len(x.Common().Args) >= 4 {
					if k, isC := x.Common().Args[3].(*ssa.Const); isC && k.IsNil() {
						return
					}
					if f.Name() == "NewReadWriteCloser" {
						return
					}
					halfClose(resolveClosure(x.Common().Args[3], f, 0), r.P.FuncName(f)+":closeWriteFunc", in.Pos())
				}
			case *ssa.Store:
				if _, fld, _, ok := FieldOf(x.Addr); ok && fld == "closeWriteFunc" && f.Name() != "NewReadWriteCloserWithCloseWrite" {
					halfClose(resolveClosure(x.Val, f, 0), r.P.FuncName(f)+":closeWriteFunc", in.Pos())
				}
			}
		})
	}
	r.Note("R-C12-1: %d half-close path(s) examined (tryCloseWrite + installed closeWriteFunc callbacks)", nHalf)
	// delegating Read/Write wrappers on the client data path are transparent (R-C12-1)
	for _, pk := range []string{"internal/utils/iocopy", "internal/client/mapping"} {
		for _, f := range r.P.FuncsIn(pk) {
			checkSyncPoolOwnership(r, "R-C12-1", f)
		}
	}
	checkDelegatingWrappers(r, "R-C12-1", "internal/utils/iocopy", "internal/client", "internal/client/mapping", "internal/client/transport", "internal/client/tunnel", "internal/client/socks5", "internal/stream")
	const pkg = "internal/utils/iocopy"
	bidi := r.need("R-C12-1", pkg, "Bidirectional")
	udp := r.need("R-C12-2", pkg, "UDP")
	if bidi == nil || udp == nil {
		return
	}
	// ---- R-C12-4 the batch is written to the tunnel under the batch lock ---------------------------
	// datagrams are appended to the batch and the batch is flushed under one mutex; a flush that writes
	// after releasing it lets a later flush overtake it (records reordered) or overlap it (records torn)
	{
		anyLock := func(g *ssa.Function, in ssa.Instruction) bool {
			for _, m := range lockSetsOf(g).HeldAll(in) {
				if m == "W" {
					return true
				}
			}
			return false
		}
		nW := 0
		for _, g := range WithAnon(udp) {
			for _, w := range Calls(g, false, "Write") {
				if !isWriteMethod(w) || originSummary(Recv(w)) != "freevar:tunnelConn" {
					continue
				}
				// only the batching direction has a mutex at all: skip writers whose unit takes no lock
				unitLocks := false
				for _, u := range WithAnon(Outermost(g)) {
					if u == g || u.Parent() == g.Parent() || u.Parent() == g {
						Instrs(u, func(x ssa.Instruction) {
							if ci, ok := x.(ssa.CallInstruction); ok {
								if _, op, ok := lockOp(ci); ok && op == "Lock" {
									unitLocks = true
								}
							}
						})
					}
				}
				if !unitLocks {
					continue
				}
				nW++
				held := anyLock(g, w.(ssa.Instruction))
				if !held {
					// a flush closure: every call of it is made with the lock held
					sites, all := 0, true
					for _, u := range WithAnon(udp) {
						Instrs(u, func(x ssa.Instruction) {
							c, ok := x.(*ssa.Call)
							if !ok || c.Common().IsInvoke() || c.Common().StaticCallee() != nil {
								return
							}
							if resolveClosure(c.Call.Value, u, 0) != g {
								return
							}
							sites++
							if !anyLock(u, c) {
								all = false
							}
						})
					}
					held = sites > 0 && all
				}
				r.Ob("R-C12-4", CallPos(w), held, "the batch is written to the tunnel while the batch mutex is held (by the writer itself or by every caller of the flush closure)", r.P.FuncName(g), "flush-under-batch-lock")
			}
		}
		if nW == 0 {
			r.Fail("R-C12-4", udp.Pos(), "no batched tunnel write found in UDP (1 confirmed by hand, in the flush closure)", "UDP", "flush-under-batch-lock:anchor")
		}
	}
	// ---- R-C12-1 Bidirectional ---------------------------------------------
	n := 0
	for _, rd := range readsInLoops(bidi) {
		n++
		CheckCopyLoop(r, "R-C12-1", rd.Parent(), rd, true)
		// the direction goroutine closes / half-closes a connection on every exit
		g := rd.Parent()
		ok, ret := exitsPass(g, func(in ssa.Instruction) bool { return closesConn(in, nil, 0) })
		pos := CallPos(rd)
		if ret != nil {
			pos = ret.Pos()
		}
		r.Ob("R-C12-1", pos, ok, "every exit of a copy direction must close or half-close a connection so that the other direction (and the peer) observes the end", r.P.FuncName(g), "direction-exit-signals")
	}
	if n != 2 {
		r.Fail("R-C12-1", bidi.Pos(), fmt.Sprintf("expected 2 copy loops in Bidirectional, found %d", n), "Bidirectional", "anchor")
	}
	checkWaitThenClose(r, "R-C12-1", bidi, []string{"connA", "connB"})

	// ---- R-C12-2 read errors end the UDP loops ------------------------------
	var tunnelReader *ssa.Function
	for _, rd := range readsInLoops(udp) {
		ok, why := readErrorLeavesLoopIdiom(rd)
		src := originSummary(Recv(rd))
		r.Ob("R-C12-2", CallPos(rd), ok, "a failed read must end the relay direction ("+why+")", r.P.FuncName(rd.Parent()), "read-error-exits:"+src)
		if src == "freevar:tunnelConn" {
			tunnelReader = rd.Parent()
		}
	}
	r.Floor("R-C12-2", 2, "read loops of the UDP relay")
	// progress of the batching reader: the tunnel read is skipped only while at least one complete
	// record is certainly buffered. With `if buffered < K { read }` that means K >= 2 + the largest
	// record the parser accepts (an incomplete record of that size must trigger a read, otherwise the
	// loop spins without reading and without seeing EOF) and K <= len(buffer) (the read has room).
	for _, rd := range readsInLoops(udp) {
		if originSummary(Recv(rd)) != "freevar:tunnelConn" {
			continue
		}
		g := rd.Parent()
		var K int64 = -1
		for _, ft := range Facts(rd.Block()) {
			bo, ok := ft.Cond.(*ssa.BinOp)
			if !ok {
				continue
			}
			if k, isC := ConstInt(bo.Y); isC && ((bo.Op == token.LSS && ft.Pol) || (bo.Op == token.GEQ && !ft.Pol)) {
				if _, isPhi := stripValue(bo.X).(*ssa.Phi); isPhi {
					K = k
				}
			}
		}
		if K < 0 {
			// a refill guard whose threshold is not a constant cannot be compared with the largest record
			nonConst := false
			for _, ft := range Facts(rd.Block()) {
				if bo, ok := ft.Cond.(*ssa.BinOp); ok && ((bo.Op == token.LSS && ft.Pol) || (bo.Op == token.GEQ && !ft.Pol)) {
					if _, isPhi := stripValue(bo.X).(*ssa.Phi); isPhi {
						if _, isC := ConstInt(bo.Y); !isC {
							nonConst = true
						}
					}
				}
			}
			if nonConst {
				r.Fail("R-C12-2", CallPos(rd), "the batching reader refills below a threshold that is not a constant: it cannot be shown to cover the largest record (an incomplete record larger than the threshold is never completed and the loop spins)", r.P.FuncName(g), "refill-covers-largest-record")
			}
			continue // unconditional read: always progresses
		}
		var maxRec int64 = -1
		Instrs(g, func(in ssa.Instruction) {
			bo, ok := in.(*ssa.BinOp)
			if !ok || bo.Op != token.GTR || bo.Referrers() == nil {
				return
			}
			k, isC := ConstInt(bo.Y)
			if !isC || k < 255 || k > 1<<20 {
				return
			}
			// the decoded record length compared with its maximum
			if _, vals := decoders16(g); len(vals) > 0 {
				for _, v := range vals {
					if stripValue(bo.X) == stripValue(v) {
						maxRec = k
					}
				}
			}
		})
		_, bl := bufLen(bufArg(rd))
		if sl, ok := bufArg(rd).(*ssa.Slice); ok {
			_, bl = bufLen(sl.X)
		}
		ok := maxRec > 0 && K >= maxRec+2 && (bl < 0 || K <= bl)
		r.Ob("R-C12-2", CallPos(rd), ok, fmt.Sprintf("the batching reader refills below %d buffered bytes; largest record accepted %d (+2 prefix); buffer %d: an incomplete record always leads to a read", K, maxRec, bl), r.P.FuncName(g), "refill-covers-largest-record")
	}

	// ---- R-C12-3 exit of the tunnel direction unblocks the UDP reader ---------
	if tunnelReader == nil {
		r.Fail("R-C12-3", udp.Pos(), "tunnel->UDP direction (a closure reading tunnelConn) not found", "UDP", "anchor")
	} else {
		ok, ret := exitsPass(tunnelReader, func(in ssa.Instruction) bool { return closesConn(in, map[string]bool{"udpConn": true}, 0) })
		pos := tunnelReader.Pos()
		if ret != nil {
			pos = ret.Pos()
		}
		r.Ob("R-C12-3", pos, ok, "every exit of the tunnel->UDP direction must close udpConn: otherwise the UDP->tunnel goroutine stays blocked in udpConn.Read and UDP() never returns after the tunnel ends", r.P.FuncName(tunnelReader), "exit-closes-udpConn")
	}
	checkWaitThenClose(r, "R-C12-3", udp, []string{"udpConn", "tunnelConn"})

	// ---- R-C12-4 codec agreement ---------------------------------------------
	type codec struct {
		pkg, fn  string
		enc, dec bool
	}
	codecs := []codec{
		{pkg, "UDP", true, true},
		{"internal/client", "udpTunnelConn.SendPacket", true, false},
		{"internal/client", "udpTunnelConn.ReceivePacket", false, true},
		{"internal/client", "TunnoxClient.handleLocalDNSProxy", true, true},
	}
	for _, c := range codecs {
		f := r.need("R-C12-4", c.pkg, c.fn)
		if f == nil {
			continue
		}
		if c.enc {
			es := encoders16(f)
			if len(es) == 0 {
				// the prefix encode may live in a helper (putRecord(dst, payload)-style split)
				for _, g := range samePkgReach(f, 2) {
					if g != f && g.Parent() == nil {
						es = append(es, encoders16(g)...)
					}
				}
			}
			if len(es) == 0 {
				r.Fail("R-C12-4", f.Pos(), "no 2-byte length-prefix encode (buf[i]=byte(n>>8); buf[i+1]=byte(n)) found: width or shape of the record prefix changed", c.fn, "encode16")
			}
			for _, e := range es {
				r.Ob("R-C12-4", e.pos, e.order == "BE", "length prefix encoded "+e.order+" (all decoders read big-endian)", c.fn, "encode16")
			}
		}
		if c.dec {
			ds, vals := decoders16(f)
			if len(ds) == 0 {
				for _, g := range samePkgReach(f, 2) {
					if g != f && g.Parent() == nil {
						d2, v2 := decoders16(g)
						ds, vals = append(ds, d2...), append(vals, v2...)
					}
				}
			}
			// only decodes that feed a length (used in a comparison or slice bound) matter; DNS parsing helpers are other functions
			if len(ds) == 0 {
				r.Fail("R-C12-4", f.Pos(), "no 2-byte length-prefix decode (int(b[i])<<8 | int(b[i+1])) found", c.fn, "decode16")
			}
			for i, d := range ds {
				r.Ob("R-C12-4", d.pos, d.order == "BE", "length prefix decoded "+d.order+" (all encoders write big-endian)", c.fn, "decode16")
				_ = vals[i]
			}
		}
	}

	// ---- R-C12-5 timers -----------------------------------------------------
	for _, f := range []*ssa.Function{bidi, udp} {
		for _, g := range WithAnon(f) {
			for _, tc := range Calls(g, false, "time:NewTicker", "time:NewTimer") {
				tv := tc.(ssa.Value)
				stopped := false
				Instrs(g, func(in ssa.Instruction) {
					if d, ok := in.(*ssa.Defer); ok && CalleeOf(d).Is("Ticker.Stop", "Timer.Stop") && (Recv(d) == tv || loadOfCellHolding(Recv(d), tv)) {
						stopped = true
					}
				})
				r.Ob("R-C12-5", CallPos(tc), stopped, "ticker/timer created in a relay goroutine must be stopped on exit (defer Stop)", r.P.FuncName(g), "timer-stopped")
			}
		}
	}
	r.Floor("R-C12-5", 2, "tickers/timers in the UDP relay")
	// the flush goroutine selects on a done channel that the parent closes on every exit
	checkDoneClosed(r, udp)

	// ---- R-C12-7 writers do not retain the caller's buffer -------------------------------
	// iocopy.UDP hands out slices of reusable read buffers; a Write that queues or stores
	// its argument (instead of copying it) lets the next read overwrite a pending datagram.
	nW := 0
	for _, pk := range []string{"internal/client/mapping", "internal/client/socks5", "internal/client", "internal/client/tunnel", pkg, "internal/client/transport"} {
		for _, f := range r.P.FuncsIn(pk) {
			if f.Name() != "Write" || f.Signature.Recv() == nil || f.Signature.Params().Len() != 1 || f.Signature.Results().Len() != 2 {
				continue
			}
			if sl, ok := f.Signature.Params().At(0).Type().Underlying().(*types.Slice); !ok || (sl.Elem().String() != "byte" && sl.Elem().String() != "uint8") {
				continue
			}
			nW++
			p := f.Params[1]
			how := retains(p, 0, map[ssa.Value]bool{})
			r.Ob("R-C12-7", f.Pos(), how == "", "Write must not retain its argument after returning (io.Writer contract; callers reuse the buffer)"+map[bool]string{true: "", false: ": " + how}[how == ""], r.P.FuncName(f), "writer-does-not-retain")
		}
	}
	if nW < 1 { // alarm below 40% of the 4 sites confirmed by hand
		r.Fail("R-C12-7", 0, fmt.Sprintf("only %d Write methods found in the client relay packages (4 confirmed by hand)", nW), "client", "floor")
	}

	// ---- R-C12-2 a half-close never performs a full close --------------------------------
	// every implementation of CloseWrite() error in the module: it may signal end-of-data (CloseWrite of
	// the wrapped end, an EOF frame) but must not call Close on anything - the reverse direction is
	// still flowing through the same connection
	nHalf = 0
	for _, f := range r.P.Funcs {
		if f.Name() != "CloseWrite" || f.Signature.Recv() == nil || f.Signature.Params().Len() != 0 || f.Signature.Results().Len() != 1 || len(f.Blocks) == 0 {
			continue
		}
		if f.Pkg == nil || len(f.Pkg.Pkg.Path()) < len(Module) || f.Pkg.Pkg.Path()[:len(Module)] != Module {
			continue
		}
		nHalf++
		bad := token.NoPos
		for _, u := range WithAnon(f) {
			Instrs(u, func(in ssa.Instruction) {
				ci, ok := in.(ssa.CallInstruction)
				if !ok {
					return
				}
				name := ""
				if ci.Common().IsInvoke() {
					name = ci.Common().Method.Name()
				} else {
					name = CalleeOf(ci).Name
				}
				if name == "Close" {
					bad = in.Pos()
				}
			})
		}
		r.Ob("R-C12-2", map[bool]token.Pos{true: f.Pos(), false: bad}[bad == token.NoPos], bad == token.NoPos, "a half-close (CloseWrite) signals end-of-data on the write side only and never calls Close: the reply still has to come back through the same connection", r.P.FuncName(f), "half-close-not-full-close")
	}
	if nHalf < 1 {
		r.Fail("R-C12-2", 0, "no CloseWrite implementation found in the module (2 confirmed by hand)", "module", "half-close-not-full-close:floor")
	}

	// ---- R-C12-6 sibling record decoders stay aligned ---------------------------
	for _, c := range []codec{{"internal/client", "udpTunnelConn.ReceivePacket", false, true}, {"internal/client", "TunnoxClient.handleLocalDNSProxy", false, true}} {
		f := r.P.Fn(c.pkg, c.fn)
		if f == nil {
			continue
		}
		checkRecordDecoder(r, f, c.fn)
	}
	r.Floor("R-C12-6", 4, "record decoders (prefix read + body read each)")
}

// checkWaitThenClose: the named connections are closed after wg.Wait() on every path to return.
func checkWaitThenClose(r *Report, rule string, f *ssa.Function, conns []string) {
	waits := Calls(f, false, "sync:WaitGroup.Wait")
	if len(waits) != 1 {
		r.Fail(rule, f.Pos(), fmt.Sprintf("expected one wg.Wait() in %s, found %d", f.Name(), len(waits)), f.Name(), "wait-both")
		return
	}
	w := waits[0].(ssa.Instruction)
	for _, ret := range Returns(f) {
		ok := !ReachesWithout(f, ret, func(in ssa.Instruction) bool { return in == w })
		r.Ob(rule, ret.Pos(), ok, "the relay returns only after waiting for both directions", f.Name(), "wait-both")
		for _, c := range conns {
			closed := false
			hits := WalkFrom(nil, w, func(in ssa.Instruction) int {
				if in == ssa.Instruction(ret) {
					return Hit
				}
				if closesConn(in, map[string]bool{c: true}, 0) {
					return Stop
				}
				return Cont
			}, nil)
			closed = len(hits) == 0
			r.Ob(rule, ret.Pos(), closed, "connection "+c+" is closed after both directions finished, on every path to return", f.Name(), "closed-after-wait:"+c)
		}
	}
}

// checkDoneClosed: a goroutine that loops on `select { case <-done: return ...}`
// must have `done` closed on every exit of the function that spawned it.
func checkDoneClosed(r *Report, udp *ssa.Function) {
	// find close(done) in closures of UDP and require every return of that closure to pass it
	for _, g := range WithAnon(udp) {
		var closeCall ssa.Instruction
		Instrs(g, func(in ssa.Instruction) {
			if c, ok := in.(*ssa.Call); ok {
				if b, ok := c.Call.Value.(*ssa.Builtin); ok && b.Name() == "close" {
					closeCall = in
				}
			}
		})
		if closeCall == nil {
			continue
		}
		ok, ret := exitsPass(g, func(in ssa.Instruction) bool { return in == closeCall })
		pos := closeCall.Pos()
		if ret != nil {
			pos = ret.Pos()
		}
		r.Ob("R-C12-5", pos, ok, "the stop channel of the flush goroutine is closed on every exit of its parent (otherwise the ticker goroutine leaks)", r.P.FuncName(g), "done-closed-on-exit")
	}
}

// checkRecordDecoder: prefix read is a full 2-byte read; after the decode
// every path reads exactly packetLen bytes (full read) or leaves before the
// next prefix read.
func checkRecordDecoder(r *Report, f *ssa.Function, name string) {
	_, vals := decoders16(f)
	if len(vals) == 0 {
		return
	}
	plen := vals[0]
	// prefix read: the ReadFull that dominates the decode
	var prefix ssa.CallInstruction
	var fulls []ssa.CallInstruction
	for _, g := range WithAnon(f) {
		fulls = append(fulls, Calls(g, false, "io:ReadFull")...)
	}
	dec := plen.(ssa.Instruction)
	for _, rf := range fulls {
		if rf.Parent() == dec.Parent() && Before(rf.(ssa.Instruction), dec) {
			if prefix == nil || Before(prefix.(ssa.Instruction), rf.(ssa.Instruction)) {
				prefix = rf
			}
		}
	}
	if prefix == nil {
		r.Fail("R-C12-6", dec.Pos(), "the length prefix is not read with io.ReadFull", name, "prefix-full-read")
		return
	}
	_, w := bufLen(Arg(prefix, 1))
	r.Ob("R-C12-6", CallPos(prefix), w == 2, fmt.Sprintf("length prefix read with io.ReadFull into a %d-byte buffer (want 2)", w), name, "prefix-full-read")
	// body read: ReadFull whose buffer length is packetLen
	isBody := func(in ssa.Instruction) bool {
		ci, ok := in.(ssa.CallInstruction)
		if !ok || !CalleeOf(ci).Is("io:ReadFull") {
			return false
		}
		l, _ := bufLen(Arg(ci, 1))
		return l != nil && (l == plen || sameExpr(l, plen))
	}
	if InLoop(prefix.Block()) {
		hits := WalkFrom(nil, dec, func(in ssa.Instruction) int {
			if isBody(in) {
				return Stop
			}
			if in == prefix.(ssa.Instruction) {
				return Hit
			}
			return Cont
		}, nil)
		r.Ob("R-C12-6", dec.Pos(), len(hits) == 0, "after decoding a record length every path must consume exactly that many bytes (full read) or leave before the next prefix read; otherwise the payload is parsed as the next length", name, "record-consumed")
	} else {
		found := false
		Instrs(dec.Parent(), func(in ssa.Instruction) {
			if isBody(in) && Before(dec, in) {
				found = true
			}
		})
		r.Ob("R-C12-6", dec.Pos(), found, "the record body is read with a full read of exactly the decoded length", name, "record-consumed")
	}
}

// retains: does the byte slice v (a Write argument) outlive the call - sent on
// a channel, stored into a field / element / global, or captured by a
// goroutine? Returns a description or "".
func retains(v ssa.Value, depth int, seen map[ssa.Value]bool) string {
	if v == nil || seen[v] || depth > 5 || v.Referrers() == nil {
		return ""
	}
	seen[v] = true
	for _, ref := range *v.Referrers() {
		switch x := ref.(type) {
		case *ssa.Send:
			if x.X == v {
				return "sent on a channel"
			}
		case *ssa.Select:
			for _, st := range x.States {
				if st.Send == v {
					return "sent on a channel (select)"
				}
			}
		case *ssa.Store:
			if x.Val != v {
				continue
			}
			switch a := x.Addr.(type) {
			case *ssa.FieldAddr:
				if !IsFresh(a.X) {
					return "stored in field " + fieldDesc(a.X.Type(), a.Field)
				}
				if al, ok := stripValue(a.X).(*ssa.Alloc); ok {
					if how := retains(al, depth+1, seen); how != "" {
						return "wrapped in a struct that is " + how
					}
				}
			case *ssa.IndexAddr:
				return "stored in a slice/array element"
			case *ssa.Global:
				return "stored in a global"
			case *ssa.FreeVar:
				return "stored in a variable of the enclosing function (" + a.Name() + ")"
			case *ssa.Alloc:
				if a.Referrers() != nil {
					for _, r2 := range *a.Referrers() {
						if u, ok := r2.(*ssa.UnOp); ok {
							if how := retains(u, depth+1, seen); how != "" {
								return how
							}
						}
					}
				}
			}
		case *ssa.Slice:
			if how := retains(x, depth+1, seen); how != "" {
				return how
			}
		case *ssa.Phi:
			if how := retains(x, depth+1, seen); how != "" {
				return how
			}
		case *ssa.MakeInterface:
			if how := retains(x, depth+1, seen); how != "" {
				return how
			}
		case *ssa.MakeClosure:
			if x.Referrers() != nil {
				for _, r2 := range *x.Referrers() {
					if _, isGo := r2.(*ssa.Go); isGo {
						return "captured by a goroutine"
					}
				}
			}
		case *ssa.Go:
			return "passed to a goroutine"
		}
	}
	return ""
}

// loadOfCellHolding: v is a load of a local variable cell (a variable captured by a closure
// lives in an Alloc) into which x is stored.
func loadOfCellHolding(v, x ssa.Value) bool {
	u, ok := stripValue(v).(*ssa.UnOp)
	if !ok || u.Op != token.MUL {
		return false
	}
	a, ok := u.X.(*ssa.Alloc)
	if !ok {
		return false
	}
	for _, st := range storesTo(a) {
		if st.Val == x {
			return true
		}
	}
	return false
}
