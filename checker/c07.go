package main

import (
	"fmt"
	"go/token"
	"strings"

	"golang.org/x/tools/go/ssa"
)

func init() {
	register(&PropCheck{
		ID: "C07",
		Explanation: "Static rules on the connection registries and teardown (internal/protocol/session, adapter.go). " +
			"R-C07-1: every access to ClientRegistry.connMap/clientIDMap, TunnelRegistry.connMap/tunnelMap, SessionManager.connMap and SessionManager.tunnelBridges holds the owning mutex (write lock for mutation; *Locked helpers are checked at their call sites). " +
			"R-C07-2: every delete from the client index is dominated by an equality test between the entry currently stored in the index and the connection being removed ('only if the index still points at me'). " +
			"R-C07-3: every function that deletes a connection from connMap also performs the guarded index delete and (except Unregister, which hands the stream to a tunnel) closes the connection's stream. " +
			"R-C07-4: re-authentication (UpdateAuth) removes stale index keys that map to the same connection before installing the new key. " +
			"R-C07-5: CloseConnection removes the connection from connMap under connLock, closes stream and raw connection, and reaches the control registry, the tunnel registry and the connection-state store on every path; the adapter's cleanup and the stale sweep reach CloseConnection on every path. " +
			"R-C07-6: in the handshake the lookup/removal of the client's previous connection precedes the installation of the new one. " +
			"Decides these necessary conditions; does not decide the exhaustive operation-sequence model or numeric counts.",
		Run: runC07,
		Mutants: []Mutant{
			{Name: "getbyclientid-without-lock", File: "internal/protocol/session/client_registry.go", Rule: "R-C07-1",
				Old: "func (r *ClientRegistry) GetByClientID(clientID int64) *ControlConnection {\n\tr.mu.RLock()\n\tdefer r.mu.RUnlock()\n", New: "func (r *ClientRegistry) GetByClientID(clientID int64) *ControlConnection {\n"},
			{Name: "unregister-unguarded-index-delete", File: "internal/protocol/session/client_registry.go", Rule: "R-C07-2",
				Old: "\tif conn.Authenticated && conn.ClientID > 0 {\n\t\tif existingConn, exists := r.clientIDMap[conn.ClientID]; exists && existingConn.ConnID == connID {\n\t\t\tdelete(r.clientIDMap, conn.ClientID)\n\t\t}\n\t}\n\n\t// 从 connMap 移除（但不关闭 stream）",
				New: "\tif conn.Authenticated && conn.ClientID > 0 {\n\t\tdelete(r.clientIDMap, conn.ClientID)\n\t}\n\n\t// 从 connMap 移除（但不关闭 stream）"},
			{Name: "cleanupstale-forgets-index", File: "internal/protocol/session/client_registry.go", Rule: "R-C07-3",
				Old: "\t\t\t// 从映射中移除（但不关闭 stream，稍后在锁外关闭）\n\t\t\tif conn.Authenticated && conn.ClientID > 0 {\n\t\t\t\tif existingConn, exists := r.clientIDMap[conn.ClientID]; exists && existingConn.ConnID == conn.ConnID {\n\t\t\t\t\tdelete(r.clientIDMap, conn.ClientID)\n\t\t\t\t}\n\t\t\t}\n\t\t\tdelete(r.connMap, conn.ConnID)\n\t\t}\n\t}\n\tr.mu.Unlock()\n\n\tif len(staleInfos) == 0 {",
				New: "\t\t\t// 从映射中移除（但不关闭 stream，稍后在锁外关闭）\n\t\t\tdelete(r.connMap, conn.ConnID)\n\t\t}\n\t}\n\tr.mu.Unlock()\n\n\tif len(staleInfos) == 0 {"},
			{Name: "updateauth-keeps-stale-key", File: "internal/protocol/session/client_registry.go", Rule: "R-C07-4",
				Old: "\tfor id, indexed := range r.clientIDMap {\n\t\tif indexed == conn && id != clientID {\n\t\t\tdelete(r.clientIDMap, id)\n\t\t}\n\t}\n", New: ""},
			{Name: "closeconnection-skips-tunnel-registry", File: "internal/protocol/session/connection_lifecycle.go", Rule: "R-C07-5",
				Old: "\t// 从隧道连接映射中移除\n\ts.RemoveTunnelConnection(connectionId)\n", New: "\t// 从隧道连接映射中移除\n\tif conn != nil {\n\t\ts.RemoveTunnelConnection(connectionId)\n\t}\n"},
			{Name: "stale-sweep-skips-close-for-unauthenticated", File: "internal/protocol/session/control_connection_mgr.go", Rule: "R-C07-5",
				Old: "\t\t// 然后关闭连接（注意：连接已从 registry 移除，这里只清理其他资源）\n\t\treturn s.CloseConnection(connID)", New: "\t\tif !authenticated {\n\t\t\treturn nil\n\t\t}\n\t\treturn s.CloseConnection(connID)"},
			{Name: "handshake-install-before-evict", File: "internal/protocol/session/packet_handler_handshake.go", Rule: "R-C07-6",
				Old: "\t\t// 检查是否存在旧连接，如果存在则清理\n\t\toldConn := s.clientRegistry.GetByClientID(clientConn.GetClientID())", New: "\t\tif concreteConn, ok := clientConn.(*ControlConnection); ok {\n\t\t\t_ = s.clientRegistry.UpdateAuth(concreteConn.ConnID, clientConn.GetClientID(), concreteConn.UserID)\n\t\t}\n\t\t// 检查是否存在旧连接，如果存在则清理\n\t\toldConn := s.clientRegistry.GetByClientID(clientConn.GetClientID())"},
		},
	})
}

// fromMap: does value v derive from an element of map field mapField
// (lookup, comma-ok lookup or range over it)?
func fromMap(v ssa.Value, mapField string, depth int) bool {
	if depth > 6 || v == nil {
		return false
	}
	switch x := stripValue(v).(type) {
	case *ssa.Lookup:
		_, f, _, ok := FieldOf(x.X)
		return ok && f == mapField
	case *ssa.Extract:
		switch t := x.Tuple.(type) {
		case *ssa.Lookup:
			_, f, _, ok := FieldOf(t.X)
			return ok && f == mapField
		case *ssa.Next:
			if rg, ok := t.Iter.(*ssa.Range); ok {
				_, f, _, ok := FieldOf(rg.X)
				return ok && f == mapField
			}
		}
	case *ssa.Phi:
		for _, e := range x.Edges {
			if fromMap(e, mapField, depth+1) {
				return true
			}
		}
	case *ssa.UnOp:
		if x.Op == token.MUL {
			switch a := x.X.(type) {
			case *ssa.FieldAddr:
				return fromMap(a.X, mapField, depth+1)
			case *ssa.Alloc:
				for _, st := range storesTo(a) {
					if fromMap(st.Val, mapField, depth+1) {
						return true
					}
				}
			}
		}
	case *ssa.Field:
		return fromMap(x.X, mapField, depth+1)
	}
	return false
}

// checkSweepDecidesUnderItsLock: the stale sweep removes a connection from the registry only where
// it found it stale in the same write-locked section (a snapshot of "stale" connections taken in an
// earlier section may name a connection that has been refreshed or re-authenticated since; removing
// it then leaves the client index pointing at a connection that is no longer registered).
func checkSweepDecidesUnderItsLock(r *Report) {
	cs := r.P.Fn(sessPkg, "ClientRegistry.CleanupStale")
	if cs == nil {
		return
	}
	n := 0
	for _, u := range samePkgReach(cs, 1) {
		if u.Parent() != nil {
			continue
		}
		for _, d := range mapDeletes(u, "connMap") {
			n++
			var stale *ssa.Call
			for _, ft := range Facts(d.Block()) {
				if c, ok := stripValue(ft.Cond).(*ssa.Call); ok && ft.Pol && CalleeOf(c).Name == "IsStale" {
					stale = c
				}
			}
			ok := stale != nil && lockSetsOf(u).Held(stale, r.lockFor(sessPkg, "ClientRegistry", "connMap", "mu")) == "W" && unlockBetween(stale, d) == nil
			if u != cs && stale == nil {
				// a removal helper: judged at its call sites in the sweep
				ok = true
				for _, site := range staticCallSites(r.P, u) {
					if Outermost(site.Parent()) != cs {
						continue
					}
					sok := false
					for _, ft := range Facts(site.Block()) {
						if c, isC := stripValue(ft.Cond).(*ssa.Call); isC && ft.Pol && CalleeOf(c).Name == "IsStale" {
							if lockSetsOf(site.Parent()).Held(c, r.lockFor(sessPkg, "ClientRegistry", "connMap", "mu")) == "W" && unlockBetween(c, site) == nil {
								sok = true
							}
						}
					}
					if !sok {
						ok = false
					}
				}
			}
			if u != cs && len(staticCallSites(r.P, u)) > 0 {
				inSweep := false
				for _, site := range staticCallSites(r.P, u) {
					if Outermost(site.Parent()) == cs {
						inSweep = true
					}
				}
				if !inSweep {
					continue
				}
			}
			r.Ob("R-C07-5", d.Pos(), ok, "the stale sweep removes a connection only where IsStale() answered true inside the same write-locked section", r.P.FuncName(u), "sweep-decides-under-its-lock")
		}
	}
	if n == 0 {
		r.Fail("R-C07-5", cs.Pos(), "no removal from connMap found in the stale sweep", "CleanupStale", "sweep-decides-under-its-lock:anchor")
	}
}

func runC07(r *Report) {
	checkSweepDecidesUnderItsLock(r)
	// ---- R-C07-1 guarded-by ---------------------------------------------------
	ctor := func(names ...string) map[string]string {
		m := map[string]string{}
		for _, n := range names {
			m[n] = "constructor: object not yet shared"
		}
		return m
	}
	guardedBy(r, "R-C07-1", sessPkg, "ClientRegistry", "connMap", "mu", ctor("NewClientRegistry"))
	guardedBy(r, "R-C07-1", sessPkg, "ClientRegistry", "clientIDMap", "mu", ctor("NewClientRegistry"))
	guardedBy(r, "R-C07-1", sessPkg, "TunnelRegistry", "connMap", "mu", ctor("NewTunnelRegistry"))
	guardedBy(r, "R-C07-1", sessPkg, "TunnelRegistry", "tunnelMap", "mu", ctor("NewTunnelRegistry"))
	guardedBy(r, "R-C07-1", sessPkg, "SessionManager", "connMap", "connLock", ctor("NewSessionManager", "NewSessionManagerWithConfig"))
	guardedBy(r, "R-C07-1", sessPkg, "SessionManager", "tunnelBridges", "bridgeLock", ctor("NewSessionManager", "NewSessionManagerWithConfig"))
	r.Floor("R-C07-1", 60, "guarded registry map accesses")

	// ---- R-C07-2 guarded index delete --------------------------------------------
	reg := map[string]bool{}
	for _, f := range r.P.FuncsIn(sessPkg) {
		top := Outermost(f)
		if top.Signature.Recv() == nil {
			continue
		}
		if _, n := recvTypeName(top.Signature.Recv().Type()); n != "ClientRegistry" {
			continue
		}
		for _, d := range mapDeletes(f, "clientIDMap") {
			guarded := false
			for _, ft := range Facts(d.Block()) {
				bo, ok := ft.Cond.(*ssa.BinOp)
				if !ok || !((bo.Op == token.EQL && ft.Pol) || (bo.Op == token.NEQ && !ft.Pol)) {
					continue
				}
				// one side is the entry stored in the index; the other side must denote the connection this
				// function removes: the key of its connMap delete, the connection looked up in connMap, or the
				// connection handed in (comparing with anything else, e.g. the NEW connection's id, guards nothing)
				for _, pair := range [][2]ssa.Value{{bo.X, bo.Y}, {bo.Y, bo.X}} {
					if !fromMap(pair[0], "clientIDMap", 0) {
						continue
					}
					other := pair[1]
					okOther := fromMap(other, "connMap", 0)
					for _, cd := range mapDeletes(f, "connMap") {
						if c, ok := cd.(*ssa.Call); ok && len(c.Call.Args) == 2 {
							k := c.Call.Args[1]
							if stripValue(k) == stripValue(other) || sameExpr(k, other) {
								okOther = true
							}
							// comparing connection pointers: the delete key is <other>.ConnID
							if _, fld, base, isF := FieldOf(k); isF && fld == "ConnID" && (stripValue(base) == stripValue(other) || sameExpr(base, other)) {
								okOther = true
							}
						}
					}
					if p, isP := stripValue(other).(*ssa.Parameter); isP && isCtrlConnType(p.Type()) {
						okOther = true
					}
					if _, fld, base, isF := FieldOf(other); isF && fld == "ConnID" {
						if p, isP := stripValue(base).(*ssa.Parameter); isP && isCtrlConnType(p.Type()) {
							okOther = true
						}
					}
					if okOther {
						guarded = true
					}
				}
			}
			r.Ob("R-C07-2", d.Pos(), guarded, "delete from the client index must be dominated by an equality test between the entry stored in the index and the connection being removed (otherwise a newer connection of the same client loses its index entry)", r.P.FuncName(f), "guarded-index-delete")
		}
		// ---- R-C07-3 paired removal ------------------------------------------------
		cd := mapDeletes(f, "connMap")
		if len(cd) == 0 {
			continue
		}
		reg[top.Name()] = true
		id := mapDeletes(f, "clientIDMap")
		// the index removal may be delegated to a same-package helper (`r.unindexLocked(conn)`)
		Instrs(f, func(in ssa.Instruction) {
			if hc, ok := in.(*ssa.Call); ok {
				if h := hc.Common().StaticCallee(); h != nil && h.Pkg == f.Pkg && h != f && len(h.Blocks) > 0 {
					if len(mapDeletes(h, "clientIDMap")) > 0 {
						id = append(id, in)
					} else {
						Instrs(h, func(in2 ssa.Instruction) {
							if hc2, ok := in2.(*ssa.Call); ok {
								if h2 := hc2.Common().StaticCallee(); h2 != nil && h2.Pkg == f.Pkg && len(h2.Blocks) > 0 && len(mapDeletes(h2, "clientIDMap")) > 0 {
									id = append(id, in)
								}
							}
						})
					}
				}
			}
		})
		paired := false
		for _, c := range cd {
			for _, i := range id {
				if i.Block() == c.Block() || CanReach(i.Block(), c.Block()) {
					paired = true
				}
			}
		}
		r.Ob("R-C07-3", cd[0].Pos(), paired, "removing a connection from connMap must be paired with the guarded removal of its client-index entry (otherwise a lookup by client id returns a connection that is no longer registered)", r.P.FuncName(f), "paired-index-removal")
		if top.Name() != "Unregister" {
			closesIn := func(fn *ssa.Function) bool {
				for _, g := range WithAnon(fn) {
					for _, c := range Calls(g, false, "Close") {
						if o := originSummary(Recv(c)); strings.Contains(o, "Stream") || strings.Contains(o, "stream") {
							return true
						}
					}
				}
				return false
			}
			closes := closesIn(top)
			if !closes && top.Object() != nil && !top.Object().Exported() {
				// an unexported removal helper (…Locked): the stream is closed by every function that calls it
				n, all := 0, true
				for _, g := range r.P.FuncsIn(sessPkg) {
					for _, c := range Calls(g, false, "ClientRegistry."+top.Name()) {
						_ = c
						n++
						if !closesIn(Outermost(g)) && Outermost(g).Name() != "Unregister" {
							all = false
						}
					}
				}
				closes = n > 0 && all
			}
			r.Ob("R-C07-3", cd[0].Pos(), closes, "removing a connection closes its stream (its transport must not stay open)", r.P.FuncName(f), "removal-closes-stream")
		}
	}
	r.Floor("R-C07-2", 5, "deletes from ClientRegistry.clientIDMap")
	r.Floor("R-C07-3", 7, "connMap removals in ClientRegistry")

	// ---- R-C07-4 re-authentication drops stale keys --------------------------------
	if ua := r.need("R-C07-4", sessPkg, "ClientRegistry.UpdateAuth"); ua != nil {
		var upd ssa.Instruction
		Instrs(ua, func(in ssa.Instruction) {
			if mu, ok := in.(*ssa.MapUpdate); ok {
				if _, f, _, ok := FieldOf(mu.Map); ok && f == "clientIDMap" {
					upd = in
				}
			}
		})
		var rng ssa.Instruction
		Instrs(ua, func(in ssa.Instruction) {
			if rg, ok := in.(*ssa.Range); ok {
				if _, f, _, ok := FieldOf(rg.X); ok && f == "clientIDMap" {
					rng = in
				}
			}
		})
		dels := mapDeletes(ua, "clientIDMap")
		// the sweep may live in a helper (`r.unindexOthersLocked(conn, clientID)`): its parameters are
		// read as the arguments UpdateAuth passes
		var sweepCall *ssa.Call
		if rng == nil {
			Instrs(ua, func(in ssa.Instruction) {
				hc, ok := in.(*ssa.Call)
				if !ok || sweepCall != nil {
					return
				}
				h := hc.Common().StaticCallee()
				if h == nil || h.Pkg != ua.Pkg || len(h.Blocks) == 0 {
					return
				}
				hasRange := false
				Instrs(h, func(in2 ssa.Instruction) {
					if rg, ok := in2.(*ssa.Range); ok {
						if _, f, _, ok := FieldOf(rg.X); ok && f == "clientIDMap" {
							hasRange = true
						}
					}
				})
				if hasRange && len(mapDeletes(h, "clientIDMap")) > 0 {
					sweepCall = hc
				}
			})
			if sweepCall != nil {
				rng = sweepCall
				dels = mapDeletes(sweepCall.Common().StaticCallee(), "clientIDMap")
			}
		}
		argOf := func(v ssa.Value) ssa.Value {
			if sweepCall == nil {
				return v
			}
			if p, ok := stripValue(v).(*ssa.Parameter); ok {
				for i, q := range sweepCall.Common().StaticCallee().Params {
					if q == p && i < len(sweepCall.Call.Args) {
						return sweepCall.Call.Args[i]
					}
				}
			}
			return v
		}
		// the sweep runs on every path through the installation: before it, or after it (it spares the
		// id being installed - obligation sweep-condition - so the order of the two does not matter)
		ok := upd != nil && rng != nil && len(dels) > 0
		if ok && ReachesWithout(ua, upd, func(in ssa.Instruction) bool { return in == rng }) {
			for _, ret := range Returns(ua) {
				hits := WalkFrom(nil, upd, func(in ssa.Instruction) int {
					if in == rng {
						return Stop
					}
					if in == ssa.Instruction(ret) {
						return Hit
					}
					return Cont
				}, nil)
				if len(hits) > 0 {
					ok = false
				}
			}
		}
		// the sweep removes exactly the OTHER keys of this connection: delete under `entry == conn` and
		// `key != newID`
		for _, d := range dels {
			same, other := false, false
			for _, ft := range Facts(d.Block()) {
				bo, isB := ft.Cond.(*ssa.BinOp)
				if !isB {
					continue
				}
				if ((bo.Op == token.EQL && ft.Pol) || (bo.Op == token.NEQ && !ft.Pol)) && (fromMap(bo.X, "clientIDMap", 0) || fromMap(bo.Y, "clientIDMap", 0)) && (fromMap(argOf(bo.X), "connMap", 0) || fromMap(argOf(bo.Y), "connMap", 0)) {
					same = true
				}
				if ((bo.Op == token.NEQ && ft.Pol) || (bo.Op == token.EQL && !ft.Pol)) && (originSummary(argOf(bo.X)) == "param:clientID" || originSummary(argOf(bo.Y)) == "param:clientID") {
					other = true
				}
			}
			r.Ob("R-C07-4", d.Pos(), same && other, fmt.Sprintf("the sweep deletes a key only if its entry is this connection (%v) and the key is not the id being installed (%v)", same, other), "UpdateAuth", "sweep-condition")
		}
		pos := ua.Pos()
		if upd != nil {
			pos = upd.Pos()
		}
		r.Ob("R-C07-4", pos, ok, "before installing clientIDMap[newID] = conn, UpdateAuth must sweep the index for other keys that still map to this connection (a connection re-authenticated under another id would otherwise stay reachable under the old id, even after it is closed)", "UpdateAuth", "stale-keys-removed")
	}

	// the transport adapter stops being responsible for closing a connection only when the session took
	// it over (tunnel mode switch / stream mode): every `shouldCloseConn = false` is under that fact.
	// Any other reason (a refused or malformed TunnelOpen...) would leave the connection open and counted.
	nKeep := 0
	for _, f := range r.P.FuncsIn("internal/protocol/adapter") {
		Instrs(f, func(in ssa.Instruction) {
			st, ok := in.(*ssa.Store)
			if !ok {
				return
			}
			if _, fld, _, isF := FieldOf(st.Addr); !isF || fld != "shouldCloseConn" {
				return
			}
			if v, isC := ConstBool(st.Val); !isC || v {
				return
			}
			nKeep++
			handed := false
			for _, ft := range Facts(st.Block()) {
				if c, isCall := stripValue(ft.Cond).(*ssa.Call); isCall && ft.Pol {
					if n := CalleeOf(c).Name; n == "isTunnelModeSwitch" || n == "IsStreamMode" || n == "IsPersistent" {
						handed = true
					}
				}
			}
			r.Ob("R-C07-5", st.Pos(), handed, "the adapter keeps a connection open after its read loop only under a positive tunnel-mode-switch / stream-mode / persistent-transport test (everything else is closed and unregistered)", r.P.FuncName(f), "handover-only-on-mode-switch")
		})
	}
	if nKeep < 1 { // alarm below 40% of the 2 sites confirmed by hand
		r.Fail("R-C07-5", 0, fmt.Sprintf("only %d hand-over sites (shouldCloseConn = false) found in the adapter (3 confirmed by hand)", nKeep), "internal/protocol/adapter", "handover:floor")
	}

	// ---- R-C07-5 teardown reaches everything ----------------------------------------
	if cc := r.need("R-C07-5", sessPkg, "SessionManager.CloseConnection"); cc != nil {
		_ = ComputeLockSets
		need := []struct {
			what string
			via  func(in ssa.Instruction) bool
			comp string
		}{
			{"delete(connMap) under connLock", func(in ssa.Instruction) bool {
				c, ok := in.(*ssa.Call)
				if !ok {
					return false
				}
				b, ok := c.Call.Value.(*ssa.Builtin)
				if !ok || b.Name() != "delete" {
					return false
				}
				if _, f, _, ok := FieldOf(c.Call.Args[0]); !ok || f != "connMap" {
					return false
				}
				return r.held(lockSetsOf(in.Parent()), in, "internal/protocol/session", "SessionManager", "connLock") == "W"
			}, ""},
			{"RemoveControlConnection", IsCallTo("SessionManager.RemoveControlConnection"), ""},
			{"RemoveTunnelConnection", IsCallTo("SessionManager.RemoveTunnelConnection"), ""},
			{"connStateStore.UnregisterConnection", IsCallTo("UnregisterConnection"), "connStateStore"},
		}
		for _, ret := range Returns(cc) {
			for _, n := range need {
				var filter func(*ssa.BasicBlock, int) bool
				if n.comp != "" {
					filter = pruneNilComponent(n.comp)
				}
				if n.what == "delete(connMap) under connLock" {
					// only on the path where the connection exists
					filter = func(b *ssa.BasicBlock, succ int) bool {
						iff, ok := b.Instrs[len(b.Instrs)-1].(*ssa.If)
						if !ok {
							return true
						}
						// `if exists {delete}`: prune the not-exists edge
						if ex, ok := iff.Cond.(*ssa.Extract); ok && ex.Index == 1 {
							if _, isLk := ex.Tuple.(*ssa.Lookup); isLk {
								return succ == 0
							}
						}
						// `conn, ok := s.detach(id); if !ok { return }`: the helper found nothing to remove
						if hc, isF := verdictFalseEdge(b, succ); isF && helperPerforms(hc.Common().StaticCallee(), n.via, "true") {
							return false
						}
						return true
					}
				}
				via := n.via
				what := n.what
				hits := WalkFrom(cc.Blocks[0], nil, func(in ssa.Instruction) int {
					if OrDeferred(via)(in) || (in.Parent() == cc && performsVia(in, via, ret.Block())) {
						return Stop
					}
					// a detach helper: removes the entry on every path on which its lookup found one
					if hc, isC := in.(*ssa.Call); isC && what == "delete(connMap) under connLock" {
						if h := hc.Common().StaticCallee(); h != nil && h.Pkg == cc.Pkg && len(h.Blocks) > 0 && h != cc {
							// with the lookup-miss edge pruned, no return of the helper is reachable without the delete
							okAll, n2 := true, len(Returns(h))
							esc := WalkFrom(h.Blocks[0], nil, func(x ssa.Instruction) int {
								if OrDeferred(via)(x) {
									return Stop
								}
								if _, isR := x.(*ssa.Return); isR {
									return Hit
								}
								return Cont
							}, func(b *ssa.BasicBlock, succ int) bool {
								iff, ok := b.Instrs[len(b.Instrs)-1].(*ssa.If)
								if !ok {
									return true
								}
								c, pol := normCond(iff.Cond, succ == 0)
								if ex, ok := c.(*ssa.Extract); ok && ex.Index == 1 {
									if _, isLk := ex.Tuple.(*ssa.Lookup); isLk && !pol {
										return false
									}
								}
								return true
							})
							if len(esc) > 0 {
								okAll = false
							}
							if okAll && n2 > 0 && len(mapDeletes(h, "connMap")) > 0 {
								return Stop
							}
						}
					}
					if in == ssa.Instruction(ret) {
						return Hit
					}
					return Cont
				}, filter)
				r.Ob("R-C07-5", ret.Pos(), len(hits) == 0, "CloseConnection reaches "+n.what+" on every path", "CloseConnection", "teardown:"+n.what)
			}
		}
		// stream and raw connection closed
		for _, fld := range []string{"Stream", "RawConn"} {
			found := false
			for _, g := range samePkgReach(cc, 2) {
				if g != cc && (g.Object() == nil || g.Object().Exported()) {
					continue // only CloseConnection itself and unexported helpers it calls
				}
				for _, c := range Calls(g, false, "Close") {
					if t, f, _, ok := FieldOf(Recv(c)); ok && f == fld && t == "Connection" {
						found = true
					}
				}
			}
			r.Ob("R-C07-5", cc.Pos(), found, "CloseConnection closes conn."+fld, "CloseConnection", "closes:"+fld)
		}
	}
	if cl := r.need("R-C07-5", "internal/protocol/adapter", "BaseAdapter.cleanupConnection"); cl != nil {
		for _, ret := range Returns(cl) {
			hits := WalkFrom(cl.Blocks[0], nil, func(in ssa.Instruction) int {
				if ci, ok := in.(ssa.CallInstruction); ok && CalleeOf(ci).Name == "CloseConnection" {
					return Stop
				}
				if in == ssa.Instruction(ret) {
					return Hit
				}
				return Cont
			}, func(b *ssa.BasicBlock, succ int) bool {
				return pruneNilComponent("streamConn")(b, succ) && pruneNilComponent("session")(b, succ)
			})
			r.Ob("R-C07-5", ret.Pos(), len(hits) == 0, "the adapter's connection cleanup calls CloseConnection whenever the session connection was created", "cleanupConnection", "adapter-cleanup-closes")
		}
	}
	if cs := r.need("R-C07-5", sessPkg, "SessionManager.cleanupStaleConnections"); cs != nil {
		n := 0
		cbs := append([]*ssa.Function{}, cs.AnonFuncs...)
		// the callback may be a method value (s.closeStale...) instead of a function literal
		for _, c := range Calls(cs, false, "ClientRegistry.CleanupStale") {
			for _, a := range c.Common().Args {
				if mc, ok := stripValue(a).(*ssa.MakeClosure); ok {
					if fn, ok := mc.Fn.(*ssa.Function); ok && fn.Synthetic != "" {
						Instrs(fn, func(in ssa.Instruction) {
							if ci, ok := in.(ssa.CallInstruction); ok {
								if t := ci.Common().StaticCallee(); t != nil && t.Pkg == cs.Pkg {
									cbs = append(cbs, t)
								}
							}
						})
					}
				}
			}
		}
		for _, g := range cbs {
			n++
			ok, ret := exitsPass(g, func(in ssa.Instruction) bool {
				ci, isC := in.(ssa.CallInstruction)
				return isC && CalleeOf(ci).Is("SessionManager.CloseConnection")
			})
			pos := g.Pos()
			if ret != nil {
				pos = ret.Pos()
			}
			r.Ob("R-C07-5", pos, ok, "the stale-connection sweep closes every evicted connection (also unauthenticated ones), otherwise it stays in connMap and its slot is never released", "cleanupStaleConnections", "sweep-closes")
		}
		if n == 0 {
			r.Fail("R-C07-5", cs.Pos(), "stale sweep callback not found", "cleanupStaleConnections", "anchor")
		}
	}
	r.Floor("R-C07-5", 8, "teardown obligations")

	// ---- R-C07-6 evict-then-install order in the handshake -----------------------------
	if sh := r.need("R-C07-6", sessPkg, "SessionManager.handleHandshake"); sh != nil {
		uas := Calls(sh, false, "ClientRegistry.UpdateAuth")
		look := Calls(sh, false, "ClientRegistry.GetByClientID")
		rem := Calls(sh, false, "ClientRegistry.Remove")
		if len(uas) == 0 || len(look) == 0 || len(rem) == 0 {
			r.Fail("R-C07-6", sh.Pos(), fmt.Sprintf("handshake anchors missing: UpdateAuth=%d GetByClientID=%d Remove=%d", len(uas), len(look), len(rem)), "handleHandshake", "anchor")
		}
		for _, ua := range uas {
			okLook := !ReachesWithout(sh, ua.(ssa.Instruction), func(in ssa.Instruction) bool {
				for _, l := range look {
					if in == l.(ssa.Instruction) {
						return true
					}
				}
				return false
			})
			r.Ob("R-C07-6", CallPos(ua), okLook, "the previous connection of the client is looked up before the new connection is installed in the index (afterwards the lookup returns the new connection itself and the old one is never evicted)", "handleHandshake", "lookup-before-install")
			for _, rm := range rem {
				bad := CanReach(ua.Block(), rm.Block()) || (ua.Block() == rm.Block() && Before(ua.(ssa.Instruction), rm.(ssa.Instruction)))
				r.Ob("R-C07-6", CallPos(rm), !bad, "the old connection is removed before UpdateAuth installs the new one", "handleHandshake", "evict-before-install")
			}
		}
	}
}
