package main

import (
	"encoding/json"
	"fmt"
	"go/token"
	"os"
	"path/filepath"
	"sort"
	"strings"
	"time"
)

// Obligation is one structural fact a rule had to establish.
type Obligation struct {
	Rule   string `json:"rule"`   // e.g. R-C07-2
	Key    string `json:"key"`    // rule|function|construct — line free
	Pos    string `json:"pos"`    // file:line on this run (diagnostic only)
	OK     bool   `json:"ok"`     // discharged
	Detail string `json:"detail"` // why / what was found
	Known  string `json:"known,omitempty"`
}

// Report collects obligations for one property run.
type Report struct {
	Prop        string
	Tier        string
	P           *Prog
	Obs         []Obligation
	Notes       []string
	Assumptions []string
	rulesSeen   map[string]int
	Controls    []string
	Mutants     []MutantResult
	start       time.Time
	explanation string
	broken      []string // machinery failures (exit 2)
}

type MutantResult struct {
	Name    string   `json:"name"`
	Rule    string   `json:"rule"`
	Status  string   `json:"status"` // fired | silent | stale | error
	Fired   []string `json:"fired,omitempty"`
	Message string   `json:"message,omitempty"`
}

// procStart is taken when the process starts so that wall_s includes loading /repo.
var procStart = time.Now()

func NewReport(prop, tier string, p *Prog) *Report {
	return &Report{Prop: prop, Tier: tier, P: p, rulesSeen: map[string]int{}, start: procStart}
}

// Ob records an obligation. key parts are joined with '|' after the rule id.
func (r *Report) Ob(rule string, pos token.Pos, ok bool, detail string, keyParts ...string) {
	key := rule + "|" + strings.Join(keyParts, "|")
	ps := "-"
	if r.P != nil {
		ps = r.P.Pos(pos)
	}
	r.Obs = append(r.Obs, Obligation{Rule: rule, Key: key, Pos: ps, OK: ok, Detail: detail})
	r.rulesSeen[rule]++
}

// Fail records a violated obligation (sugar).
func (r *Report) Fail(rule string, pos token.Pos, detail string, keyParts ...string) {
	r.Ob(rule, pos, false, detail, keyParts...)
}

// Pass records a discharged obligation (sugar).
func (r *Report) Pass(rule string, pos token.Pos, detail string, keyParts ...string) {
	r.Ob(rule, pos, true, detail, keyParts...)
}

// Floor demands that a rule matched at least n sites; fewer means an anchor
// the rule was confirmed against by hand has disappeared.
//
// n is the number of sites confirmed by hand on the reference tree. The alarm threshold is 40% of it
// (at least 1): merging duplicated blocks into a helper legitimately lowers the count, while a rule
// whose sites have (nearly) all vanished no longer establishes anything.
func (r *Report) Floor(rule string, n int, what string) {
	got := r.rulesSeen[rule]
	need := n * 2 / 5
	if need < 1 {
		need = 1
	}
	if got < need {
		r.Ob(rule, token.NoPos, false,
			fmt.Sprintf("anchor lost: %d site(s) of %q matched, %d confirmed by hand on the reference tree (alarm below %d)", got, what, n, need),
			"floor", what)
	}
}

// Count returns how many obligations a rule has produced so far.
func (r *Report) Count(rule string) int { return r.rulesSeen[rule] }

func (r *Report) Note(format string, a ...any) { r.Notes = append(r.Notes, fmt.Sprintf(format, a...)) }
func (r *Report) Assume(s string)              { r.Assumptions = append(r.Assumptions, s) }
func (r *Report) Broken(format string, a ...any) {
	r.broken = append(r.broken, fmt.Sprintf(format, a...))
}

// KnownFindings is the committed file of genuine defects recorded rather
// than repaired. The checker only reads it.
type KnownFindings struct {
	Findings []struct {
		Property string `json:"property"`
		Key      string `json:"key"`
		What     string `json:"what"`
	} `json:"findings"`
	Fixed []string `json:"fixed"`
}

func loadKnown(path string) (*KnownFindings, error) {
	k := &KnownFindings{}
	b, err := os.ReadFile(path)
	if err != nil {
		if os.IsNotExist(err) {
			return k, nil
		}
		return nil, err
	}
	if err := json.Unmarshal(b, k); err != nil {
		return nil, fmt.Errorf("%s: %w", path, err)
	}
	return k, nil
}

// Finish writes evidence, prints the verdict and returns the exit code.
func (r *Report) Finish(verifDir string, seed int64) int {
	known, err := loadKnown(filepath.Join(verifDir, "known_findings.json"))
	if err != nil {
		fmt.Printf("BROKEN: %v\n", err)
		return 2
	}
	knownBy := map[string]string{}
	for _, f := range known.Findings {
		if f.Property == r.Prop {
			knownBy[f.Key] = f.What
		}
	}
	// Deduplicate obligations by key+ok (several paths may reach the same site).
	seen := map[string]bool{}
	var obs []Obligation
	for _, o := range r.Obs {
		k := fmt.Sprintf("%s#%v#%s", o.Key, o.OK, o.Detail)
		if seen[k] {
			continue
		}
		seen[k] = true
		obs = append(obs, o)
	}
	sort.SliceStable(obs, func(i, j int) bool {
		if obs[i].Rule != obs[j].Rule {
			return obs[i].Rule < obs[j].Rule
		}
		return obs[i].Key < obs[j].Key
	})
	var violations, knownHits []Obligation
	discharged := 0
	rules := map[string]bool{}
	for i := range obs {
		o := &obs[i]
		rules[o.Rule] = true
		if o.OK {
			discharged++
			continue
		}
		if what, ok := knownBy[o.Key]; ok {
			o.Known = what
			knownHits = append(knownHits, *o)
			continue
		}
		violations = append(violations, *o)
	}
	for _, k := range knownHits {
		fmt.Printf("KNOWN-FINDING: property=%s %s [%s at %s]\n", r.Prop, k.Known, k.Key, k.Pos)
	}
	// Evidence.
	samples := []any{}
	perRule := map[string]int{}
	for _, o := range obs {
		if perRule[o.Rule] < 3 && o.OK {
			perRule[o.Rule]++
			samples = append(samples, o)
		}
	}
	for _, o := range violations {
		samples = append(samples, o)
	}
	for _, o := range knownHits {
		samples = append(samples, o)
	}
	// every obligation (key @ position) and the per-file / per-rule tallies: lets a reader see
	// which anchored files the rules actually reached
	obKeys := []string{}
	perFile := map[string]int{}
	perRuleAll := map[string]int{}
	for _, o := range obs {
		obKeys = append(obKeys, o.Key+" @ "+o.Pos)
		f := o.Pos
		if i := strings.LastIndex(f, ":"); i > 0 {
			f = f[:i]
		}
		if f != "" {
			perFile[f]++
		}
		perRuleAll[o.Rule]++
	}
	sort.Strings(obKeys)
	ruleList := []string{}
	for k := range rules {
		ruleList = append(ruleList, k)
	}
	sort.Strings(ruleList)
	nfuncs, npk := 0, 0
	if r.P != nil {
		nfuncs, npk = len(r.P.Funcs), len(r.P.Pkgs)
	}
	fired := 0
	for _, m := range r.Mutants {
		if m.Status == "fired" {
			fired++
		}
	}
	cov := map[string]any{
		"explanation":         r.explanation,
		"obligations":         len(obs),
		"discharged":          discharged,
		"known_findings":      len(knownHits),
		"evaluations":         len(obs),
		"distinct_nontrivial": len(ruleList),
		"rule":                "one obligation per (rule, function, construct) site enumerated from the SSA/type-checked program of /repo; distinct_nontrivial counts distinct rule ids that matched at least one site",
		"rules":               ruleList,
		"samples":             samples,
		"obligation_keys":     obKeys,
		"obligations_by_file": perFile,
		"obligations_by_rule": perRuleAll,
		"exhaustive":          true,
		"packages_analysed":   npk,
		"functions_analysed":  nfuncs,
		"controls":            r.Controls,
		"mutant_witnesses":    r.Mutants,
		"mutants_fired":       fired,
		"notes":               r.Notes,
		"checker_cmd":         fmt.Sprintf("bin/check %s %s", r.Prop, r.Tier),
		"trusted_base":        []string{"go/types", "golang.org/x/tools/go/packages", "golang.org/x/tools/go/ssa v0.29.0", "the rule tables in /verif/checker"},
	}
	assumptions := append([]string{
		"go/types, go/packages and go/ssa (x/tools v0.29.0) model the program faithfully; production files only (no _test.go), default build tags on linux/amd64",
		"the rule tables and idiom recognisers in /verif/checker are the oracle: a discharged obligation is a structural fact, not a behavioural proof",
	}, r.Assumptions...)
	if r.Notes == nil {
		r.Notes = []string{}
	}
	if r.Controls == nil {
		r.Controls = []string{}
	}
	if r.Mutants == nil {
		r.Mutants = []MutantResult{}
	}
	cov["notes"], cov["controls"], cov["mutant_witnesses"] = r.Notes, r.Controls, r.Mutants
	ev := map[string]any{
		"property_id": r.Prop,
		"tier":        r.Tier,
		"seed":        seed,
		"level":       "other",
		"coverage":    cov,
		"assumptions": assumptions,
		"wall_s":      time.Since(r.start).Seconds(),
		"violations":  len(violations),
	}
	evDir := filepath.Join(verifDir, "evidence")
	os.MkdirAll(evDir, 0o755)
	b, _ := json.MarshalIndent(ev, "", " ")
	if err := os.WriteFile(filepath.Join(evDir, r.Prop+".json"), append(b, '\n'), 0o644); err != nil {
		fmt.Printf("BROKEN: cannot write evidence: %v\n", err)
		return 2
	}
	vpath := filepath.Join(evDir, r.Prop+".violations.json")
	os.Remove(vpath)
	fmt.Printf("%s %s: %d obligations, %d discharged, %d known finding(s), %d violation(s); %d packages, %d functions; %.1fs\n",
		r.Prop, r.Tier, len(obs), discharged, len(knownHits), len(violations), npk, nfuncs, time.Since(r.start).Seconds())
	if len(r.broken) > 0 {
		for _, b := range r.broken {
			fmt.Printf("BROKEN: %s\n", b)
		}
		return 2
	}
	if len(violations) > 0 {
		vb, _ := json.MarshalIndent(violations, "", " ")
		os.WriteFile(vpath, append(vb, '\n'), 0o644)
		for _, v := range violations {
			fmt.Printf("  %s %s: %s [%s]\n", v.Pos, v.Rule, v.Detail, v.Key)
		}
		fmt.Printf("VIOLATION property=%s replay=%s\n", r.Prop, vpath)
		return 1
	}
	return 0
}
