package main

// runControls is filled in by controls_*.go; see DESIGN.md §4.
func runControls(r *Report) {
	for _, c := range controlFuncs {
		c(r)
	}
}

var controlFuncs []func(r *Report)
