package main

import (
	"fmt"
	"go/token"
	"go/types"
	"os"
	"path/filepath"
	"strings"

	"golang.org/x/tools/go/packages"
	"golang.org/x/tools/go/ssa"
)

// runControls loads the tiny controls package next to the checker sources and
// demands, for each analysis primitive, that it accepts the conforming
// example and rejects the violating one. A failing control marks the run as
// broken (exit 2): nothing the rules report could be believed.
func runControls(r *Report) {
	dir := controlsDir()
	if dir == "" {
		r.Broken("controls package not found next to the checker")
		return
	}
	fset := token.NewFileSet()
	cfg := &packages.Config{
		Mode: packages.NeedName | packages.NeedFiles | packages.NeedCompiledGoFiles | packages.NeedImports | packages.NeedDeps |
			packages.NeedTypes | packages.NeedSyntax | packages.NeedTypesInfo | packages.NeedTypesSizes,
		Dir: dir, Fset: fset, Env: goEnv(),
	}
	pkgs, err := packages.Load(cfg, ".")
	if err != nil || len(pkgs) != 1 || len(pkgs[0].Errors) > 0 {
		r.Broken("controls package does not load: %v %v", err, pkgErrs(pkgs))
		return
	}
	prog := ssa.NewProgram(fset, ssa.InstantiateGenerics)
	created := map[string]bool{}
	packages.Visit(pkgs, nil, func(pk *packages.Package) {
		if pk.Types == nil || created[pk.PkgPath] {
			return
		}
		created[pk.PkgPath] = true
		if pk.TypesInfo != nil && len(pk.Syntax) > 0 {
			prog.CreatePackage(pk.Types, pk.Syntax, pk.TypesInfo, true)
		} else {
			prog.CreatePackage(pk.Types, nil, nil, true)
		}
	})
	sp := prog.Package(pkgs[0].Types)
	sp.Build()
	fn := func(name string) *ssa.Function {
		if i := strings.Index(name, "."); i >= 0 {
			t := sp.Members[name[:i]].(*ssa.Type)
			ms := prog.MethodSets.MethodSet(types.NewPointer(t.Type()))
			sel := ms.Lookup(sp.Pkg, name[i+1:])
			return prog.MethodValue(sel)
		}
		f, _ := sp.Members[name].(*ssa.Function)
		return f
	}
	type ctl struct {
		name      string
		good, bad string
		test      func(f *ssa.Function) bool
	}
	callTo := func(f *ssa.Function, name string) ssa.CallInstruction {
		cs := Calls(f, false, name)
		if len(cs) == 0 {
			return nil
		}
		return cs[0]
	}
	ctls := []ctl{
		{"facts-polarity", "DomGood", "DomBad", func(f *ssa.Function) bool {
			g := callTo(f, "grant")
			_, pol, found := CallFact(g.Block(), "verify")
			return found && pol
		}},
		{"err-ok", "ErrOKGood", "ErrOKBad", func(f *ssa.Function) bool {
			return ErrOK(callTo(f, "grant").Block(), callTo(f, "acquire"))
		}},
		{"exit-obligation", "ExitGood", "ExitBad", func(f *ssa.Function) bool {
			acq := callTo(f, "acquire")
			var start *ssa.BasicBlock
			for _, b := range f.Blocks {
				if ErrOK(b, acq) && (start == nil || b.Dominates(start)) {
					start = b
				}
			}
			hits := WalkFrom(start, nil, func(in ssa.Instruction) int {
				if OrDeferred(IsCallTo("release"))(in) {
					return Stop
				}
				if _, ok := in.(*ssa.Return); ok {
					return Hit
				}
				return Cont
			}, nil)
			return len(hits) == 0
		}},
		{"lockset", "guarded.LockGood", "guarded.LockBad", func(f *ssa.Function) bool {
			ls := ComputeLockSets(f, nil)
			ok := true
			Instrs(f, func(in ssa.Instruction) {
				if fa, isFA := in.(*ssa.FieldAddr); isFA && fieldName(fa.X.Type(), fa.Field) == "m" {
					if ls.Held(in, "mu") == "" {
						ok = false
					}
				}
			})
			return ok
		}},
		{"read-shape", "ReadGood", "ReadBad", func(f *ssa.Function) bool {
			for _, c := range Calls(f, false, "Read") {
				if ClassifyRead(c).Shape == "full" {
					return true
				}
			}
			return false
		}},
		{"read-shape-remaining", "RemainGood", "RemainBad", func(f *ssa.Function) bool {
			for _, c := range Calls(f, false, "Read") {
				if ClassifyRead(c).Shape == "full" {
					return true
				}
			}
			return false
		}},
		{"null-decode", "NullDecodeGood", "NullDecodeBad", func(f *ssa.Function) bool {
			nds := nullDecodes(nil, f)
			return len(nds) == 1 && nds[0].bad == token.NoPos
		}},
		{"timeout-only", "OnlyTimeoutGood", "OnlyTimeoutBad", func(f *ssa.Function) bool { return timeoutOnly(f) }},
		{"sync-pool-ownership", "PoolGood", "PoolBad", func(f *ssa.Function) bool {
			tmp := &Report{Prop: "ctl", rulesSeen: map[string]int{}}
			n := checkSyncPoolOwnership(tmp, "ctl", f)
			bad := 0
			for _, o := range tmp.Obs {
				if !o.OK {
					bad++
				}
			}
			return n == 1 && bad == 0
		}},
		{"flag-path-sensitivity", "FlagGood", "FlagBad", func(f *ssa.Function) bool {
			// from the edge on which the lookup missed, the use must be unreachable
			var miss *ssa.BasicBlock
			for _, b := range f.Blocks {
				if iff, ok := b.Instrs[len(b.Instrs)-1].(*ssa.If); ok {
					if ex, ok := iff.Cond.(*ssa.Extract); ok && ex.Index == 1 {
						miss = b.Succs[1]
						_ = iff
					}
				}
			}
			if miss == nil {
				return false
			}
			// enter the join from the block that tested `found`
			hits := WalkFrom(f.Blocks[0], nil, func(in ssa.Instruction) int {
				if IsCallTo("use")(in) {
					return Hit
				}
				return Cont
			}, func(b *ssa.BasicBlock, succ int) bool {
				// only follow the lookup-miss edge out of the entry block
				if b == f.Blocks[0] {
					return b.Succs[succ] == miss
				}
				return true
			})
			return len(hits) == 0
		}},
		{"read-at-least", "AtLeastGood", "AtLeastBad", func(f *ssa.Function) bool {
			return ClassifyRead(callTo(f, "io:ReadAtLeast")).Shape == "full"
		}},
		{"unlock-between", "guarded.SectionGood", "guarded.SectionBad", func(f *ssa.Function) bool {
			var look, upd ssa.Instruction
			Instrs(f, func(in ssa.Instruction) {
				switch in.(type) {
				case *ssa.Lookup:
					look = in
				case *ssa.MapUpdate:
					upd = in
				}
			})
			return look != nil && upd != nil && unlockBetween(look, upd) == nil
		}},
		{"read-error-exits", "LoopGood", "LoopBad", func(f *ssa.Function) bool {
			ok, _ := readErrorLeavesLoopIdiom(callTo(f, "Read"))
			return ok
		}},
		{"writer-retention", "qwriter.WriteGood", "qwriter.WriteBad", func(f *ssa.Function) bool {
			return retains(f.Params[1], 0, map[ssa.Value]bool{}) == ""
		}},
		{"zero-expiry-guard", "ExpGood", "ExpBad", func(f *ssa.Function) bool {
			ok := false
			for _, c := range Calls(f, false, "time:Time.After") {
				for _, ft := range Facts(c.Block()) {
					if zc, isC := stripValue(ft.Cond).(*ssa.Call); isC && CalleeOf(zc).Is("time:Time.IsZero") && !ft.Pol {
						ok = true
					}
				}
			}
			return ok
		}},
	}
	for _, c := range ctls {
		g, b := fn(c.good), fn(c.bad)
		if g == nil || b == nil {
			r.Broken("control %s: example functions missing", c.name)
			continue
		}
		okG, okB := safeTest(c.test, g), safeTest(c.test, b)
		if okG && !okB {
			r.Controls = append(r.Controls, c.name+": accepts "+c.good+", rejects "+c.bad)
		} else {
			r.Broken("control %s failed: primitive says good=%v bad=%v (want true,false)", c.name, okG, okB)
		}
	}
}

func safeTest(t func(*ssa.Function) bool, f *ssa.Function) (ok bool) {
	defer func() {
		if e := recover(); e != nil {
			ok = false
		}
	}()
	return t(f)
}

func pkgErrs(pkgs []*packages.Package) string {
	var out []string
	for _, p := range pkgs {
		for _, e := range p.Errors {
			out = append(out, e.Error())
		}
	}
	return fmt.Sprint(out)
}

func controlsDir() string {
	var cands []string
	if exe, err := os.Executable(); err == nil {
		cands = append(cands, filepath.Join(filepath.Dir(exe), "controls"))
	}
	cands = append(cands, "/verif/checker/controls")
	for _, c := range cands {
		if _, err := os.Stat(filepath.Join(c, "controls.go")); err == nil {
			return c
		}
	}
	return ""
}
