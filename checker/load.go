package main

import (
	"fmt"
	"go/token"
	"go/types"
	"os"
	"path/filepath"
	"sort"
	"strings"

	"golang.org/x/tools/go/packages"
	"golang.org/x/tools/go/ssa"
)

// Module is the import-path prefix of the repository under analysis.
const Module = "tunnox-core"

// Prog is the resolved program: type-checked packages of /repo plus the SSA
// form of every function that has source in the repository.
type Prog struct {
	Repo    string
	Fset    *token.FileSet
	Pkgs    []*packages.Package // repository packages only (sorted by path)
	ByPath  map[string]*packages.Package
	SSA     *ssa.Program
	SSAPkgs map[string]*ssa.Package
	// Funcs lists every function with a body whose package is in the
	// repository, anonymous functions included.
	Funcs []*ssa.Function

	declCache map[*ssa.Function]string
}

var dumpingNames bool
var canonNotes []string

// PackageFloor is the minimum number of repository packages a load must
// yield to be accepted as "the program"; 116 on the pinned tree.
const PackageFloor = 100

// Load type-checks the repository at dir (production files, no tests) and
// builds SSA for its packages. overlay maps absolute file names to
// replacement contents (used by mutant witnesses; never written to disk).
func Load(dir string, overlay map[string][]byte) (*Prog, error) {
	fset := token.NewFileSet()
	cfg := &packages.Config{
		Mode: packages.NeedName | packages.NeedFiles | packages.NeedCompiledGoFiles |
			packages.NeedImports | packages.NeedDeps | packages.NeedTypes |
			packages.NeedSyntax | packages.NeedTypesInfo | packages.NeedTypesSizes | packages.NeedModule,
		Dir:     dir,
		Fset:    fset,
		Tests:   false,
		Overlay: overlay,
		Env:     goEnv(),
	}
	initial, err := packages.Load(cfg, "./...")
	if err != nil {
		return nil, fmt.Errorf("packages.Load: %w", err)
	}
	var errs []string
	packages.Visit(initial, nil, func(p *packages.Package) {
		for _, e := range p.Errors {
			errs = append(errs, e.Error())
		}
	})
	if len(errs) > 0 {
		sort.Strings(errs)
		if len(errs) > 10 {
			errs = errs[:10]
		}
		return nil, fmt.Errorf("type/load errors (cannot analyse):\n  %s", strings.Join(errs, "\n  "))
	}
	// functions renamed with respect to the reference tree are read under their reference names
	// (see canon.go): rewrite in memory and load once more
	if os.Getenv("TV_NOCANON") == "" && !dumpingNames {
		var repoPkgs []*packages.Package
		for _, pk := range initial {
			if pk.PkgPath == Module || strings.HasPrefix(pk.PkgPath, Module+"/") {
				repoPkgs = append(repoPkgs, pk)
			}
		}
		if ren := funcRenames(repoPkgs); len(ren) > 0 {
			if ov := renameOverlay(repoPkgs, ren, overlay); ov != nil {
				for k, v := range overlay {
					if _, has := ov[k]; !has {
						ov[k] = v
					}
				}
				fset2 := token.NewFileSet()
				cfg2 := *cfg
				cfg2.Fset = fset2
				cfg2.Overlay = ov
				if again, err2 := packages.Load(&cfg2, "./..."); err2 == nil {
					bad := false
					packages.Visit(again, nil, func(p *packages.Package) {
						if len(p.Errors) > 0 {
							bad = true
						}
					})
					if !bad {
						initial, fset = again, fset2
						canonNotes = append(canonNotes, fmt.Sprintf("%d renamed function(s) read under their reference names", len(ren)))
					}
				}
			}
		}
	}
	p := &Prog{Repo: dir, Fset: fset, ByPath: map[string]*packages.Package{}, SSAPkgs: map[string]*ssa.Package{},
		declCache: map[*ssa.Function]string{}}
	for _, pk := range initial {
		if pk.PkgPath == Module || strings.HasPrefix(pk.PkgPath, Module+"/") {
			p.Pkgs = append(p.Pkgs, pk)
			p.ByPath[pk.PkgPath] = pk
		}
	}
	sort.Slice(p.Pkgs, func(i, j int) bool { return p.Pkgs[i].PkgPath < p.Pkgs[j].PkgPath })
	if len(p.Pkgs) < PackageFloor {
		return nil, fmt.Errorf("only %d repository packages loaded (floor %d): cannot analyse", len(p.Pkgs), PackageFloor)
	}

	// SSA: create every package (so that calls into dependencies resolve to
	// function objects), build bodies only for repository packages.
	prog := ssa.NewProgram(fset, ssa.InstantiateGenerics)
	created := map[*types.Package]bool{}
	packages.Visit(initial, nil, func(pk *packages.Package) {
		if pk.Types == nil || created[pk.Types] {
			return
		}
		created[pk.Types] = true
		if pk.TypesInfo != nil && len(pk.Syntax) > 0 {
			prog.CreatePackage(pk.Types, pk.Syntax, pk.TypesInfo, true)
		} else {
			prog.CreatePackage(pk.Types, nil, nil, true)
		}
	})
	p.SSA = prog
	for _, pk := range p.Pkgs {
		sp := prog.Package(pk.Types)
		if sp == nil {
			return nil, fmt.Errorf("no SSA package for %s", pk.PkgPath)
		}
		sp.Build()
		p.SSAPkgs[pk.PkgPath] = sp
	}
	// Enumerate source functions (members, methods, anonymous functions).
	seen := map[*ssa.Function]bool{}
	var add func(f *ssa.Function)
	add = func(f *ssa.Function) {
		if f == nil || seen[f] {
			return
		}
		seen[f] = true
		if len(f.Blocks) > 0 {
			p.Funcs = append(p.Funcs, f)
		}
		for _, a := range f.AnonFuncs {
			add(a)
		}
	}
	for _, pk := range p.Pkgs {
		sp := p.SSAPkgs[pk.PkgPath]
		var names []string
		for n := range sp.Members {
			names = append(names, n)
		}
		sort.Strings(names)
		for _, n := range names {
			switch m := sp.Members[n].(type) {
			case *ssa.Function:
				add(m)
			case *ssa.Type:
				nt, ok := m.Type().(*types.Named)
				if !ok {
					continue
				}
				for _, T := range []types.Type{nt, types.NewPointer(nt)} {
					ms := prog.MethodSets.MethodSet(T)
					for i := 0; i < ms.Len(); i++ {
						fn := prog.MethodValue(ms.At(i))
						if fn != nil && fn.Synthetic == "" && fn.Pkg == sp {
							add(fn)
						}
					}
				}
			}
		}
	}
	// comparisons are read with the constant on the right: `0 < n`, `nil == err`, `Max < length` are
	// rewritten in place to `n > 0`, `err == nil`, `length > Max` (the rules name the operands by
	// position; which side the author put the constant on is not semantics)
	for _, f := range p.Funcs {
		for _, b := range f.Blocks {
			for _, in := range b.Instrs {
				bo, ok := in.(*ssa.BinOp)
				if !ok {
					continue
				}
				_, xc := bo.X.(*ssa.Const)
				_, yc := bo.Y.(*ssa.Const)
				if !xc && !yc {
					// neither is a constant: a configured limit (a field of a *Config struct, or a field
					// named max*/limit*) is read on the right as well: `cfg.MaxFailures <= n` -> `n >= cfg.MaxFailures`
					xc, yc = limitLike(bo.X), limitLike(bo.Y)
				}
				if !xc || yc {
					continue
				}
				switch bo.Op {
				case token.EQL, token.NEQ:
				case token.LSS:
					bo.Op = token.GTR
				case token.GTR:
					bo.Op = token.LSS
				case token.LEQ:
					bo.Op = token.GEQ
				case token.GEQ:
					bo.Op = token.LEQ
				default:
					continue
				}
				bo.X, bo.Y = bo.Y, bo.X
			}
		}
	}
	sort.SliceStable(p.Funcs, func(i, j int) bool { return p.FuncName(p.Funcs[i]) < p.FuncName(p.Funcs[j]) })
	theProg = p
	return p, nil
}

// goEnv pins the go command used by go/packages to the cached 1.24.4
// toolchain (the repository's go.mod demands it; the default go is older and
// cannot switch by itself with GOSUMDB=off / GOTOOLCHAIN=local).
func goEnv() []string {
	env := os.Environ()
	path := os.Getenv("PATH")
	for _, root := range []string{os.Getenv("GOMODCACHE"), filepath.Join(os.Getenv("HOME"), "go/pkg/mod"), "/root/go/pkg/mod"} {
		if root == "" {
			continue
		}
		tc := filepath.Join(root, "golang.org/toolchain@v0.0.1-go1.24.4.linux-amd64")
		if _, err := os.Stat(filepath.Join(tc, "bin/go")); err == nil {
			path = filepath.Join(tc, "bin") + string(os.PathListSeparator) + path
			var out []string
			for _, e := range env {
				if !strings.HasPrefix(e, "GOROOT=") && !strings.HasPrefix(e, "PATH=") {
					out = append(out, e)
				}
			}
			env = out
			break
		}
	}
	os.Setenv("PATH", path) // exec.LookPath("go") consults this process's PATH
	os.Unsetenv("GOROOT")
	return append(env, "PATH="+path, "GOFLAGS=-mod=mod", "GOPROXY=off", "GOWORK=off", "GOTOOLCHAIN=local", "CGO_ENABLED=0")
}

// rel shortens an import path of the repository: "tunnox-core/internal/stream" -> "internal/stream".
func rel(path string) string { return strings.TrimPrefix(path, Module+"/") }

// FuncName gives a stable, line-free name: "internal/stream.(*StreamProcessor).ReadPacket" or
// "...ReadPacket$1" for closures.
func (p *Prog) FuncName(f *ssa.Function) string {
	if f == nil {
		return "<nil>"
	}
	if p == nil {
		return f.String()
	}
	if s, ok := p.declCache[f]; ok {
		return s
	}
	s := f.String()
	s = strings.ReplaceAll(s, Module+"/", "")
	p.declCache[f] = s
	return s
}

// Pos renders a position relative to the repository root.
func (p *Prog) Pos(pos token.Pos) string {
	if !pos.IsValid() {
		return "-"
	}
	ps := p.Fset.Position(pos)
	f := strings.TrimPrefix(ps.Filename, p.Repo+"/")
	return fmt.Sprintf("%s:%d", f, ps.Line)
}

// Fn finds a function or method by package (repository-relative path) and
// name: "NewX", "T.Method" (pointer or value receiver). nil if absent.
func (p *Prog) Fn(pkg, name string) *ssa.Function {
	sp := p.SSAPkgs[Module+"/"+pkg]
	if sp == nil {
		return nil
	}
	if i := strings.Index(name, "."); i >= 0 {
		tn, mn := name[:i], name[i+1:]
		m, ok := sp.Members[tn].(*ssa.Type)
		if !ok {
			return nil
		}
		for _, T := range []types.Type{types.NewPointer(m.Type()), m.Type()} {
			sel := p.SSA.MethodSets.MethodSet(T).Lookup(sp.Pkg, mn)
			if sel != nil {
				if fn := p.SSA.MethodValue(sel); fn != nil && fn.Synthetic == "" {
					return fn
				}
			}
		}
		return nil
	}
	if f, ok := sp.Members[name].(*ssa.Function); ok {
		return f
	}
	return nil
}

// FuncsIn lists source functions (incl. closures) of one repository package.
func (p *Prog) FuncsIn(pkg string) []*ssa.Function {
	var out []*ssa.Function
	for _, f := range p.Funcs {
		if f.Pkg != nil && f.Pkg.Pkg.Path() == Module+"/"+pkg {
			out = append(out, f)
		}
	}
	return out
}

// WithAnon returns f and all closures nested in it.
func WithAnon(f *ssa.Function) []*ssa.Function {
	if f == nil {
		return nil
	}
	out := []*ssa.Function{f}
	for _, a := range f.AnonFuncs {
		out = append(out, WithAnon(a)...)
	}
	return out
}

// Outermost returns the declared function that (transitively) encloses f.
func Outermost(f *ssa.Function) *ssa.Function {
	for f.Parent() != nil {
		f = f.Parent()
	}
	return f
}

// limitLike: v is a load of a configuration limit (a field of a struct whose type name ends in
// "Config", or an unexported/exported field whose name starts with max or limit).
func limitLike(v ssa.Value) bool {
	for i := 0; i < 3; i++ {
		switch x := v.(type) {
		case *ssa.Convert:
			v = x.X
			continue
		case *ssa.ChangeType:
			v = x.X
			continue
		}
		break
	}
	u, ok := v.(*ssa.UnOp)
	if !ok || u.Op != token.MUL {
		return false
	}
	fa, ok := u.X.(*ssa.FieldAddr)
	if !ok {
		return false
	}
	t := fa.X.Type()
	if p, ok := t.Underlying().(*types.Pointer); ok {
		t = p.Elem()
	}
	st, ok := t.Underlying().(*types.Struct)
	if !ok || fa.Field >= st.NumFields() {
		return false
	}
	fn := strings.ToLower(st.Field(fa.Field).Name())
	if strings.HasPrefix(fn, "max") || strings.HasPrefix(fn, "limit") {
		return true
	}
	if n, ok := t.(*types.Named); ok && strings.HasSuffix(n.Obj().Name(), "Config") {
		return true
	}
	return false
}
