package main

import (
	"fmt"
	"go/constant"
	"go/token"
	"go/types"
	"sort"
	"strings"

	"golang.org/x/tools/go/ssa"
)

// ---------------------------------------------------------------------------
// Callee resolution

// Callee describes the resolved target of a call instruction.
type Callee struct {
	Pkg  string // package path relative to the module ("internal/stream") or full path for deps ("io")
	Recv string // receiver named type ("StreamProcessor", "Reader") or ""
	Name string // function or method name
	Fn   *ssa.Function
	Obj  *types.Func
}

func (c Callee) String() string {
	if c.Name == "" {
		return "<dynamic>"
	}
	if c.Recv != "" {
		return c.Pkg + "." + c.Recv + "." + c.Name
	}
	return c.Pkg + "." + c.Name
}

func recvTypeName(t types.Type) (pkg, name string) {
	if p, ok := t.(*types.Pointer); ok {
		t = p.Elem()
	}
	t = types.Unalias(t)
	if n, ok := t.(*types.Named); ok {
		if n.Obj().Pkg() != nil {
			pkg = n.Obj().Pkg().Path()
		}
		return pkg, n.Obj().Name()
	}
	return "", t.String()
}

func calleeOfObj(obj *types.Func, fn *ssa.Function) Callee {
	c := Callee{Name: obj.Name(), Obj: obj, Fn: fn}
	if obj.Pkg() != nil {
		c.Pkg = rel(obj.Pkg().Path())
	}
	if sig, ok := obj.Type().(*types.Signature); ok && sig.Recv() != nil {
		pk, n := recvTypeName(sig.Recv().Type())
		c.Recv = n
		if pk != "" {
			c.Pkg = rel(pk)
		}
	}
	return c
}

// CalleeOf resolves a call through the type information: static callees
// (functions, concrete methods), interface methods (by their *types.Func),
// builtins (Pkg "builtin") and closures bound at the call (`func(){..}()` and
// `defer func(){..}()`), which are reported with Name "$closure".
func CalleeOf(ci ssa.CallInstruction) Callee {
	com := ci.Common()
	if com.IsInvoke() {
		return calleeOfObj(com.Method, nil)
	}
	switch v := com.Value.(type) {
	case *ssa.Builtin:
		return Callee{Pkg: "builtin", Name: v.Name()}
	case *ssa.Function:
		if obj, ok := v.Object().(*types.Func); ok && obj != nil {
			// instantiated generics: use origin's name, and the generic body (the instance
			// referenced from inside another generic body has no blocks and no package)
			if o := v.Origin(); o != nil && (len(v.Blocks) == 0 || v.Pkg == nil) {
				v = o
			}
			return calleeOfObj(obj, v)
		}
		return Callee{Name: "$closure", Fn: v}
	case *ssa.MakeClosure:
		if f, ok := v.Fn.(*ssa.Function); ok {
			if obj, ok := f.Object().(*types.Func); ok && obj != nil {
				return calleeOfObj(obj, f) // bound method value
			}
			return Callee{Name: "$closure", Fn: f}
		}
	}
	return Callee{}
}

// Is reports whether the callee matches spec. spec forms:
//
//	"Name"                 any function/method with that name
//	"Recv.Name"            method Name on named type Recv (any package)
//	"pkg:Name"/"pkg:Recv.Name"   additionally constrain the package (suffix match)
func (c Callee) Is(specs ...string) bool {
	for _, spec := range specs {
		pk := ""
		if i := strings.Index(spec, ":"); i >= 0 {
			pk, spec = spec[:i], spec[i+1:]
		}
		if pk != "" && c.Pkg != pk && !strings.HasSuffix(c.Pkg, "/"+pk) {
			continue
		}
		if i := strings.Index(spec, "."); i >= 0 {
			if c.Recv == spec[:i] && c.Name == spec[i+1:] {
				return true
			}
			continue
		}
		if c.Name == spec {
			return true
		}
	}
	return false
}

// Instrs iterates over all instructions of f (not closures).
func Instrs(f *ssa.Function, fn func(ssa.Instruction)) {
	for _, b := range f.Blocks {
		for _, in := range b.Instrs {
			fn(in)
		}
	}
}

// Calls returns the call instructions (call, go, defer) in f — closures
// included when deep — whose callee matches one of specs.
func Calls(f *ssa.Function, deep bool, specs ...string) []ssa.CallInstruction {
	var out []ssa.CallInstruction
	fs := []*ssa.Function{f}
	if deep {
		fs = WithAnon(f)
	}
	for _, g := range fs {
		Instrs(g, func(in ssa.Instruction) {
			if ci, ok := in.(ssa.CallInstruction); ok {
				if CalleeOf(ci).Is(specs...) {
					out = append(out, ci)
				}
			}
		})
	}
	return out
}

// AllCalls returns program-wide call sites matching specs.
func (p *Prog) AllCalls(specs ...string) []ssa.CallInstruction {
	var out []ssa.CallInstruction
	for _, f := range p.Funcs {
		out = append(out, Calls(f, false, specs...)...)
	}
	return out
}

func instrFunc(in ssa.Instruction) *ssa.Function { return in.Parent() }

// CallPos gives a usable position for a call instruction.
func CallPos(ci ssa.CallInstruction) token.Pos {
	if p := ci.Pos(); p.IsValid() {
		return p
	}
	return ci.Common().Pos()
}

// Arg returns the i-th explicit argument (receiver excluded) of a call.
func Arg(ci ssa.CallInstruction, i int) ssa.Value {
	com := ci.Common()
	args := com.Args
	if !com.IsInvoke() {
		if sig, ok := com.Value.Type().Underlying().(*types.Signature); ok && sig.Recv() != nil {
			// static method call: receiver is Args[0]
			if i+1 < len(args) {
				return args[i+1]
			}
			return nil
		}
		if f, ok := com.Value.(*ssa.Function); ok && f.Signature.Recv() != nil {
			if i+1 < len(args) {
				return args[i+1]
			}
			return nil
		}
	}
	if i < len(args) {
		return args[i]
	}
	return nil
}

// Recv returns the receiver value of a method call (static or invoke).
func Recv(ci ssa.CallInstruction) ssa.Value {
	com := ci.Common()
	if com.IsInvoke() {
		return com.Value
	}
	if f, ok := com.Value.(*ssa.Function); ok && f.Signature.Recv() != nil && len(com.Args) > 0 {
		return com.Args[0]
	}
	return nil
}

// ---------------------------------------------------------------------------
// Dominance facts

// Fact is a branch condition known to hold (Pol=true) or not hold on entry to
// a block because an If edge dominates it.
type Fact struct {
	Cond ssa.Value
	Pol  bool
	If   *ssa.If
}

func edgeOnly(from, to *ssa.BasicBlock) bool {
	for _, p := range to.Preds {
		if p != from && !to.Dominates(p) {
			return false
		}
	}
	// a block that is both successors of the same If carries no fact
	n := 0
	for _, s := range from.Succs {
		if s == to {
			n++
		}
	}
	return n == 1
}

// Facts returns the branch facts that dominate block b, nearest first.
// Negations are normalised away (UnOp NOT flips polarity).
func Facts(b *ssa.BasicBlock) []Fact {
	out := localFacts(b)
	if b == nil || importDepth >= 2 {
		return out
	}
	return append(out, importedFacts(b, out)...)
}

// localFacts: the facts established by branches of b's own function.
func localFacts(b *ssa.BasicBlock) []Fact {
	return expandPhiFacts(baseFacts(b))
}

func expandPhiFacts(out []Fact) []Fact {
	// `x := a && (b || c); if x {...}` lowers to an If on a phi of booleans:
	// the phi being true (false) excludes the predecessors that feed the
	// constant false (true), so the facts common to the remaining
	// predecessors also hold.
	seen := map[*ssa.Phi]bool{}
	for i := 0; i < len(out) && i < 64; i++ {
		ph, ok := out[i].Cond.(*ssa.Phi)
		if !ok || seen[ph] {
			continue
		}
		seen[ph] = true
		var common []Fact
		first := true
		for ei, e := range ph.Edges {
			if cb, isC := ConstBool(e); isC && cb != out[i].Pol {
				continue // this predecessor cannot have been taken
			}
			pred := ph.Block().Preds[ei]
			pf := baseFacts(pred)
			// the edge pred->phi block itself may carry a fact
			if len(pred.Instrs) > 0 {
				if iff, ok := pred.Instrs[len(pred.Instrs)-1].(*ssa.If); ok && pred.Succs[0] != pred.Succs[1] {
					for si, sblk := range pred.Succs {
						if sblk == ph.Block() {
							c, pol := normCond(iff.Cond, si == 0)
							pf = append(pf, Fact{Cond: c, Pol: pol, If: iff})
						}
					}
				}
			}
			if _, isC := ConstBool(e); !isC {
				// on this edge the phi IS e, so e has the phi's polarity (the last conjunct of
				// `a && b` / disjunct of `a || b`, or a nested phi to expand further)
				c, pol := normCond(e, out[i].Pol)
				// ... unless this predecessor is entered only where e has the other polarity: then the
				// predecessor cannot have been taken (`ok := found; if found && stale { ok = false }; if ok`:
				// the edge that skips the staleness test carries found == false)
				infeasible := false
				for _, have := range pf {
					if have.Cond == c && have.Pol != pol {
						infeasible = true
					}
				}
				if infeasible {
					continue
				}
				pf = append(pf, Fact{Cond: c, Pol: pol, If: out[i].If})
			}
			if first {
				common, first = pf, false
				continue
			}
			var keep []Fact
			for _, a := range common {
				for _, bf := range pf {
					if a.Cond == bf.Cond && a.Pol == bf.Pol {
						keep = append(keep, a)
						break
					}
				}
			}
			common = keep
		}
		out = append(out, common...)
	}
	return out
}

func baseFacts(b *ssa.BasicBlock) []Fact {
	var out []Fact
	for d := b.Idom(); d != nil; d = d.Idom() {
		if len(d.Instrs) == 0 {
			continue
		}
		iff, ok := d.Instrs[len(d.Instrs)-1].(*ssa.If)
		if !ok {
			continue
		}
		for i, s := range d.Succs {
			if (s == b || s.Dominates(b)) && edgeOnly(d, s) {
				c, pol := normCond(iff.Cond, i == 0)
				out = append(out, Fact{Cond: c, Pol: pol, If: iff})
			}
		}
	}
	return out
}

// FactsAt returns the facts dominating an instruction.
func FactsAt(in ssa.Instruction) []Fact { return Facts(in.Block()) }

func normCond(v ssa.Value, pol bool) (ssa.Value, bool) {
	for {
		u, ok := v.(*ssa.UnOp)
		if !ok || u.Op != token.NOT {
			return v, pol
		}
		v, pol = u.X, !pol
	}
}

func isNil(v ssa.Value) bool {
	c, ok := v.(*ssa.Const)
	return ok && c.IsNil()
}

// NilTest decodes `x == nil` / `x != nil`; returns x and whether the
// condition being true means "x is nil".
func NilTest(cond ssa.Value) (x ssa.Value, trueMeansNil bool, ok bool) {
	b, isb := cond.(*ssa.BinOp)
	if !isb || (b.Op != token.EQL && b.Op != token.NEQ) {
		return nil, false, false
	}
	switch {
	case isNil(b.Y):
		x = b.X
	case isNil(b.X):
		x = b.Y
	default:
		return nil, false, false
	}
	return x, b.Op == token.EQL, true
}

// FactNil interprets a fact as a nil-ness statement about a value:
// returns (x, isNil, true) when the fact says "x is nil" or "x is not nil".
func (f Fact) FactNil() (ssa.Value, bool, bool) {
	x, tmn, ok := NilTest(f.Cond)
	if !ok {
		return nil, false, false
	}
	return x, tmn == f.Pol, true
}

// stripValue removes value-preserving wrappers.
func stripValue(v ssa.Value) ssa.Value {
	for {
		switch x := v.(type) {
		case *ssa.ChangeType:
			v = x.X
		case *ssa.ChangeInterface:
			v = x.X
		case *ssa.MakeInterface:
			v = x.X
		case *ssa.Convert:
			v = x.X
		default:
			return v
		}
	}
}

// CallOfValue returns the call instruction that produced v (directly, or via
// Extract of a tuple, possibly through local-variable spills and phis).
func CallOfValue(v ssa.Value) (*ssa.Call, int) {
	calls := callsOfValue(v, map[ssa.Value]bool{})
	if len(calls) == 1 {
		return calls[0].c, calls[0].i
	}
	return nil, -1
}

type callIdx struct {
	c *ssa.Call
	i int
}

func callsOfValue(v ssa.Value, seen map[ssa.Value]bool) []callIdx {
	v = stripValue(v)
	if seen[v] {
		return nil
	}
	seen[v] = true
	switch x := v.(type) {
	case *ssa.Call:
		return []callIdx{{x, -1}}
	case *ssa.Extract:
		if c, ok := x.Tuple.(*ssa.Call); ok {
			return []callIdx{{c, x.Index}}
		}
	case *ssa.Phi:
		var out []callIdx
		for _, e := range x.Edges {
			out = append(out, callsOfValue(e, seen)...)
		}
		return out
	case *ssa.UnOp:
		if x.Op == token.MUL {
			if a, ok := x.X.(*ssa.Alloc); ok {
				var out []callIdx
				for _, s := range storesTo(a) {
					out = append(out, callsOfValue(s.Val, seen)...)
				}
				return out
			}
		}
	}
	return nil
}

// storesTo lists the Store instructions whose address is exactly a.
func storesTo(a ssa.Value) []*ssa.Store {
	var out []*ssa.Store
	if a.Referrers() == nil {
		return nil
	}
	for _, r := range *a.Referrers() {
		if s, ok := r.(*ssa.Store); ok && s.Addr == a {
			out = append(out, s)
		}
	}
	return out
}

// ErrOK reports whether facts (dominating `at`) include "the error result of
// call c is nil". The error may have been spilled to a local or flow through
// a phi whose other edges are nil constants.
func ErrOK(at *ssa.BasicBlock, c ssa.CallInstruction) bool {
	for _, f := range Facts(at) {
		x, isnil, ok := f.FactNil()
		if !ok || !isnil {
			continue
		}
		if valueFromCall(x, c) {
			return true
		}
	}
	return false
}

// ErrFailed: facts include "error result of c is non-nil".
func ErrFailed(at *ssa.BasicBlock, c ssa.CallInstruction) bool {
	for _, f := range Facts(at) {
		x, isnil, ok := f.FactNil()
		if !ok || isnil {
			continue
		}
		if valueFromCall(x, c) {
			return true
		}
	}
	return false
}

// valueFromCall: v is (a result of) call c, looking through extracts,
// conversions, and phis all of whose non-nil edges come from c.
func valueFromCall(v ssa.Value, c ssa.CallInstruction) bool {
	return valueFromCallRec(v, c, map[ssa.Value]bool{})
}

func valueFromCallRec(v ssa.Value, c ssa.CallInstruction, seen map[ssa.Value]bool) bool {
	v = stripValue(v)
	if seen[v] {
		return false
	}
	seen[v] = true
	cv, _ := c.(ssa.Value)
	switch x := v.(type) {
	case *ssa.Call:
		return ssa.Value(x) == cv
	case *ssa.Extract:
		return x.Tuple == cv
	case *ssa.Phi:
		any := false
		for _, e := range x.Edges {
			if isNil(e) {
				continue
			}
			if !valueFromCallRec(e, c, seen) {
				return false
			}
			any = true
		}
		return any
	case *ssa.UnOp:
		if x.Op == token.MUL {
			if a, ok := x.X.(*ssa.Alloc); ok {
				st := storesTo(a)
				any := false
				for _, s := range st {
					if isNil(s.Val) {
						continue
					}
					if !valueFromCallRec(s.Val, c, seen) {
						return false
					}
					any = true
				}
				return any
			}
		}
	}
	return false
}

// CallFact looks for a dominating fact whose condition is a call matching
// specs (boolean result), returning the polarity; e.g. "IsValid() is true".
func CallFact(at *ssa.BasicBlock, specs ...string) (call *ssa.Call, pol bool, found bool) {
	for _, f := range Facts(at) {
		if c, ok := stripValue(f.Cond).(*ssa.Call); ok && CalleeOf(c).Is(specs...) {
			return c, f.Pol, true
		}
	}
	return nil, false, false
}

// ---------------------------------------------------------------------------
// Path search

// Walk actions.
const (
	Cont = iota // continue along the path
	Stop        // barrier: do not continue past this instruction
	Hit         // record and stop
)

// WalkFrom explores all CFG paths forward starting *after* instruction `from`
// (or from the start of block `blk` when from is nil). visit decides per
// instruction. edgeOK, when non-nil, can prune If edges (block, succ index).
// Returns the instructions on which visit answered Hit.
func WalkFrom(blk *ssa.BasicBlock, from ssa.Instruction, visit func(ssa.Instruction) int,
	edgeOK func(b *ssa.BasicBlock, succ int) bool) []ssa.Instruction {
	var hits []ssa.Instruction
	// The search is path-sensitive for boolean flags: a block is explored once per predecessor it is
	// entered from, and an `if flag` whose flag is a phi of this block takes only the successor that
	// agrees with the value the phi receives on that entry edge (a constant, or the very condition the
	// predecessor branched on). `found := false; if ... { found = true }; if found {...}` and
	// `if exists && expired { exists = false }; if !exists {...}` do not produce infeasible paths.
	type state struct{ b, pred *ssa.BasicBlock }
	seen := map[state]bool{}
	var walkBlock func(b *ssa.BasicBlock, start int, pred *ssa.BasicBlock)
	walkBlock = func(b *ssa.BasicBlock, start int, pred *ssa.BasicBlock) {
		for i := start; i < len(b.Instrs); i++ {
			switch visit(b.Instrs[i]) {
			case Stop:
				return
			case Hit:
				hits = append(hits, b.Instrs[i])
				return
			}
		}
		only := -1
		if pred != nil {
			only = phiBranch(b, pred)
		}
		for si, s := range b.Succs {
			if only >= 0 && si != only {
				continue
			}
			if edgeOK != nil && !edgeOK(b, si) {
				continue
			}
			st := state{s, b}
			if !seen[st] {
				seen[st] = true
				walkBlock(s, 0, b)
			}
		}
	}
	start := 0
	if from != nil {
		blk = from.Block()
		for i, in := range blk.Instrs {
			if in == from {
				start = i + 1
			}
		}
	}
	walkBlock(blk, start, nil)
	return hits
}

// phiBranch: block b, entered from pred, ends with an If on a bool phi of b whose value on that entry
// edge is known; returns the only feasible successor index, or -1.
func phiBranch(b, pred *ssa.BasicBlock) int {
	if len(b.Instrs) == 0 {
		return -1
	}
	iff, ok := b.Instrs[len(b.Instrs)-1].(*ssa.If)
	if !ok {
		return -1
	}
	c, pol := normCond(iff.Cond, true)
	ph, ok := c.(*ssa.Phi)
	if !ok || ph.Block() != b {
		return -1
	}
	pi := -1
	for i, p := range b.Preds {
		if p == pred {
			if pi >= 0 {
				return -1 // both edges of the predecessor's branch arrive here
			}
			pi = i
		}
	}
	if pi < 0 || pi >= len(ph.Edges) {
		return -1
	}
	val, known := false, false
	e := ph.Edges[pi]
	if cb, isC := ConstBool(e); isC {
		val, known = cb, true
	} else if len(pred.Instrs) > 0 {
		// the predecessor branched on this very value: the edge taken tells it
		if pif, ok := pred.Instrs[len(pred.Instrs)-1].(*ssa.If); ok && pred.Succs[0] != pred.Succs[1] {
			pc, ppol := normCond(pif.Cond, true)
			ec, epol := normCond(e, true)
			if pc == ec {
				for si, sb := range pred.Succs {
					if sb == b {
						// cond pc is (si == 0) == ppol; e is pc with polarity epol
						condTrue := (si == 0) == ppol
						val, known = condTrue == epol, true
					}
				}
			}
		}
	}
	if !known {
		return -1
	}
	// the If takes Succs[0] when iff.Cond is true; iff.Cond == (phi == pol)
	if val == pol {
		return 0
	}
	return 1
}

// ReachesWithout: is there a path from the entry of f to target that passes no
// instruction satisfying via? (the negation is MustPass)
func ReachesWithout(f *ssa.Function, target ssa.Instruction, via func(ssa.Instruction) bool) bool {
	if len(f.Blocks) == 0 {
		return false
	}
	hits := WalkFrom(f.Blocks[0], nil, func(in ssa.Instruction) int {
		if in == target {
			return Hit
		}
		if via(in) {
			return Stop
		}
		return Cont
	}, nil)
	return len(hits) > 0
}

// MustPass: every path from f's entry to target executes a via instruction first.
func MustPass(f *ssa.Function, target ssa.Instruction, via func(ssa.Instruction) bool) bool {
	return !ReachesWithout(f, target, via)
}

// IsCallTo builds a predicate for WalkFrom/MustPass.
func IsCallTo(specs ...string) func(ssa.Instruction) bool {
	return func(in ssa.Instruction) bool {
		ci, ok := in.(ssa.CallInstruction)
		return ok && CalleeOf(ci).Is(specs...)
	}
}

// Returns lists the Return instructions of f.
func Returns(f *ssa.Function) []*ssa.Return {
	var out []*ssa.Return
	Instrs(f, func(in ssa.Instruction) {
		if r, ok := in.(*ssa.Return); ok {
			if f.Recover != nil && in.Block() == f.Recover {
				return // synthetic exit taken only after a recovered panic
			}
			out = append(out, r)
		}
	})
	return out
}

// RetErrKind classifies the error result (last result) of a return:
// "nil", "nonnil" (a call/alloc/global that is not provably nil), "maybe" (phi mixes).
func RetErrKind(r *ssa.Return) string {
	if len(r.Results) == 0 {
		return "none"
	}
	v := RetVal(r, len(r.Results)-1)
	return nilKind(v, map[ssa.Value]bool{})
}

// RetVal resolves the i-th result of a return. In functions with defer the
// results are spilled to allocs (`*r0 = v; rundefers; return *r0`): the value
// stored last in the returning block is reported.
func RetVal(r *ssa.Return, i int) ssa.Value {
	v := r.Results[i]
	u, ok := v.(*ssa.UnOp)
	if !ok || u.Op != token.MUL {
		return v
	}
	a, ok := u.X.(*ssa.Alloc)
	if !ok {
		return v
	}
	blk := r.Block()
	for j := len(blk.Instrs) - 1; j >= 0; j-- {
		if st, ok := blk.Instrs[j].(*ssa.Store); ok && st.Addr == ssa.Value(a) {
			return st.Val
		}
	}
	return v
}

func nilKind(v ssa.Value, seen map[ssa.Value]bool) string {
	if isNil(v) {
		return "nil"
	}
	if seen[v] {
		return "maybe"
	}
	seen[v] = true
	if p, ok := v.(*ssa.Phi); ok {
		kinds := map[string]bool{}
		for _, e := range p.Edges {
			kinds[nilKind(e, seen)] = true
		}
		if len(kinds) == 1 {
			for k := range kinds {
				return k
			}
		}
		return "maybe"
	}
	return "nonnil"
}

// ---------------------------------------------------------------------------
// Origin (backward slice to roots)

// Root is a leaf of the backward slice of a value.
type Root struct {
	Kind string // param, call, const, field, global, alloc, index, other, freevar, recv
	Desc string
	V    ssa.Value
}

// Origins computes the set of roots v is derived from through value-preserving
// or projection operations (phi, conversions, extracts, loads of locals, field
// loads, slicing, type assertions).
func Origins(v ssa.Value) []Root {
	var out []Root
	seen := map[ssa.Value]bool{}
	var rec func(v ssa.Value)
	add := func(kind, desc string, v ssa.Value) { out = append(out, Root{kind, desc, v}) }
	rec = func(v ssa.Value) {
		if v == nil || seen[v] {
			return
		}
		seen[v] = true
		switch x := v.(type) {
		case *ssa.Const:
			add("const", constString(x), x)
		case *ssa.Parameter:
			add("param", canonParamName(x), x)
		case *ssa.FreeVar:
			add("freevar", canonFreeVarName(x), x)
		case *ssa.Global:
			add("global", x.Name(), x)
		case *ssa.Call:
			add("call", CalleeOf(x).String(), x)
		case *ssa.Extract:
			if c, ok := x.Tuple.(*ssa.Call); ok {
				add("call", fmt.Sprintf("%s#%d", CalleeOf(c).String(), x.Index), x)
			} else {
				rec(x.Tuple)
			}
		case *ssa.Phi:
			for _, e := range x.Edges {
				rec(e)
			}
		case *ssa.ChangeType:
			rec(x.X)
		case *ssa.ChangeInterface:
			rec(x.X)
		case *ssa.MakeInterface:
			rec(x.X)
		case *ssa.Convert:
			rec(x.X)
		case *ssa.TypeAssert:
			rec(x.X)
		case *ssa.Slice:
			rec(x.X)
		case *ssa.Field:
			add("field", fieldDesc(x.X.Type(), x.Field)+"("+originSummary(x.X)+")", x)
		case *ssa.FieldAddr:
			add("field", fieldDesc(x.X.Type(), x.Field)+"("+originSummary(x.X)+")", x)
		case *ssa.UnOp:
			if x.Op == token.MUL {
				switch a := x.X.(type) {
				case *ssa.Alloc:
					st := storesTo(a)
					if len(st) == 0 {
						add("alloc", a.Comment, a)
					}
					for _, s := range st {
						rec(s.Val)
					}
				case *ssa.FieldAddr:
					rec(a)
				case *ssa.IndexAddr:
					add("index", originSummary(a.X), x)
				case *ssa.FreeVar:
					add("freevar", canonFreeVarName(a), a)
				case *ssa.Global:
					add("global", a.Name(), a)
				default:
					rec(x.X)
				}
			} else {
				add("other", x.String(), x)
			}
		case *ssa.Alloc:
			add("alloc", x.Comment, x)
		case *ssa.MakeClosure:
			add("closure", x.Fn.Name(), x)
		case *ssa.Function:
			add("func", x.Name(), x)
		case *ssa.Lookup:
			add("lookup", originSummary(x.X), x)
		case *ssa.BinOp:
			add("binop", x.Op.String(), x)
		default:
			add("other", fmt.Sprintf("%T", v), v)
		}
	}
	rec(v)
	return out
}

func constString(c *ssa.Const) string {
	if c.Value == nil {
		return "nil"
	}
	if c.Value.Kind() == constant.String {
		return constant.StringVal(c.Value)
	}
	return c.Value.ExactString()
}

func fieldDesc(t types.Type, idx int) string {
	if p, ok := t.Underlying().(*types.Pointer); ok {
		t = p.Elem()
	}
	if s, ok := t.Underlying().(*types.Struct); ok && idx < s.NumFields() {
		_, n := ownerTypeName(t)
		return n + "." + canonFieldName(t, s, idx)
	}
	return fmt.Sprintf("field#%d", idx)
}

// originSummary renders the roots of v compactly: "param:req", "call:pkg.F#0".
func originSummary(v ssa.Value) string {
	rs := Origins(v)
	var parts []string
	seen := map[string]bool{}
	for _, r := range rs {
		s := r.Kind + ":" + r.Desc
		if !seen[s] {
			seen[s] = true
			parts = append(parts, s)
		}
	}
	sort.Strings(parts)
	return strings.Join(parts, ",")
}

// FieldOf decodes v as a load of (or address of) a struct field; returns the
// struct's named type, field name and the base value.
func FieldOf(v ssa.Value) (typ, field string, base ssa.Value, ok bool) {
	v = stripValue(v)
	if u, isU := v.(*ssa.UnOp); isU && u.Op == token.MUL {
		v = u.X
	}
	switch x := v.(type) {
	case *ssa.FieldAddr:
		d := fieldDesc(x.X.Type(), x.Field)
		i := strings.LastIndex(d, ".")
		return d[:i], d[i+1:], x.X, true
	case *ssa.Field:
		d := fieldDesc(x.X.Type(), x.Field)
		i := strings.LastIndex(d, ".")
		return d[:i], d[i+1:], x.X, true
	}
	return "", "", nil, false
}

// ---------------------------------------------------------------------------
// Field access enumeration

// FieldAccess is one FieldAddr/Field instruction on a given struct field.
type FieldAccess struct {
	In    ssa.Instruction
	Fn    *ssa.Function
	Write bool // the field itself is stored to, or (for maps) updated/deleted through this access
	Base  ssa.Value
}

// FieldAccesses finds every access to field `field` of named struct type
// `typ` declared in package pkg (module-relative), program-wide.
func (p *Prog) FieldAccesses(pkg, typ, field string) []FieldAccess {
	var out []FieldAccess
	for _, f := range p.Funcs {
		Instrs(f, func(in ssa.Instruction) {
			var xt types.Type
			var idx int
			var base ssa.Value
			switch x := in.(type) {
			case *ssa.FieldAddr:
				xt, idx, base = x.X.Type(), x.Field, x.X
			case *ssa.Field:
				xt, idx, base = x.X.Type(), x.Field, x.X
			default:
				return
			}
			if pt, ok := xt.Underlying().(*types.Pointer); ok {
				xt = pt.Elem()
			}
			pk, tn := ownerTypeName(xt)
			if tn != typ || rel(pk) != pkg {
				return
			}
			st, ok := xt.Underlying().(*types.Struct)
			if !ok || idx >= st.NumFields() || canonFieldName(xt, st, idx) != field {
				return
			}
			out = append(out, FieldAccess{In: in, Fn: f, Write: accessWrites(in.(ssa.Value)), Base: base})
		})
	}
	return out
}

// accessWrites: does the value obtained at this field access get written?
// (Store to the field address; MapUpdate / delete on the loaded map; append
// result stored back counts as Store.)
func accessWrites(v ssa.Value) bool {
	refs := v.Referrers()
	if refs == nil {
		return false
	}
	for _, r := range *refs {
		switch x := r.(type) {
		case *ssa.Store:
			if x.Addr == v {
				return true
			}
		case *ssa.UnOp: // load of the field; look at uses of the loaded value
			if x.Op == token.MUL && x.Referrers() != nil {
				for _, r2 := range *x.Referrers() {
					switch y := r2.(type) {
					case *ssa.MapUpdate:
						if y.Map == ssa.Value(x) {
							return true
						}
					case ssa.CallInstruction:
						if b, ok := y.Common().Value.(*ssa.Builtin); ok && (b.Name() == "delete" || b.Name() == "clear") {
							return true
						}
					}
				}
			}
		}
	}
	return false
}

// ---------------------------------------------------------------------------
// LockSet (must-hold forward dataflow)

// LockID identifies a mutex by the access path of its receiver, e.g. "r.mu".
type lockState map[string]string // id -> "W" | "R"

func lockPath(v ssa.Value) string {
	v = stripValue(v)
	switch x := v.(type) {
	case *ssa.FieldAddr:
		return lockPath(x.X) + "." + fieldName(x.X.Type(), x.Field)
	case *ssa.Field:
		return lockPath(x.X) + "." + fieldName(x.X.Type(), x.Field)
	case *ssa.UnOp:
		if x.Op == token.MUL {
			return lockPath(x.X)
		}
	case *ssa.Parameter:
		return x.Name()
	case *ssa.FreeVar:
		return x.Name()
	case *ssa.Alloc:
		return "local:" + x.Comment
	case *ssa.Global:
		return "global:" + x.Name()
	}
	return "?"
}

func fieldName(t types.Type, idx int) string {
	if p, ok := t.Underlying().(*types.Pointer); ok {
		t = p.Elem()
	}
	if s, ok := t.Underlying().(*types.Struct); ok && idx < s.NumFields() {
		return canonFieldName(t, s, idx)
	}
	return fmt.Sprintf("#%d", idx)
}

// lockOp decodes Lock/Unlock/RLock/RUnlock on sync.Mutex / sync.RWMutex.
func lockOp(ci ssa.CallInstruction) (id, op string, ok bool) {
	c := CalleeOf(ci)
	if c.Pkg != "sync" || (c.Recv != "Mutex" && c.Recv != "RWMutex") {
		return "", "", false
	}
	switch c.Name {
	case "Lock", "Unlock", "RLock", "RUnlock":
	default:
		return "", "", false
	}
	r := Recv(ci)
	if r == nil {
		return "", "", false
	}
	return lockPath(r), c.Name, true
}

// LockSets computes, for every instruction of f, the set of locks certainly
// held immediately before it. Deferred unlocks do not release (they run at
// exit). entry gives locks assumed held on entry (for *Locked helpers).
type LockSets struct {
	before map[ssa.Instruction]lockState
}

func ComputeLockSets(f *ssa.Function, entry lockState) *LockSets {
	in := map[*ssa.BasicBlock]lockState{}
	out := map[*ssa.BasicBlock]lockState{}
	ls := &LockSets{before: map[ssa.Instruction]lockState{}}
	if len(f.Blocks) == 0 {
		return ls
	}
	transfer := func(b *ssa.BasicBlock, st lockState, record bool) lockState {
		cur := lockState{}
		for k, v := range st {
			cur[k] = v
		}
		for _, instr := range b.Instrs {
			if record {
				snap := lockState{}
				for k, v := range cur {
					snap[k] = v
				}
				ls.before[instr] = snap
			}
			ci, ok := instr.(*ssa.Call) // plain calls only: defer/go do not change the held set here
			if !ok {
				continue
			}
			id, op, ok := lockOp(ci)
			if !ok {
				continue
			}
			switch op {
			case "Lock":
				cur[id] = "W"
			case "RLock":
				if cur[id] == "" {
					cur[id] = "R"
				}
			case "Unlock", "RUnlock":
				delete(cur, id)
			}
		}
		return cur
	}
	meet := func(a, b lockState) lockState {
		if a == nil {
			return b
		}
		r := lockState{}
		for k, v := range a {
			if w, ok := b[k]; ok {
				if v == "W" && w == "W" {
					r[k] = "W"
				} else {
					r[k] = "R"
				}
			}
		}
		return r
	}
	if entry == nil {
		entry = lockState{}
	}
	// iterate to fixpoint (top = nil = unvisited)
	changed := true
	for iter := 0; changed && iter < 50; iter++ {
		changed = false
		for _, b := range f.Blocks {
			var st lockState
			if b == f.Blocks[0] {
				st = entry
			} else {
				for _, p := range b.Preds {
					if o, ok := out[p]; ok {
						st = meet(st, tryLockEdge(p, b, o))
					}
				}
				if st == nil {
					continue // unreachable so far
				}
			}
			in[b] = st
			no := transfer(b, st, false)
			if old, ok := out[b]; !ok || !sameLocks(old, no) {
				out[b] = no
				changed = true
			}
		}
	}
	for _, b := range f.Blocks {
		if st, ok := in[b]; ok {
			transfer(b, st, true)
		}
	}
	return ls
}

func sameLocks(a, b lockState) bool {
	if len(a) != len(b) {
		return false
	}
	for k, v := range a {
		if b[k] != v {
			return false
		}
	}
	return true
}

// Held reports the mode ("W","R","") in which a lock whose path ends with
// suffix (e.g. ".mu") is held before instruction in.
func (l *LockSets) Held(in ssa.Instruction, suffix string) string {
	st := l.before[in]
	best := ""
	for k, v := range st {
		if k == suffix || strings.HasSuffix(k, "."+suffix) || strings.HasSuffix(k, suffix) {
			if v == "W" || best == "" {
				best = v
			}
		}
	}
	return best
}

// HeldAll returns the full set held before in.
func (l *LockSets) HeldAll(in ssa.Instruction) map[string]string { return l.before[in] }

// ---------------------------------------------------------------------------
// misc

// IsFresh reports whether base (a pointer to struct) is a freshly allocated
// object in this function (constructor pattern): accesses need no lock.
func IsFresh(base ssa.Value) bool {
	switch x := stripValue(base).(type) {
	case *ssa.Alloc:
		return true
	case *ssa.UnOp:
		if x.Op == token.MUL {
			if a, ok := x.X.(*ssa.Alloc); ok {
				// local variable holding a pointer: all stores are Allocs?
				st := storesTo(a)
				if len(st) == 0 {
					return false
				}
				for _, s := range st {
					if !IsFresh(s.Val) {
						return false
					}
				}
				return true
			}
		}
	}
	return false
}

// ConstInt extracts an integer constant.
func ConstInt(v ssa.Value) (int64, bool) {
	sv := stripValue(v)
	// arithmetic over constants that the SSA builder left unfolded (`limit := int64(Max); limit+1`)
	if bo, isB := sv.(*ssa.BinOp); isB {
		a, ok1 := ConstInt(bo.X)
		b, ok2 := ConstInt(bo.Y)
		if ok1 && ok2 {
			switch bo.Op {
			case token.ADD:
				return a + b, true
			case token.SUB:
				return a - b, true
			case token.MUL:
				return a * b, true
			case token.SHL:
				if b >= 0 && b < 62 {
					return a << uint(b), true
				}
			}
		}
		return 0, false
	}
	c, ok := sv.(*ssa.Const)
	if !ok || c.Value == nil || c.Value.Kind() != constant.Int {
		return 0, false
	}
	n, exact := constant.Int64Val(c.Value)
	return n, exact
}

// ConstBool extracts a boolean constant.
func ConstBool(v ssa.Value) (bool, bool) {
	c, ok := stripValue(v).(*ssa.Const)
	if !ok || c.Value == nil || c.Value.Kind() != constant.Bool {
		return false, false
	}
	return constant.BoolVal(c.Value), true
}

// InLoop reports whether block b lies on a CFG cycle.
func InLoop(b *ssa.BasicBlock) bool {
	seen := map[*ssa.BasicBlock]bool{}
	var stack []*ssa.BasicBlock
	stack = append(stack, b.Succs...)
	for len(stack) > 0 {
		n := stack[len(stack)-1]
		stack = stack[:len(stack)-1]
		if n == b {
			return true
		}
		if seen[n] {
			continue
		}
		seen[n] = true
		stack = append(stack, n.Succs...)
	}
	return false
}

// CanReach: is there a CFG path from the end of block a to the start of block b?
func CanReach(a, b *ssa.BasicBlock) bool {
	seen := map[*ssa.BasicBlock]bool{}
	stack := append([]*ssa.BasicBlock{}, a.Succs...)
	for len(stack) > 0 {
		n := stack[len(stack)-1]
		stack = stack[:len(stack)-1]
		if n == b {
			return true
		}
		if seen[n] {
			continue
		}
		seen[n] = true
		stack = append(stack, n.Succs...)
	}
	return false
}

// Before: instruction a executes before b on every path reaching b within one
// function (a's block dominates b's block, or same block and earlier).
func Before(a, b ssa.Instruction) bool {
	if a.Block() == b.Block() {
		for _, in := range a.Block().Instrs {
			if in == a {
				return true
			}
			if in == b {
				return false
			}
		}
	}
	return a.Block().Dominates(b.Block())
}

func sortStrings(s []string) { sort.Strings(s) }

// ConsistentEdge reports whether taking successor succ of block b is
// compatible with the branch facts that dominate target: an edge asserting
// the opposite polarity of a structurally identical condition lies on no
// feasible path to target (assuming the operands are not written in between).
func ConsistentEdge(b *ssa.BasicBlock, succ int, target *ssa.BasicBlock) bool {
	iff, ok := b.Instrs[len(b.Instrs)-1].(*ssa.If)
	if !ok {
		return true
	}
	c, pol := normCond(iff.Cond, succ == 0)
	for _, ft := range Facts(target) {
		if ft.If == iff {
			continue
		}
		if (ft.Cond == c || sameExpr(ft.Cond, c)) && ft.Pol != pol {
			return false
		}
	}
	return true
}

// OrDeferred widens a "passes this instruction" predicate to deferred
// closures: a `defer func() { ... X ... }()` passed on the path runs X on
// every exit after it.
func OrDeferred(pred func(ssa.Instruction) bool) func(ssa.Instruction) bool {
	return func(in ssa.Instruction) bool {
		if pred(in) {
			return true
		}
		d, ok := in.(*ssa.Defer)
		if !ok {
			return false
		}
		var fn *ssa.Function
		switch v := d.Call.Value.(type) {
		case *ssa.MakeClosure:
			fn, _ = v.Fn.(*ssa.Function)
		case *ssa.Function:
			if v.Parent() != nil {
				fn = v
			}
		}
		if fn == nil {
			return false
		}
		found := false
		Instrs(fn, func(x ssa.Instruction) {
			if pred(x) {
				found = true
			}
		})
		return found
	}
}

// blockLocalValue resolves a load of a local variable to the value stored to
// it last in the same block before the load (named results and spilled
// locals); other values are returned unchanged.
func blockLocalValue(v ssa.Value) ssa.Value {
	u, ok := v.(*ssa.UnOp)
	if !ok || u.Op != token.MUL {
		return v
	}
	a, ok := u.X.(*ssa.Alloc)
	if !ok {
		return v
	}
	blk := u.Block()
	var last ssa.Value
	for _, in := range blk.Instrs {
		if in == ssa.Instruction(u) {
			break
		}
		if st, ok := in.(*ssa.Store); ok && st.Addr == ssa.Value(a) {
			last = st.Val
		}
	}
	if last != nil {
		return last
	}
	return v
}

// unlockBetween returns a (non-deferred) Unlock/RUnlock instruction that lies
// on some path from a to b: the two instructions are then not in one critical
// section even if a lock is held at both. Must-locksets cannot see this when
// the release and re-acquisition sit in a conditional block.
func unlockBetween(a, b ssa.Instruction) ssa.Instruction {
	var found ssa.Instruction
	WalkFrom(nil, a, func(in ssa.Instruction) int {
		if found != nil || in == b {
			return Stop
		}
		if c, ok := in.(*ssa.Call); ok {
			if _, op, ok := lockOp(c); ok && (op == "Unlock" || op == "RUnlock") {
				hits := WalkFrom(nil, in, func(x ssa.Instruction) int {
					if x == b {
						return Hit
					}
					return Cont
				}, nil)
				if len(hits) > 0 {
					found = in
					return Stop
				}
			}
		}
		return Cont
	}, nil)
	return found
}

// ---- function units ---------------------------------------------------------
//
// A rule anchored on one function must survive the routine refactoring that
// splits it into helpers. unitFn is one member of the unit: the root, or a
// same-package function the unit calls statically, passing along the value the
// rule is about (e.g. the connection); Param is that value inside the member.
type unitFn struct {
	Fn    *ssa.Function
	Param *ssa.Parameter
	From  ssa.CallInstruction // call site that brought the member in (nil for the root)
}

// paramUnit collects root and, up to depth levels, the same-package functions
// called with root's parameter `param` (or a member's corresponding parameter)
// as an argument.
func paramUnit(root *ssa.Function, param *ssa.Parameter, depth int) []unitFn {
	out := []unitFn{{root, param, nil}}
	seen := map[*ssa.Function]bool{root: true}
	frontier := out
	for d := 0; d < depth && len(frontier) > 0; d++ {
		var next []unitFn
		for _, m := range frontier {
			for _, g := range WithAnon(m.Fn) {
				Instrs(g, func(in ssa.Instruction) {
					ci, ok := in.(ssa.CallInstruction)
					if !ok {
						return
					}
					cal := ci.Common().StaticCallee()
					if cal == nil || cal.Pkg == nil || root.Pkg == nil || cal.Pkg != root.Pkg || seen[cal] || len(cal.Blocks) == 0 {
						return
					}
					for i, a := range ci.Common().Args {
						if rootOfCapture(stripValue(a)) == ssa.Value(m.Param) && i < len(cal.Params) {
							seen[cal] = true
							u := unitFn{cal, cal.Params[i], ci}
							next = append(next, u)
							out = append(out, u)
							return
						}
					}
				})
			}
		}
		frontier = next
	}
	return out
}

// rootOfCapture looks through a closure's free variable to the captured value
// when that is directly a parameter of the enclosing function.
func rootOfCapture(v ssa.Value) ssa.Value {
	if fv, ok := v.(*ssa.FreeVar); ok {
		fn := fv.Parent()
		if fn != nil && fn.Parent() != nil {
			for i, x := range fn.FreeVars {
				if x == fv {
					// find the MakeClosure in the parent
					var bound ssa.Value
					Instrs(fn.Parent(), func(in ssa.Instruction) {
						if mc, ok := in.(*ssa.MakeClosure); ok && mc.Fn == fn && i < len(mc.Bindings) {
							bound = mc.Bindings[i]
						}
					})
					if bound != nil {
						return stripValue(bound)
					}
				}
			}
		}
	}
	return v
}

// errorPropagated: the error result of call c (a unit member's call of a helper)
// is not swallowed: either c's results are returned as they are, or no success
// return (nil error) of the caller lies on the failed edge and that edge exists.
func errorPropagated(c ssa.CallInstruction) bool {
	f := c.Parent()
	cv, _ := c.(ssa.Value)
	if cv == nil {
		return false
	}
	checked := false
	for _, ret := range Returns(f) {
		for _, res := range ret.Results {
			if valueFromCall(res, c) && res.Type().String() == "error" {
				if !CanReachBlock(c.Block(), ret.Block()) {
					continue
				}
				// returned as is (possibly through the err != nil branch)
				checked = true
			}
		}
		if ErrFailed(ret.Block(), c) {
			checked = true
			if RetErrKind(ret) == "nil" {
				return false
			}
		}
	}
	return checked
}

// evalString partially evaluates a string-valued SSA value: constants, concatenation, and calls of
// static functions whose every return is itself evaluable in terms of their parameters (key-prefix
// helpers). env binds parameters of the function being evaluated.
func evalString(v ssa.Value, env map[*ssa.Parameter]string, depth int) (string, bool) {
	if depth > 6 || v == nil {
		return "", false
	}
	switch x := v.(type) {
	case *ssa.Const:
		if x.Value != nil && x.Value.Kind() == constant.String {
			return constant.StringVal(x.Value), true
		}
		return "", false
	case *ssa.Parameter:
		s, ok := env[x]
		return s, ok
	case *ssa.BinOp:
		if x.Op != token.ADD {
			return "", false
		}
		a, ok1 := evalString(x.X, env, depth+1)
		b, ok2 := evalString(x.Y, env, depth+1)
		return a + b, ok1 && ok2
	case *ssa.ChangeType:
		return evalString(x.X, env, depth+1)
	case *ssa.Convert:
		return evalString(x.X, env, depth+1)
	case *ssa.Phi:
		var first string
		for i, e := range x.Edges {
			s, ok := evalString(e, env, depth+1)
			if !ok || (i > 0 && s != first) {
				return "", false
			}
			first = s
		}
		return first, len(x.Edges) > 0
	case *ssa.Call:
		g := x.Common().StaticCallee()
		if g == nil || len(g.Blocks) == 0 || g.Signature.Results().Len() != 1 {
			return "", false
		}
		sub := map[*ssa.Parameter]string{}
		for i, a := range x.Common().Args {
			if i < len(g.Params) {
				if s, ok := evalString(a, env, depth+1); ok {
					sub[g.Params[i]] = s
				}
			}
		}
		var first string
		rets := Returns(g)
		for i, ret := range rets {
			s, ok := evalString(RetVal(ret, 0), sub, depth+1)
			if !ok || (i > 0 && s != first) {
				return "", false
			}
			first = s
		}
		return first, len(rets) > 0
	}
	return "", false
}

// ---- facts imported from helpers -------------------------------------------------
//
// A check that moved into a same-package helper still guards the caller: when the success of a
// call h(args) dominates a block (its error result is nil there, or its bool result is true
// there), the facts common to every success return of h hold for the arguments. The imported
// facts are the helper's own conditions with its parameters replaced by the call's arguments, so
// rules that look at operands keep working. Depth 2.

var importDepth int

type helperSummary struct {
	errNil []Fact // facts common to all returns whose error result is nil
	isTrue []Fact // facts common to all returns whose single bool result can be true
}

var helperSummaries = map[*ssa.Function]*helperSummary{}

func summariseHelper(h *ssa.Function) *helperSummary {
	if s, ok := helperSummaries[h]; ok {
		return s
	}
	sum := &helperSummary{}
	helperSummaries[h] = sum // cuts recursion
	importDepth++
	defer func() { importDepth-- }()
	res := h.Signature.Results()
	intersect := func(cur []Fact, first bool, fs []Fact) []Fact {
		if first {
			return fs
		}
		var keep []Fact
		for _, a := range cur {
			for _, b := range fs {
				if a.Pol == b.Pol && (a.Cond == b.Cond || sameCond(a.Cond, b.Cond)) {
					keep = append(keep, a)
					break
				}
			}
		}
		return keep
	}
	if res.Len() >= 1 && res.At(res.Len()-1).Type().String() == "error" {
		first := true
		for _, ret := range Returns(h) {
			if RetErrKind(ret) != "nil" {
				continue
			}
			sum.errNil = intersect(sum.errNil, first, Facts(ret.Block()))
			first = false
		}
	}
	if res.Len() == 1 {
		if b, ok := res.At(0).Type().Underlying().(*types.Basic); ok && b.Kind() == types.Bool {
			first := true
			for _, ret := range Returns(h) {
				v := RetVal(ret, 0)
				if cb, isC := ConstBool(v); isC && !cb {
					continue
				}
				fs := Facts(ret.Block())
				if _, isC := ConstBool(v); !isC {
					c, pol := normCond(v, true)
					fs = append(fs, expandPhiFacts([]Fact{{Cond: c, Pol: pol}})...)
				}
				sum.isTrue = intersect(sum.isTrue, first, fs)
				first = false
			}
		}
	}
	return sum
}

// sameCond: two conditions are the same test (same operator on the same operands / the same
// predicate call on the same receiver).
func sameCond(a, b ssa.Value) bool {
	switch x := a.(type) {
	case *ssa.BinOp:
		y, ok := b.(*ssa.BinOp)
		return ok && x.Op == y.Op && (x.X == y.X || sameExpr(x.X, y.X)) && (x.Y == y.Y || sameExpr(x.Y, y.Y))
	case *ssa.Call:
		y, ok := b.(*ssa.Call)
		if !ok || CalleeOf(x).String() != CalleeOf(y).String() || len(x.Call.Args) != len(y.Call.Args) {
			return false
		}
		if x.Call.IsInvoke() && !(x.Call.Value == y.Call.Value || sameExpr(x.Call.Value, y.Call.Value)) {
			return false
		}
		for i := range x.Call.Args {
			if !(x.Call.Args[i] == y.Call.Args[i] || sameExpr(x.Call.Args[i], y.Call.Args[i])) {
				return false
			}
		}
		return true
	}
	return false
}

func importedFacts(b *ssa.BasicBlock, local []Fact) []Fact {
	fn := b.Parent()
	if fn == nil || fn.Pkg == nil {
		return nil
	}
	var out []Fact
	for _, blk := range fn.Blocks {
		if blk == b || !blk.Dominates(b) {
			continue
		}
		for _, in := range blk.Instrs {
			c, ok := in.(*ssa.Call)
			if !ok {
				continue
			}
			h := c.Common().StaticCallee()
			if h == nil || h == fn || h.Pkg != fn.Pkg || len(h.Blocks) == 0 || h.Parent() != nil {
				continue
			}
			var fs []Fact
			res := h.Signature.Results()
			if res.Len() >= 1 && res.At(res.Len()-1).Type().String() == "error" {
				okNil := false
				for _, f := range local {
					if x, isnil, ok := f.FactNil(); ok && isnil && valueFromCall(x, c) {
						okNil = true
					}
				}
				if okNil {
					fs = summariseHelper(h).errNil
				}
			} else if res.Len() == 1 {
				for _, f := range local {
					if f.Cond == ssa.Value(c) && f.Pol {
						fs = summariseHelper(h).isTrue
					}
				}
			}
			for _, f := range fs {
				out = append(out, Fact{Cond: substParams(f.Cond, h, c, 0), Pol: f.Pol, If: f.If})
			}
		}
	}
	return out
}

// substParams rewrites v (a value of helper h) in terms of the caller: parameters become the
// arguments of call c; operators, loads, field addresses and calls over them are shallow copies
// with substituted operands (type and position are kept). Values that do not mention a parameter
// are returned as they are.
func substParams(v ssa.Value, h *ssa.Function, c *ssa.Call, depth int) ssa.Value {
	if v == nil || depth > 6 {
		return v
	}
	switch x := v.(type) {
	case *ssa.Parameter:
		for i, p := range h.Params {
			if p == x && i < len(c.Call.Args) {
				return c.Call.Args[i]
			}
		}
		return v
	case *ssa.BinOp:
		a, b := substParams(x.X, h, c, depth+1), substParams(x.Y, h, c, depth+1)
		if a == x.X && b == x.Y {
			return v
		}
		nb := *x
		nb.X, nb.Y = a, b
		return &nb
	case *ssa.UnOp:
		a := substParams(x.X, h, c, depth+1)
		if a == x.X {
			return v
		}
		nu := *x
		nu.X = a
		return &nu
	case *ssa.FieldAddr:
		a := substParams(x.X, h, c, depth+1)
		if a == x.X {
			return v
		}
		nf := *x
		nf.X = a
		return &nf
	case *ssa.Field:
		a := substParams(x.X, h, c, depth+1)
		if a == x.X {
			return v
		}
		nf := *x
		nf.X = a
		return &nf
	case *ssa.Convert:
		a := substParams(x.X, h, c, depth+1)
		if a == x.X {
			return v
		}
		nc := *x
		nc.X = a
		return &nc
	case *ssa.ChangeType:
		a := substParams(x.X, h, c, depth+1)
		if a == x.X {
			return v
		}
		nc := *x
		nc.X = a
		return &nc
	case *ssa.Call:
		changed := false
		nc := *x
		nc.Call.Args = make([]ssa.Value, len(x.Call.Args))
		for i, a := range x.Call.Args {
			nc.Call.Args[i] = substParams(a, h, c, depth+1)
			if nc.Call.Args[i] != a {
				changed = true
			}
		}
		if x.Call.IsInvoke() {
			nv := substParams(x.Call.Value, h, c, depth+1)
			if nv != x.Call.Value {
				nc.Call.Value = nv
				changed = true
			}
		}
		if !changed {
			return v
		}
		return &nc
	}
	return v
}

// ---- actions performed through helpers -------------------------------------------

var lockSetCache = map[*ssa.Function]*LockSets{}

func lockSetsOf(f *ssa.Function) *LockSets {
	if ls, ok := lockSetCache[f]; ok {
		return ls
	}
	ls := ComputeLockSets(f, nil)
	lockSetCache[f] = ls
	return ls
}

// helperPerforms: h performs the action (direct, evaluated on h's own instructions) on every path
// to a return (mode "all"), or on every path to a return whose single bool result can be true
// (mode "true").
var helperPerformsDepth = 0

func helperPerforms(h *ssa.Function, direct0 func(ssa.Instruction) bool, mode string) bool {
	if h == nil || len(h.Blocks) == 0 {
		return false
	}
	// the action may itself be delegated once more (`rejectChallenge` -> `recordFailure` -> the call)
	direct := direct0
	if helperPerformsDepth < 2 {
		direct = func(in ssa.Instruction) bool {
			if direct0(in) {
				return true
			}
			c, ok := in.(*ssa.Call)
			if !ok {
				return false
			}
			g := c.Common().StaticCallee()
			if g == nil || g == h || g.Pkg != h.Pkg || len(g.Blocks) == 0 {
				return false
			}
			helperPerformsDepth++
			defer func() { helperPerformsDepth-- }()
			return helperPerforms(g, direct0, "all")
		}
	}
	rets := Returns(h)
	n := 0
	for _, ret := range rets {
		if mode == "errnil" {
			// returns that report an error need not perform
			if RetErrKind(ret) == "nonnil" {
				continue
			}
		}
		if mode == "true" {
			// the verdict is the last result (a bool: `ok`); returns that answer false need not perform
			if len(ret.Results) < 1 {
				return false
			}
			last := len(ret.Results) - 1
			if bt, ok := ret.Results[last].Type().Underlying().(*types.Basic); !ok || bt.Kind() != types.Bool {
				return false
			}
			if cb, isC := ConstBool(RetVal(ret, last)); isC && !cb {
				continue
			}
		}
		n++
		if ReachesWithout(h, ret, OrDeferred(direct)) {
			// the action is a method call on an optional component held in a field
			// (`if s.store == nil { return }; s.store.Do()`): paths on which that component is
			// absent have nothing to perform
			comp := ""
			Instrs(h, func(in ssa.Instruction) {
				if ci, ok := in.(ssa.CallInstruction); ok && direct(in) {
					if rv := Recv(ci); rv != nil {
						if _, f, _, ok := FieldOf(rv); ok {
							comp = f
						}
					}
				}
			})
			if comp == "" {
				return false
			}
			via := OrDeferred(direct)
			hits := WalkFrom(h.Blocks[0], nil, func(in ssa.Instruction) int {
				if in == ssa.Instruction(ret) {
					return Hit
				}
				if via(in) {
					return Stop
				}
				return Cont
			}, func(b *ssa.BasicBlock, succ int) bool {
				last, ok := b.Instrs[len(b.Instrs)-1].(*ssa.If)
				if !ok {
					return true
				}
				c, pol := normCond(last.Cond, true)
				if x, tmn, ok := NilTest(c); ok {
					if _, fld, _, ok := FieldOf(x); ok && fld == comp {
						nilSucc := 0
						if tmn != pol {
							nilSucc = 1
						}
						return succ != nilSucc
					}
				}
				return true
			})
			if len(hits) > 0 {
				return false
			}
		}
	}
	return n > 0
}

// performsVia: instruction in performs the action: directly, or as a call of a same-package
// helper that performs it on all its paths, or on all its true-returning paths when `at` (the
// place the action is needed at) is under the fact "the helper returned true".
func performsVia(in ssa.Instruction, direct func(ssa.Instruction) bool, at *ssa.BasicBlock) bool {
	if direct(in) {
		return true
	}
	c, ok := in.(*ssa.Call)
	if !ok {
		return false
	}
	h := c.Common().StaticCallee()
	if h == nil || h.Pkg == nil || in.Parent() == nil || h.Pkg != in.Parent().Pkg || h == in.Parent() || len(h.Blocks) == 0 {
		return false
	}
	if helperPerforms(h, direct, "all") {
		return true
	}
	if at != nil && h.Signature.Results().Len() >= 1 && ErrOK(at, c) && helperPerforms(h, direct, "errnil") {
		return true
	}
	if at != nil && h.Signature.Results().Len() >= 1 {
		for _, ft := range localFacts(at) {
			if !ft.Pol {
				continue
			}
			isVerdict := ft.Cond == ssa.Value(c)
			if ex, ok := ft.Cond.(*ssa.Extract); ok && ex.Tuple == ssa.Value(c) && ex.Index == h.Signature.Results().Len()-1 {
				isVerdict = true
			}
			if isVerdict && helperPerforms(h, direct, "true") {
				return true
			}
		}
	}
	return false
}

// verdictFalseEdge: the edge (b -> succ) is the one on which the bool verdict (last result) of a
// same-package helper call is false: paths through it are the helper's "nothing to do" answer.
func verdictFalseEdge(b *ssa.BasicBlock, succ int) (*ssa.Call, bool) {
	iff, ok := b.Instrs[len(b.Instrs)-1].(*ssa.If)
	if !ok {
		return nil, false
	}
	c, pol := normCond(iff.Cond, succ == 0)
	var call *ssa.Call
	switch x := c.(type) {
	case *ssa.Call:
		call = x
	case *ssa.Extract:
		if cc, ok := x.Tuple.(*ssa.Call); ok && x.Index == cc.Call.Signature().Results().Len()-1 {
			call = cc
		}
	}
	if call == nil || pol {
		return nil, false
	}
	h := call.Common().StaticCallee()
	if h == nil || h.Pkg != b.Parent().Pkg {
		return nil, false
	}
	return call, true
}

// onlyCalledFromAllowed: f (an unexported helper) is reachable only through allowed functions:
// every static call of f sits in a function whose outermost name is allowed or which itself
// satisfies this predicate (depth 3); f has at least one caller and is never used as a value.
func onlyCalledFromAllowed(p *Prog, f *ssa.Function, allowed map[string]bool, depth int) bool {
	if f == nil || depth < 0 {
		return false
	}
	if f.Object() != nil && f.Object().Exported() {
		return false
	}
	n := 0
	ok := true
	for _, g := range p.Funcs {
		Instrs(g, func(in ssa.Instruction) {
			if ci, isC := in.(ssa.CallInstruction); isC && ci.Common().StaticCallee() == f {
				n++
				top := Outermost(g)
				if !(allowed[top.Name()] || (top != f && onlyCalledFromAllowed(p, top, allowed, depth-1))) {
					ok = false
				}
				return
			}
			// any other operand equal to f: used as a value (method value, callback)
			var ops []*ssa.Value
			for _, op := range in.Operands(ops) {
				if op != nil && *op == ssa.Value(f) {
					if ci, isC := in.(ssa.CallInstruction); !isC || ci.Common().Value != ssa.Value(f) {
						ok = false
					}
				}
			}
		})
	}
	return ok && n > 0
}

// checkCaseConstantAgreement is a sibling cross-check: functions of pkg that switch on a parameter
// of the named enum type and pick string constants per case (key prefixes, index keys) must pick
// the same constants for the same case. The function that deviates from the others is reported.
func checkCaseConstantAgreement(r *Report, rule, pkg, enumType string, minSiblings int) {
	type table map[string][]string // case value -> constants chosen (sorted)
	tabs := map[*ssa.Function]table{}
	for _, f := range r.P.FuncsIn(pkg) {
		var sel *ssa.Parameter
		for _, p := range f.Params {
			if n, ok := p.Type().(*types.Named); ok && n.Obj().Name() == enumType {
				sel = p
			}
		}
		if sel == nil {
			continue
		}
		t := table{}
		Instrs(f, func(in ssa.Instruction) {
			ph, ok := in.(*ssa.Phi)
			if !ok {
				return
			}
			for i, e := range ph.Edges {
				k, isC := e.(*ssa.Const)
				if !isC || k.Value == nil || k.Value.Kind() != constant.String || constant.StringVal(k.Value) == "" {
					continue
				}
				pred := ph.Block().Preds[i]
				var caseVal string
				fs := localFacts(pred)
				// the edge itself
				if len(pred.Instrs) > 0 {
					if iff, ok := pred.Instrs[len(pred.Instrs)-1].(*ssa.If); ok {
						for si, sb := range pred.Succs {
							if sb == ph.Block() {
								c, pol := normCond(iff.Cond, si == 0)
								fs = append(fs, Fact{Cond: c, Pol: pol})
							}
						}
					}
				}
				for _, ft := range fs {
					bo, ok := ft.Cond.(*ssa.BinOp)
					if !ok || bo.Op != token.EQL || !ft.Pol || stripValue(bo.X) != ssa.Value(sel) {
						continue
					}
					if kc, ok := bo.Y.(*ssa.Const); ok && kc.Value != nil {
						caseVal = kc.Value.ExactString()
					}
				}
				if caseVal != "" {
					t[caseVal] = append(t[caseVal], constant.StringVal(k.Value))
				}
			}
		})
		if len(t) > 0 {
			for k := range t {
				sort.Strings(t[k])
			}
			tabs[f] = t
		}
	}
	if len(tabs) < minSiblings {
		r.Fail(rule, 0, fmt.Sprintf("only %d functions choosing constants per %s case found in %s (%d confirmed by hand)", len(tabs), enumType, pkg, minSiblings), pkg, "case-constants:floor")
		return
	}
	// majority constant set per (case, position)
	votes := map[string]map[string]int{}
	for _, t := range tabs {
		for k, cs := range t {
			if votes[k] == nil {
				votes[k] = map[string]int{}
			}
			for _, c := range cs {
				votes[k][c]++
			}
		}
	}
	var fns []*ssa.Function
	for f := range tabs {
		fns = append(fns, f)
	}
	sort.Slice(fns, func(i, j int) bool { return fns[i].Pos() < fns[j].Pos() })
	for _, f := range fns {
		bad := ""
		for k, cs := range tabs[f] {
			for _, c := range cs {
				if votes[k][c]*2 <= len(tabs) && len(tabs) > 1 {
					bad = fmt.Sprintf("case %s uses %q, which the sibling functions do not use for that case", k, c)
				}
				// the same constant used for another case elsewhere = crossed families
				for k2, v2 := range votes {
					if k2 != k && v2[c]*2 > len(tabs) {
						bad = fmt.Sprintf("case %s uses %q, which the sibling functions use for case %s", k, c, k2)
					}
				}
			}
		}
		r.Ob(rule, f.Pos(), bad == "", "save / load / remove of the persisted list choose the same storage keys for the same list type ("+bad+")", r.P.FuncName(f), "case-constants-agree")
	}
}

// originDeep is originSummary with calls of same-module functions (that have a body and one
// result value of interest) expanded: the call root is replaced by the origins of what the callee
// returns, its parameters rewritten to the origins of the call's arguments. An identity obtained
// through resolveClientID(streamPacket) or a shared getter still shows where it really comes from.
func originDeep(v ssa.Value, depth int) string {
	var parts []string
	seen := map[string]bool{}
	for _, rt := range Origins(v) {
		s := rootDeep(rt, depth)
		if !seen[s] {
			seen[s] = true
			parts = append(parts, s)
		}
	}
	sort.Strings(parts)
	return strings.Join(parts, ",")
}

func rootDeep(rt Root, depth int) string {
	base := rt.Kind + ":" + rt.Desc
	if depth <= 0 || rt.Kind != "call" {
		return base
	}
	var c *ssa.Call
	idx := 0
	switch x := rt.V.(type) {
	case *ssa.Call:
		c = x
	case *ssa.Extract:
		c, _ = x.Tuple.(*ssa.Call)
		idx = x.Index
	}
	if c == nil {
		return base
	}
	h := c.Common().StaticCallee()
	if h == nil || len(h.Blocks) == 0 || h.Pkg == nil || !strings.HasPrefix(h.Pkg.Pkg.Path(), Module) {
		return base
	}
	var outs []string
	for _, ret := range Returns(h) {
		if idx >= len(ret.Results) {
			continue
		}
		o := originDeep(RetVal(ret, idx), depth-1)
		for i, hp := range h.Params {
			if i < len(c.Call.Args) {
				a := originDeep(c.Call.Args[i], depth-1)
				o = strings.ReplaceAll(o, "(param:"+canonParamName(hp)+")", "("+a+")")
				o = strings.ReplaceAll(o, "param:"+canonParamName(hp), a)
			}
		}
		outs = append(outs, o)
	}
	if len(outs) == 0 {
		return base
	}
	sort.Strings(outs)
	return base + "{" + strings.Join(outs, "|") + "}"
}

// ---------------------------------------------------------------------------
// lock names survive a rename

var lockForCache = map[string]string{}

// lockFor answers "which mutex field of pkg.typ guards dataField?". The rules name the lock they
// confirmed by hand (lockField); while the struct still has a mutex field of that name, that is the
// answer. After a rename of the (unexported) mutex the name is re-discovered from the code: the
// mutex field of the same struct that is held at most accesses of dataField outside constructors.
// A single deviant access therefore still contradicts the majority and is reported by the caller.
func (r *Report) lockFor(pkg, typ, dataField, lockField string) string {
	k := pkg + "|" + typ + "|" + dataField + "|" + lockField
	if v, ok := lockForCache[k]; ok {
		return v
	}
	lockForCache[k] = lockField
	sp := r.P.SSAPkgs[Module+"/"+pkg]
	if sp == nil {
		return lockField
	}
	m, ok := sp.Members[typ].(*ssa.Type)
	if !ok {
		return lockField
	}
	if _, ok := m.Type().Underlying().(*types.Struct); !ok {
		return lockField
	}
	mutexes := r.structMutexes(pkg, typ)
	if mutexes[lockField] || len(mutexes) == 0 {
		return lockField
	}
	votes := map[string]int{}
	for _, fa := range r.P.FieldAccesses(pkg, typ, dataField) {
		if IsFresh(fa.Base) {
			continue
		}
		for path := range lockSetsOf(fa.Fn).HeldAll(fa.In) {
			if i := strings.LastIndex(path, "."); i >= 0 && mutexes[path[i+1:]] {
				votes[path[i+1:]]++
			}
		}
	}
	best, bn, tie := "", 0, false
	for n, c := range votes {
		if c > bn {
			best, bn, tie = n, c, false
		} else if c == bn {
			tie = true
		}
	}
	if best != "" && !tie {
		r.Note("lock %s.%s no longer exists; %s.%s is guarded by %s at %d accesses (re-discovered)", typ, lockField, typ, dataField, best, bn)
		lockForCache[k] = best
		return best
	}
	return lockField
}

// structMutexes lists the sync.Mutex / sync.RWMutex fields of the named struct pkg.typ.
func (r *Report) structMutexes(pkg, typ string) map[string]bool {
	out := map[string]bool{}
	sp := r.P.SSAPkgs[Module+"/"+pkg]
	if sp == nil {
		return out
	}
	m, ok := sp.Members[typ].(*ssa.Type)
	if !ok {
		return out
	}
	st, ok := m.Type().Underlying().(*types.Struct)
	if !ok {
		return out
	}
	var scan func(owner types.Type, st *types.Struct, depth int)
	scan = func(owner types.Type, st *types.Struct, depth int) {
		for i := 0; i < st.NumFields(); i++ {
			switch strings.TrimPrefix(st.Field(i).Type().String(), "*") {
			case "sync.Mutex", "sync.RWMutex":
				out[canonFieldName(owner, st, i)] = true
			}
			// a helper struct embedded since the reference keeps its mutexes on behalf of the outer object
			if st.Field(i).Embedded() && depth < 2 {
				if _, n := ownerTypeName(st.Field(i).Type()); n == typ {
					ft := st.Field(i).Type()
					if p, ok := ft.(*types.Pointer); ok {
						ft = p.Elem()
					}
					if ist, ok := ft.Underlying().(*types.Struct); ok {
						scan(ft, ist, depth+1)
					}
				}
			}
		}
	}
	scan(m.Type(), st, 0)
	return out
}

// held: the mode in which lockField of pkg.typ is held before in. When the struct no longer has
// a mutex of that name (renamed), the strongest mode of any mutex field of that struct held at
// in is returned instead: the obligation degrades to "a lock of this object is held" rather
// than raising an alarm about a name.
func (r *Report) held(ls *LockSets, in ssa.Instruction, pkg, typ, lockField string) string {
	ms := r.structMutexes(pkg, typ)
	if ms[lockField] || len(ms) == 0 {
		return ls.Held(in, lockField)
	}
	best := ""
	for path, mode := range ls.HeldAll(in) {
		if i := strings.LastIndex(path, "."); i >= 0 && ms[path[i+1:]] {
			if mode == "W" || best == "" {
				best = mode
			}
		}
	}
	return best
}

// phiPredFacts: for a boolean phi known to have polarity pol, the facts of each predecessor that can
// have been taken (constant edges of the other polarity and edges entered only where the incoming
// value has the other polarity are excluded).  Unlike expandPhiFacts, which keeps what is common to
// all of them, the caller may ask for something that holds in each in a different form
// (`!exp.IsZero() && now.After(exp)` is left by "is zero" on one edge and by "not after" on another).
func phiPredFacts(ph *ssa.Phi, pol bool) [][]Fact {
	var out [][]Fact
	for ei, e := range ph.Edges {
		if cb, isC := ConstBool(e); isC && cb != pol {
			continue
		}
		pred := ph.Block().Preds[ei]
		pf := baseFacts(pred)
		if len(pred.Instrs) > 0 {
			if iff, ok := pred.Instrs[len(pred.Instrs)-1].(*ssa.If); ok && pred.Succs[0] != pred.Succs[1] {
				for si, sblk := range pred.Succs {
					if sblk == ph.Block() {
						c, p := normCond(iff.Cond, si == 0)
						pf = append(pf, Fact{Cond: c, Pol: p, If: iff})
					}
				}
			}
		}
		if _, isC := ConstBool(e); !isC {
			c, p := normCond(e, pol)
			infeasible := false
			for _, have := range pf {
				if have.Cond == c && have.Pol != p {
					infeasible = true
				}
			}
			if infeasible {
				continue
			}
			pf = append(pf, Fact{Cond: c, Pol: p})
		}
		out = append(out, pf)
	}
	return out
}

// tryLockEdge: `if mu.TryLock() { ... }` holds mu on the edge where the call answered true.
func tryLockEdge(p, b *ssa.BasicBlock, o lockState) lockState {
	if len(p.Instrs) == 0 || len(p.Succs) != 2 || p.Succs[0] == p.Succs[1] {
		return o
	}
	iff, ok := p.Instrs[len(p.Instrs)-1].(*ssa.If)
	if !ok {
		return o
	}
	c, pol := normCond(iff.Cond, p.Succs[0] == b)
	call, ok := c.(*ssa.Call)
	if !ok || !pol {
		return o
	}
	cal := CalleeOf(call)
	if !cal.Is("sync:Mutex.TryLock", "sync:RWMutex.TryLock", "sync:RWMutex.TryRLock") {
		return o
	}
	rv := Recv(call)
	if rv == nil {
		return o
	}
	n := lockState{}
	for k, v := range o {
		n[k] = v
	}
	if cal.Name == "TryRLock" {
		if n[lockPath(rv)] == "" {
			n[lockPath(rv)] = "R"
		}
	} else {
		n[lockPath(rv)] = "W"
	}
	return n
}

// joinFacts: what can be added to the facts known at b by looking at the joins that dominate it: a
// join one of whose incoming edges contradicts what is known (`p || q` entered through p, while !p is
// known here) was entered through another edge; when exactly one edge remains, its facts hold.
func joinFacts(b *ssa.BasicBlock, known []Fact) []Fact {
	var out []Fact
	contradicts := func(fs []Fact) bool {
		for _, f := range fs {
			for _, k := range append(known, out...) {
				if (f.Cond == k.Cond || sameCond(f.Cond, k.Cond)) && f.Pol != k.Pol {
					return true
				}
			}
		}
		return false
	}
	for d := b; d != nil; d = d.Idom() {
		if len(d.Preds) < 2 {
			continue
		}
		var feasible [][]Fact
		pruned := 0
		for _, p := range d.Preds {
			if d.Dominates(p) {
				feasible = append(feasible, nil) // a back edge: not judged
				continue
			}
			pf := baseFacts(p)
			if len(p.Instrs) > 0 {
				if iff, ok := p.Instrs[len(p.Instrs)-1].(*ssa.If); ok && len(p.Succs) == 2 && p.Succs[0] != p.Succs[1] {
					for si, sb := range p.Succs {
						if sb == d {
							c, pol := normCond(iff.Cond, si == 0)
							pf = append(pf, Fact{Cond: c, Pol: pol, If: iff})
						}
					}
				}
			}
			if contradicts(pf) {
				pruned++
				continue
			}
			feasible = append(feasible, pf)
		}
		if pruned > 0 && len(feasible) == 1 && feasible[0] != nil {
			out = append(out, feasible[0]...)
		}
	}
	return out
}
