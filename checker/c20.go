package main

import (
	"fmt"
	"go/constant"
	"go/token"
	"go/types"
	"sort"
	"strings"

	"golang.org/x/tools/go/ssa"
)

func init() {
	register(&PropCheck{
		ID: "C20",
		Explanation: "Static rules on the client-side SOCKS5 parser (internal/client/socks5/listener.go, udp_relay.go). " +
			"R-C20-1: the protocol constants equal the RFC 1928 table. " +
			"R-C20-2: every negotiation field is read with io.ReadFull directly from the connection (no buffered read-ahead that would swallow application payload) into a buffer of the RFC width (2, nmethods, 4, 4 | 1+len | 16, 2). " +
			"R-C20-3: each rejection (bad version in the request, unsupported command, unsupported address type, no acceptable method) writes the RFC reply on the rejecting edge before the error return. " +
			"R-C20-4: every index and slice of the datagram in parseUDPHeader is dominated by a sufficient length comparison (linear forms c + domainLen, per predecessor for the header-length phi), and the up-front guard does not exceed the shortest valid header. " +
			"R-C20-5: parseUDPHeader and buildUDPHeader use the same offsets for each address type. " +
			"Decides these necessary conditions; does not decide full differential conformance over all byte strings.",
		Run: runC20,
		Mutants: []Mutant{
			{Name: "udp-payload-not-copied", File: "internal/client/socks5/udp_relay.go", Rule: "R-C20-G8",
				Old: "\t\tdataCopy := make([]byte, n)\n\t\tcopy(dataCopy, buf[:n])\n\t\tgo r.handlePacket(dataCopy)\n", New: "\t\tgo r.handlePacket(buf[:n])\n"},
			{Name: "const-cmd-udp-wrong", File: "internal/client/socks5/listener.go", Rule: "R-C20-1",
				Old: "CmdUDPAssoc    = 0x03", New: "CmdUDPAssoc    = 0x04"},
			{Name: "handshake-buffered-reader", File: "internal/client/socks5/listener.go", Rule: "R-C20-2",
				Old: "\tportBuf := make([]byte, 2)\n\tif _, err := io.ReadFull(conn, portBuf); err != nil {", New: "\tportBuf := make([]byte, 2)\n\tif _, err := io.ReadFull(io.LimitReader(conn, 4), portBuf); err != nil {"},
			{Name: "handshake-port-single-read", File: "internal/client/socks5/listener.go", Rule: "R-C20-2",
				Old: "\tportBuf := make([]byte, 2)\n\tif _, err := io.ReadFull(conn, portBuf); err != nil {", New: "\tportBuf := make([]byte, 2)\n\tif _, err := conn.Read(portBuf); err != nil {"},
			{Name: "unsupported-cmd-no-reply", File: "internal/client/socks5/listener.go", Rule: "R-C20-3",
				Old: "\tif cmd != CmdConnect && cmd != CmdUDPAssoc {\n\t\tl.SendError(conn, RepCmdNotSupp)\n", New: "\tif cmd != CmdConnect && cmd != CmdUDPAssoc {\n"},
			{Name: "udp-domain-guard-off-by-one", File: "internal/client/socks5/udp_relay.go", Rule: "R-C20-4",
				Old: "if len(data) < 5+domainLen+2 {", New: "if len(data) < 5+domainLen+1 {"},
			{Name: "udp-ipv6-guard-short", File: "internal/client/socks5/udp_relay.go", Rule: "R-C20-4",
				Old: "if len(data) < 22 {", New: "if len(data) < 20 {"},
			{Name: "udp-build-port-offset", File: "internal/client/socks5/udp_relay.go", Rule: "R-C20-5",
				Old: "binary.BigEndian.PutUint16(header[20:22], uint16(dstPort))\n\t\tcopy(header[22:], payload)", New: "binary.BigEndian.PutUint16(header[20:22], uint16(dstPort))\n\t\tcopy(header[20:], payload)"},
		},
	})
}

const s5Pkg = "internal/client/socks5"

// lin is a linear form c + k*v over at most one SSA variable.
type lin struct {
	c  int64
	v  ssa.Value
	ok bool
}

func linOf(x ssa.Value, depth int) lin {
	if depth > 6 || x == nil {
		return lin{}
	}
	if k, isC := ConstInt(x); isC {
		return lin{c: k, ok: true}
	}
	switch e := x.(type) {
	case *ssa.BinOp:
		a, b := linOf(e.X, depth+1), linOf(e.Y, depth+1)
		if !a.ok || !b.ok {
			return lin{c: 0, v: x, ok: true}
		}
		switch e.Op {
		case token.ADD:
			if a.v != nil && b.v != nil {
				return lin{c: 0, v: x, ok: true}
			}
			v := a.v
			if v == nil {
				v = b.v
			}
			return lin{c: a.c + b.c, v: v, ok: true}
		case token.SUB:
			if b.v != nil {
				return lin{c: 0, v: x, ok: true}
			}
			return lin{c: a.c - b.c, v: a.v, ok: true}
		}
		return lin{c: 0, v: x, ok: true}
	case *ssa.Convert:
		// int(byte) etc: treat the converted value as the variable
		return lin{c: 0, v: stripValue(x), ok: true}
	}
	return lin{c: 0, v: x, ok: true}
}

func (a lin) String() string {
	if a.v == nil {
		return fmt.Sprint(a.c)
	}
	return fmt.Sprintf("%d+%s", a.c, a.v.Name())
}

// geq: a >= b for all values of the shared variable (same variable, constant difference).
func (a lin) geq(b lin) bool {
	if !a.ok || !b.ok {
		return false
	}
	if a.v == b.v || (a.v != nil && b.v != nil && sameExpr(a.v, b.v)) {
		return a.c >= b.c
	}
	if b.v == nil && a.v != nil {
		// a = c + v with v >= 0 (lengths decoded from bytes are non-negative)
		return a.c >= b.c
	}
	return false
}

// lenLowerBounds: facts dominating blk of the form len(data) >= K (as linear forms).
func lenLowerBounds(blk *ssa.BasicBlock, data ssa.Value) []lin {
	var out []lin
	isLen := func(v ssa.Value) bool {
		c, ok := v.(*ssa.Call)
		if !ok {
			return false
		}
		b, ok := c.Call.Value.(*ssa.Builtin)
		return ok && b.Name() == "len" && c.Call.Args[0] == data
	}
	for _, ft := range Facts(blk) {
		bo, ok := ft.Cond.(*ssa.BinOp)
		if !ok {
			continue
		}
		switch {
		case isLen(bo.X) && bo.Op == token.LSS && !ft.Pol: // !(len < K)  => len >= K
			out = append(out, linOf(bo.Y, 0))
		case isLen(bo.X) && bo.Op == token.GEQ && ft.Pol:
			out = append(out, linOf(bo.Y, 0))
		case isLen(bo.X) && bo.Op == token.LEQ && !ft.Pol: // !(len <= K) => len >= K+1
			l := linOf(bo.Y, 0)
			l.c++
			out = append(out, l)
		case isLen(bo.X) && bo.Op == token.GTR && ft.Pol:
			l := linOf(bo.Y, 0)
			l.c++
			out = append(out, l)
		}
	}
	return out
}

func anyGeq(bs []lin, need lin) bool {
	for _, b := range bs {
		if b.geq(need) {
			return true
		}
	}
	return false
}

// needAt: is len(data) >= need established where value `bound` is used in
// block blk? phis are discharged per predecessor.
func boundCovered(blk *ssa.BasicBlock, data, bound ssa.Value, plus int64, depth int) (bool, string) {
	if depth > 4 {
		return false, "too deep"
	}
	if ph, ok := bound.(*ssa.Phi); ok {
		for i, e := range ph.Edges {
			pred := ph.Block().Preds[i]
			// facts at the end of pred: Facts(pred) plus the edge pred->phi block
			ok, why := boundCoveredAtEdge(pred, ph.Block(), data, e, plus, depth+1)
			if !ok {
				return false, fmt.Sprintf("on the path through block %d: %s", pred.Index, why)
			}
		}
		return true, ""
	}
	if bo, ok := bound.(*ssa.BinOp); ok && bo.Op == token.SUB {
		if k, isC := ConstInt(bo.Y); isC {
			return boundCovered(blk, data, bo.X, plus-k, depth+1)
		}
	}
	need := linOf(bound, 0)
	need.c += plus
	if anyGeq(lenLowerBounds(blk, data), need) {
		return true, ""
	}
	return false, "no dominating comparison establishes len(data) >= " + need.String()
}

func boundCoveredAtEdge(pred, to *ssa.BasicBlock, data, bound ssa.Value, plus int64, depth int) (bool, string) {
	if ph, ok := bound.(*ssa.Phi); ok && ph.Block() != to {
		return boundCovered(pred, data, ph, plus, depth)
	}
	need := linOf(bound, 0)
	need.c += plus
	bs := lenLowerBounds(pred, data)
	// the block pred itself is where the facts hold (pred is dominated by its own guards)
	if anyGeq(bs, need) {
		return true, ""
	}
	return false, "no comparison establishes len(data) >= " + need.String()
}

func runC20(r *Report) {
	// ---- R-C20-1 constants ----------------------------------------------------
	want := map[string]int64{"Version": 5, "AuthNone": 0, "AuthNoMatch": 0xFF, "CmdConnect": 1, "CmdBind": 2, "CmdUDPAssoc": 3,
		"AddrIPv4": 1, "AddrDomain": 3, "AddrIPv6": 4, "RepSuccess": 0, "RepFailure": 1, "RepCmdNotSupp": 7, "RepAddrNotSupp": 8}
	pk := r.P.ByPath[Module+"/"+s5Pkg]
	if pk == nil {
		r.Fail("R-C20-1", 0, "package missing", s5Pkg, "anchor")
		return
	}
	var names []string
	for n := range want {
		names = append(names, n)
	}
	sort.Strings(names)
	for _, n := range names {
		obj, _ := pk.Types.Scope().Lookup(n).(*types.Const)
		if obj == nil {
			r.Fail("R-C20-1", 0, "constant "+n+" missing", s5Pkg, "const:"+n)
			continue
		}
		v, _ := constant.Int64Val(obj.Val())
		r.Ob("R-C20-1", obj.Pos(), v == want[n], fmt.Sprintf("%s = %d (RFC 1928: %d)", n, v, want[n]), s5Pkg, "const:"+n)
	}

	// ---- R-C20-2 full reads straight from the connection --------------------------------
	if hs := r.need("R-C20-2", s5Pkg, "Listener.Handshake"); hs != nil {
		checkSocksNegotiation(r, hs, "Handshake", socksNegCfg{
			reply:  "Listener.SendError",
			widths: map[string]int{"2": 2, "4": 2, "1": 1, "16": 1, "var": 2}, nReads: 8,
			widthsDoc: "2x2 [ver/nmethods, port], 2x4 [request head, IPv4], 1x1 [domain length], 1x16 [IPv6], 2 variable [methods, domain]",
			codes:     map[int64]bool{1: true, 7: true, 8: true}, methodReply: true, cmds: []int{1, 3}})
	}
	// the adapter's greeting reader: after a first read of at least 2 bytes it tops the buffer up to
	// exactly 2+NMETHODS bytes before it looks at the methods: the top-up guard, the top-up window and
	// the methods window use the same bound
	if gh := r.need("R-C20-2", "internal/protocol/adapter", "SocksAdapter.handleHandshake"); gh != nil {
		var methodsHi ssa.Value
		Instrs(gh, func(in ssa.Instruction) {
			if sl, ok := in.(*ssa.Slice); ok && sl.Low != nil && sl.High != nil {
				if k, isC := ConstInt(sl.Low); isC && k == 2 {
					methodsHi = sl.High
				}
			}
		})
		nTop := 0
		for _, rf := range Calls(gh, false, "io:ReadFull") {
			sl, ok := Arg(rf, 1).(*ssa.Slice)
			if !ok || sl.High == nil || sl.Low == nil {
				continue
			}
			nTop++
			hi := linOf(sl.High, 0)
			guard := false
			for _, ft := range Facts(rf.Block()) {
				bo, isB := ft.Cond.(*ssa.BinOp)
				if !isB || !((bo.Op == token.LSS && ft.Pol) || (bo.Op == token.GEQ && !ft.Pol)) {
					continue
				}
				if stripValue(bo.X) == stripValue(sl.Low) {
					g := linOf(bo.Y, 0)
					if g.ok && hi.ok && g.geq(hi) && hi.geq(g) {
						guard = true
					}
				}
			}
			mh := linOf(methodsHi, 0)
			same := methodsHi != nil && mh.ok && hi.ok && mh.geq(hi) && hi.geq(mh)
			r.Ob("R-C20-2", CallPos(rf), guard && same, fmt.Sprintf("the greeting is topped up when fewer than %s bytes arrived, up to %s, and the methods are read up to %s (all three must be 2+NMETHODS)", "the guard bound", hi.String(), mh.String()), "adapter.handleHandshake", "greeting-topped-up")
		}
		if nTop == 0 {
			r.Fail("R-C20-2", gh.Pos(), "the adapter's greeting top-up read was not found", "adapter.handleHandshake", "greeting-topped-up")
		}
	}
	// sibling implementation: the server-side SOCKS adapter parses the same request
	if ah := r.need("R-C20-2", "internal/protocol/adapter", "SocksAdapter.handleRequest"); ah != nil {
		checkSocksNegotiation(r, ah, "adapter.handleRequest", socksNegCfg{
			reply:  "SocksAdapter.sendReply",
			widths: map[string]int{"2": 1, "4": 2, "1": 1, "16": 1, "var": 1}, nReads: 6,
			widthsDoc: "2x4 [request head, IPv4], 1x1 [domain length], 1x16 [IPv6], 1 variable [domain], 1x2 [port]",
			codes:     map[int64]bool{7: true, 8: true}, cmds: []int{1}})
	}

	// ---- R-C20-4 in-range access in parseUDPHeader ------------------------------------------
	pu := r.need("R-C20-4", s5Pkg, "UDPRelay.parseUDPHeader")
	bu := r.need("R-C20-5", s5Pkg, "UDPRelay.buildUDPHeader")
	if pu != nil {
		data := ssa.Value(pu.Params[1])
		n := 0
		Instrs(pu, func(in ssa.Instruction) {
			switch x := in.(type) {
			case *ssa.IndexAddr:
				if x.X != data {
					return
				}
				n++
				ok, why := boundCovered(x.Block(), data, x.Index, 1, 0)
				r.Ob("R-C20-4", x.Pos(), ok, "data["+linOf(x.Index, 0).String()+"] "+map[bool]string{true: "is within a dominating length guard", false: "may be out of range: " + why}[ok], "parseUDPHeader", "index:"+linShape(x.Index))
			case *ssa.Slice:
				if x.X != data {
					return
				}
				n++
				hi := x.High
				if hi == nil {
					hi = x.Low
				}
				if hi == nil {
					return
				}
				ok, why := boundCovered(x.Block(), data, hi, 0, 0)
				r.Ob("R-C20-4", x.Pos(), ok, "slice bound "+linOf(hi, 0).String()+" "+map[bool]string{true: "is within a dominating length guard", false: "may exceed len(data): " + why}[ok], "parseUDPHeader", "slice:"+linShape(hi))
			}
		})
		if n < 3 { // alarm below 40% of the 8 sites confirmed by hand
			r.Fail("R-C20-4", pu.Pos(), fmt.Sprintf("only %d datagram accesses found (9 confirmed by hand)", n), "parseUDPHeader", "floor")
		}
		// up-front guard must not exceed the shortest valid header (8 bytes: 1-byte domain)
		entryGuard := int64(-1)
		if len(pu.Blocks) > 0 {
			if iff, ok := pu.Blocks[0].Instrs[len(pu.Blocks[0].Instrs)-1].(*ssa.If); ok {
				if bo, ok := iff.Cond.(*ssa.BinOp); ok && bo.Op == token.LSS {
					if k, isC := ConstInt(bo.Y); isC {
						entryGuard = k
					}
				}
			}
		}
		r.Ob("R-C20-4", pu.Pos(), entryGuard >= 4 && entryGuard <= 8, fmt.Sprintf("up-front length guard is %d (must cover the 4 fixed bytes and not exceed 8, the shortest valid header RSV FRAG ATYP LEN name(1) PORT)", entryGuard), "parseUDPHeader", "entry-guard")
	}

	// ---- R-C20-5 layout agreement --------------------------------------------------------------
	if pu != nil && bu != nil {
		bounds := func(f *ssa.Function, base func(ssa.Value) bool) map[string]bool {
			out := map[string]bool{}
			Instrs(f, func(in ssa.Instruction) {
				switch x := in.(type) {
				case *ssa.Slice:
					if !base(x.X) {
						return
					}
					lo, hi := "0", "end"
					if x.Low != nil {
						lo = linShape(x.Low)
					}
					if x.High != nil {
						hi = linShape(x.High)
					}
					out[lo+":"+hi] = true
				case *ssa.IndexAddr:
					if base(x.X) {
						out["["+linShape(x.Index)+"]"] = true
					}
				}
			})
			return out
		}
		pdata := ssa.Value(pu.Params[1])
		pb := bounds(pu, func(v ssa.Value) bool { return v == pdata })
		bb := bounds(bu, func(v ssa.Value) bool {
			// the header buffers built in this function
			for _, rt := range Origins(v) {
				if rt.Kind == "other" || rt.Kind == "alloc" {
					return true
				}
			}
			_, isMk := v.(*ssa.MakeSlice)
			_, isPhi := v.(*ssa.Phi)
			return isMk || isPhi
		})
		// header lengths in the parser: 10, 22, 7+v
		hl := map[string]bool{}
		// the header length is the integer phi the payload is sliced from (`data[headerLen:]`)
		Instrs(pu, func(in ssa.Instruction) {
			sl, ok := in.(*ssa.Slice)
			if !ok || sl.High != nil || sl.Low == nil || stripValue(sl.X) != pdata {
				return
			}
			if ph, ok := stripValue(sl.Low).(*ssa.Phi); ok {
				for _, e := range ph.Edges {
					hl[linShape(e)] = true
				}
			}
		})
		wantParse := []string{"[2]", "[3]", "[4]", "4:8", "4:20", "5:5+v"}
		wantBuild := []string{"[3]", "[4]", "4:8", "8:10", "10:end", "4:20", "20:22", "22:end", "5:5+v", "5+v:end", "7+v:end"}
		for _, w := range wantParse {
			r.Ob("R-C20-5", pu.Pos(), pb[w], "parser accesses data"+w+" (RFC offsets)", "parseUDPHeader", "offset:"+w)
		}
		for _, w := range []string{"10", "22", "7+v"} {
			r.Ob("R-C20-5", pu.Pos(), hl[w], "parser header length "+w+" for the matching address type", "parseUDPHeader", "headerLen:"+w)
		}
		for _, w := range wantBuild {
			r.Ob("R-C20-5", bu.Pos(), bb[w], "builder writes header"+w+" (same offsets as the parser)", "buildUDPHeader", "offset:"+w)
		}
		// port is read big-endian from [headerLen-2, headerLen)
		okPort := false
		for _, c := range Calls(pu, false, "Uint16") {
			if CalleeOf(c).Recv == "bigEndian" {
				if sl, ok := c.Common().Args[len(c.Common().Args)-1].(*ssa.Slice); ok {
					if bo, ok := sl.Low.(*ssa.BinOp); ok && bo.Op == token.SUB && bo.X == sl.High {
						if k, isC := ConstInt(bo.Y); isC && k == 2 {
							okPort = true
						}
					}
				}
			}
		}
		r.Ob("R-C20-5", pu.Pos(), okPort, "port is decoded big-endian from data[headerLen-2:headerLen]", "parseUDPHeader", "port-offset")
		nBE := 0
		for _, c := range Calls(bu, false, "PutUint16") {
			if CalleeOf(c).Recv == "bigEndian" {
				nBE++
			}
		}
		r.Ob("R-C20-5", bu.Pos(), nBE == 3, fmt.Sprintf("builder encodes the port big-endian at %d sites (want 3)", nBE), "buildUDPHeader", "port-endian")
	}
}

// linShape renders a linear form with the variable anonymised ("5+v").
func linShape(v ssa.Value) string {
	l := linOf(v, 0)
	if l.v == nil {
		return fmt.Sprint(l.c)
	}
	if l.c == 0 {
		return "v"
	}
	return fmt.Sprintf("%d+v", l.c)
}

type socksNegCfg struct {
	reply       string // reply helper, error code is argument 1
	widths      map[string]int
	widthsDoc   string
	nReads      int
	codes       map[int64]bool // reject codes this implementation must send
	methodReply bool
	cmds        []int // commands the implementation supports (everything else is answered 0x07)
}

// checkSocksNegotiation applies the negotiation rules (full field reads straight from the
// connection with RFC widths; reject replies on the matching edges followed by an error) to one
// implementation of the server side of RFC 1928. hs is the entry point; its parameter 1 is the
// connection.
func checkSocksNegotiation(r *Report, hs *ssa.Function, label string, cfg socksNegCfg) {
	if hs != nil && len(hs.Params) >= 2 {
		// the analysis unit: Handshake and the same-package helpers it hands the connection to
		// (a split into negotiateAuth/readRequest-style helpers is the same negotiation)
		unit := paramUnit(hs, hs.Params[1], 3)
		names := []string{}
		for _, m := range unit {
			names = append(names, m.Fn.Name())
			hasRead := false
			for _, sub := range paramUnit(m.Fn, m.Param, 3) {
				Instrs(sub.Fn, func(in ssa.Instruction) {
					if ci, ok := in.(ssa.CallInstruction); ok && ClassifyRead(ci).Shape != "unknown" {
						hasRead = true
					}
				})
			}
			// a helper that reads negotiation fields is a negotiation step: its failure must end the
			// negotiation (reply helpers such as SendError are best-effort and exempt)
			if m.From != nil && hasRead {
				r.Ob("R-C20-3", CallPos(m.From), errorPropagated(m.From), "the error of negotiation helper "+m.Fn.Name()+" ends the negotiation (returned as is, or no success return on its failed edge)", label, "helper-error-propagated:"+m.Fn.Name())
			}
		}
		r.Note("C20 negotiation unit of %s: %s", label, strings.Join(names, ", "))
		widths := map[string]int{}
		nReads := 0
		seen := map[int64]bool{}
		wrote := false
		type rej struct {
			code int64
			what string
		}
		for _, m := range unit {
			fn, conn := m.Fn, ssa.Value(m.Param)
			Instrs(fn, func(in ssa.Instruction) {
				ci, ok := in.(ssa.CallInstruction)
				if !ok {
					return
				}
				rs := ClassifyRead(ci)
				if rs.Shape == "unknown" {
					return
				}
				nReads++
				src := originSummary(rs.Reader)
				direct := stripValue(rs.Reader) == conn
				r.Ob("R-C20-2", CallPos(ci), rs.Shape == "full", "negotiation field read is "+rs.Shape+": a field split across TCP segments must still be read whole", label, "field-full-read")
				r.Ob("R-C20-2", CallPos(ci), direct, "negotiation reads from "+src+" (want the connection itself: a buffering wrapper reads ahead and swallows the application's first payload bytes)", label, "reads-conn-directly")
				buf := Arg(ci, 1)
				l, k := bufLen(buf)
				w := fmt.Sprint(k)
				if k < 0 && l != nil {
					w = "var"
					// variable width must come from a decoded length byte
					o := originSummary(l)
					if !strings.HasPrefix(o, "index:") {
						w = "var?" + o
					}
				}
				widths[w]++
			})

			// ---- R-C20-3 reject replies ---------------------------------------------------------
			for _, se := range Calls(fn, false, cfg.reply) {
				code, _ := ConstInt(Arg(se, 1))
				seen[code] = true
				// followed by an error return on every path, and nothing else written
				hits := WalkFrom(nil, se.(ssa.Instruction), func(in ssa.Instruction) int {
					if ret, ok := in.(*ssa.Return); ok {
						if RetErrKind(ret) == "nil" {
							return Hit
						}
						return Stop
					}
					return Cont
				}, nil)
				r.Ob("R-C20-3", CallPos(se), len(hits) == 0, fmt.Sprintf("reply 0x%02x is followed by an error return", code), label, fmt.Sprintf("reply-then-error:%d", code))
				// facts: what was tested
				facts := ""
				for _, ft := range Facts(se.Block()) {
					if bo, ok := ft.Cond.(*ssa.BinOp); ok {
						if k, isC := ConstInt(bo.Y); isC {
							facts += fmt.Sprintf("[%s %s %d =%v]", originSummary(bo.X), bo.Op, k, ft.Pol)
						}
					}
				}
				var ok bool
				switch code {
				case 7: // command not supported: cmd != 1 and cmd != 3
					ok = true
					for _, c := range cfg.cmds {
						if !strings.Contains(facts, fmt.Sprintf("!= %d =true", c)) {
							ok = false
						}
					}
				case 8: // address type not supported: none of 1,3,4
					ok = strings.Contains(facts, "== 1 =false") && strings.Contains(facts, "== 3 =false") && strings.Contains(facts, "== 4 =false")
				case 1: // general failure: bad version in the request
					ok = strings.Contains(facts, "!= 5 =true")
				}
				r.Ob("R-C20-3", CallPos(se), ok, fmt.Sprintf("reply 0x%02x is sent on the rejecting edge of the matching test (facts: %s)", code, facts), label, fmt.Sprintf("reply-on-edge:%d", code))
			}
			// every error return of the request phase that is decided by a protocol test passes a reply
			for _, ret := range Returns(fn) {
				if RetErrKind(ret) == "nil" {
					continue
				}
				protoTest := false
				for _, ft := range Facts(ret.Block()) {
					bo, ok := ft.Cond.(*ssa.BinOp)
					if !ok {
						continue
					}
					o := originSummary(bo.X)
					if _, isC := ConstInt(bo.Y); isC && strings.HasPrefix(o, "index:") && ft.If.Block().Dominates(ret.Block()) {
						// a test on a byte of the 4-byte request head (buffer of width 4)
						if u, ok := stripValue(bo.X).(*ssa.UnOp); ok {
							if ia, ok := u.X.(*ssa.IndexAddr); ok {
								if _, k := bufLen(ia.X); k == 4 {
									protoTest = true
								}
							}
						}
					}
				}
				if !protoTest {
					continue
				}
				// only returns directly decided by such a test (no I/O error in between)
				ioErr := false
				for _, ft := range Facts(ret.Block()) {
					if x, isnil, ok := ft.FactNil(); ok && !isnil && x.Type().String() == "error" {
						ioErr = true
					}
				}
				if ioErr {
					continue
				}
				if !cfg.codes[1] {
					// this implementation refuses a bad version without a reply: only command / address-type
					// rejections must be answered
					isVer := false
					for _, ft := range Facts(ret.Block()) {
						if bo, ok := ft.Cond.(*ssa.BinOp); ok && ft.If.Block() == ret.Block().Idom() {
							if k, isC := ConstInt(bo.Y); isC && k == 5 {
								isVer = true
							}
						}
					}
					if isVer {
						continue
					}
				}
				replied := !ReachesWithout(fn, ret, func(in ssa.Instruction) bool {
					ci, ok := in.(ssa.CallInstruction)
					return ok && CalleeOf(ci).Is(cfg.reply)
				})
				r.Ob("R-C20-3", ret.Pos(), replied, "a request rejected by a protocol test gets its RFC reply before the error return", label, "rejection-replied")
			}
			// method selection: {5, method} written to the connection
			for _, w := range Calls(fn, false, "Write") {
				if stripValue(Recv(w)) != conn {
					continue
				}
				if _, k := bufLen(bufArg(w)); k == 2 {
					wrote = true
					// "no acceptable method" is answered too (RFC 1928: METHOD 0xFF, then close): a return
					// taken because the selected method equals 0xFF has passed the method-selection reply
					if cfg.methodReply {
						ww := w
						for _, ret := range Returns(fn) {
							noMatch := false
							for _, ft := range Facts(ret.Block()) {
								if bo, ok := ft.Cond.(*ssa.BinOp); ok {
									if k, isC := ConstInt(bo.Y); isC && k == 255 && ((bo.Op == token.EQL && ft.Pol) || (bo.Op == token.NEQ && !ft.Pol)) {
										noMatch = true
									}
								}
							}
							if !noMatch {
								continue
							}
							skipped := ReachesWithout(fn, ret, func(in ssa.Instruction) bool { return in == ww.(ssa.Instruction) })
							r.Ob("R-C20-3", ret.Pos(), !skipped, "the refusal 'no acceptable method' is sent to the client ({VER, 0xFF}) before the negotiation gives up", label, "no-acceptable-method-replied")
						}
					}
				}
			}
		}
		okW := nReads == cfg.nReads
		for k, v := range cfg.widths {
			if widths[k] != v {
				okW = false
			}
		}
		r.Ob("R-C20-2", hs.Pos(), okW, fmt.Sprintf("field widths read: %v (want %s)", widths, cfg.widthsDoc), label, "rfc-widths")
		for _, c := range []rej{{1, "bad version in request -> general failure"}, {7, "unsupported command"}, {8, "unsupported address type"}} {
			if !cfg.codes[c.code] {
				continue
			}
			r.Ob("R-C20-3", hs.Pos(), seen[c.code], "a reply is written for: "+c.what, label, fmt.Sprintf("reply-exists:%d", c.code))
		}
		if cfg.methodReply {
			r.Ob("R-C20-3", hs.Pos(), wrote, "the method-selection reply {VER, METHOD} (2 bytes) is written", label, "method-reply")
		}
	}

}
