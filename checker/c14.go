package main

import (
	"fmt"
	"go/ast"
	"go/constant"
	"go/token"
	"go/types"
	"sort"
	"strings"

	"golang.org/x/tools/go/ssa"
)

func init() {
	register(&PropCheck{
		ID: "C14",
		Explanation: "Static rules on the tiered storage facade (internal/core/storage/hybrid). " +
			"R-C14-1: a tier table is computed by partial evaluation of each facade operation on the key-category constant (which of local cache, key cache [shared cache if configured else local], persistent each category may touch): delete covers every tier that set writes; the first tier read by get is one that set writes; runtime and shared categories never touch the persistent tier; the shared category touches only the key cache (never a node-local copy); exists reads only tiers that set writes; SetNX / IncrBy resolve the tier through the same key-cache selector. " +
			"R-C14-2: no read operation starts a goroutine that writes a tier (a fill that lands after a later set/delete brings an older value back). " +
			"R-C14-3: the three prefix lists do not shadow each other under getCategory's precedence, the cross-node record prefixes classify as shared, and runtime-only prefixes never classify as persistent. " +
			"R-C14-4: list append/remove hold one lock across their read-modify-write (or delegate to one tier primitive). " +
			"Decides these necessary conditions; does not decide interleavings across nodes or tier failures.",
		Run: runC14,
		Mutants: []Mutant{
			{Name: "delete-skips-shared-tier", File: "internal/core/storage/hybrid/hybrid.go", Rule: "R-C14-1",
				Old: "\tif category == DataCategoryShared {\n\t\tcache := h.getCacheForKey(key)\n\t\tif err := cache.Delete(key); err != nil && err != types.ErrKeyNotFound {", New: "\tif category == DataCategoryShared && h.sharedCache == nil {\n\t\tcache := h.getCacheForKey(key)\n\t\tif err := cache.Delete(key); err != nil && err != types.ErrKeyNotFound {"},
			{Name: "shared-get-local-copy", File: "internal/core/storage/hybrid/hybrid.go", Rule: "R-C14-1",
				Old: "\tif category == DataCategoryShared {\n\t\tcache := h.getCacheForKey(key)\n\t\treturn cache.Get(key)\n\t}", New: "\tif category == DataCategoryShared {\n\t\tif v, err := h.cache.Get(key); err == nil {\n\t\t\treturn v, nil\n\t\t}\n\t\tcache := h.getCacheForKey(key)\n\t\treturn cache.Get(key)\n\t}"},
			{Name: "runtime-set-persists", File: "internal/core/storage/hybrid/hybrid.go", Rule: "R-C14-1",
				Old: "\t// 运行时数据仅写入本地缓存\n\tif ttl == 0 {", New: "\t// 运行时数据仅写入本地缓存\n\t_ = h.persistent.Set(key, value)\n\tif ttl == 0 {"},
			{Name: "incr-on-local-cache", File: "internal/core/storage/hybrid/hybrid_ops.go", Rule: "R-C14-1",
				Old: "\tcache := h.getCacheForKey(key)\n\n\t// 优先使用该层的原子递增", New: "\tcache := h.cache\n\n\t// 优先使用该层的原子递增"},
			{Name: "expiry-on-local-cache", File: "internal/core/storage/hybrid/hybrid_ops.go", Rule: "R-C14-1",
				Old: "\tcache := h.getCacheForKey(key)\n\tvalue, err := cache.Get(key)", New: "\tcache := h.cache\n\tvalue, err := cache.Get(key)"},
			{Name: "prefix-shadowed", File: "internal/core/storage/hybrid/config.go", Rule: "R-C14-3",
				Old: "\"tunnox:conn_state:\",            // 连接状态", New: "\"tunnox:persist:conn_state:\",    // 连接状态"},
			{Name: "list-append-unlocked", File: "internal/core/storage/hybrid/hybrid_ops.go", Rule: "R-C14-4",
				Old: "\t// 整个读取-修改-写回必须在一把锁内完成，否则并发追加会丢失成员\n\th.listMu.Lock()\n\tdefer h.listMu.Unlock()\n", New: ""},
		},
	})
}

var hybCategories = []string{"Runtime", "Persistent", "Shared", "SharedPersistent"}

// categoryConst maps the constant value of a DataCategory to its name using
// the package's constant declarations.
func categoryConsts(p *Prog) map[int64]string {
	out := map[int64]string{}
	pk := p.ByPath[Module+"/"+hybPkg]
	if pk == nil {
		return out
	}
	for _, n := range hybCategories {
		if c := pk.Types.Scope().Lookup("DataCategory" + n); c != nil {
			if cc, ok := c.(interface {
				Val() interface{ ExactString() string }
			}); ok {
				_ = cc
			}
		}
	}
	sc := pk.Types.Scope()
	for _, n := range hybCategories {
		obj := sc.Lookup("DataCategory" + n)
		if obj == nil {
			continue
		}
		if c, ok := obj.(interface {
			Val() interface{ String() string }
		}); ok {
			_ = c
		}
	}
	// use SSA named constants
	sp := p.SSAPkgs[Module+"/"+hybPkg]
	for _, n := range hybCategories {
		if nc, ok := sp.Members["DataCategory"+n].(*ssa.NamedConst); ok {
			if k, ok := ConstInt(nc.Value); ok {
				out[k] = n
			}
		}
	}
	return out
}

// tierOf labels the receiver of a tier call.
func tierOf(v ssa.Value) string {
	labels := map[string]bool{}
	roots := Origins(v)
	// captured variables: resolve to what the enclosing function stored in them
	for i := 0; i < len(roots) && i < 32; i++ {
		if roots[i].Kind != "freevar" {
			continue
		}
		fv, ok := roots[i].V.(*ssa.FreeVar)
		if !ok {
			continue
		}
		for _, bv := range freeVarBindings(fv) {
			if al, ok := bv.(*ssa.Alloc); ok {
				for _, st := range storesTo(al) {
					roots = append(roots, Origins(st.Val)...)
				}
			} else {
				roots = append(roots, Origins(bv)...)
			}
		}
	}
	// a tier handed back by a same-package helper (`h.sharedTier()`): what the helper returns
	for i := 0; i < len(roots) && i < 48; i++ {
		if roots[i].Kind != "call" || strings.Contains(roots[i].Desc, "getCacheForKey") {
			continue
		}
		var c *ssa.Call
		idx := 0
		switch x := roots[i].V.(type) {
		case *ssa.Call:
			c = x
		case *ssa.Extract:
			c, _ = x.Tuple.(*ssa.Call)
			idx = x.Index
		}
		if c == nil {
			continue
		}
		h := c.Common().StaticCallee()
		if h == nil || len(h.Blocks) == 0 || h.Pkg == nil || rel(h.Pkg.Pkg.Path()) != hybPkg {
			continue
		}
		var hstate map[*ssa.BasicBlock]map[string]bool
		var hlive liveEdges
		if tierCat != "" && tierConsts != nil {
			// a helper that chooses the tier from the category: only the returns reachable under the
			// category being evaluated count
			hstate, hlive = tierLive(h, tierConsts, map[string]bool{tierCat: true})
		}
		for _, ret := range Returns(h) {
			if hstate != nil && len(hstate[ret.Block()]) == 0 {
				continue
			}
			if idx < len(ret.Results) {
				rv := RetVal(ret, idx)
				if hlive != nil {
					rv = resolveLive(rv, hlive, 0)
				}
				rts := Origins(rv)
				roots = append(roots, rts...)
			}
		}
	}
	for _, rt := range roots {
		switch {
		case rt.Kind == "field" && strings.HasPrefix(rt.Desc, "Storage.cache("):
			labels["local"] = true
		case rt.Kind == "field" && strings.HasPrefix(rt.Desc, "Storage.sharedCache("):
			labels["sharedOnly"] = true
		case rt.Kind == "field" && strings.HasPrefix(rt.Desc, "Storage.persistent("):
			labels["persistent"] = true
		case rt.Kind == "call" && strings.Contains(rt.Desc, "getCacheForKey"):
			labels["keycache"] = true
		}
	}
	switch {
	case labels["keycache"] && len(labels) == 1:
		return "selector" // getCacheForKey(key): the shared cache only for keys of the shared category
	case labels["local"] && labels["sharedOnly"] && len(labels) == 2:
		return "keycache" // `cache := h.sharedCache; if cache == nil { cache = h.cache }`
	case len(labels) == 1:
		for k := range labels {
			return k
		}
	}
	if len(labels) == 0 {
		return ""
	}
	var ks []string
	for k := range labels {
		ks = append(ks, k)
	}
	sort.Strings(ks)
	return strings.Join(ks, "+")
}

type tierUse struct {
	tier, method string
	pos          token.Pos
	async        bool
	order        int
}

// tierAssume fixes configuration flags (field name -> value) for one evaluation of the tier table.
var tierAssume map[string]bool

// evalTierTable computes, for function f, the tier calls each category may reach.
func evalTierTable(p *Prog, f *ssa.Function, consts map[int64]string, fixed map[string]bool, depth int, async bool, out map[string][]tierUse, orderBase *int) {
	if f == nil || len(f.Blocks) == 0 || depth > 3 {
		return
	}
	// one evaluation per category: with a single category every branch on the category is decided,
	// so a tier or a flag chosen by a `switch category` into a local variable (a phi) resolves to the
	// one value that reaches it. The order counter restarts from the same base for each category so
	// that the orders of the operations of one category stay comparable.
	var cats []string
	for _, n := range hybCategories {
		if fixed == nil || fixed[n] {
			cats = append(cats, n)
		}
	}
	base, maxOrder := *orderBase, *orderBase
	for _, c := range cats {
		*orderBase = base
		evalTierOne(p, f, consts, map[string]bool{c: true}, depth, async, out, orderBase)
		if *orderBase > maxOrder {
			maxOrder = *orderBase
		}
	}
	*orderBase = maxOrder
}

// liveEdges is the set of CFG edges (pred block, successor index) that one evaluation found
// reachable; used to resolve phis to the values that can actually arrive.
type liveEdges map[*ssa.BasicBlock]map[int]bool

// resolveLive follows v through phis, keeping only the edges that are live; returns the single
// value that can arrive, or v itself when several can.
func resolveLive(v ssa.Value, live liveEdges, depth int) ssa.Value {
	if depth > 6 || live == nil {
		return v
	}
	sv := stripValue(v)
	ph, ok := sv.(*ssa.Phi)
	if !ok {
		return v
	}
	var vals []ssa.Value
	for i, e := range ph.Edges {
		pred := ph.Block().Preds[i]
		alive := false
		for si, sb := range pred.Succs {
			if sb == ph.Block() && live[pred][si] {
				alive = true
			}
		}
		if !alive {
			continue
		}
		r := resolveLive(e, live, depth+1)
		dup := false
		for _, x := range vals {
			if x == r {
				dup = true
			}
			if cb1, ok1 := ConstBool(x); ok1 {
				if cb2, ok2 := ConstBool(r); ok2 && cb1 == cb2 {
					dup = true
				}
			}
		}
		if !dup {
			vals = append(vals, r)
		}
	}
	if len(vals) == 1 {
		return vals[0]
	}
	return v
}

func evalTierOne(p *Prog, f *ssa.Function, consts map[int64]string, fixed map[string]bool, depth int, async bool, out map[string][]tierUse, orderBase *int) {
	if f == nil || len(f.Blocks) == 0 || depth > 3 {
		return
	}
	state, live := tierLive(f, consts, fixed)
	myCat := ""
	if len(fixed) == 1 {
		for c := range fixed {
			myCat = c
		}
	}
	prevCat := tierCat
	tierCat, tierConsts = myCat, consts
	defer func() { tierCat = prevCat }()
	// collect tier calls in dominance-ish order (block index, then position)
	for _, b := range f.Blocks {
		cur := state[b]
		if len(cur) == 0 {
			continue
		}
		for _, in := range b.Instrs {
			ci, ok := in.(ssa.CallInstruction)
			if !ok {
				continue
			}
			c := CalleeOf(ci)
			isGo := false
			if _, g := in.(*ssa.Go); g {
				isGo = true
			}
			// helpers of the same type: inline with the current category set
			if c.Fn != nil && c.Recv == "Storage" && c.Fn.Pkg == f.Pkg && c.Name != "getCategory" && c.Name != "getCacheForKey" &&
				!strings.HasPrefix(c.Name, "is") {
				evalTierTable(p, c.Fn, consts, cur, depth+1, async || isGo, out, orderBase)
				tierCat = myCat
				continue
			}
			if c.Name == "$closure" && c.Fn != nil {
				evalTierTable(p, c.Fn, consts, cur, depth+1, async || isGo, out, orderBase)
				tierCat = myCat
				continue
			}
			// a tier passed to a same-package function that operates on its parameter
			// (`deleteFromTier(h.persistent, key, ...)`): the operations the callee invokes on that
			// parameter are operations on the tier passed
			if c.Fn != nil && c.Recv == "" && c.Fn.Pkg == f.Pkg && len(c.Fn.Blocks) > 0 {
				for ai, a := range ci.Common().Args {
					if ai >= len(c.Fn.Params) {
						break
					}
					t := tierOf(resolveLive(a, live, 0))
					if t == "" {
						continue
					}
					if t == "local" || t == "sharedOnly" {
						for _, ft := range Facts(b) {
							if x, isnil, ok := ft.FactNil(); ok {
								if _, fld, _, isF := FieldOf(x); isF && fld == "sharedCache" {
									if (t == "local" && isnil) || (t == "sharedOnly" && !isnil) {
										t = "keycache"
									}
								}
							}
						}
					}
					prm := c.Fn.Params[ai]
					Instrs(c.Fn, func(hin ssa.Instruction) {
						hc, ok := hin.(ssa.CallInstruction)
						if !ok || !hc.Common().IsInvoke() || !sameRootParam(hc.Common().Value, prm) {
							return
						}
						*orderBase++
						for cat := range cur {
							tc := t
							if t == "selector" {
								if cat == "Shared" {
									tc = "keycache"
								} else {
									tc = "local"
								}
							}
							out[cat] = append(out[cat], tierUse{tier: tc, method: hc.Common().Method.Name(), pos: CallPos(ci), async: async || isGo, order: *orderBase})
						}
					})
				}
				continue
			}
			rv := Recv(ci)
			if rv == nil {
				continue
			}
			t := tierOf(resolveLive(rv, live, 0))
			if t == "" {
				continue
			}
			// `if h.sharedCache != nil { h.sharedCache.X } else { h.cache.X }` is the key-cache selection written as a branch
			if t == "local" || t == "sharedOnly" {
				for _, ft := range Facts(b) {
					if x, isnil, ok := ft.FactNil(); ok {
						if _, fld, _, isF := FieldOf(x); isF && fld == "sharedCache" {
							if (t == "local" && isnil) || (t == "sharedOnly" && !isnil) {
								t = "keycache"
							}
						}
					}
				}
			}
			*orderBase++
			for cat := range cur {
				tc := t
				if t == "selector" {
					// getCacheForKey returns the shared cache only when isShared(key) holds (R-C14-1 selector-shape)
					if cat == "Shared" {
						tc = "keycache"
					} else {
						tc = "local"
					}
				}
				out[cat] = append(out[cat], tierUse{tier: tc, method: c.Name, pos: CallPos(ci), async: async || isGo, order: *orderBase})
			}
		}
	}
}

// tierCat / tierConsts: the single category the current evaluation runs under (read by tierOf when a
// tier is handed back by a helper that chooses it from the category).
var tierCat string
var tierConsts map[int64]string

// tierLive: which blocks of f are reachable for which categories, deciding every branch on the
// category value (the result of getCategory, or a parameter of the category type).
func tierLive(f *ssa.Function, consts map[int64]string, fixed map[string]bool) (map[*ssa.BasicBlock]map[string]bool, liveEdges) {
	// which SSA values hold the category?
	catVals := map[ssa.Value]bool{}
	Instrs(f, func(in ssa.Instruction) {
		if c, ok := in.(*ssa.Call); ok && CalleeOf(c).Is("Storage.getCategory") {
			catVals[c] = true
		}
	})
	for _, prm := range f.Params {
		if _, n := recvTypeName(prm.Type()); n == "DataCategory" {
			catVals[prm] = true
		}
	}
	all := map[string]bool{}
	for _, n := range hybCategories {
		if fixed == nil || fixed[n] {
			all[n] = true
		}
	}
	var live liveEdges
	var state map[*ssa.BasicBlock]map[string]bool
	isCat := func(v ssa.Value) bool {
		v = stripValue(v)
		if catVals[v] {
			return true
		}
		if ph, ok := v.(*ssa.Phi); ok {
			for _, e := range ph.Edges {
				if catVals[stripValue(e)] {
					return true
				}
			}
		}
		return false
	}
	for round := 0; round < 4; round++ {
		prev := live
		live = liveEdges{}
		state = map[*ssa.BasicBlock]map[string]bool{f.Blocks[0]: all}
		work := []*ssa.BasicBlock{f.Blocks[0]}
		for len(work) > 0 {
			b := work[len(work)-1]
			work = work[:len(work)-1]
			cur := state[b]
			succSets := make([]map[string]bool, len(b.Succs))
			for i := range succSets {
				succSets[i] = cur
			}
			if len(b.Instrs) > 0 {
				if iff, ok := b.Instrs[len(b.Instrs)-1].(*ssa.If); ok {
					// a configuration flag evaluated under an assumption (tierAssume): only the consistent
					// successor is followed
					if c0, pol := normCond(iff.Cond, true); len(tierAssume) > 0 {
						if _, fld, _, isF := FieldOf(c0); isF {
							if val, has := tierAssume[fld]; has {
								taken := 0
								if val != pol {
									taken = 1
								}
								for i := range succSets {
									if i != taken {
										succSets[i] = map[string]bool{}
									}
								}
							}
						}
					}
					// a flag set per category (`inPersistent := false; switch category {... inPersistent = true}`)
					// resolves, under one category, to the constant that reaches the test
					if c0, pol := normCond(iff.Cond, true); prev != nil {
						if cb, isC := ConstBool(resolveLive(c0, prev, 0)); isC {
							taken := 1
							if cb == pol {
								taken = 0
							}
							for i := range succSets {
								if i != taken {
									succSets[i] = map[string]bool{}
								}
							}
						}
					}
					if bo, ok := iff.Cond.(*ssa.BinOp); ok && (bo.Op == token.EQL || bo.Op == token.NEQ) && isCat(bo.X) {
						if k, isC := ConstInt(bo.Y); isC {
							name := consts[k]
							eq, ne := map[string]bool{}, map[string]bool{}
							for c := range cur {
								if c == name {
									eq[c] = true
								} else {
									ne[c] = true
								}
							}
							if bo.Op == token.EQL {
								succSets[0], succSets[1] = eq, ne
							} else {
								succSets[0], succSets[1] = ne, eq
							}
						}
					}
				}
			}
			for i, s := range b.Succs {
				if len(succSets[i]) == 0 {
					continue
				}
				if live[b] == nil {
					live[b] = map[int]bool{}
				}
				live[b][i] = true
				old := state[s]
				merged := map[string]bool{}
				for k := range old {
					merged[k] = true
				}
				changed := old == nil
				for k := range succSets[i] {
					if !merged[k] {
						merged[k] = true
						changed = true
					}
				}
				if changed {
					state[s] = merged
					work = append(work, s)
				}
			}
		}
		// refinement: stop when the set of live edges no longer shrinks
		if prev != nil {
			same := true
			for b, m := range prev {
				for i := range m {
					if !live[b][i] {
						same = false
					}
				}
			}
			if same {
				break
			}
		}
	}
	return state, live
}

func tierSet(us []tierUse, methods ...string) map[string]bool {
	out := map[string]bool{}
	for _, u := range us {
		for _, m := range methods {
			if u.method == m {
				out[u.tier] = true
			}
		}
	}
	return out
}

func setStr(m map[string]bool) string {
	var ks []string
	for k := range m {
		ks = append(ks, k)
	}
	sort.Strings(ks)
	return "{" + strings.Join(ks, ",") + "}"
}

func runC14(r *Report) {
	consts := categoryConsts(r.P)
	if len(consts) != 4 {
		r.Fail("R-C14-1", 0, fmt.Sprintf("expected 4 DataCategory constants, found %d", len(consts)), hybPkg, "anchor")
		return
	}
	ops := map[string]map[string][]tierUse{}
	for _, op := range []string{"Set", "Get", "Delete", "Exists", "SetNX", "IncrBy"} {
		f := r.need("R-C14-1", hybPkg, "Storage."+op)
		if f == nil {
			return
		}
		tbl := map[string][]tierUse{}
		n := 0
		evalTierTable(r.P, f, consts, nil, 0, false, tbl, &n)
		ops[op] = tbl
	}
	// ---- R-C14-1 tier table ---------------------------------------------------------
	pos := func(op string) token.Pos { return r.P.Fn(hybPkg, "Storage."+op).Pos() }
	for _, cat := range hybCategories {
		setT := tierSet(ops["Set"][cat], "Set")
		getT := tierSet(ops["Get"][cat], "Get")
		delT := tierSet(ops["Delete"][cat], "Delete")
		exT := tierSet(ops["Exists"][cat], "Exists")
		r.Note("tier table %-16s set=%s get=%s delete=%s exists=%s", cat, setStr(setT), setStr(getT), setStr(delT), setStr(exT))
		r.Ob("R-C14-1", pos("Set"), len(setT) > 0, fmt.Sprintf("category %s: Set writes %s", cat, setStr(setT)), "Storage.Set", "writes:"+cat)
		// delete covers set
		missing := []string{}
		for t := range setT {
			if !delT[t] {
				missing = append(missing, t)
			}
		}
		r.Ob("R-C14-1", pos("Delete"), len(missing) == 0, fmt.Sprintf("category %s: Delete clears %s, Set writes %s (a tier that Set writes and Delete leaves alone keeps serving the deleted value)", cat, setStr(delT), setStr(setT)), "Storage.Delete", "delete-covers-set:"+cat)
		// get reads only tiers set writes; first read is one of them
		stray := []string{}
		for t := range getT {
			if !setT[t] {
				stray = append(stray, t)
			}
		}
		r.Ob("R-C14-1", pos("Get"), len(stray) == 0 && len(getT) > 0, fmt.Sprintf("category %s: Get reads %s, Set writes %s (a key is read from the tier class it was written to)", cat, setStr(getT), setStr(setT)), "Storage.Get", "get-within-set:"+cat)
		strayE := []string{}
		for t := range exT {
			if !setT[t] {
				strayE = append(strayE, t)
			}
		}
		r.Ob("R-C14-1", pos("Exists"), len(strayE) == 0 && len(exT) > 0, fmt.Sprintf("category %s: Exists reads %s, Set writes %s", cat, setStr(exT), setStr(setT)), "Storage.Exists", "exists-within-set:"+cat)
		// any tier touched at all (incl. fills in Get)
		touched := map[string]bool{}
		for _, op := range []string{"Set", "Get", "Delete", "Exists"} {
			for _, u := range ops[op][cat] {
				touched[u.tier] = true
			}
		}
		switch cat {
		case "Runtime":
			r.Ob("R-C14-1", pos("Set"), !touched["persistent"], "runtime keys never reach the persistent tier (touched: "+setStr(touched)+")", "Storage", "runtime-not-persistent")
		case "Shared":
			only := len(touched) == 1 && touched["keycache"]
			r.Ob("R-C14-1", pos("Get"), only, "shared (cross-node) keys touch only the key cache - the shared cache when one is configured - never a node-local copy nor persistence (touched: "+setStr(touched)+")", "Storage", "shared-only-keycache")
		case "SharedPersistent":
			r.Ob("R-C14-1", pos("Set"), setT["keycache"] && setT["persistent"], "shared+persistent keys are written to the key cache and to persistence", "Storage.Set", "sharedpersistent-both")
		case "Persistent":
			r.Ob("R-C14-1", pos("Set"), setT["persistent"], "persistent keys are written to persistence", "Storage.Set", "persistent-persisted")
		}
	}
	// the persistence switch points the same way in every operation: with EnablePersistent the
	// persistent categories reach the persistent tier in Set, Get, Exists and Delete alike; without it
	// nothing does (an inverted test in one operation makes it disagree with the others)
	for _, flag := range []bool{true, false} {
		tierAssume = map[string]bool{"EnablePersistent": flag}
		got := map[string]map[string]map[string]bool{}
		for _, op := range []string{"Set", "Get", "Delete", "Exists"} {
			tbl := map[string][]tierUse{}
			n := 0
			evalTierTable(r.P, r.P.Fn(hybPkg, "Storage."+op), consts, nil, 0, false, tbl, &n)
			got[op] = map[string]map[string]bool{}
			for _, cat := range hybCategories {
				got[op][cat] = map[string]bool{}
				for _, u := range tbl[cat] {
					got[op][cat][u.tier] = true
				}
			}
		}
		tierAssume = nil
		for _, cat := range []string{"Persistent", "SharedPersistent"} {
			for _, op := range []string{"Set", "Get", "Delete", "Exists"} {
				has := got[op][cat]["persistent"]
				r.Ob("R-C14-1", pos(op), has == flag, fmt.Sprintf("with EnablePersistent=%v, %s on a %s key reaches the persistent tier: %v (all four operations must agree with the switch)", flag, op, cat, has), "Storage."+op, fmt.Sprintf("persist-switch:%s:%v", cat, flag))
			}
		}
	}
	// SetNX / IncrBy operate on a tier that Set writes and Get reads for the same key
	for _, op := range []string{"SetNX", "IncrBy"} {
		for _, cat := range hybCategories {
			setT := tierSet(ops["Set"][cat], "Set")
			used := map[string]bool{}
			for _, u := range ops[op][cat] {
				used[u.tier] = true
			}
			stray := false
			for t := range used {
				if !setT[t] {
					stray = true
				}
			}
			if cat == "SharedPersistent" {
				r.Note("R-C14-1: %s on a shared+persistent key uses %s while Set writes %s (no caller uses %s on that category today)", op, setStr(used), setStr(setT), op)
				continue
			}
			r.Ob("R-C14-1", pos(op), !stray && len(used) > 0, fmt.Sprintf("category %s: %s operates on %s, Set writes %s (a counter / claim must live where reads and deletes of the key go)", cat, op, setStr(used), setStr(setT)), "Storage."+op, "same-tier-as-set:"+cat)
		}
	}
	// every other key-addressed operation of the facade (expiry, lists, ...; discovered, not listed):
	// whatever tier it touches for a key of a category is one that Set writes for that category.  Hash
	// operations address a derived key (key:field) and are documented as cache-only; they are noted.
	if st := r.P.Fn(hybPkg, "Storage.Set"); st != nil {
		// the generic key-value contract (the Storage and ListStore interfaces): a caller of these cannot
		// name a tier, so the facade must pick it from the key.  Methods outside the contract that name
		// their tier (SetRuntime, SetPersistent, ...) are the facade's explicit-tier API and are not held to it.
		contract := map[string]bool{}
		if tp := r.P.ByPath[Module+"/internal/core/storage/types"]; tp != nil {
			for _, in := range []string{"Storage", "ListStore"} {
				if o := tp.Types.Scope().Lookup(in); o != nil {
					if it, ok := o.Type().Underlying().(*types.Interface); ok {
						for i := 0; i < it.NumMethods(); i++ {
							contract[it.Method(i).Name()] = true
						}
					}
				}
			}
		}
		if len(contract) < 6 {
			r.Fail("R-C14-1", st.Pos(), "the Storage / ListStore interfaces of internal/core/storage/types were not found", "Storage", "op-within-set:anchor")
		}
		var others []*ssa.Function
		for _, g := range r.P.Funcs {
			if !contract[g.Name()] {
				continue
			}
			if g.Pkg != st.Pkg || g.Signature.Recv() == nil || len(g.Blocks) == 0 || g.Object() == nil || !g.Object().Exported() {
				continue
			}
			if _, n := recvTypeName(g.Signature.Recv().Type()); n != "Storage" {
				continue
			}
			switch g.Name() {
			case "Set", "Get", "Delete", "Exists", "SetNX", "IncrBy":
				continue
			}
			if len(g.Params) < 2 {
				continue
			}
			if b, ok := g.Params[1].Type().Underlying().(*types.Basic); !ok || b.Kind() != types.String {
				continue
			}
			others = append(others, g)
		}
		sort.Slice(others, func(i, j int) bool { return others[i].Name() < others[j].Name() })
		nOther := 0
		for _, g := range others {
			if strings.Contains(g.Name(), "Hash") {
				continue
			}
			tbl := map[string][]tierUse{}
			n := 0
			evalTierTable(r.P, g, consts, nil, 0, false, tbl, &n)
			for _, cat := range hybCategories {
				if len(tbl[cat]) == 0 {
					continue
				}
				setT := tierSet(ops["Set"][cat], "Set")
				used := map[string]bool{}
				for _, u := range tbl[cat] {
					used[u.tier] = true
				}
				var stray []string
				for t := range used {
					if !setT[t] {
						stray = append(stray, t)
					}
				}
				sort.Strings(stray)
				if cat == "SharedPersistent" && len(stray) > 0 && len(used) == 1 && used["local"] {
					// same carve-out as SetNX / IncrBy: the source of truth of this category is the persistent
					// tier (no expiry) and the local tier never holds such a key, so the call finds nothing
					r.Note("R-C14-1: %s on a shared+persistent key addresses %s while Set writes %s (the local tier never holds such a key; no caller uses it on that category today)", g.Name(), setStr(used), setStr(setT))
					continue
				}
				nOther++
				r.Ob("R-C14-1", g.Pos(), len(stray) == 0, fmt.Sprintf("category %s: %s touches %s, Set writes %s (an operation on a key goes to the tier class the key was written to)", cat, g.Name(), setStr(used), setStr(setT)), "Storage."+g.Name(), "op-within-set:"+cat)
			}
		}
		r.Note("R-C14-1: %d other key-addressed facade operations evaluated (%d operation x category obligations)", len(others), nOther)
	}
	// the selector itself: shared cache only under isShared(key) && sharedCache != nil, else the local cache
	if gk := r.need("R-C14-1", hybPkg, "Storage.getCacheForKey"); gk != nil {
		okSel := true
		n := 0
		for _, ret := range Returns(gk) {
			v := RetVal(ret, 0)
			lab := ""
			for _, rt := range Origins(v) {
				if rt.Kind == "field" && strings.HasPrefix(rt.Desc, "Storage.sharedCache(") {
					lab = "shared"
				}
				if rt.Kind == "field" && strings.HasPrefix(rt.Desc, "Storage.cache(") {
					lab = "local"
				}
			}
			n++
			if lab == "shared" {
				_, pol, found := CallFact(ret.Block(), "Storage.isShared")
				nonNil := false
				for _, ft := range Facts(ret.Block()) {
					if x, isnil, ok := ft.FactNil(); ok && !isnil {
						if _, f, _, ok := FieldOf(x); ok && f == "sharedCache" {
							nonNil = true
						}
					}
				}
				if !(found && pol && nonNil) {
					okSel = false
				}
			} else if lab != "local" {
				okSel = false
			}
		}
		r.Ob("R-C14-1", gk.Pos(), okSel && n == 2, "getCacheForKey returns the shared cache exactly under isShared(key) && sharedCache != nil and the local cache otherwise (the tier table relies on this)", "Storage.getCacheForKey", "selector-shape")
	}

	// ---- R-C14-2 no asynchronous fill on the read path -----------------------------------
	for _, op := range []string{"Get", "Exists"} {
		seen := map[string]bool{}
		for _, cat := range hybCategories {
			for _, u := range ops[op][cat] {
				if u.async && (u.method == "Set" || u.method == "Delete") {
					k := fmt.Sprintf("%s:%s:%s", cat, u.tier, u.method)
					if seen[k] {
						continue
					}
					seen[k] = true
					r.Fail("R-C14-2", u.pos, fmt.Sprintf("read path of category %s writes tier %s from a goroutine: a set/delete that completes in between is overwritten by the older value", cat, u.tier), "Storage."+op, "async-fill:"+cat)
				}
			}
		}
	}
	r.Pass("R-C14-2", pos("Get"), "read operations scanned for asynchronous tier writes", "Storage.Get", "scan")

	// ---- R-C14-3 prefix table sanity ----------------------------------------------------------
	tabs := hybridPrefixTables(r.P)
	if len(tabs["SharedPrefixes"]) < 5 || len(tabs["PersistentPrefixes"]) < 5 || len(tabs["SharedPersistentPrefixes"]) < 5 {
		r.Fail("R-C14-3", 0, "prefix tables could not be read from DefaultConfig", hybPkg, "anchor")
	} else {
		want := map[string]string{"SharedPersistentPrefixes": "shared-persistent", "SharedPrefixes": "shared", "PersistentPrefixes": "persistent"}
		for list, cat := range want {
			for _, pre := range tabs[list] {
				got := hybridCategory(r, pre+"x")
				r.Ob("R-C14-3", 0, got == cat, fmt.Sprintf("prefix %q is listed as %s and classifies as %s (a prefix shadowed by an earlier list is stored in the wrong tier)", pre, cat, got), hybPkg, "prefix:"+pre)
			}
		}
		for _, pre := range []string{"tunnox:conn_state:", "tunnox:client_conn:", "tunnox:tunnel_waiting:", "tunnox:node:", "tunnox:id:", "tunnox:runtime:conncode:", "tunnox:http_domain:index:", "tunnox:http_domain:next_id"} {
			got := hybridCategory(r, pre+"x")
			if pre == "tunnox:http_domain:next_id" {
				got = hybridCategory(r, pre)
			}
			if got != "shared" {
				// the family may be listed by its concrete sub-families instead of one broad prefix: then
				// every key prefix of that family the constants package declares must classify as shared
				n, all := 0, true
				if cp := r.P.ByPath[Module+"/internal/constants"]; cp != nil {
					for _, name := range cp.Types.Scope().Names() {
						c, ok := cp.Types.Scope().Lookup(name).(*types.Const)
						if !ok || c.Val().Kind() != constant.String {
							continue
						}
						v := constant.StringVal(c.Val())
						if !strings.HasPrefix(v, pre) || v == pre {
							continue
						}
						n++
						if hybridCategory(r, v+"x") != "shared" {
							all = false
						}
					}
				}
				if n > 0 && all {
					got = "shared"
				}
			}
			r.Ob("R-C14-3", 0, got == "shared", fmt.Sprintf("cross-node key family %q classifies as %s (want shared: visible to every node, TTL'd, not persisted)", pre, got), hybPkg, "cross-node:"+pre)
		}
		// the runtime-only families are the ones the package itself declares (var RuntimePrefixes),
		// read from the source on every run; the four confirmed by hand are the fallback minimum
		runtimeOnly := map[string]bool{"tunnox:runtime:": true, "tunnox:session:": true, "tunnox:jwt:": true, "tunnox:temp:": true}
		for _, pre := range packageStringSlice(r.P, hybPkg, "RuntimePrefixes") {
			runtimeOnly[pre] = true
		}
		var rts []string
		for k := range runtimeOnly {
			rts = append(rts, k)
		}
		sort.Strings(rts)
		for _, pre := range rts {
			got := hybridCategory(r, pre+"x")
			r.Ob("R-C14-3", 0, got != "persistent" && got != "shared-persistent", fmt.Sprintf("runtime-only family %q classifies as %s (must never be persisted)", pre, got), hybPkg, "runtime-only:"+pre)
		}
	}
	// getCategory is read as an ordered list of (predicate over a prefix table -> category) steps; every
	// step must be evaluable, and the obligations above classify every listed prefix through that list
	decs := hybridDecisions(r.P)
	var prec []string
	allKnown := len(decs) >= 3
	for _, d := range decs {
		prec = append(prec, fmt.Sprintf("%s[%d prefixes]->%s", d.pred, len(d.table), d.cat))
		if !d.known {
			allKnown = false
		}
	}
	r.Ob("R-C14-3", 0, allKnown, "every step of getCategory is a predicate over a readable prefix table with a constant category: "+strings.Join(prec, " > "), "Storage.getCategory", "precedence")

	// ---- R-C14-4 list read-modify-write ----------------------------------------------------------
	for _, name := range []string{"Storage.AppendToList", "Storage.RemoveFromList"} {
		f := r.need("R-C14-4", hybPkg, name)
		if f == nil {
			continue
		}
		// the read-modify-write may live in a helper both operations share
		// (`h.updateList(key, missingOK, func(list) list)`): the helper is analysed in their place
		if len(Calls(f, false, "Storage.GetList", "Storage.Get", "Storage.Set", "Storage.SetList")) == 0 {
			var via *ssa.Function
			Instrs(f, func(in ssa.Instruction) {
				if c, ok := in.(*ssa.Call); ok && via == nil {
					if h := c.Common().StaticCallee(); h != nil && h.Pkg == f.Pkg && len(h.Blocks) > 0 && h != f &&
						len(Calls(h, false, "Storage.GetList", "Storage.Get")) > 0 && len(Calls(h, false, "Storage.Set", "Storage.SetList")) > 0 {
						via = h
					}
				}
			})
			if via != nil {
				f = via
			}
		}
		ls := ComputeLockSets(f, nil)
		var reads, writes []ssa.CallInstruction
		reads = append(reads, Calls(f, false, "Storage.GetList", "Storage.Get")...)
		writes = append(writes, Calls(f, false, "Storage.Set", "Storage.SetList")...)
		if len(reads) == 0 && len(writes) == 0 {
			// delegation to one tier primitive
			del := Calls(f, false, "AppendToList", "RemoveFromList")
			r.Ob("R-C14-4", f.Pos(), len(del) == 1, "list update delegates to one tier primitive", name, "atomic-list-update")
			continue
		}
		ok := len(reads) > 0 && len(writes) > 0
		// the section may be held through a release function: `defer h.lockList(key)()` - a helper of the
		// facade that locks a mutex (one per list key, or one for all) and returns the closure that
		// unlocks it, called with the list key before the read and released only by defer
		viaRelease := func(in ssa.Instruction) bool {
			heldBy := false
			Instrs(f, func(x ssa.Instruction) {
				d, isD := x.(*ssa.Defer)
				if !isD || heldBy {
					return
				}
				acq, _ := CallOfValue(d.Call.Value)
				if acq == nil {
					return
				}
				h := acq.Common().StaticCallee()
				if h == nil || h.Pkg != f.Pkg || len(h.Blocks) == 0 {
					return
				}
				// the helper locks a mutex and returns a closure that unlocks one
				locks, releases := false, false
				Instrs(h, func(y ssa.Instruction) {
					if c2, ok := y.(*ssa.Call); ok {
						if _, op, ok := lockOp(c2); ok && op == "Lock" {
							locks = true
						}
					}
				})
				for _, ret := range Returns(h) {
					for i := range ret.Results {
						if mc, ok := stripValue(RetVal(ret, i)).(*ssa.MakeClosure); ok {
							if cl, ok := mc.Fn.(*ssa.Function); ok {
								Instrs(cl, func(y ssa.Instruction) {
									if c3, ok := y.(ssa.CallInstruction); ok {
										if _, op3, ok := lockOp(c3); ok && op3 == "Unlock" {
											releases = true
										}
									}
								})
							}
						}
					}
				}
				// the mutex must stay the one for its key while anyone holds or waits for it: an entry of a
				// lock table is removed only on the edge where a use count has reached zero (an unconditional
				// removal lets a newcomer create a second mutex while a waiter still queues on the first)
				stable := true
				scan := []*ssa.Function{h}
				scan = append(scan, h.AnonFuncs...)
				for _, g := range scan {
					Instrs(g, func(y ssa.Instruction) {
						c2, ok := y.(*ssa.Call)
						if !ok {
							return
						}
						removal := CalleeOf(c2).Is("sync:Map.Delete", "sync:Map.LoadAndDelete", "sync:Map.CompareAndDelete")
						if b, isB := c2.Call.Value.(*ssa.Builtin); isB && b.Name() == "delete" {
							removal = true
						}
						if !removal {
							return
						}
						counted := false
						for _, ft := range Facts(y.Block()) {
							if bo, isBo := ft.Cond.(*ssa.BinOp); isBo {
								if k, isK := ConstInt(bo.Y); isK && k == 0 && ((bo.Op == token.EQL && ft.Pol) || (bo.Op == token.LEQ && ft.Pol) || (bo.Op == token.NEQ && !ft.Pol) || (bo.Op == token.GTR && !ft.Pol)) {
									counted = true
								}
							}
						}
						if !counted {
							stable = false
						}
					})
				}
				if !locks || !releases || !stable {
					return
				}
				// keyed by the list key of this operation (or by nothing: one lock for all lists)
				keyed := true
				for i, a := range acq.Call.Args {
					if i == 0 {
						continue // receiver
					}
					if b, isB := a.Type().Underlying().(*types.Basic); isB && b.Kind() == types.String {
						if p, isP := stripValue(a).(*ssa.Parameter); !isP || p != f.Params[1] {
							keyed = false
						}
					}
				}
				ai := ssa.Instruction(acq)
				if keyed && (ai.Block() == in.Block() && Before(ai, in) || (ai.Block() != in.Block() && ai.Block().Dominates(in.Block()))) {
					heldBy = true
				}
			})
			return heldBy
		}
		for _, c := range append(append([]ssa.CallInstruction{}, reads...), writes...) {
			if r.held(ls, c.(ssa.Instruction), "internal/core/storage/hybrid", "Storage", "listMu") != "W" && !viaRelease(c.(ssa.Instruction)) {
				ok = false
			}
		}
		// one contiguous section: no unlock between read and write
		if ok {
			for _, rd := range reads {
				for _, w := range writes {
					hits := WalkFrom(nil, rd.(ssa.Instruction), func(in ssa.Instruction) int {
						if in == w.(ssa.Instruction) {
							return Stop
						}
						if c, isC := in.(*ssa.Call); isC {
							if id, op, isL := lockOp(c); isL && op == "Unlock" && strings.HasSuffix(id, "listMu") {
								return Hit
							}
						}
						return Cont
					}, nil)
					if len(hits) > 0 {
						ok = false
					}
				}
			}
		}
		r.Ob("R-C14-4", f.Pos(), ok, "the list read (GetList) and the write-back (Set) happen in one locked section (listMu, or a stable per-key lock held through a release function), so concurrent appends/removes cannot overwrite each other", name, "atomic-list-update")
	}
}

// freeVarBindings returns the values bound to a captured variable at the
// closure's creation sites.
func freeVarBindings(fv *ssa.FreeVar) []ssa.Value {
	fn := fv.Parent()
	idx := -1
	for i, x := range fn.FreeVars {
		if x == fv {
			idx = i
		}
	}
	var out []ssa.Value
	for _, site := range closureSites(fn) {
		mc := site.(*ssa.MakeClosure)
		if idx >= 0 && idx < len(mc.Bindings) {
			out = append(out, mc.Bindings[idx])
		}
	}
	return out
}

// checkSharedFamilyTiers asserts, for a property that relies on cross-node
// (shared category) records, that the facade reads, writes, tests and deletes
// such keys in the same single tier (the key cache).
func checkSharedFamilyTiers(r *Report, rule string) {
	consts := categoryConsts(r.P)
	if len(consts) != 4 {
		r.Fail(rule, 0, "DataCategory constants not found", hybPkg, "anchor")
		return
	}
	for _, op := range []string{"Set", "Get", "Delete", "Exists"} {
		f := r.P.Fn(hybPkg, "Storage."+op)
		if f == nil {
			r.Fail(rule, 0, "hybrid.Storage."+op+" not found", hybPkg, "anchor:"+op)
			continue
		}
		tbl := map[string][]tierUse{}
		n := 0
		evalTierTable(r.P, f, consts, nil, 0, false, tbl, &n)
		touched := map[string]bool{}
		for _, u := range tbl["Shared"] {
			touched[u.tier] = true
		}
		ok := len(touched) == 1 && touched["keycache"]
		r.Ob(rule, f.Pos(), ok, fmt.Sprintf("tiered facade %s on a shared (cross-node) key touches %s (want exactly the key cache: what one node writes or deletes is what every node reads)", op, setStr(touched)), "hybrid.Storage."+op, "shared-family-tier")
	}
}

// packageStringSlice reads the string elements of a package-level `var name = []string{...}` from
// the syntax of pkg.
func packageStringSlice(p *Prog, pkg, name string) []string {
	var out []string
	pk := p.ByPath[Module+"/"+pkg]
	if pk == nil {
		return out
	}
	for _, file := range pk.Syntax {
		for _, d := range file.Decls {
			gd, ok := d.(*ast.GenDecl)
			if !ok {
				continue
			}
			for _, sp := range gd.Specs {
				vs, ok := sp.(*ast.ValueSpec)
				if !ok {
					continue
				}
				for i, n := range vs.Names {
					if n.Name != name || i >= len(vs.Values) {
						continue
					}
					cl, ok := vs.Values[i].(*ast.CompositeLit)
					if !ok {
						continue
					}
					for _, e := range cl.Elts {
						if tv, ok := pk.TypesInfo.Types[e]; ok && tv.Value != nil && tv.Value.Kind() == constant.String {
							out = append(out, constant.StringVal(tv.Value))
						}
					}
				}
			}
		}
	}
	return out
}

// sameRootParam: v is the parameter p (possibly through an interface conversion).
func sameRootParam(v ssa.Value, p *ssa.Parameter) bool {
	for _, rt := range Origins(v) {
		if rt.V == ssa.Value(p) {
			return true
		}
	}
	return false
}
