package main

import (
	"fmt"
	"go/token"
	"strings"

	"golang.org/x/tools/go/ssa"
)

func init() {
	register(&PropCheck{
		ID: "C19",
		Explanation: "Static rules on HTTP domain ownership (cloud/repos/http_domain_mapping_repository.go, httpservice/domain_registry.go, domainproxy/mapping_lookup.go). " +
			"R-C19-1: in CreateMapping every write of mapping data is dominated by the successful atomic set-if-absent of the domain index key, and every later failure return releases the claim (and the mapping data once written). " +
			"R-C19-2: program-wide the domain index key family is passed only to SetNX, Get, Exists and Delete - never to a plain Set that could overwrite another owner's claim. " +
			"R-C19-3: in DeleteMapping every delete is dominated by the owner comparison mapping.ClientID == clientID, the index is deleted before the mapping data (a partial failure stays retriable instead of leaving an orphan claim), and the index delete is guarded by 'index still names this mapping'. " +
			"R-C19-4: every lookup success is dominated by the active / not revoked / not expired tests of the source it came from, and the repository is consulted before the legacy sources. " +
			"R-C19-5: the in-memory host registry decides and performs a claim in one write-locked section. " +
			"Decides these necessary conditions; does not decide Host spelling normalisation or schedules beyond the atomic claim.",
		Run: runC19,
		Mutants: []Mutant{
			{Name: "rebuild-keeps-old-entries", File: "internal/httpservice/domain_registry.go", Rule: "R-C19-5",
				Old: "\tr.mappings = make(map[string]*models.PortMapping)\n\n\t// 重建索引\n", New: "\t// 重建索引\n"},
			{Name: "expired-reported-as-not-found", File: "internal/httpservice/modules/domainproxy/mapping_lookup.go", Rule: "R-C19-4",
				Old: "return nil, coreerrors.New(coreerrors.CodeForbidden, \"mapping has expired\")\n\t\t}\n\t\treturn nil, coreerrors.Newf(coreerrors.CodeUnavailable, \"mapping is not active: %s\", httpMapping.Status)", New: "return nil, coreerrors.New(coreerrors.CodeMappingNotFound, \"mapping has expired\")\n\t\t}\n\t\treturn nil, coreerrors.Newf(coreerrors.CodeUnavailable, \"mapping is not active: %s\", httpMapping.Status)"},
			{Name: "create-data-before-claim", File: "internal/cloud/repos/http_domain_mapping_repository.go", Rule: "R-C19-1",
				Old: "\tif !success {\n\t\t// 域名已被占用\n\t\treturn nil, coreerrors.Newf(coreerrors.CodeAlreadyExists, \"domain %s is already in use\", fullDomain)\n\t}\n", New: "\tif !success {\n\t\t_ = fullDomain\n\t}\n"},
			{Name: "create-rollback-forgotten", File: "internal/cloud/repos/http_domain_mapping_repository.go", Rule: "R-C19-1",
				Old: "\t\t// 回滚：删除映射数据和域名索引\n\t\t_ = r.storage.Delete(mappingKey)\n\t\t_ = r.storage.Delete(indexKey)\n", New: "\t\t// 回滚：删除映射数据\n\t\t_ = r.storage.Delete(mappingKey)\n"},
			{Name: "delete-owner-check-dropped", File: "internal/cloud/repos/http_domain_mapping_repository.go", Rule: "R-C19-3",
				Old: "if mapping.ClientID != clientID {\n\t\treturn coreerrors.Newf(coreerrors.CodeForbidden,", New: "if mapping.ClientID != clientID && clientID != 0 {\n\t\treturn coreerrors.Newf(coreerrors.CodeForbidden,"},
			{Name: "lookup-ignores-inactive", File: "internal/httpservice/modules/domainproxy/mapping_lookup.go", Rule: "R-C19-4",
				Old: "\tif !httpMapping.IsActive() {\n\t\tif httpMapping.IsExpired() {", New: "\tif !httpMapping.IsActive() && httpMapping.Status != \"\" {\n\t\tif httpMapping.IsExpired() {"},
			{Name: "registry-check-under-rlock", File: "internal/httpservice/domain_registry.go", Rule: "R-C19-5",
				Old: "\tr.mu.Lock()\n\tdefer r.mu.Unlock()\n\n\t// 检查是否已存在\n\tif existing, exists := r.mappings[fullDomain]; exists {\n\t\t// 如果是同一个映射ID，允许更新\n\t\tif existing.ID != mapping.ID {\n\t\t\treturn ErrDomainAlreadyExist\n\t\t}\n\t}\n",
				New: "\tr.mu.RLock()\n\texisting, exists := r.mappings[fullDomain]\n\tr.mu.RUnlock()\n\tif exists && existing.ID != mapping.ID {\n\t\treturn ErrDomainAlreadyExist\n\t}\n\n\tr.mu.Lock()\n\tdefer r.mu.Unlock()\n"},
		},
	})
}

const reposPkg = "internal/cloud/repos"

func runC19(r *Report) {
	cm := r.need("R-C19-1", reposPkg, "HTTPDomainMappingRepository.CreateMapping")
	if cm != nil {
		nx := Calls(cm, false, "SetNX")
		// the claim may live in a same-package helper (`indexKey, err := r.claimDomainIndex(...)`):
		// the helper then must return success only after its single SetNX succeeded with ok==true,
		// and hand back the key it claimed.
		var viaHelper *ssa.Call
		if len(nx) == 0 {
			Instrs(cm, func(in ssa.Instruction) {
				c, ok := in.(*ssa.Call)
				if !ok || viaHelper != nil {
					return
				}
				if h := c.Common().StaticCallee(); h != nil && h.Pkg == cm.Pkg && len(h.Blocks) > 0 && len(Calls(h, false, "SetNX")) == 1 {
					viaHelper = c
				}
			})
			if viaHelper != nil {
				nx = Calls(viaHelper.Common().StaticCallee(), false, "SetNX")
			}
		}
		if len(nx) != 1 {
			r.Fail("R-C19-1", cm.Pos(), fmt.Sprintf("expected one SetNX claim in CreateMapping, found %d", len(nx)), "CreateMapping", "anchor")
		} else {
			claim := nx[0]
			kc, _ := CallOfValue(claim.Common().Args[0])
			r.Ob("R-C19-1", CallPos(claim), kc != nil && CalleeOf(kc).Name == "HTTPDomainIndexKey", "the claim is made on the domain index key", "CreateMapping", "claim-key")
			indexKey := claim.Common().Args[0]
			okv := extractOf(claim, 0)
			claimedDirect := func(b *ssa.BasicBlock) bool {
				if !ErrOK(b, claim) {
					return false
				}
				for _, ft := range Facts(b) {
					if ft.Cond == okv && ft.Pol {
						return true
					}
				}
				return false
			}
			claimed := claimedDirect
			if viaHelper != nil {
				h := viaHelper.Common().StaticCallee()
				good, keyBack := true, -1
				for _, ret := range Returns(h) {
					if RetErrKind(ret) != "nil" {
						continue
					}
					if !claimedDirect(ret.Block()) {
						good = false
					}
					for i := range ret.Results {
						if stripValue(RetVal(ret, i)) == stripValue(indexKey) {
							keyBack = i
						}
					}
				}
				r.Ob("R-C19-1", CallPos(claim), good, "the claim helper "+h.Name()+" reports success only after its SetNX succeeded with ok==true", "CreateMapping", "claim-helper-success")
				hc := viaHelper
				claimed = func(b *ssa.BasicBlock) bool { return good && ErrOK(b, hc) }
				if keyBack >= 0 {
					if e := extractOf(hc, keyBack); e != nil {
						indexKey = e
					}
				}
			}
			// writes of mapping data
			nW := 0
			for _, w := range Calls(cm, false, "Set", "AppendToList", "HTTPDomainMappingRepository.addToClientMappingList", "HTTPDomainMappingRepository.addToGlobalMappingList", "SetList") {
				nW++
				r.Ob("R-C19-1", CallPos(w), claimed(w.Block()), CalleeOf(w).Name+" (mapping data write) is dominated by the successful atomic claim of the domain", "CreateMapping", "write-after-claim:"+CalleeOf(w).Name)
			}
			if nW < 1 { // alarm below 40% of the 3 sites confirmed by hand
				r.Fail("R-C19-1", cm.Pos(), fmt.Sprintf("only %d data writes found in CreateMapping (3 confirmed by hand)", nW), "CreateMapping", "floor-writes")
			}
			// rollback: from the success edge, error returns pass Delete(indexKey)
			var start *ssa.BasicBlock
			for _, b := range cm.Blocks {
				if claimed(b) && (start == nil || b.Dominates(start)) {
					start = b
				}
			}
			if start == nil {
				r.Fail("R-C19-1", CallPos(claim), "no block is dominated by the successful claim", "CreateMapping", "anchor-success-edge")
			} else {
				isDel := func(key ssa.Value) func(ssa.Instruction) bool {
					return func(in ssa.Instruction) bool {
						ci, ok := in.(ssa.CallInstruction)
						if !ok {
							return false
						}
						for _, t := range deleteTargets(ci) {
							if t == key {
								return true
							}
						}
						return false
					}
				}
				hits := WalkFrom(start, nil, func(in ssa.Instruction) int {
					if OrDeferred(isDel(indexKey))(in) {
						return Stop
					}
					if ret, ok := in.(*ssa.Return); ok {
						if RetErrKind(ret) != "nil" {
							return Hit
						}
						return Stop
					}
					return Cont
				}, nil)
				pos := CallPos(claim)
				if len(hits) > 0 {
					pos = hits[0].Pos()
				}
				r.Ob("R-C19-1", pos, len(hits) == 0, "every failure after the claim releases the domain index (otherwise the name stays claimed by a mapping that does not exist)", "CreateMapping", "rollback-claim")
				// mapping data rollback after it was written
				for _, w := range Calls(cm, false, "Set") {
					mk := w.Common().Args[0]
					var after *ssa.BasicBlock
					for _, b := range cm.Blocks {
						if ErrOK(b, w) && (after == nil || b.Dominates(after)) {
							after = b
						}
					}
					if after == nil {
						continue
					}
					h2 := WalkFrom(after, nil, func(in ssa.Instruction) int {
						if OrDeferred(isDel(mk))(in) {
							return Stop
						}
						if ret, ok := in.(*ssa.Return); ok {
							if RetErrKind(ret) != "nil" {
								return Hit
							}
							return Stop
						}
						return Cont
					}, nil)
					r.Ob("R-C19-1", CallPos(w), len(h2) == 0, "every failure after the mapping record was stored deletes it again (a failed create leaves no mapping behind)", "CreateMapping", "rollback-data")
				}
			}
		}
	}

	// ---- R-C19-2 single writer of the index family -----------------------------------
	nIdx := 0
	for _, kc := range r.P.AllCalls("repos:HTTPDomainIndexKey") {
		v, ok := kc.(ssa.Value)
		if !ok {
			continue
		}
		uses := map[ssa.Instruction]bool{}
		var follow func(v ssa.Value, d int)
		follow = func(v ssa.Value, d int) {
			if v.Referrers() == nil || d > 3 {
				return
			}
			for _, ref := range *v.Referrers() {
				switch x := ref.(type) {
				case ssa.CallInstruction:
					uses[x.(ssa.Instruction)] = true
				case *ssa.Store:
					if a, ok := x.Addr.(*ssa.Alloc); ok && a.Referrers() != nil {
						for _, r2 := range *a.Referrers() {
							if u, ok := r2.(*ssa.UnOp); ok {
								follow(u, d+1)
							}
						}
					}
				case *ssa.Phi:
					follow(x, d+1)
				case *ssa.MakeInterface:
					follow(x, d+1)
				}
			}
		}
		follow(v, 0)
		for u := range uses {
			ci := u.(ssa.CallInstruction)
			c := CalleeOf(ci)
			if strings.HasPrefix(c.Pkg, "internal/core/log") || c.Pkg == "fmt" {
				continue
			}
			nIdx++
			if len(deleteTargets(ci)) > 0 {
				c.Name = "Delete" // a delete wrapper of the repository
			}
			if c.Name == "Delete" {
				// who may release a claim: the owner-verified delete and the creator undoing its own claim.
				// A read path or a repair routine that deletes the index because "the record is missing"
				// releases the claim of a create that has claimed the name and not yet written the record.
				allowed := map[string]bool{"DeleteMapping": true, "CreateMapping": true}
				top := Outermost(u.Parent())
				okWho := allowed[top.Name()] || onlyCalledFromAllowed(r.P, top, allowed, 2)
				r.Ob("R-C19-3", CallPos(ci), okWho, "the domain index (the claim on a name) is deleted only on the owner-verified delete path or by the create that made the claim, here in "+top.Name(), r.P.FuncName(u.Parent()), "claim-released-by:"+top.Name())
			}
			ok := c.Name == "SetNX" || c.Name == "Get" || c.Name == "Exists" || c.Name == "Delete"
			r.Ob("R-C19-2", CallPos(ci), ok, "domain index key is passed to "+c.Name+" (allowed: SetNX, Get, Exists, Delete; a plain Set could overwrite another owner's claim)", r.P.FuncName(u.Parent()), "index-key-use:"+c.Name)
		}
	}
	if nIdx < 2 { // alarm below 40% of the 5 sites confirmed by hand
		r.Fail("R-C19-2", 0, fmt.Sprintf("only %d uses of the domain index key found (5 confirmed by hand)", nIdx), reposPkg, "floor")
	}

	// ---- R-C19-3 an update cannot move a mapping to another name or owner -------------------
	// the stored record's FullDomain is what DeleteMapping unclaims and ClientID is what it checks;
	// UpdateMapping writes the caller's record, so both must be compared with the stored record first
	if um := r.need("R-C19-3", reposPkg, "HTTPDomainMappingRepository.UpdateMapping"); um != nil {
		sets := Calls(um, false, "Set")
		if len(sets) == 0 {
			r.Fail("R-C19-3", um.Pos(), "the data write of UpdateMapping was not found", "UpdateMapping", "immutable:anchor")
		}
		for _, st := range sets {
			for _, fld := range []string{"FullDomain", "ClientID"} {
				same := false
				for _, ft := range Facts(st.Block()) {
					bo, ok := ft.Cond.(*ssa.BinOp)
					if !ok || !((bo.Op == token.NEQ && !ft.Pol) || (bo.Op == token.EQL && ft.Pol)) {
						continue
					}
					tx, fx, bx, okx := FieldOf(bo.X)
					ty, fy, by, oky := FieldOf(bo.Y)
					if okx && oky && tx == "HTTPDomainMapping" && ty == tx && fx == fld && fy == fld && bx != by {
						ox, oy := originSummary(bx), originSummary(by)
						if (strings.HasPrefix(ox, "param:") && strings.Contains(oy, "GetMapping")) || (strings.HasPrefix(oy, "param:") && strings.Contains(ox, "GetMapping")) {
							same = true
						}
					}
				}
				r.Ob("R-C19-3", CallPos(st), same, "UpdateMapping stores the caller's record only after "+fld+" was compared equal with the stored record's (the name a record claims and its owner cannot be changed by an update)", "UpdateMapping", "immutable:"+fld)
			}
		}
	}

	// ---- R-C19-3 owner check, order and guard in DeleteMapping ------------------------------
	if dm := r.need("R-C19-3", reposPkg, "HTTPDomainMappingRepository.DeleteMapping"); dm != nil {
		var idxDel, dataDel ssa.CallInstruction
		ownerAt := func(b *ssa.BasicBlock) bool {
			for _, ft := range Facts(b) {
				bo, ok := ft.Cond.(*ssa.BinOp)
				if !ok {
					continue
				}
				l, rr := originSummary(bo.X), originSummary(bo.Y)
				if ((bo.Op == token.NEQ && !ft.Pol) || (bo.Op == token.EQL && ft.Pol)) && strings.Contains(l+rr, "HTTPDomainMapping.ClientID") && strings.Contains(l+rr, "param:clientID") {
					// the comparison must be the only condition of the refusal (no extra escape hatch)
					return true
				}
			}
			return false
		}
		delNames := []string{"Delete", "HTTPDomainMappingRepository.removeFromClientMappingList", "HTTPDomainMappingRepository.removeFromGlobalMappingList", "RemoveFromList"}
		dels := Calls(dm, false, delNames...)
		Instrs(dm, func(in ssa.Instruction) {
			if ci, ok := in.(ssa.CallInstruction); ok && !ci.Common().IsInvoke() && len(deleteTargets(ci)) > 0 {
				dels = append(dels, ci)
			}
		})
		via := map[ssa.CallInstruction]*ssa.Call{}
		// the removal itself may be a helper of the repository (`r.purgeMapping(mapping)`)
		Instrs(dm, func(in ssa.Instruction) {
			hc, ok := in.(*ssa.Call)
			if !ok {
				return
			}
			h := hc.Common().StaticCallee()
			if h == nil || h.Pkg != dm.Pkg || len(h.Blocks) == 0 || CalleeOf(hc).Is(delNames...) {
				return
			}
			hasKeyDelete := false
			for _, d := range Calls(h, false, "Delete") {
				if kc, _ := CallOfValue(d.Common().Args[0]); kc != nil && (CalleeOf(kc).Name == "HTTPDomainIndexKey" || CalleeOf(kc).Name == "HTTPDomainMappingKey") {
					hasKeyDelete = true
				}
			}
			if !hasKeyDelete {
				return
			}
			for _, d := range Calls(h, false, delNames...) {
				dels = append(dels, d)
				via[d] = hc
			}
		})
		for _, d := range dels {
			owner := ownerAt(d.Block())
			if hc := via[d]; hc != nil && ownerAt(hc.Block()) {
				owner = true
			}
			r.Ob("R-C19-3", CallPos(d), owner, CalleeOf(d).Name+" in DeleteMapping is dominated by mapping.ClientID == clientID (only the owner can delete)", "DeleteMapping", "owner-check:"+CalleeOf(d).Name)
			for _, tgt := range deleteTargets(d) {
				if kc, _ := CallOfValue(tgt); kc != nil {
					switch CalleeOf(kc).Name {
					case "HTTPDomainIndexKey":
						idxDel = d
					case "HTTPDomainMappingKey":
						dataDel = d
					}
				}
			}
		}
		// the refusal branch is decided by the owner comparison alone
		for _, b := range dm.Blocks {
			if len(b.Instrs) == 0 {
				continue
			}
			iff, ok := b.Instrs[len(b.Instrs)-1].(*ssa.If)
			if !ok {
				continue
			}
			bo, ok := iff.Cond.(*ssa.BinOp)
			if !ok || bo.Op != token.NEQ {
				continue
			}
			if !strings.Contains(originSummary(bo.X)+originSummary(bo.Y), "HTTPDomainMapping.ClientID") {
				continue
			}
			// mismatch edge must return an error directly
			hits := WalkFrom(b.Succs[0], nil, func(in ssa.Instruction) int {
				if ret, ok := in.(*ssa.Return); ok {
					if RetErrKind(ret) == "nil" {
						return Hit
					}
					return Stop
				}
				if ci, ok := in.(ssa.CallInstruction); ok && CalleeOf(ci).Name == "Delete" {
					return Hit
				}
				return Cont
			}, nil)
			r.Ob("R-C19-3", iff.Pos(), len(hits) == 0, "an owner mismatch leads to an error return and to no delete, with no further condition", "DeleteMapping", "mismatch-refused")
		}
		if idxDel == nil || dataDel == nil {
			r.Fail("R-C19-3", dm.Pos(), "index delete or data delete not found in DeleteMapping", "DeleteMapping", "anchor")
		} else {
			order := idxDel.Block() == dataDel.Block() && Before(idxDel.(ssa.Instruction), dataDel.(ssa.Instruction)) || (idxDel.Block() != dataDel.Block() && CanReach(idxDel.Block(), dataDel.Block()) && !CanReach(dataDel.Block(), idxDel.Block()))
			r.Ob("R-C19-3", CallPos(dataDel), order, "the domain index is deleted before the mapping record: if the second delete fails the owner can retry, whereas the opposite order leaves an orphan index that blocks the name forever", "DeleteMapping", "index-before-data")
			// guarded index delete
			guarded := false
			for _, ft := range Facts(idxDel.Block()) {
				bo, ok := ft.Cond.(*ssa.BinOp)
				if !ok {
					continue
				}
				l, rr := originSummary(bo.X), originSummary(bo.Y)
				if strings.Contains(l+rr, "Get") && (strings.Contains(l+rr, "param:mappingID") || (via[idxDel] != nil && strings.Contains(l+rr, "HTTPDomainMapping.ID"))) {
					guarded = true
				}
			}
			r.Ob("R-C19-3", CallPos(idxDel), guarded, "the index delete must be guarded by 'the index still names this mapping id': a duplicate/late delete by the former owner otherwise erases the claim a new owner made in between", "DeleteMapping", "index-delete-guarded")
		}
	}

	// ---- R-C19-4 lookup filters -------------------------------------------------------------
	const dpPkg = "internal/httpservice/modules/domainproxy"
	// the repository stage of the lookup: by name, or (after a rename with a changed signature) the
	// one function of the package that asks the repository for the domain
	repoStage := r.P.Fn(dpPkg, "DomainProxyModule.lookupFromRepositoryWithRepo")
	if repoStage == nil {
		var cands []*ssa.Function
		for _, f := range r.P.FuncsIn(dpPkg) {
			if f.Parent() == nil && len(Calls(f, false, "LookupByDomain")) > 0 {
				cands = append(cands, f)
			}
		}
		if len(cands) == 1 {
			repoStage = cands[0]
		}
	}
	if repoStage == nil {
		r.need("R-C19-4", dpPkg, "DomainProxyModule.lookupFromRepositoryWithRepo")
	}
	if lr := repoStage; lr != nil {
		for _, ret := range Returns(lr) {
			if RetErrKind(ret) != "nil" {
				continue
			}
			_, pol, found := CallFact(ret.Block(), "HTTPDomainMapping.IsActive")
			r.Ob("R-C19-4", ret.Pos(), found && pol, "a repository hit is returned only under IsActive()==true (active and not expired)", "lookupFromRepositoryWithRepo", "active-filter")
		}
		if ia := r.need("R-C19-4", reposPkg, "HTTPDomainMapping.IsActive"); ia != nil {
			okStatus, okExp := false, false
			Instrs(ia, func(in ssa.Instruction) {
				if bo, ok := in.(*ssa.BinOp); ok && bo.Op == token.EQL && strings.Contains(originSummary(bo.X), "HTTPDomainMapping.Status") {
					okStatus = true
				}
				if c, ok := in.(*ssa.Call); ok && CalleeOf(c).Is("HTTPDomainMapping.IsExpired") {
					okExp = true
				}
			})
			r.Ob("R-C19-4", ia.Pos(), okStatus && okExp, "IsActive tests the status and the expiry", "HTTPDomainMapping.IsActive", "predicate")
		}
	}
	if lm := r.need("R-C19-4", dpPkg, "DomainProxyModule.lookupMapping"); lm != nil {
		var repoCalls []ssa.CallInstruction
		Instrs(lm, func(in ssa.Instruction) {
			if c, ok := in.(*ssa.Call); ok && repoStage != nil && c.Common().StaticCallee() == repoStage {
				repoCalls = append(repoCalls, c)
			}
		})
		// the error code lookupMapping reads as "not in this source, try the next one" is
		// never produced for a name the repository does hold (inactive / expired): such a
		// name must be rejected, not looked up again in the legacy sources.
		var next []string
		for _, rc := range repoCalls {
			for _, ic := range Calls(lm, false, "errors:IsCode") {
				if !valueFromCall(Arg(ic, 0), rc) {
					continue
				}
				if k, ok := stripValue(Arg(ic, 1)).(*ssa.Const); ok {
					next = append(next, constString(k))
				}
			}
			// a classifier of the package the repository's error is handed to
			// (`isRepositoryUnavailable(err)`): every code it tests is a fall-through code as well
			Instrs(lm, func(in ssa.Instruction) {
				hc, ok := in.(*ssa.Call)
				if !ok {
					return
				}
				h := hc.Common().StaticCallee()
				if h == nil || h.Pkg != lm.Pkg || len(h.Blocks) == 0 {
					return
				}
				for i, a := range hc.Call.Args {
					if !valueFromCall(a, rc) || i >= len(h.Params) {
						continue
					}
					for _, ic := range Calls(h, false, "errors:IsCode") {
						if stripValue(Arg(ic, 0)) != ssa.Value(h.Params[i]) {
							continue
						}
						if k, ok := stripValue(Arg(ic, 1)).(*ssa.Const); ok {
							next = append(next, constString(k))
						}
					}
				}
			})
		}
		if lr := repoStage; lr != nil && len(repoCalls) > 0 {
			r.Ob("R-C19-4", CallPos(repoCalls[0]), len(next) > 0, "lookupMapping falls through to the legacy sources only on a named error code of the repository lookup", "lookupMapping", "fallthrough-code")
			lk := Calls(lr, false, "LookupByDomain")
			nTerm := 0
			mks := []ssa.CallInstruction{}
			for _, mk := range Calls(lr, false, "errors:New", "errors:Newf", "errors:Wrap", "errors:Wrapf") {
				if len(lk) == 1 && ErrOK(mk.Block(), lk[0]) {
					mks = append(mks, mk)
				}
			}
			// the refusals may be produced by a routability helper called once the name was found
			Instrs(lr, func(in ssa.Instruction) {
				hc, ok := in.(*ssa.Call)
				if !ok || len(lk) != 1 || !ErrOK(hc.Block(), lk[0]) {
					return
				}
				if h := hc.Common().StaticCallee(); h != nil && h.Pkg == lr.Pkg && len(h.Blocks) > 0 {
					for _, u := range samePkgReach(h, 2) {
						if u != lr {
							mks = append(mks, Calls(u, false, "errors:New", "errors:Newf", "errors:Wrap", "errors:Wrapf")...)
						}
					}
				}
			})
			for _, mk := range mks {
				code := ""
				for i := 0; i < 2; i++ {
					if k, ok := stripValue(Arg(mk, i)).(*ssa.Const); ok && k.Value != nil && strings.Contains(k.Type().String(), "ErrorCode") {
						code = constString(k)
					}
				}
				nTerm++
				bad := false
				for _, n := range next {
					if n == code {
						bad = true
					}
				}
				r.Ob("R-C19-4", CallPos(mk), !bad, "a name the repository holds but may not route (inactive, expired) is refused with a terminal code, not with "+code+" which lookupMapping reads as 'try the legacy sources'", "lookupFromRepositoryWithRepo", "held-name-terminal:"+code)
			}
			if nTerm < 1 {
				r.Fail("R-C19-4", lr.Pos(), "no refusal of a held-but-unroutable name found after LookupByDomain succeeded (2 confirmed by hand)", "lookupFromRepositoryWithRepo", "held-name-terminal:floor")
			}
		}
		legacy := Calls(lm, false, "DomainRegistry.LookupByHost", "GetPortMappingByDomain")
		for _, lg := range legacy {
			first := len(repoCalls) == 1 && !CanReach(lg.Block(), repoCalls[0].Block())
			r.Ob("R-C19-4", CallPos(lg), first, "the repository (authoritative, atomically claimed) is consulted before "+CalleeOf(lg).Name, "lookupMapping", "repo-first:"+CalleeOf(lg).Name)
			// success returns after this source pass the three filters
			src := lg.(ssa.Value)
			for _, ret := range Returns(lm) {
				if RetErrKind(ret) != "nil" {
					continue
				}
				v := RetVal(ret, 0)
				c, _ := CallOfValue(v)
				if c == nil || ssa.Value(c) != src {
					continue
				}
				st, rev, exp := legacyFilters(ret.Block(), lg.Block(), lg, 2)
				r.Ob("R-C19-4", ret.Pos(), st && rev && exp, fmt.Sprintf("a hit from %s is returned only if active (%v), not revoked (%v) and not expired (%v)", CalleeOf(lg).Name, st, rev, exp), "lookupMapping", "legacy-filters:"+CalleeOf(lg).Name)
			}
		}
		r.Floor("R-C19-4", 6, "lookup filter obligations")
	}

	// ---- R-C19-4 the legacy registry is never filled from the repository ----------------------------
	// Nothing unregisters a name from the in-memory registry when its repository mapping is deleted,
	// and the registry is a fallback source of lookupMapping: a repository hit cached there keeps
	// routing after the owner deleted it. Register may be reached only with mappings that did not
	// come from the repository (the CloudControl path), also through helpers that receive the mapping
	// and a constant source tag.
	{
		fromRepo := func(v ssa.Value) bool {
			o := originDeep(v, 2)
			return strings.Contains(o, "convertHTTPDomainMappingToPortMapping") || strings.Contains(o, "LookupByDomain") || strings.Contains(o, "lookupFromRepositoryWithRepo") || (repoStage != nil && strings.Contains(o, repoStage.Name()))
		}
		nReg := 0
		for _, f := range r.P.FuncsIn(dpPkg) {
			for _, rc := range Calls(f, false, "DomainRegistry.Register") {
				nReg++
				arg := Arg(rc, 0)
				bad := ""
				if fromRepo(arg) {
					bad = "a repository hit is registered directly"
				}
				// the mapping is a parameter of this helper: look at every call site
				if p, isP := stripValue(arg).(*ssa.Parameter); isP && bad == "" {
					pi := -1
					for i, q := range f.Params {
						if q == p {
							pi = i
						}
					}
					for _, site := range staticCallSites(r.P, f) {
						if pi < 0 || pi >= len(site.Call.Args) || !fromRepo(site.Call.Args[pi]) {
							continue
						}
						// constant arguments of this call decide comparisons on the helper's parameters
						known := map[*ssa.Parameter]*ssa.Const{}
						for i, a := range site.Call.Args {
							if k, ok := stripValue(a).(*ssa.Const); ok && i < len(f.Params) {
								known[f.Params[i]] = k
							}
						}
						hits := WalkFrom(f.Blocks[0], nil, func(in ssa.Instruction) int {
							if in == rc.(ssa.Instruction) {
								return Hit
							}
							return Cont
						}, func(b *ssa.BasicBlock, succ int) bool {
							iff, ok := b.Instrs[len(b.Instrs)-1].(*ssa.If)
							if !ok {
								return true
							}
							bo, ok := iff.Cond.(*ssa.BinOp)
							if !ok || (bo.Op != token.EQL && bo.Op != token.NEQ) {
								return true
							}
							var kp, kc *ssa.Const
							if pp, ok := stripValue(bo.X).(*ssa.Parameter); ok {
								kp = known[pp]
								kc, _ = stripValue(bo.Y).(*ssa.Const)
							} else if pp, ok := stripValue(bo.Y).(*ssa.Parameter); ok {
								kp = known[pp]
								kc, _ = stripValue(bo.X).(*ssa.Const)
							}
							if kp == nil || kc == nil || kp.Value == nil || kc.Value == nil {
								return true
							}
							eq := kp.Value.ExactString() == kc.Value.ExactString()
							condTrue := eq == (bo.Op == token.EQL)
							return (succ == 0) == condTrue
						})
						if len(hits) > 0 {
							bad = "a repository hit passed by " + r.P.FuncName(site.Parent()) + " reaches Register"
						}
					}
				}
				r.Ob("R-C19-4", CallPos(rc), bad == "", "the in-memory registry is filled only with mappings that did not come from the repository (nothing unregisters them when the owner deletes the mapping: "+bad+")", r.P.FuncName(f), "registry-not-filled-from-repository")
			}
		}
		if nReg < 1 {
			r.Fail("R-C19-4", 0, "no fill of the in-memory registry found in the domain proxy (1 confirmed by hand, in lookupMapping)", dpPkg, "registry-not-filled-from-repository:floor")
		}
	}

	// ---- R-C19-5 legacy registry claim in one section ------------------------------------------
	guardedBy(r, "R-C19-5", "internal/httpservice", "DomainRegistry", "mappings", "mu", map[string]string{"NewDomainRegistry": "constructor"})
	checkThenActSameSection(r, "R-C19-5", "internal/httpservice", "DomainRegistry", "mappings", "mu")
	// Register decides on a lookup: that lookup must be under the write lock
	// Rebuild replaces the index: the map is re-created before the first insert, so a name whose
	// mapping was deleted does not survive a rebuild from storage.
	if rb := r.need("R-C19-5", "internal/httpservice", "DomainRegistry.Rebuild"); rb != nil {
		var fresh []*ssa.Store
		Instrs(rb, func(in ssa.Instruction) {
			if st, ok := in.(*ssa.Store); ok {
				if _, f, _, ok := FieldOf(st.Addr); ok && f == "mappings" {
					if _, mk := stripValue(st.Val).(*ssa.MakeMap); mk {
						fresh = append(fresh, st)
					}
				}
			}
		})
		nUp := 0
		Instrs(rb, func(in ssa.Instruction) {
			mu, ok := in.(*ssa.MapUpdate)
			if !ok {
				return
			}
			if _, f, _, ok := FieldOf(mu.Map); !ok || f != "mappings" {
				return
			}
			nUp++
			okFresh := false
			for _, st := range fresh {
				if st.Block() != mu.Block() && st.Block().Dominates(mu.Block()) && !CanReach(mu.Block(), st.Block()) {
					okFresh = true
				}
			}
			r.Ob("R-C19-5", mu.Pos(), okFresh, "Rebuild inserts into a map it re-created first (entries of deleted mappings do not survive a rebuild: the name stops routing and is claimable again)", "DomainRegistry.Rebuild", "rebuild-starts-empty")
		})
		if nUp == 0 {
			r.Fail("R-C19-5", rb.Pos(), "no insert into mappings found in Rebuild", "DomainRegistry.Rebuild", "rebuild-starts-empty:anchor")
		}
	}
	if rg := r.need("R-C19-5", "internal/httpservice", "DomainRegistry.Register"); rg != nil {
		ls := ComputeLockSets(rg, nil)
		Instrs(rg, func(in ssa.Instruction) {
			if lk, ok := in.(*ssa.Lookup); ok {
				if _, f, _, ok := FieldOf(lk.X); ok && f == "mappings" {
					r.Ob("R-C19-5", lk.Pos(), r.held(ls, in, "internal/httpservice", "DomainRegistry", "mu") == "W", "the 'already registered' lookup of Register runs in the write-locked section that performs the insert (claims of one name by different clients are serialised)", "DomainRegistry.Register", "claim-in-one-section")
				}
			}
			if c, ok := in.(*ssa.Call); ok && CalleeOf(c).Is("DomainRegistry.Lookup") {
				r.Fail("R-C19-5", c.Pos(), "Register decides through Lookup(), which takes and releases the read lock before the insert: two clients claiming the same name both pass", "DomainRegistry.Register", "claim-in-one-section")
			}
		})
		// a refused registration leaves the registry as it was: nothing Register writes into the
		// registry's tables is on the way to a return that reports an error (an index entry recorded for a
		// claim that is then refused points at the owner's name and is trusted by a later unregister)
		var muts []ssa.Instruction
		Instrs(rg, func(in ssa.Instruction) {
			switch x := in.(type) {
			case *ssa.MapUpdate:
				if t, _, _, ok := FieldOf(x.Map); ok && t == "DomainRegistry" {
					muts = append(muts, in)
				}
			case *ssa.Call:
				if b, ok := x.Call.Value.(*ssa.Builtin); ok && b.Name() == "delete" {
					if t, _, _, ok := FieldOf(x.Call.Args[0]); ok && t == "DomainRegistry" {
						muts = append(muts, in)
					}
				}
			}
		})
		nRef := 0
		for _, ret := range Returns(rg) {
			if RetErrKind(ret) != "nonnil" {
				continue
			}
			nRef++
			var first ssa.Instruction
			for _, m := range muts {
				if (m.Block() == ret.Block()) || CanReachBlock(m.Block(), ret.Block()) {
					first = m
				}
			}
			pos := ret.Pos()
			if first != nil {
				pos = first.Pos()
			}
			r.Ob("R-C19-5", pos, first == nil, "a refused Register (error return) is not preceded by a write into the registry's tables", "DomainRegistry.Register", fmt.Sprintf("refusal-changes-nothing:%d", nRef))
		}
	}
	r.Floor("R-C19-5", 8, "legacy registry accesses")
}

// expiryJoin: the block is the join of "ExpiresAt == nil" and "!After(ExpiresAt)"
// (the lowering of `if x != nil && now.After(*x) {return err}`): every
// predecessor path either saw ExpiresAt nil or the After test false.
func expiryJoin(b *ssa.BasicBlock) bool {
	if len(b.Preds) < 2 {
		return false
	}
	for _, p := range b.Preds {
		ok := false
		if len(p.Instrs) > 0 {
			if iff, isIf := p.Instrs[len(p.Instrs)-1].(*ssa.If); isIf {
				c, pol := normCond(iff.Cond, true)
				idx := 0
				if p.Succs[1] == b {
					idx = 1
				}
				edgeTrue := (idx == 0) == pol
				if x, tmn, isN := NilTest(c); isN {
					if _, f, _, isF := FieldOf(x); isF && f == "ExpiresAt" && (tmn == edgeTrue) {
						ok = true
					}
				}
				if call, isC := stripValue(c).(*ssa.Call); isC && CalleeOf(call).Is("time:Time.After") && !edgeTrue {
					ok = true
				}
			}
		}
		if !ok {
			return false
		}
	}
	return true
}

// legacyFilters: which of the three routing filters of a legacy PortMapping (active, not revoked,
// not expired) are established at block at (looking back no further than the source lookup in
// from). A filter may be established by a same-module helper whose success dominates at: it then
// must hold at every nil-error return of the helper.
func legacyFilters(at, from *ssa.BasicBlock, src ssa.CallInstruction, depth int) (st, rev, exp bool) {
	for _, ft := range localFacts(at) {
		if bo, ok := ft.Cond.(*ssa.BinOp); ok {
			o := originSummary(bo.X)
			if strings.Contains(o, "PortMapping.Status") && bo.Op == token.NEQ && !ft.Pol {
				st = true
			}
			if strings.Contains(o, "PortMapping.Status") && bo.Op == token.EQL && ft.Pol {
				st = true
			}
		}
		if _, f, _, ok := FieldOf(ft.Cond); ok && f == "IsRevoked" && !ft.Pol {
			rev = true
		}
		if c, ok := stripValue(ft.Cond).(*ssa.Call); ok && CalleeOf(c).Is("time:Time.After") && !ft.Pol {
			exp = true
		}
		// expiry may be vacuous when ExpiresAt == nil: accept the nil edge as well
		if x, isnil, ok := ft.FactNil(); ok && isnil {
			if _, f, _, ok := FieldOf(x); ok && f == "ExpiresAt" {
				exp = true
			}
		}
	}
	for d := at; d != nil && !exp; d = d.Idom() {
		if from != nil && !CanReachBlock(from, d) {
			break
		}
		exp = expiryJoin(d)
	}
	if (st && rev && exp) || depth <= 0 {
		return
	}
	// helpers whose success dominates at
	for d := at; d != nil; d = d.Idom() {
		if from != nil && d != from && !CanReachBlock(from, d) {
			break
		}
		for _, in := range d.Instrs {
			c, ok := in.(*ssa.Call)
			if !ok {
				continue
			}
			h := c.Common().StaticCallee()
			if h == nil || len(h.Blocks) == 0 || h.Pkg == nil || !strings.HasPrefix(h.Pkg.Pkg.Path(), Module) || !ErrOK(at, c) {
				continue
			}
			if src != nil {
				about := false
				for _, a := range c.Call.Args {
					if valueFromCall(a, src) {
						about = true
					}
				}
				if !about {
					continue
				}
			}
			hs, hr, he, n := true, true, true, 0
			for _, ret := range Returns(h) {
				if RetErrKind(ret) != "nil" {
					continue
				}
				n++
				a, b, e := legacyFilters(ret.Block(), nil, nil, depth-1)
				hs, hr, he = hs && a, hr && b, he && e
			}
			if n > 0 {
				st, rev, exp = st || hs, rev || hr, exp || he
			}
		}
	}
	return
}

// deleteWrapperParams: h is a same-package helper whose only storage operation is Delete applied to
// (elements of) its own parameters (`deleteIfPresent(key)`, `rollbackKeys(keys...)`); returns the
// indices (into h.Params) of those parameters, nil when h is anything else.
func deleteWrapperParams(h *ssa.Function) []int {
	if h == nil || len(h.Blocks) == 0 {
		return nil
	}
	var out []int
	nOther := 0
	Instrs(h, func(in ssa.Instruction) {
		ci, ok := in.(ssa.CallInstruction)
		if !ok || !ci.Common().IsInvoke() {
			return
		}
		name := ci.Common().Method.Name()
		switch name {
		case "Delete":
			hit := false
			// an element of a slice parameter (`for _, key := range keys { Delete(key) }`)
			if u, ok := stripValue(ci.Common().Args[0]).(*ssa.UnOp); ok {
				if ia, ok := u.X.(*ssa.IndexAddr); ok {
					if p, ok := stripValue(ia.X).(*ssa.Parameter); ok {
						for i, q := range h.Params {
							if q == p {
								out = append(out, i)
								hit = true
							}
						}
					}
				}
			}
			for _, rt := range Origins(ci.Common().Args[0]) {
				if p, ok := rt.V.(*ssa.Parameter); ok {
					for i, q := range h.Params {
						if q == p {
							out = append(out, i)
							hit = true
						}
					}
				}
			}
			if !hit {
				nOther++
			}
		case "Set", "SetNX", "SetList", "AppendToList", "RemoveFromList", "SetExpiration":
			nOther++
		}
	})
	if nOther > 0 {
		return nil
	}
	return out
}

// deleteTargets: the keys a call deletes: the argument of a storage Delete, or the arguments a delete
// wrapper of the package receives (a variadic wrapper: the values stored into its argument slice).
func deleteTargets(ci ssa.CallInstruction) []ssa.Value {
	if ci.Common().IsInvoke() {
		if ci.Common().Method.Name() == "Delete" && len(ci.Common().Args) > 0 {
			return []ssa.Value{ci.Common().Args[0]}
		}
		return nil
	}
	h := ci.Common().StaticCallee()
	idxs := deleteWrapperParams(h)
	if len(idxs) == 0 {
		return nil
	}
	var out []ssa.Value
	for _, i := range idxs {
		if i >= len(ci.Common().Args) {
			continue
		}
		a := ci.Common().Args[i]
		if sl, ok := a.(*ssa.Slice); ok {
			// variadic: new [n]T; a[i] = v...; slice a[:]
			if al, ok := sl.X.(*ssa.Alloc); ok && al.Referrers() != nil {
				for _, ref := range *al.Referrers() {
					if ia, ok := ref.(*ssa.IndexAddr); ok && ia.Referrers() != nil {
						for _, r2 := range *ia.Referrers() {
							if st, ok := r2.(*ssa.Store); ok {
								out = append(out, st.Val)
							}
						}
					}
				}
				continue
			}
		}
		out = append(out, a)
	}
	return out
}
