package main

import (
	"fmt"
	"go/constant"
	"go/token"
	"go/types"
	"strings"

	"golang.org/x/tools/go/ssa"
)

func init() {
	register(&PropCheck{
		ID: "C01",
		Explanation: "Static rules on the packet reader/writer of internal/stream and the WebSocket message->stream adapters. " +
			"R-C01-1: every read of the peer's reader reachable from ReadPacket is 'full' (accumulate-until-size loop whose bound is the buffer length, or io.ReadFull) unless the field is one byte wide. " +
			"R-C01-2: writer and reader agree on the frame grammar: the set of type predicates under which no length field is read/written is {IsHeartbeat} on both sides; both refuse the encrypted flag; the writer gzips exactly when the written type byte carries the compressed flag and the reader inflates exactly then; the length written is len() of the very slice written as body. " +
			"R-C01-3: the body reader returns exactly the accumulated prefix of a buffer whose length is the declared size (cannot consume bytes of the next packet). " +
			"R-C01-5: a buffer taken from the buffer pool and given back (Release, also deferred) in a function is never part of what that function returns (a decoded body must not alias memory the next read overwrites). " +
			"R-C01-7: a whole packet is written (read) inside one section of the write (read) lock: the acquire helper returns success with the lock held and the packet function releases it only by defer. " +
			"R-C01-6: every size rejection on the read path (declared wire length, inflated length) refuses exactly the sizes above MaxPacketBodySize, so a body of exactly the maximum decodes. " +
			"R-C01-4: message-oriented transports adapted to io.Reader buffer the unread remainder of a message and serve it before reading the next message, and serving advances the remainder by exactly the copied count. " +
			"Decides these structural necessary conditions; does not decide byte equality through gzip or the behaviour of third-party transports.",
		Run: runC01,
		Mutants: []Mutant{
			{Name: "bodysize-single-read", File: "internal/stream/stream_processor_read.go", Rule: "R-C01-1",
				Old: "if _, err := io.ReadFull(ps.reader, sizeBuffer); err != nil {", New: "if n, err := ps.reader.Read(sizeBuffer); err != nil || n != len(sizeBuffer) {"},
			{Name: "body-loop-to-single-read", File: "internal/stream/stream_processor_read.go", Rule: "R-C01-1",
				Old: "for totalRead < int(bodySize) {\n\t\tn, err := ps.reader.Read(buffer[totalRead:])", New: "for totalRead == 0 && bodySize > 0 {\n\t\tn, err := ps.reader.Read(buffer[totalRead:])"},
			{Name: "writer-empty-body-early-return", File: "internal/stream/stream_processor_write.go", Rule: "R-C01-2",
				Old: "\t// 先压缩，再加密\n", New: "\tif len(bodyData) == 0 {\n\t\treturn totalBytes, nil\n\t}\n\t// 先压缩，再加密\n"},
			{Name: "reader-heartbeat-guard-removed", File: "internal/stream/stream_processor_read.go", Rule: "R-C01-2",
				Old: "if packetType.IsHeartbeat() {\n\t\treturn &packet.TransferPacket{", New: "if packetType.IsHeartbeat() && packetType.IsCompressed() {\n\t\treturn &packet.TransferPacket{"},
			{Name: "writer-compress-on-param", File: "internal/stream/stream_processor_write.go", Rule: "R-C01-2",
				Old: "if packetType.IsCompressed() {\n\t\tvar err error\n\t\tbodyData, err = ps.compressData(bodyData)", New: "if useCompression {\n\t\tvar err error\n\t\tbodyData, err = ps.compressData(bodyData)"},
			{Name: "write-lock-narrowed", File: "internal/stream/stream_processor_write.go", Rule: "R-C01-7",
				Old: "\t// 先压缩，再加密\n", New: "\tps.writeLock.Unlock()\n\tps.writeLock.Lock()\n\t// 先压缩，再加密\n"},
			{Name: "ws-drop-remainder", File: "internal/protocol/adapter/websocket_conn.go", Rule: "R-C01-4",
				Old: "\tn := copy(p, data)\n\n\t// 如果数据未完全读取，缓存剩余部分\n\tif n < len(data) {\n\t\tc.readBuf = append(c.readBuf, data[n:]...)\n\t}\n\n\treturn n, nil\n}\n\n// Write 实现 io.Writer\nfunc (c *wsServerConn)",
				New: "\tn := copy(p, data)\n\n\treturn n, nil\n}\n\n// Write 实现 io.Writer\nfunc (c *wsServerConn)"},
		},
	})
}

// samePkgReach returns f and the same-package functions it statically calls, transitively.
func samePkgReach(f *ssa.Function, depth int) []*ssa.Function {
	seen := map[*ssa.Function]bool{}
	var out []*ssa.Function
	var rec func(g *ssa.Function, d int)
	rec = func(g *ssa.Function, d int) {
		if g == nil || seen[g] || len(g.Blocks) == 0 {
			return
		}
		seen[g] = true
		out = append(out, g)
		if d == 0 {
			return
		}
		for _, h := range WithAnon(g) {
			Instrs(h, func(in ssa.Instruction) {
				if ci, ok := in.(ssa.CallInstruction); ok {
					if c := CalleeOf(ci); c.Fn != nil && c.Fn.Pkg == f.Pkg {
						rec(c.Fn, d-1)
					}
				}
			})
			if h != g {
				rec(h, d)
			}
		}
	}
	rec(f, depth)
	return out
}

// typePredFacts lists dominating facts that are predicate calls on packet.Type.
func typePredFacts(b *ssa.BasicBlock) map[string]bool {
	out := map[string]bool{}
	for _, f := range Facts(b) {
		if c, ok := stripValue(f.Cond).(*ssa.Call); ok {
			cal := CalleeOf(c)
			if cal.Pkg == "internal/packet" && cal.Recv == "Type" {
				if _, dup := out[cal.Name]; !dup {
					out[cal.Name] = f.Pol
				}
			}
		}
	}
	return out
}

// typePredFactsX: typePredFacts plus the facts established by same-package helpers whose
// success dominates b (a check moved into `decodeBody(t, data) (x, err)` still guards the
// caller's success return): for every call c of a helper h with ErrOK(b, c), the predicates
// that hold at every success return of h are imported.
func typePredFactsX(b *ssa.BasicBlock, depth int) map[string]bool {
	out := typePredFacts(b)
	if depth <= 0 || b == nil {
		return out
	}
	fn := b.Parent()
	Instrs(fn, func(in ssa.Instruction) {
		ci, ok := in.(ssa.CallInstruction)
		if !ok {
			return
		}
		h := ci.Common().StaticCallee()
		if h == nil || h.Pkg == nil || h.Pkg != fn.Pkg || len(h.Blocks) == 0 || h == fn {
			return
		}
		if !ErrOK(b, ci) {
			return
		}
		for k, v := range succTypeFacts(h, depth-1) {
			if _, dup := out[k]; !dup {
				out[k] = v
			}
		}
	})
	return out
}

// succTypeFacts: packet.Type predicate facts common to every success return of h.
func succTypeFacts(h *ssa.Function, depth int) map[string]bool {
	var common map[string]bool
	for _, ret := range Returns(h) {
		if RetErrKind(ret) != "nil" {
			continue
		}
		f := typePredFactsX(ret.Block(), depth)
		if common == nil {
			common = f
			continue
		}
		for k, v := range common {
			if w, ok := f[k]; !ok || w != v {
				delete(common, k)
			}
		}
	}
	if common == nil {
		common = map[string]bool{}
	}
	return common
}

// checkGzipTrailerAlwaysWritten: the call that terminates the gzip stream ((*gzip.Writer).Close, which
// writes header and trailer even for an empty body) is reached whenever the compressing writer is
// closed with a live gzip writer: the conditions on the way to it are nil tests or tests of a flag
// the closing function itself sets (its run-once guard).  A condition on state maintained elsewhere
// ("something was written") leaves an empty compressed body without a gzip stream; the reader then
// fails to inflate it.
func checkGzipTrailerAlwaysWritten(r *Report) {
	n := 0
	for _, f := range r.P.FuncsIn("internal/stream/compression") {
		for _, u := range WithAnon(f) {
			for _, c := range Calls(u, false, "gzip:Writer.Close") {
				n++
				outer := Outermost(u)
				storedHere := map[string]bool{}
				for _, w := range WithAnon(outer) {
					Instrs(w, func(in ssa.Instruction) {
						if st, ok := in.(*ssa.Store); ok {
							if _, fld, _, ok := FieldOf(st.Addr); ok {
								storedHere[fld] = true
							}
						}
					})
				}
				facts := FactsAt(c)
				// an anonymous function called in place: the conditions at its call site count as well
				if u != outer {
					Instrs(u.Parent(), func(in ssa.Instruction) {
						if ci, ok := in.(ssa.CallInstruction); ok {
							if mc, ok := ci.Common().Value.(*ssa.MakeClosure); ok && mc.Fn == ssa.Value(u) {
								facts = append(facts, FactsAt(in)...)
							}
							if fn, ok := ci.Common().Value.(*ssa.Function); ok && fn == u {
								facts = append(facts, FactsAt(in)...)
							}
						}
					})
				}
				bad := ""
				for _, ft := range facts {
					if _, _, isNil := NilTest(ft.Cond); isNil {
						continue
					}
					if _, fld, _, ok := FieldOf(ft.Cond); ok && storedHere[fld] {
						continue
					}
					// a "was used" flag that every write through this type sets before it reaches the
					// compressor (also for an empty slice): a writer that compressed anything, even nothing,
					// is terminated
					if typ, fld, _, ok := FieldOf(ft.Cond); ok && ft.Pol && markedByEveryWrite(r.P, f.Pkg, typ, fld) {
						continue
					}
					if cc, _ := CallOfValue(ft.Cond); cc != nil {
						continue // a helper's verdict (IsClosed()): not evaluated
					}
					bad = originSummary(ft.Cond)
				}
				r.Ob("R-C01-2", CallPos(c), bad == "", "closing the compressing writer always terminates the gzip stream (conditions on the way: nil tests and the run-once flag of the closing function"+map[bool]string{true: "", false: "; found a condition on " + bad}[bad == ""]+"): an empty body still gets header and trailer", r.P.FuncName(outer), "gzip-trailer-always-written")
			}
		}
	}
	if n < 1 {
		r.Fail("R-C01-2", 0, "no (*gzip.Writer).Close call found in internal/stream/compression (1 confirmed by hand)", "compression", "gzip-trailer-always-written:floor")
	}
}

func runC01(r *Report) {
	checkGzipTrailerAlwaysWritten(r)
	const pkg = "internal/stream"
	readPacket := r.need("R-C01-1", pkg, "StreamProcessor.ReadPacket")
	writePacket := r.need("R-C01-2", pkg, "StreamProcessor.WritePacket")
	if readPacket == nil || writePacket == nil {
		return
	}

	// ---- R-C01-1: full-field reads on the peer's reader -------------------
	for _, g := range samePkgReach(readPacket, 3) {
		Instrs(g, func(in ssa.Instruction) {
			ci, ok := in.(ssa.CallInstruction)
			if !ok {
				return
			}
			rs := ClassifyRead(ci)
			if rs.Shape == "unknown" {
				// any other hand-off of the raw reader (io.Copy, bufio...) is not a field read we can account for
				for _, a := range ci.Common().Args {
					if t, f, _, ok := FieldOf(a); ok && t == "StreamProcessor" && f == "reader" {
						c := CalleeOf(ci)
						if c.Is("io:ReadFull", "io:ReadAtLeast") {
							continue
						}
						r.Fail("R-C01-1", CallPos(ci), "raw reader handed to "+c.String()+": field boundaries not accounted for",
							r.P.FuncName(g), "handoff:"+c.String())
					}
				}
				return
			}
			t, f, _, ok := FieldOf(rs.Reader)
			if !ok || t != "StreamProcessor" || f != "reader" {
				return
			}
			key := []string{r.P.FuncName(g), "read-of-StreamProcessor.reader"}
			switch {
			case rs.Shape == "full":
				r.Pass("R-C01-1", CallPos(ci), "full read ("+rs.Detail+")", key...)
			case rs.Width == 1:
				r.Pass("R-C01-1", CallPos(ci), "single read of a 1-byte field (no interior cut exists)", key...)
			default:
				r.Fail("R-C01-1", CallPos(ci), fmt.Sprintf("single Read into a %d-byte field: a transport chunk boundary inside the field becomes a protocol error or a short field (%s)", rs.Width, rs.Detail), key...)
			}
		})
	}
	r.Floor("R-C01-1", 3, "reads of StreamProcessor.reader reachable from ReadPacket (type, size, body)")

	// ---- R-C01-2 reader side ----------------------------------------------
	sizeCalls := Calls(readPacket, false, "StreamProcessor.readPacketBodySize")
	bodyCalls := Calls(readPacket, false, "StreamProcessor.readPacketBody")
	if len(sizeCalls) != 1 || len(bodyCalls) != 1 {
		r.Fail("R-C01-2", readPacket.Pos(), fmt.Sprintf("expected exactly one length read and one body read in ReadPacket, found %d/%d", len(sizeCalls), len(bodyCalls)), "ReadPacket", "anchor")
		return
	}
	sizeCall, bodyCall := sizeCalls[0], bodyCalls[0]
	pf := typePredFacts(sizeCall.Block())
	readerNoLen := map[string]bool{}
	okReader := true
	for name, pol := range pf {
		if pol {
			okReader = false // length read only under a positive predicate: other classes would skip it
		} else {
			readerNoLen[name] = true
		}
	}
	r.Ob("R-C01-2", CallPos(sizeCall), okReader && len(readerNoLen) == 1 && readerNoLen["IsHeartbeat"],
		fmt.Sprintf("reader reads the length field for every type class except %v (expected exactly [IsHeartbeat])", keys(readerNoLen)),
		"ReadPacket", "no-length-classes")
	// success returns that do not pass the length read must be heartbeat returns
	for _, ret := range Returns(readPacket) {
		if RetErrKind(ret) != "nil" {
			continue
		}
		if ReachesWithout(readPacket, ret, func(in ssa.Instruction) bool { return in == sizeCall.(ssa.Instruction) }) {
			f := typePredFacts(ret.Block())
			r.Ob("R-C01-2", ret.Pos(), f["IsHeartbeat"], "success return without a length read must be under IsHeartbeat()==true", "ReadPacket", "return-without-length")
		} else {
			f := typePredFactsX(ret.Block(), 2)
			enc, has := f["IsEncrypted"]
			r.Ob("R-C01-2", ret.Pos(), has && !enc, "success return after the body read must be under IsEncrypted()==false (directly or through a helper whose every success return is)", "ReadPacket", "encrypted-rejected")
		}
	}
	// the body size argument is the decoded length
	if c, idx := CallOfValue(Arg(bodyCall, 0)); c == nil || ssa.CallInstruction(c) != sizeCall || idx != 0 {
		r.Fail("R-C01-2", CallPos(bodyCall), "the body read is not sized by the decoded length field", "ReadPacket", "body-sized-by-length")
	} else {
		r.Pass("R-C01-2", CallPos(bodyCall), "body read sized by the decoded length field", "ReadPacket", "body-sized-by-length")
	}
	// inflate exactly when the compressed flag is set (in ReadPacket or in the helper it
	// hands the body to)
	var dec []ssa.CallInstruction
	var decFn *ssa.Function
	for _, g := range samePkgReach(readPacket, 2) {
		for _, d := range Calls(g, false, "StreamProcessor.decompressData") {
			dec = append(dec, d)
			decFn = g
		}
	}
	if len(dec) != 1 {
		r.Fail("R-C01-2", readPacket.Pos(), fmt.Sprintf("expected one decompress call reachable from ReadPacket, found %d", len(dec)), "ReadPacket", "inflate-iff-flag")
	} else {
		f := typePredFacts(dec[0].Block())
		ok := f["IsCompressed"]
		// from the true edge of IsCompressed no success return is reachable without the inflate
		for _, ft := range Facts(dec[0].Block()) {
			c, isCall := stripValue(ft.Cond).(*ssa.Call)
			if !isCall || !CalleeOf(c).Is("Type.IsCompressed") {
				continue
			}
			for si, s := range ft.If.Block().Succs {
				if si == 0 { // true edge
					hits := WalkFrom(s, nil, func(in ssa.Instruction) int {
						if in == dec[0].(ssa.Instruction) {
							return Stop
						}
						if ret, isRet := in.(*ssa.Return); isRet && RetErrKind(ret) == "nil" {
							return Hit
						}
						return Cont
					}, nil)
					if len(hits) > 0 {
						ok = false
					}
				}
			}
		}
		if decFn != readPacket {
			// the helper decides: every success return of ReadPacket after the body read must have passed it
			for _, ret := range Returns(readPacket) {
				if RetErrKind(ret) != "nil" || ReachesWithout(readPacket, ret, func(in ssa.Instruction) bool { return in == bodyCall.(ssa.Instruction) }) {
					continue
				}
				passed := false
				Instrs(readPacket, func(in ssa.Instruction) {
					if hc, isC := in.(ssa.CallInstruction); isC && hc.Common().StaticCallee() == decFn && ErrOK(ret.Block(), hc) {
						passed = true
					}
				})
				if !passed {
					ok = false
				}
			}
		}
		r.Ob("R-C01-2", CallPos(dec[0]), ok, "reader inflates the body exactly under IsCompressed()==true", "ReadPacket", "inflate-iff-flag")
	}

	// ---- R-C01-2 writer side ------------------------------------------------
	var writes []ssa.CallInstruction // writes to ps.writer in order of appearance
	wbuf := map[ssa.CallInstruction]ssa.Value{}
	// a write may go through a helper of the processor that hands one of its []byte parameters to
	// ps.writer.Write (or to the rate-limited writer) and nothing else to the wire
	wrapperBuf := func(ci ssa.CallInstruction) ssa.Value {
		h := ci.Common().StaticCallee()
		if h == nil || h.Pkg != writePacket.Pkg || len(h.Blocks) == 0 || h == writePacket || h.Name() == "writeRateLimitedData" {
			return nil
		}
		var pw *ssa.Parameter
		n := 0
		Instrs(h, func(x ssa.Instruction) {
			hc, ok := x.(ssa.CallInstruction)
			if !ok {
				return
			}
			var a ssa.Value
			if CalleeOf(hc).Name == "Write" && hc.Common().IsInvoke() {
				if t, f, _, ok := FieldOf(Recv(hc)); ok && t == "StreamProcessor" && f == "writer" {
					a = hc.Common().Args[0]
				}
			} else if CalleeOf(hc).Is("StreamProcessor.writeRateLimitedData") {
				a = Arg(hc, 0)
			}
			if a == nil {
				return
			}
			n++
			if pp, ok := stripValue(a).(*ssa.Parameter); ok {
				pw = pp
			} else {
				pw = nil
				n = 99
			}
		})
		if pw == nil || n == 0 || n == 99 {
			return nil
		}
		for i, q := range h.Params {
			if q == pw && i < len(ci.Common().Args) {
				return ci.Common().Args[i]
			}
		}
		return nil
	}
	Instrs(writePacket, func(in ssa.Instruction) {
		ci, ok := in.(ssa.CallInstruction)
		if !ok {
			return
		}
		c := CalleeOf(ci)
		if c.Name == "Write" && ci.Common().IsInvoke() {
			if t, f, _, ok := FieldOf(Recv(ci)); ok && t == "StreamProcessor" && f == "writer" {
				writes = append(writes, ci)
				wbuf[ci] = ci.Common().Args[0]
			}
			return
		}
		if b := wrapperBuf(ci); b != nil {
			writes = append(writes, ci)
			wbuf[ci] = b
		}
	})
	// the 4-byte size write: its buffer is also the target of PutUint32
	var sizeWrite ssa.CallInstruction
	var lenArg ssa.Value // X in len(X) written as size
	for _, w := range writes {
		buf := wbuf[w]
		for _, pc := range Calls(writePacket, false, "PutUint32") {
			if Arg(pc, 0) == buf {
				sizeWrite = w
				if cv, ok := stripValue(Arg(pc, 1)).(*ssa.Call); ok {
					if b, ok := cv.Call.Value.(*ssa.Builtin); ok && b.Name() == "len" {
						lenArg = cv.Call.Args[0]
					}
				}
			}
		}
	}
	if sizeWrite == nil || lenArg == nil {
		r.Fail("R-C01-2", writePacket.Pos(), "no length-field write of the form PutUint32(buf, uint32(len(body))); writer.Write(buf) found in WritePacket", "WritePacket", "anchor")
		return
	}
	_, sizeW := bufLen(wbuf[sizeWrite])
	r.Ob("R-C01-2", CallPos(sizeWrite), sizeW == 4, fmt.Sprintf("length field is written as %d bytes (reader reads 4)", sizeW), "WritePacket", "length-width")
	// body write: a write (direct or rate limited) of the very slice measured
	isBodyWrite := func(in ssa.Instruction) bool {
		ci, ok := in.(ssa.CallInstruction)
		if !ok {
			return false
		}
		c := CalleeOf(ci)
		if c.Name == "Write" && ci.Common().IsInvoke() {
			if t, f, _, ok := FieldOf(Recv(ci)); ok && t == "StreamProcessor" && f == "writer" && ci.Common().Args[0] == lenArg {
				return true
			}
		}
		if c.Is("StreamProcessor.writeRateLimitedData") && Arg(ci, 0) == lenArg {
			return true
		}
		if b, isW := wbuf[ci]; isW && b == lenArg {
			return true
		}
		return false
	}
	nBody := 0
	Instrs(writePacket, func(in ssa.Instruction) {
		if isBodyWrite(in) {
			nBody++
			r.Ob("R-C01-2", in.Pos(), Before(sizeWrite.(ssa.Instruction), in), "body write follows the length write and writes the slice whose len() was written", "WritePacket", "size-equals-len-of-body-written")
		}
	})
	if nBody == 0 {
		r.Fail("R-C01-2", CallPos(sizeWrite), "the slice whose length is written is never written as body", "WritePacket", "size-equals-len-of-body-written")
	}
	// every other write to the raw writer must be the type byte (1 byte, first)
	for _, w := range writes {
		if w == sizeWrite || isBodyWrite(w.(ssa.Instruction)) {
			continue
		}
		_, k := bufLen(wbuf[w])
		r.Ob("R-C01-2", CallPos(w), k == 1 && Before(w.(ssa.Instruction), sizeWrite.(ssa.Instruction)),
			fmt.Sprintf("extra raw write of %d byte(s): only [type:1][len:4][body] may reach the wire, in this order", k), "WritePacket", "type-byte-write")
		f := typePredFacts(w.Block())
		enc, has := f["IsEncrypted"]
		r.Ob("R-C01-2", CallPos(w), has && !enc, "type byte is written only under IsEncrypted()==false (the reader rejects encrypted packets, so the writer must not accept them)", "WritePacket", "encrypted-rejected")
	}
	// success returns: heartbeat, or passed length write and body write
	for _, ret := range Returns(writePacket) {
		if RetErrKind(ret) != "nil" {
			continue
		}
		noLen := ReachesWithout(writePacket, ret, func(in ssa.Instruction) bool { return in == sizeWrite.(ssa.Instruction) })
		if noLen {
			f := typePredFacts(ret.Block())
			r.Ob("R-C01-2", ret.Pos(), f["IsHeartbeat"], "writer returns success without writing a length field on a path that is not under IsHeartbeat()==true (reader would take the next packet's bytes as the length)", "WritePacket", "return-without-length")
			continue
		}
		noBody := ReachesWithout(writePacket, ret, isBodyWrite)
		r.Ob("R-C01-2", ret.Pos(), !noBody, "writer success return after the length write must pass the body write", "WritePacket", "return-without-body")
	}
	// compression decision agrees with the written flag
	comp := Calls(writePacket, false, "StreamProcessor.compressData")
	compViaHelper := false
	if len(comp) == 0 {
		// the body may be prepared by a helper that receives the type byte value (`encodeBody(pkt, packetType)`)
		var hc *ssa.Call
		var h *ssa.Function
		Instrs(writePacket, func(in ssa.Instruction) {
			c, ok := in.(*ssa.Call)
			if !ok || hc != nil {
				return
			}
			g := c.Common().StaticCallee()
			if g != nil && g.Pkg == writePacket.Pkg && len(g.Blocks) > 0 && len(Calls(g, false, "StreamProcessor.compressData")) == 1 {
				hc, h = c, g
			}
		})
		if hc != nil {
			cc := Calls(h, false, "StreamProcessor.compressData")[0]
			ok, why := false, "compress call in "+h.Name()+" is not guarded by IsCompressed() of the type value it was given"
			for _, ft := range Facts(cc.Block()) {
				c, isCall := stripValue(ft.Cond).(*ssa.Call)
				if !isCall || !CalleeOf(c).Is("Type.IsCompressed") || !ft.Pol {
					continue
				}
				pp, isP := stripValue(Recv(c)).(*ssa.Parameter)
				if !isP {
					continue
				}
				// the argument bound to that parameter is the type byte value that was written
				var tv ssa.Value
				for i, q := range h.Params {
					if q == pp && i < len(hc.Call.Args) {
						tv = hc.Call.Args[i]
					}
				}
				written := false
				for _, w := range writes {
					if w == sizeWrite || isBodyWrite(w.(ssa.Instruction)) {
						continue
					}
					if tv != nil && typeByteValue(wbuf[w]) == tv {
						written = true
					}
				}
				if !written {
					why = "IsCompressed() is evaluated on a value other than the type byte that was written"
					continue
				}
				ok = true
				// with the flag set every success return of the helper has passed the compression; with the
				// flag clear the compression is not reached
				trueSucc, falseSucc := ft.If.Block().Succs[0], ft.If.Block().Succs[1]
				if _, pol := normCond(ft.If.Cond, true); !pol {
					trueSucc, falseSucc = falseSucc, trueSucc
				}
				hitsT := WalkFrom(trueSucc, nil, func(in ssa.Instruction) int {
					if in == cc.(ssa.Instruction) {
						return Stop
					}
					if ret, isR := in.(*ssa.Return); isR && RetErrKind(ret) != "nonnil" {
						return Hit
					}
					return Cont
				}, nil)
				hitsF := WalkFrom(falseSucc, nil, func(in ssa.Instruction) int {
					if in == cc.(ssa.Instruction) {
						return Hit
					}
					return Cont
				}, nil)
				if len(hitsT) > 0 {
					ok, why = false, "a path with the compressed flag set returns the body without compressing it"
				}
				// ... and no success return of the helper is reached before the flag was looked at
				for _, ret := range Returns(h) {
					if RetErrKind(ret) == "nonnil" {
						continue
					}
					clear := false
					for _, f2 := range Facts(ret.Block()) {
						if c2, isC := stripValue(f2.Cond).(*ssa.Call); isC && CalleeOf(c2).Is("Type.IsCompressed") && !f2.Pol {
							clear = true
						}
					}
					if !clear && ReachesWithout(h, ret, func(in ssa.Instruction) bool { return in == cc.(ssa.Instruction) }) {
						ok, why = false, "a success return of "+h.Name()+" is reached without the compressed flag having been examined (a body that goes out with the flag set but uncompressed cannot be inflated by the reader)"
					}
				}
				if len(hitsF) > 0 {
					ok, why = false, "the body is compressed on a path where the flag is clear"
				}
			}
			r.Ob("R-C01-2", CallPos(cc), ok, map[bool]string{true: "writer gzips exactly when the written type byte carries the compressed flag (in " + h.Name() + ")", false: why}[ok], "WritePacket", "compress-iff-flag")
			compViaHelper = true
		}
	}
	if len(comp) != 1 && !compViaHelper {
		r.Fail("R-C01-2", writePacket.Pos(), "expected one compress call in WritePacket", "WritePacket", "compress-iff-flag")
	} else if compViaHelper {
		// decided through the helper above
	} else {
		ok := false
		why := "compress call is not guarded by IsCompressed() of the written type byte"
		for _, ft := range Facts(comp[0].Block()) {
			c, isCall := stripValue(ft.Cond).(*ssa.Call)
			if !isCall || !CalleeOf(c).Is("Type.IsCompressed") || !ft.Pol {
				continue
			}
			// the receiver of IsCompressed is the value converted into the type byte
			tv := Recv(c)
			written := false
			for _, w := range writes {
				if w == sizeWrite || isBodyWrite(w.(ssa.Instruction)) {
					continue
				}
				if typeByteValue(wbuf[w]) == tv {
					written = true
				}
			}
			if !written {
				why = "IsCompressed() is evaluated on a value other than the type byte that was written"
				continue
			}
			// false edge must not reach compress; true edge must not reach the length write without compress
			ok = true
			hits := WalkFrom(ft.If.Block().Succs[0], nil, func(in ssa.Instruction) int {
				if in == comp[0].(ssa.Instruction) {
					return Stop
				}
				if in == sizeWrite.(ssa.Instruction) {
					return Hit
				}
				return Cont
			}, nil)
			if len(hits) > 0 {
				ok, why = false, "a path with the compressed flag set reaches the length write without compressing"
			}
		}
		r.Ob("R-C01-2", CallPos(comp[0]), ok, map[bool]string{true: "writer gzips exactly when the written type byte carries the compressed flag", false: why}[ok], "WritePacket", "compress-iff-flag")
	}

	// ---- R-C01-3 consumed-bytes accounting in the body reader -------------
	if rb := r.need("R-C01-3", pkg, "StreamProcessor.readPacketBody"); rb != nil {
		for _, ci := range Calls(rb, false, "Read") {
			if !isReadMethod(ci) {
				continue
			}
			acc, bound, buf, why := AccumLoop(ci)
			if acc == nil {
				r.Fail("R-C01-3", CallPos(ci), "body read is not an accumulate-until-size loop: "+why, "readPacketBody", "accumulate")
				continue
			}
			// bound derives from the declared size parameter
			bo := originSummary(bound)
			r.Ob("R-C01-3", CallPos(ci), bo == "param:bodySize", "loop bound origin "+bo+" (want the declared body size)", "readPacketBody", "bound-is-declared-size")
			// all other slices of the buffer are prefixes [:acc]
			if buf.Referrers() != nil {
				for _, ref := range *buf.Referrers() {
					sl, ok := ref.(*ssa.Slice)
					if !ok || ssa.Value(sl) == ci.Common().Args[0] {
						continue
					}
					good := sl.Low == nil && (sl.High == nil || sl.High == ssa.Value(acc))
					r.Ob("R-C01-3", sl.Pos(), good, "returned data is the accumulated prefix buffer[:totalRead]", "readPacketBody", "result-is-accumulated-prefix")
				}
			}
		}
		// full-read form: the body is read by io.ReadFull / ReadAtLeast(min=len) into a buffer whose
		// length is the declared size, directly or in a same-package helper that receives the size
		// (`readPooled(int(bodySize), ...)`): exactly the declared number of bytes is consumed.
		if r.Count("R-C01-3") == 0 {
			var szParam *ssa.Parameter
			for _, p := range rb.Params {
				if canonParamName(p) == "bodySize" || (szParam == nil && wireDerived(p) != nil) {
					szParam = p
				}
			}
			type site struct {
				fn   *ssa.Function
				size ssa.Value // value in fn that must be the declared size
			}
			work := []site{{rb, szParam}}
			seen := map[*ssa.Function]bool{rb: true}
			for len(work) > 0 && szParam != nil {
				w := work[0]
				work = work[1:]
				lossless := func(v ssa.Value) bool {
					if pp, ok := w.size.(*ssa.Parameter); ok {
						return losslessFrom(stripValue(v), pp) || losslessFrom(v, pp)
					}
					return false
				}
				type fullRead struct {
					ci  ssa.CallInstruction
					buf ssa.Value
				}
				var frs []fullRead
				for _, ci := range Calls(w.fn, false, "io:ReadFull", "io:ReadAtLeast") {
					if ClassifyRead(ci).Shape == "full" {
						frs = append(frs, fullRead{ci, Arg(ci, 1)})
					}
				}
				// a hand-written full reader of the package (`ps.readFull(buf)`: accumulate until len(buf))
				Instrs(w.fn, func(in ssa.Instruction) {
					if hc, ok := in.(*ssa.Call); ok {
						if h := hc.Common().StaticCallee(); h != nil && h.Pkg == rb.Pkg && len(h.Blocks) > 0 {
							if i := fullReaderParam(h); i >= 0 && i < len(hc.Call.Args) {
								frs = append(frs, fullRead{hc, hc.Call.Args[i]})
							}
						}
					}
				})
				for _, fr := range frs {
					ci := fr.ci
					buf := stripValue(fr.buf)
					var n ssa.Value
					switch b := buf.(type) {
					case *ssa.MakeSlice:
						n = b.Len
					case *ssa.Call:
						if CalleeOf(b).Is("BufferManager.Allocate") {
							n = Arg(b, 0)
						}
					}
					r.Ob("R-C01-3", CallPos(ci), n != nil && lossless(n), "the body is read in full into a buffer whose length is the declared body size", "readPacketBody", "bound-is-declared-size")
					good := true
					if n != nil && buf.Referrers() != nil {
						for _, ref := range *buf.Referrers() {
							if sl, ok := ref.(*ssa.Slice); ok && sl.Low != nil {
								good = false
							}
						}
					}
					r.Ob("R-C01-3", CallPos(ci), good, "the data handed on starts at the beginning of the buffer that was filled", "readPacketBody", "result-is-accumulated-prefix")
				}
				Instrs(w.fn, func(in ssa.Instruction) {
					cc, isCall := in.(*ssa.Call)
					if !isCall {
						return
					}
					h := cc.Common().StaticCallee()
					if h == nil || h.Pkg != rb.Pkg || len(h.Blocks) == 0 || seen[h] {
						return
					}
					for i, a := range cc.Call.Args {
						if lossless(a) && i < len(h.Params) {
							seen[h] = true
							work = append(work, site{h, h.Params[i]})
						}
					}
				})
			}
		}
		r.Floor("R-C01-3", 2, "body accumulate loop and result slice")
	}

	// ---- R-C01-7 one packet, one critical section ------------------------------------------
	// Frames of concurrent writers (data, heartbeats, acks) must not interleave inside a packet and
	// concurrent readers must not split one: the acquire helpers return success with the lock held,
	// and the packet functions release it only by defer (no explicit unlock between the fields).
	for _, pr := range []struct {
		acq, lock string
		fn        *ssa.Function
	}{
		{"StreamProcessor.acquireWriteLock", "writeLock", writePacket},
		{"StreamProcessor.acquireReadLock", "readLock", readPacket},
	} {
		if af := r.need("R-C01-7", pkg, pr.acq); af != nil {
			ls := ComputeLockSets(af, nil)
			for _, ret := range Returns(af) {
				held := ls.Held(ret, pr.lock) == "W"
				if RetErrKind(ret) == "nil" {
					r.Ob("R-C01-7", ret.Pos(), held, "a successful "+pr.acq+" returns with "+pr.lock+" held", pr.acq, "acquire-holds-lock")
				} else {
					r.Ob("R-C01-7", ret.Pos(), !held, "a failed "+pr.acq+" returns with "+pr.lock+" released", pr.acq, "failed-acquire-releases")
				}
			}
		}
		acqs := Calls(pr.fn, false, pr.acq)
		okAcq := len(acqs) == 1
		if okAcq {
			// every raw endpoint use in the packet function follows the successful acquire ...
			// (R-C16-3 decides that for all uses); here: the lock is not given up before the function ends
			explicit := 0
			for _, g := range samePkgReach(pr.fn, 2) {
				if Outermost(g).Name() == "acquireWriteLock" || Outermost(g).Name() == "acquireReadLock" {
					continue
				}
				Instrs(g, func(in ssa.Instruction) {
					c, ok := in.(*ssa.Call)
					if !ok {
						return
					}
					if id, op, ok := lockOp(c); ok && op == "Unlock" && strings.HasSuffix(id, pr.lock) {
						explicit++
					}
				})
			}
			deferred := false
			Instrs(pr.fn, func(in ssa.Instruction) {
				if d, ok := in.(*ssa.Defer); ok {
					if id, op, ok := lockOp(d); ok && op == "Unlock" && strings.HasSuffix(id, pr.lock) && ErrOK(d.Block(), acqs[0]) {
						deferred = true
					}
				}
			})
			r.Ob("R-C01-7", CallPos(acqs[0]), explicit == 0 && deferred, fmt.Sprintf("%s holds %s from the successful acquire to its return (deferred unlock: %v, explicit unlocks on the packet path: %d): the fields of one packet are written/read in one critical section", pr.fn.Name(), pr.lock, deferred, explicit), pr.fn.Name(), "one-section-per-packet")
		} else {
			r.Fail("R-C01-7", pr.fn.Pos(), fmt.Sprintf("expected one %s call in %s, found %d", pr.acq, pr.fn.Name(), len(acqs)), pr.fn.Name(), "one-section-per-packet")
		}
	}

	// ---- R-C01-6 size limits accept exactly the bodies the format allows ------------
	// Every size rejection on the read path (wire length, inflated length) must reject from
	// MaxPacketBodySize+1 upwards: a body of exactly the maximum, which the writer accepts,
	// must decode; an inflate limit below the smallest rejected size would truncate silently.
	if cp := r.P.ByPath[Module+"/internal/constants"]; cp != nil {
		if mc, _ := cp.Types.Scope().Lookup("MaxPacketBodySize").(*types.Const); mc != nil {
			maxBody, _ := constant.Int64Val(mc.Val())
			for _, g := range samePkgReach(readPacket, 3) {
				for _, sr := range sizeRejections(g, maxBody) {
					r.Ob("R-C01-6", sr.pos, sr.smallest == maxBody+1,
						fmt.Sprintf("size rejection `%s` refuses sizes from %d upwards (want %d: bodies up to and including MaxPacketBodySize=%d are valid packets)", sr.text, sr.smallest, maxBody+1, maxBody),
						r.P.FuncName(g), "rejects-above-max:"+sr.what)
				}
			}
			r.Floor("R-C01-6", 2, "size rejections on the read path (wire length, inflated length)")
		}
	}

	// ---- R-C01-5 decoded data never aliases a released pool buffer ------------
	for _, g := range r.P.FuncsIn(pkg) {
		for _, al := range Calls(g, false, "BufferManager.Allocate") {
			checkPoolOwnership(r, g, al)
		}
	}
	r.Floor("R-C01-5", 4, "pooled buffer allocations in internal/stream")

	// ---- R-C01-4 message transports adapted to a byte stream ----------------
	for _, pk := range []string{"internal/protocol/adapter", "internal/client/transport", "internal/httpservice/modules/websocket"} {
		for _, f := range r.P.FuncsIn(pk) {
			if f.Name() != "Read" || f.Signature.Recv() == nil || f.Signature.Params().Len() != 1 || f.Signature.Results().Len() != 2 {
				continue
			}
			for _, rm := range Calls(f, false, "websocket:Conn.ReadMessage") {
				checkMsgAdapter(r, f, rm)
			}
		}
	}
	r.Floor("R-C01-4", 6, "WebSocket ReadMessage->io.Reader adapters (2 obligations each)")
}

// typeByteValue: buf is a slice of a 1-byte array whose element 0 was stored
// from convert(byte <- T); returns T.
func typeByteValue(buf ssa.Value) ssa.Value {
	sl, ok := buf.(*ssa.Slice)
	if !ok {
		return nil
	}
	al, ok := sl.X.(*ssa.Alloc)
	if !ok || al.Referrers() == nil {
		return nil
	}
	for _, ref := range *al.Referrers() {
		ia, ok := ref.(*ssa.IndexAddr)
		if !ok || ia.Referrers() == nil {
			continue
		}
		for _, r2 := range *ia.Referrers() {
			if st, ok := r2.(*ssa.Store); ok {
				return stripValue(st.Val)
			}
		}
	}
	return nil
}

func keys(m map[string]bool) []string {
	var out []string
	for k := range m {
		out = append(out, k)
	}
	sortStrings(out)
	return out
}

// checkMsgAdapter: after ReadMessage, the copy into p keeps the unread tail
// in a receiver field, and ReadMessage is reached only when that field is empty.
func checkMsgAdapter(r *Report, f *ssa.Function, rm ssa.CallInstruction) {
	fn := r.P.FuncName(f)
	data := extractOf(rm, 1)
	var cp *ssa.Call
	if data != nil && data.Referrers() != nil {
		for _, ref := range *data.Referrers() {
			if c, ok := ref.(*ssa.Call); ok {
				if b, ok := c.Call.Value.(*ssa.Builtin); ok && b.Name() == "copy" && c.Call.Args[1] == data {
					cp = c
				}
			}
		}
	}
	if cp == nil {
		r.Fail("R-C01-4", CallPos(rm), "message payload is not copied into the caller's buffer", fn, "copy")
		return
	}
	// remainder kept: a store into a receiver field of a value derived from data[n:]
	kept := false
	var bufField string
	for _, ref := range *data.Referrers() {
		sl, ok := ref.(*ssa.Slice)
		if !ok || sl.Low != ssa.Value(cp) || sl.High != nil {
			continue
		}
		// follow sl -> append(...) -> store to field
		seen := map[ssa.Value]bool{}
		var follow func(v ssa.Value)
		follow = func(v ssa.Value) {
			if seen[v] || v.Referrers() == nil {
				return
			}
			seen[v] = true
			for _, u := range *v.Referrers() {
				switch y := u.(type) {
				case *ssa.Store:
					if _, fld, _, ok := FieldOf(y.Addr); ok && y.Val == v {
						kept, bufField = true, fld
					}
				case *ssa.Call:
					if b, ok := y.Call.Value.(*ssa.Builtin); ok && b.Name() == "append" {
						follow(y)
					}
				}
			}
		}
		follow(sl)
	}
	r.Ob("R-C01-4", cp.Pos(), kept, "the part of a message that does not fit the caller's buffer is kept (data[n:] stored in a receiver field)", fn, "remainder-kept")
	// buffered bytes are served first: ReadMessage dominated by len(field)==0
	served := false
	if kept {
		for _, ft := range Facts(rm.Block()) {
			b, ok := ft.Cond.(*ssa.BinOp)
			if !ok {
				continue
			}
			lc, ok := stripValue(b.X).(*ssa.Call)
			if !ok {
				continue
			}
			bi, ok := lc.Call.Value.(*ssa.Builtin)
			if !ok || bi.Name() != "len" {
				continue
			}
			if _, fld, _, ok := FieldOf(lc.Call.Args[0]); !ok || fld != bufField {
				continue
			}
			z, isC := ConstInt(b.Y)
			if !isC || z != 0 {
				continue
			}
			if (b.Op == token.GTR && !ft.Pol) || (b.Op == token.EQL && ft.Pol) || (b.Op == token.NEQ && !ft.Pol) {
				served = true
			}
		}
	}
	r.Ob("R-C01-4", CallPos(rm), served, "the next message is read only when the remainder buffer is empty (buffered bytes are served first, in order)", fn, "remainder-served-first")
	// serving the remainder consumes exactly what was copied out: every store of a re-slice of the
	// remainder field back into that field is field[n:] with n the result of copy(p, field)
	if kept {
		isFieldLoad := func(v ssa.Value) bool {
			u, ok := stripValue(v).(*ssa.UnOp)
			if !ok || u.Op != token.MUL {
				return false
			}
			_, fld, _, ok := FieldOf(u.X)
			return ok && fld == bufField
		}
		Instrs(f, func(in ssa.Instruction) {
			st, ok := in.(*ssa.Store)
			if !ok {
				return
			}
			if _, fld, _, ok := FieldOf(st.Addr); !ok || fld != bufField {
				return
			}
			sl, ok := stripValue(st.Val).(*ssa.Slice)
			if !ok || !isFieldLoad(sl.X) {
				return
			}
			good := false
			if c, ok := stripValue(sl.Low).(*ssa.Call); ok && sl.High == nil {
				if b, ok := c.Call.Value.(*ssa.Builtin); ok && b.Name() == "copy" && isFieldLoad(c.Call.Args[1]) {
					good = true
				}
			}
			r.Ob("R-C01-4", st.Pos(), good, "serving buffered bytes advances the remainder by exactly the copied count (field = field[n:], n = copy(p, field)): anything else re-delivers bytes or drops the tail", fn, "remainder-advanced-by-copied")
		})
	}
	_ = types.Typ
}

// aliases: does v alias buffer b (same value, re-slice, conversion, phi)?
func aliases(v, b ssa.Value, seen map[ssa.Value]bool) bool {
	if v == b {
		return true
	}
	if v == nil || seen[v] {
		return false
	}
	seen[v] = true
	switch x := v.(type) {
	case *ssa.Slice:
		return aliases(x.X, b, seen)
	case *ssa.ChangeType:
		return aliases(x.X, b, seen)
	case *ssa.Convert:
		return aliases(x.X, b, seen)
	case *ssa.MakeInterface:
		return aliases(x.X, b, seen)
	case *ssa.Phi:
		for _, e := range x.Edges {
			if aliases(e, b, seen) {
				return true
			}
		}
	case *ssa.TypeAssert:
		return aliases(x.X, b, seen)
	case *ssa.Extract:
		return aliases(x.Tuple, b, seen)
	case *ssa.Call:
		// a bytes.Buffer built over the buffer hands its storage back out (Bytes / Next) until it grows
		switch c := CalleeOf(x); {
		case c.Is("bytes:NewBuffer"):
			return aliases(Arg(x, 0), b, seen)
		case c.Is("bytes:Buffer.Bytes", "bytes:Buffer.Next"):
			return aliases(Recv(x), b, seen)
		}
	case *ssa.UnOp:
		if x.Op == token.MUL {
			if a, ok := x.X.(*ssa.Alloc); ok {
				for _, st := range storesTo(a) {
					if aliases(st.Val, b, seen) {
						return true
					}
				}
			} else {
				// *p where p is the pooled pointer (sync.Pool of *[]byte)
				return aliases(x.X, b, seen)
			}
		}
	}
	return false
}

// checkSyncPoolOwnership: the same ownership rule for sync.Pool: a value taken with Get and
// given back with Put (call or defer) in f must not alias anything f returns on a path covered
// by the Put. Returns the number of Get sites examined.
func checkSyncPoolOwnership(r *Report, rule string, f *ssa.Function) int {
	n := 0
	for _, g := range Calls(f, false, "sync:Pool.Get") {
		n++
		b := g.(ssa.Value)
		var puts []ssa.CallInstruction
		for _, h := range WithAnon(f) {
			for _, pc := range Calls(h, false, "sync:Pool.Put") {
				if a := Arg(pc, 0); a != nil && aliases(a, b, map[ssa.Value]bool{}) {
					puts = append(puts, pc)
				}
			}
		}
		bad := ""
		for _, ret := range Returns(f) {
			for i := range ret.Results {
				if !aliases(RetVal(ret, i), b, map[ssa.Value]bool{}) {
					continue
				}
				for _, pc := range puts {
					if _, isDefer := pc.(*ssa.Defer); isDefer || pc.Parent() != f {
						bad = "a value backed by the pooled buffer is returned while a deferred Put gives the buffer back"
					} else if hits := WalkFrom(nil, pc.(ssa.Instruction), func(in ssa.Instruction) int {
						if in == ssa.Instruction(ret) {
							return Hit
						}
						return Cont
					}, nil); len(hits) > 0 {
						bad = "a value backed by the pooled buffer is returned after the buffer was Put back"
					}
				}
			}
		}
		r.Ob(rule, CallPos(g), bad == "", map[bool]string{true: "pooled buffer is not part of what the function returns once it is Put back", false: bad + ": the next user of the pool overwrites bytes the caller still holds"}[bad == ""], r.P.FuncName(f), "sync-pool-ownership")
	}
	return n
}

// checkPoolOwnership: if the buffer is released in this function (call or
// defer), no return value of the function may alias it on a path after /
// covered by the release.
func checkPoolOwnership(r *Report, f *ssa.Function, alloc ssa.CallInstruction) {
	b := alloc.(ssa.Value)
	fn := r.P.FuncName(f)
	var releases []ssa.CallInstruction
	for _, g := range WithAnon(f) {
		for _, rc := range Calls(g, false, "BufferManager.Release") {
			if a := Arg(rc, 0); a != nil && aliases(a, b, map[ssa.Value]bool{}) {
				releases = append(releases, rc)
			}
		}
	}
	bad := ""
	for _, ret := range Returns(f) {
		for i := range ret.Results {
			v := RetVal(ret, i)
			if !aliases(v, b, map[ssa.Value]bool{}) {
				continue
			}
			for _, rc := range releases {
				if _, isDefer := rc.(*ssa.Defer); isDefer {
					bad = "the buffer is returned while a deferred Release gives it back to the pool"
				} else if rc.Parent() == f {
					hits := WalkFrom(nil, rc.(ssa.Instruction), func(in ssa.Instruction) int {
						if in == ssa.Instruction(ret) {
							return Hit
						}
						return Cont
					}, nil)
					if len(hits) > 0 {
						bad = "the buffer is returned after it was released to the pool"
					}
				}
			}
		}
	}
	// the buffer lent to a callback parameter (`consume(buffer)`) while this function releases it:
	// no callback passed by a caller may keep the slice
	if len(releases) > 0 && bad == "" {
		Instrs(f, func(in ssa.Instruction) {
			c, ok := in.(*ssa.Call)
			if !ok || c.Common().IsInvoke() {
				return
			}
			cb, isParam := c.Call.Value.(*ssa.Parameter)
			if !isParam {
				return
			}
			argIdx := -1
			for i, a := range c.Call.Args {
				if aliases(a, b, map[ssa.Value]bool{}) {
					argIdx = i
				}
			}
			pIdx := -1
			for i, p := range f.Params {
				if p == cb {
					pIdx = i
				}
			}
			if argIdx < 0 || pIdx < 0 {
				return
			}
			for _, site := range staticCallSites(r.P, f) {
				if pIdx >= len(site.Call.Args) {
					continue
				}
				g := resolveClosure(site.Call.Args[pIdx], site.Parent(), 0)
				if g == nil || argIdx >= len(g.Params) {
					bad = "the buffer is lent to a callback that could not be resolved at " + r.P.Pos(site.Pos())
					continue
				}
				if how := retains(g.Params[argIdx], 0, map[ssa.Value]bool{}); how != "" {
					bad = "the buffer lent to the callback at " + r.P.Pos(site.Pos()) + " is " + how + " while " + f.Name() + " releases it"
				}
			}
		})
	}
	r.Ob("R-C01-5", CallPos(alloc), bad == "", map[bool]string{true: "pooled buffer is either copied out before Release or handed over without Release", false: bad + ": the next packet read overwrites the bytes the caller still holds"}[bad == ""], fn, "pool-buffer-ownership")
}

type sizeRejection struct {
	pos      token.Pos
	smallest int64
	text     string
	what     string
}

// sizeRejections finds comparisons of a size with a constant near maxBody whose true edge
// can only return an error, and computes the smallest size each one refuses.
func sizeRejections(g *ssa.Function, maxBody int64) []sizeRejection {
	var out []sizeRejection
	Instrs(g, func(in ssa.Instruction) {
		bo, ok := in.(*ssa.BinOp)
		if !ok || bo.Referrers() == nil {
			return
		}
		k, isC := ConstInt(bo.Y)
		if !isC || k < maxBody-4096 || k > maxBody+4096 {
			return
		}
		// which edge refuses, and from which size on: n > K / n >= K refuse on the true edge,
		// the accepting forms n <= K / n < K refuse on the false edge
		var smallest int64
		rejectSucc := 0
		switch bo.Op {
		case token.GTR:
			smallest = k + 1
		case token.GEQ:
			smallest = k
		case token.LEQ:
			smallest, rejectSucc = k+1, 1
		case token.LSS:
			smallest, rejectSucc = k, 1
		default:
			return
		}
		for _, u := range *bo.Referrers() {
			iff, ok := u.(*ssa.If)
			if !ok {
				continue
			}
			ok2 := WalkFrom(iff.Block().Succs[rejectSucc], nil, func(in ssa.Instruction) int {
				if ret, isR := in.(*ssa.Return); isR {
					if RetErrKind(ret) == "nil" {
						return Hit
					}
					return Stop
				}
				return Cont
			}, nil)
			if len(ok2) > 0 {
				continue // not a rejection (e.g. a capacity clamp)
			}
			what := "wire-length"
			if c, _ := CallOfValue(bo.X); c != nil && CalleeOf(c).Is("io:Copy", "io:CopyBuffer", "bytes:Buffer.ReadFrom") {
				what = "inflated-length"
			} else if lc, ok := stripValue(bo.X).(*ssa.Call); ok {
				if b, ok := lc.Call.Value.(*ssa.Builtin); ok && b.Name() == "len" {
					what = "length-of-buffer"
				}
			}
			out = append(out, sizeRejection{bo.Pos(), smallest, fmt.Sprintf("%s %s %d", originSummary(bo.X), bo.Op, k), what})
		}
	})
	return out
}

// fullReaderParam: h fills one of its []byte parameters completely by an accumulate-until-len loop
// on a raw Read (the shape AccumLoop accepts, bound = len(param)); returns the parameter's index in
// h.Params, or -1.
func fullReaderParam(h *ssa.Function) int {
	for _, ci := range Calls(h, false, "Read") {
		if !isReadMethod(ci) {
			continue
		}
		acc, _, buf, _ := AccumLoop(ci)
		if acc == nil {
			continue
		}
		if p, ok := stripValue(buf).(*ssa.Parameter); ok {
			for i, q := range h.Params {
				if q == p {
					return i
				}
			}
		}
	}
	return -1
}

// markedByEveryWrite: every call of (*gzip.Writer).Write made through the wrapper type (the
// compressor is a field of it) is dominated by a store of true into the named field of that type.
func markedByEveryWrite(p *Prog, pkg *ssa.Package, typ, field string) bool {
	n := 0
	for _, f := range p.Funcs {
		if f.Pkg != pkg {
			continue
		}
		for _, c := range Calls(f, false, "gzip:Writer.Write") {
			// writes made through the wrapper that owns the flag (the compressor is one of its fields)
			if t, _, _, ok := FieldOf(Recv(c)); !ok || t != typ {
				continue
			}
			n++
			marked := false
			Instrs(f, func(in ssa.Instruction) {
				st, ok := in.(*ssa.Store)
				if !ok {
					return
				}
				if _, fld, _, ok := FieldOf(st.Addr); !ok || fld != field {
					return
				}
				if b, isC := ConstBool(st.Val); !isC || !b {
					return
				}
				ci := c.(ssa.Instruction)
				if (st.Block() == ci.Block() && Before(st, ci)) || (st.Block() != ci.Block() && st.Block().Dominates(ci.Block())) {
					marked = true
				}
			})
			if !marked {
				return false
			}
		}
	}
	return n > 0
}
