package main

import (
	"fmt"
	"go/constant"
	"go/token"
	"go/types"
	"strings"

	"golang.org/x/tools/go/ssa"
)

func init() {
	register(&PropCheck{
		ID: "C03",
		Explanation: "Static rules on the handshake path (internal/app/server/auth_handler.go, session/packet_handler_handshake.go, connection/types.go). " +
			"R-C03-1: every program-wide writer of a control connection's identity (SetClientID, SetAuthenticated(non-false), stores to ControlConnection.ClientID/Authenticated) is one of: the accessor itself, a proof point (dominated by a successful VerifyResponse or by successful issuance of fresh credentials), a registry re-assertion (UpdateAuth, whose callers are under R-C03-4), or a branch that is dead because no type in the program satisfies the interface assertion guarding it. " +
			"R-C03-6: the verifier itself: VerifyResponse says yes only through hmac.Equal after a successful Decrypt of the stored secret, keyed with the decrypted secret; Decrypt succeeds only with the plaintext the AEAD opened; ban/blacklist expiry comparisons honour permanent (zero-expiry) entries. " +
			"R-C03-2: at the challenge proof point the pending challenge is read from this connection, tested non-empty and cleared before VerifyResponse; VerifyResponse is applied to the stored secret of the config looked up for req.ClientID, that challenge and req.ChallengeResponse; the id granted is req.ClientID; at the issuance proof point the id granted is the freshly generated one. " +
			"R-C03-3: in HandleHandshake no credential function (fresh issuance, config lookup, phase 1/2) is reachable from the rejecting edge of the blacklist, ban, rate-limit or expiry tests, and each gate is passed on every path to them unless its component is nil. " +
			"R-C03-4: the session layer touches the client registry / connection-state store / config push only under err == nil of HandleHandshake and IsAuthenticated() && GetClientID() > 0 of this connection, passes that connection's own id, and the error edge returns without registry writes. " +
			"R-C03-5: the address used for the gates is derived from the connection's remote address through the typed TCP/UDP branch (zone-free IP), never from request fields. " +
			"Decides these necessary conditions; does not decide HMAC correctness, nonce entropy or the full message-sequence state space.",
		Run: runC03,
		Mutants: []Mutant{
			{Name: "grant-in-phase1", File: "internal/app/server/auth_handler.go", Rule: "R-C03-1",
				Old: "\tconn.SetPendingChallenge(challenge)\n", New: "\tconn.SetPendingChallenge(challenge)\n\tconn.SetClientID(req.ClientID)\n"},
			{Name: "verify-negation-dropped", File: "internal/app/server/auth_handler.go", Rule: "R-C03-1",
				Old: "if !h.secretKeyMgr.VerifyResponse(config.SecretKeyEncrypted, challenge, req.ChallengeResponse) {", New: "if h.secretKeyMgr.VerifyResponse(config.SecretKeyEncrypted, challenge, req.ChallengeResponse) {"},
			{Name: "challenge-not-cleared", File: "internal/app/server/auth_handler.go", Rule: "R-C03-2",
				Old: "\tconn.ClearPendingChallenge()\n", New: ""},
			{Name: "ban-gate-after-lookup", File: "internal/app/server/auth_handler.go", Rule: "R-C03-3",
				Old: "\t\tif banned, reason := h.bruteForceProtector.IsBanned(ip); banned {", New: "\t\tif banned, reason := h.bruteForceProtector.IsBanned(ip); banned && req.ClientID == 0 {"},
			{Name: "expired-config-continues", File: "internal/app/server/auth_handler.go", Rule: "R-C03-3",
				Old: "if config.IsExpired() {", New: "if config.IsExpired() && req.ChallengeResponse == \"\" {"},
			{Name: "registry-update-without-auth-test", File: "internal/protocol/session/packet_handler_handshake.go", Rule: "R-C03-4",
				Old: "if isControlConnection && clientConn.IsAuthenticated() && clientConn.GetClientID() > 0 {\n\t\tcorelog.Infof(\"Handshake: updating", New: "if isControlConnection && clientConn.GetClientID() > 0 {\n\t\tcorelog.Infof(\"Handshake: updating"},
			{Name: "extractip-drops-typed-branch", File: "internal/app/server/auth_handler.go", Rule: "R-C03-5",
				Old: "\tcase *net.TCPAddr:\n\t\treturn v.IP.String()\n", New: ""},
		},
	})
}

const authPkg = "internal/app/server"

// deadByAssert: the instruction is dominated by the success of a comma-ok
// interface assertion that no concrete type declared in the repository can satisfy.
func deadByAssert(p *Prog, in ssa.Instruction) (bool, string) {
	for _, ft := range Facts(in.Block()) {
		if !ft.Pol {
			continue
		}
		ex, ok := ft.Cond.(*ssa.Extract)
		if !ok || ex.Index != 1 {
			continue
		}
		ta, ok := ex.Tuple.(*ssa.TypeAssert)
		if !ok || !ta.CommaOk {
			continue
		}
		want, ok := ta.AssertedType.Underlying().(*types.Interface)
		if !ok {
			continue
		}
		from, _ := ta.X.Type().Underlying().(*types.Interface)
		n := 0
		for _, pk := range p.Pkgs {
			sc := pk.Types.Scope()
			for _, name := range sc.Names() {
				tn, ok := sc.Lookup(name).(*types.TypeName)
				if !ok {
					continue
				}
				if _, isIface := tn.Type().Underlying().(*types.Interface); isIface {
					continue
				}
				for _, T := range []types.Type{tn.Type(), types.NewPointer(tn.Type())} {
					if types.Implements(T, want) && (from == nil || types.Implements(T, from)) {
						n++
					}
				}
			}
		}
		if n == 0 {
			return true, "guarded by an interface assertion (" + types.TypeString(ta.AssertedType, nil) + ") that no type of the repository satisfies"
		}
	}
	return false, ""
}

func isCtrlConnType(t types.Type) bool {
	pk, n := recvTypeName(t)
	return strings.HasSuffix(pk, "internal/protocol/session/connection") && (n == "ControlConnection" || n == "ControlConnectionInterface")
}

func checkIdentityWriters(r *Report, rule string) {
	// ---- R-C03-1 who may set identity ---------------------------------------
	type site struct {
		in   ssa.Instruction
		what string
	}
	var sites []site
	for _, f := range r.P.Funcs {
		if f.Pkg != nil && strings.HasPrefix(rel(f.Pkg.Pkg.Path()), "internal/client") {
			continue
		}
		Instrs(f, func(in ssa.Instruction) {
			switch x := in.(type) {
			case ssa.CallInstruction:
				c := CalleeOf(x)
				if c.Obj == nil || (c.Name != "SetAuthenticated" && c.Name != "SetClientID") {
					return
				}
				sig := c.Obj.Type().(*types.Signature)
				if sig.Recv() == nil || !isCtrlConnType(sig.Recv().Type()) {
					return
				}
				if c.Name == "SetAuthenticated" {
					if b, ok := ConstBool(Arg(x, 0)); ok && !b {
						return
					}
				}
				sites = append(sites, site{in, c.Name})
			case *ssa.Store:
				t, fld, base, ok := FieldOf(x.Addr)
				if !ok || t != "ControlConnection" || (fld != "Authenticated" && fld != "ClientID") {
					return
				}
				if !isCtrlConnType(base.Type()) {
					return
				}
				if fld == "Authenticated" {
					if b, ok := ConstBool(x.Val); ok && !b {
						return
					}
				}
				if IsFresh(base) {
					return // constructor
				}
				sites = append(sites, site{in, "store " + fld})
			}
		})
	}
	for _, s := range sites {
		f := s.in.Parent()
		top := Outermost(f)
		fn := r.P.FuncName(f)
		key := []string{fn, s.what}
		// accessor bodies
		if top.Signature.Recv() != nil && isCtrlConnType(top.Signature.Recv().Type()) && (top.Name() == "SetClientID" || top.Name() == "SetAuthenticated") {
			r.Pass(rule, s.in.Pos(), "accessor body", key...)
			continue
		}
		// proof points
		if c, pol, ok := CallFact(s.in.Block(), "SecretKeyManager.VerifyResponse"); ok && pol {
			r.Pass(rule, s.in.Pos(), "proof point: dominated by VerifyResponse()==true at "+r.P.Pos(c.Pos()), key...)
			continue
		}
		issued := false
		for _, gc := range Calls(f, false, "GenerateAnonymousCredentials") {
			if ErrOK(s.in.Block(), gc) {
				issued = true
			}
		}
		if issued {
			r.Pass(rule, s.in.Pos(), "proof point: dominated by successful issuance of fresh credentials", key...)
			continue
		}
		if dead, why := deadByAssert(r.P, s.in); dead {
			r.Pass(rule, s.in.Pos(), "dead branch: "+why, key...)
			continue
		}
		if top.Name() == "UpdateAuth" {
			r.Pass(rule, s.in.Pos(), "registry re-assertion under the registry lock (callers checked by R-C03-4)", key...)
			continue
		}
		// a completion helper (`completeAuthentication(conn, id, ...)`): every one of its call sites is a
		// proof point
		if top == f && top.Object() != nil && !top.Object().Exported() {
			sites2 := staticCallSites(r.P, top)
			all := len(sites2) > 0
			for _, cs := range sites2 {
				at := false
				if _, pol, ok := CallFact(cs.Block(), "SecretKeyManager.VerifyResponse"); ok && pol {
					at = true
				}
				for _, gc := range Calls(cs.Parent(), false, "GenerateAnonymousCredentials") {
					if ErrOK(cs.Block(), gc) {
						at = true
					}
				}
				if !at {
					all = false
				}
			}
			if all {
				r.Pass(rule, s.in.Pos(), fmt.Sprintf("proof point: every call site of %s (%d) is dominated by a successful VerifyResponse or by issuance of fresh credentials", top.Name(), len(sites2)), key...)
				continue
			}
		}
		r.Fail(rule, s.in.Pos(), "identity of a control connection is written outside a proof point: not dominated by a successful VerifyResponse nor by issuance of fresh credentials", key...)
	}
}

func runC03(r *Report) {
	checkIdentityWriters(r, "R-C03-1")
	r.Floor("R-C03-1", 12, "writers of control-connection identity")

	// ---- R-C03-2 proof details ---------------------------------------------
	p2 := r.need("R-C03-2", authPkg, "ServerAuthHandler.handleChallengePhase2")
	hh := r.need("R-C03-3", authPkg, "ServerAuthHandler.HandleHandshake")
	fc := r.need("R-C03-2", authPkg, "ServerAuthHandler.handleFirstConnection")
	if p2 != nil {
		vr := Calls(p2, false, "SecretKeyManager.VerifyResponse")
		if len(vr) != 1 {
			r.Fail("R-C03-2", p2.Pos(), "expected exactly one VerifyResponse call", "handleChallengePhase2", "anchor")
		} else {
			v := vr[0]
			a0, a1, a2 := originSummary(Arg(v, 0)), originSummary(Arg(v, 1)), originSummary(Arg(v, 2))
			r.Ob("R-C03-2", CallPos(v), a0 == "field:ClientConfig.SecretKeyEncrypted(param:config)", "secret verified against: "+a0+" (want the stored secret of the looked-up config)", "handleChallengePhase2", "verify-secret-origin")
			pend := pendingChallengeValues(p2)
			r.Ob("R-C03-2", CallPos(v), (strings.HasPrefix(a1, "call:") && strings.Contains(a1, "GetPendingChallenge") && !strings.Contains(a1, ",")) || pend[stripValue(Arg(v, 1))], "challenge verified: "+a1+" (want this connection's pending challenge only)", "handleChallengePhase2", "verify-challenge-origin")
			r.Ob("R-C03-2", CallPos(v), a2 == "field:HandshakeRequest.ChallengeResponse(param:req)", "response verified: "+a2, "handleChallengePhase2", "verify-response-origin")
			// pending challenge read on the same connection parameter, tested non-empty
			gp := Calls(p2, false, "GetPendingChallenge")
			okConn := len(gp) == 1 && originSummary(Recv(gp[0])) == "param:conn"
			r.Ob("R-C03-2", CallPos(v), okConn, "pending challenge is read from the connection being authenticated", "handleChallengePhase2", "challenge-of-this-connection")
			nonEmpty := false
			for _, ft := range Facts(v.Block()) {
				if bo, ok := ft.Cond.(*ssa.BinOp); ok && len(gp) == 1 {
					if bo.X == gp[0].(ssa.Value) || (pendingChallengeValues(p2)[bo.X] && stripValue(bo.X) == stripValue(Arg(v, 1))) {
						if s, ok := stripValue(bo.Y).(*ssa.Const); ok && constString(s) == "" {
							if (bo.Op.String() == "==" && !ft.Pol) || (bo.Op.String() == "!=" && ft.Pol) {
								nonEmpty = true
							}
						}
					}
				}
			}
			r.Ob("R-C03-2", CallPos(v), nonEmpty, "verification is reached only with a non-empty pending challenge", "handleChallengePhase2", "challenge-non-empty")
			// cleared before verification (so a failed attempt also burns it)
			cleared := !ReachesWithout(p2, v.(ssa.Instruction), func(in ssa.Instruction) bool {
				ci, ok := in.(ssa.CallInstruction)
				return ok && CalleeOf(ci).Name == "ClearPendingChallenge" && originSummary(Recv(ci)) == "param:conn"
			})
			r.Ob("R-C03-2", CallPos(v), cleared, "the pending challenge is cleared on every path before VerifyResponse (each challenge is accepted at most once, also after a failed attempt)", "handleChallengePhase2", "challenge-cleared-before-verify")
		}
		for _, sc := range Calls(p2, false, "SetClientID") {
			o := originSummary(Arg(sc, 0))
			r.Ob("R-C03-2", CallPos(sc), o == "field:HandshakeRequest.ClientID(param:req)", "id granted: "+o+" (want req.ClientID, the id whose secret was verified)", "handleChallengePhase2", "granted-id-origin")
		}
	}
	if fc != nil {
		for _, sc := range Calls(fc, false, "SetClientID") {
			o := originSummary(Arg(sc, 0))
			r.Ob("R-C03-2", CallPos(sc), strings.Contains(o, "GenerateAnonymousCredentials") && !strings.Contains(o, "param:req"), "id granted on first connection: "+o+" (want the freshly generated id)", "handleFirstConnection", "granted-id-origin")
		}
	}
	// a proof handler that reports success has granted the identity: every success return passes
	// SetClientID and SetAuthenticated(true) on the connection being authenticated
	for _, ph := range []*ssa.Function{p2, fc} {
		if ph == nil {
			continue
		}
		for _, ret := range Returns(ph) {
			if RetErrKind(ret) != "nil" {
				continue
			}
			for _, need := range []string{"SetClientID", "SetAuthenticated"} {
				nd := need
				grants := func(in ssa.Instruction) bool {
					ci, ok := in.(ssa.CallInstruction)
					if !ok || CalleeOf(ci).Name != nd || originSummary(Recv(ci)) != "param:conn" {
						return false
					}
					if nd == "SetAuthenticated" {
						b, isC := ConstBool(Arg(ci, 0))
						return isC && b
					}
					return true
				}
				missing := ReachesWithout(ph, ret, func(in ssa.Instruction) bool {
					if grants(in) {
						return true
					}
					// through a completion helper that receives this connection as its `conn`
					if c, ok := in.(*ssa.Call); ok && c.Common().StaticCallee() != nil {
						passes := false
						for i, a := range c.Call.Args {
							if originSummary(a) == "param:conn" && i < len(c.Common().StaticCallee().Params) && canonParamName(c.Common().StaticCallee().Params[i]) == "conn" {
								passes = true
							}
						}
						return passes && performsVia(in, grants, nil)
					}
					return false
				})
				r.Ob("R-C03-2", ret.Pos(), !missing, "a success return of the proof handler has passed "+need+" on this connection (success is reported only for a connection that was actually granted the identity)", ph.Name(), "success-grants:"+need)
			}
		}
	}
	if hh != nil {
		// the config handed to the phases is the one looked up for req.ClientID
		for _, pc := range Calls(hh, false, "ServerAuthHandler.handleChallengePhase1", "ServerAuthHandler.handleChallengePhase2") {
			cfg := Arg(pc, 2)
			c, idx := CallOfValue(cfg)
			ok := c != nil && idx == 0 && CalleeOf(c).Name == "GetClientConfig" && originSummary(Arg(c, 0)) == "field:HandshakeRequest.ClientID(param:req)" && originSummary(Arg(pc, 1)) == "param:req" && originSummary(Arg(pc, 0)) == "param:conn"
			r.Ob("R-C03-2", CallPos(pc), ok, "the phase handlers receive this connection, this request and the config looked up for req.ClientID", "HandleHandshake", "phase-args:"+CalleeOf(pc).Name)
		}
		r.Floor("R-C03-2", 9, "proof-detail obligations")

		checkHandshakeGates(r, "R-C03-3", hh)
	}

	// ---- R-C03-6 the verifier itself ------------------------------------------------
	// VerifyResponse says yes only through the constant-time comparison of the HMAC keyed with the
	// *decrypted* stored secret; Decrypt succeeds only with what the AEAD opened (no success with a
	// constant / empty secret: an HMAC keyed with "" can be computed by anyone).
	const secPkgC03 = "internal/security"
	if vr := r.need("R-C03-6", secPkgC03, "SecretKeyManager.VerifyResponse"); vr != nil {
		decs := Calls(vr, false, "SecretKeyManager.Decrypt")
		for _, ret := range Returns(vr) {
			v := stripValue(RetVal(ret, 0))
			if k, isC := v.(*ssa.Const); isC && k.Value != nil && !constant.BoolVal(k.Value) {
				continue // `return false`
			}
			c, _ := CallOfValue(v)
			okEq := c != nil && CalleeOf(c).Is("hmac:Equal", "subtle:ConstantTimeCompare")
			okDec := false
			if okEq && len(decs) == 1 {
				okDec = ErrOK(ret.Block(), decs[0])
			}
			// the key of the expected response is the decrypted secret
			okKey := false
			if okEq {
				for _, cr := range Calls(vr, false, "SecretKeyManager.ComputeResponse") {
					if kc, idx := CallOfValue(Arg(cr, 0)); kc != nil && len(decs) == 1 && ssa.CallInstruction(kc) == decs[0] && idx == 0 && originSummary(Arg(cr, 1)) == "param:challenge" {
						okKey = true
					}
				}
				// any function of the package that computes HMAC(key param, message param), whatever its name
				Instrs(vr, func(in ssa.Instruction) {
					hc, ok := in.(*ssa.Call)
					if !ok {
						return
					}
					g := hc.Common().StaticCallee()
					if g == nil || g.Pkg != vr.Pkg || len(g.Blocks) == 0 {
						return
					}
					ki, mi := hmacKeyedParams(g, 2)
					if ki < 0 || mi < 0 || ki >= len(hc.Call.Args) || mi >= len(hc.Call.Args) {
						return
					}
					if kc, idx := CallOfValue(hc.Call.Args[ki]); kc != nil && len(decs) == 1 && ssa.CallInstruction(kc) == decs[0] && idx == 0 && originSummary(hc.Call.Args[mi]) == "param:challenge" {
						okKey = true
					}
				})
				// the same computation written in place: hmac.New keyed with the decrypted secret, fed
				// with the challenge
				for _, hn := range Calls(vr, false, "hmac:New") {
					if kc, idx := CallOfValue(Arg(hn, 1)); kc != nil && len(decs) == 1 && ssa.CallInstruction(kc) == decs[0] && idx == 0 {
						for _, w := range Calls(vr, false, "Write") {
							if strings.Contains(originSummary(bufArg(w)), "param:challenge") {
								okKey = true
							}
						}
					}
				}
			}
			r.Ob("R-C03-6", ret.Pos(), okEq && okDec && okKey, fmt.Sprintf("VerifyResponse answers through hmac.Equal (%v) after a successful Decrypt of the stored secret (%v), keyed with the decrypted secret over this challenge (%v)", okEq, okDec, okKey), "VerifyResponse", "verdict-is-hmac-equal")
		}
		if len(decs) == 1 {
			r.Ob("R-C03-6", CallPos(decs[0]), originSummary(Arg(decs[0], 0)) == "param:encryptedKey", "the secret decrypted is the stored secret handed in ("+originSummary(Arg(decs[0], 0))+")", "VerifyResponse", "decrypts-stored-secret")
		}
	}
	if dc := r.need("R-C03-6", secPkgC03, "SecretKeyManager.Decrypt"); dc != nil {
		var opens []ssa.CallInstruction
		Instrs(dc, func(in ssa.Instruction) {
			if ci, ok := in.(ssa.CallInstruction); ok && CalleeOf(ci).Name == "Open" && CalleeOf(ci).Recv == "AEAD" {
				opens = append(opens, ci)
			}
		})
		for _, ret := range Returns(dc) {
			if RetErrKind(ret) != "nil" {
				continue
			}
			ok := false
			for _, o := range opens {
				if ErrOK(ret.Block(), o) {
					if c, idx := CallOfValue(RetVal(ret, 0)); c != nil && ssa.CallInstruction(c) == o && idx == 0 {
						ok = true
					}
				}
			}
			if !ok {
				// a success for one constant input (`if encrypted == "" { return "", nil }`) is harmless when
				// every caller refuses that input before it calls Decrypt
				ok = constInputRefusedByCallers(r.P, dc, ret)
			}
			r.Ob("R-C03-6", ret.Pos(), ok, "Decrypt succeeds only with the plaintext the AEAD opened (authenticated decryption of the stored secret); any other success hands the verifier a secret an attacker can know", "Decrypt", "success-is-opened-plaintext")
		}
	}
	if cr := r.need("R-C03-6", secPkgC03, "SecretKeyManager.ComputeResponse"); cr != nil {
		ok := false
		for _, h := range Calls(cr, false, "hmac:New") {
			if originSummary(Arg(h, 1)) == "param:secretKey" {
				ok = true
			}
		}
		if ki, _ := hmacKeyedParams(cr, 2); ki >= 0 && ki < len(cr.Params) && canonParamName(cr.Params[ki]) == "secretKey" {
			ok = true
		}
		r.Ob("R-C03-6", cr.Pos(), ok, "the expected response is an HMAC keyed with the secret", "ComputeResponse", "hmac-keyed-with-secret")
	}
	// gate predicates honour permanent entries (zero expiry = never): a permanent ban or blacklist
	// entry must never be read as expired or be replaced by a shorter one through a clock comparison
	checkZeroExpiryGuard(r, "R-C03-6", secPkgC03, "BanRecord", "ExpiresAt")
	checkZeroExpiryGuard(r, "R-C03-6", secPkgC03, "IPRecord", "ExpiresAt")

	// the persisted allow/deny lists: save, load and remove agree, per list type, on the storage keys
	checkCaseConstantAgreement(r, "R-C03-6", secPkgC03, "IPType", 3)

	// ---- R-C03-5 extractIP uses the typed branch ---------------------------------
	if ex := r.need("R-C03-5", authPkg, "extractIP"); ex != nil {
		typed := map[string]bool{}
		Instrs(ex, func(in ssa.Instruction) {
			if ta, ok := in.(*ssa.TypeAssert); ok {
				typed[types.TypeString(ta.AssertedType, nil)] = true
			}
		})
		checkExtractIPBranches(r, "R-C03-5", ex)
		for _, t := range []string{"*net.TCPAddr", "*net.UDPAddr"} {
			r.Ob("R-C03-5", ex.Pos(), typed[t], "extractIP takes the IP of "+t+" from the typed address (a textual host:port split keeps an IPv6 zone, so ban/blacklist keys would not match)", "extractIP", "typed-branch:"+t)
		}
	}

	// ---- R-C03-4 session layer honours the verdict ------------------------------
	sh := r.need("R-C03-4", sessPkg, "SessionManager.handleHandshake")
	if sh == nil {
		return
	}
	hcs := Calls(sh, false, "HandleHandshake")
	if len(hcs) != 1 {
		r.Fail("R-C03-4", sh.Pos(), "expected one authHandler.HandleHandshake call", "handleHandshake", "anchor")
		return
	}
	hc := hcs[0]
	connArg := Arg(hc, 0)
	sinks := Calls(sh, true, "ClientRegistry.UpdateAuth", "ClientRegistry.Remove", "RegisterConnection", "OnHandshakeComplete", "SessionManager.pushConfigToClient", "UnregisterConnection")
	for _, sk := range sinks {
		name := CalleeOf(sk).Name
		blk := sk.Block()
		if sk.Parent() != sh {
			continue
		}
		okErr := ErrOK(blk, hc)
		auth, idpos := false, false
		for _, ft := range Facts(blk) {
			if c, ok := stripValue(ft.Cond).(*ssa.Call); ok && CalleeOf(c).Name == "IsAuthenticated" && ft.Pol && sameConnValue(Recv(c), connArg) {
				auth = true
			}
			if bo, ok := ft.Cond.(*ssa.BinOp); ok && bo.Op.String() == ">" && ft.Pol {
				if c, ok := stripValue(bo.X).(*ssa.Call); ok && CalleeOf(c).Name == "GetClientID" && sameConnValue(Recv(c), connArg) {
					if z, ok := ConstInt(bo.Y); ok && z == 0 {
						idpos = true
					}
				}
			}
		}
		r.Ob("R-C03-4", CallPos(sk), okErr && auth && idpos,
			fmt.Sprintf("%s must be dominated by err==nil of HandleHandshake (%v), IsAuthenticated() (%v) and GetClientID()>0 (%v) of this connection", name, okErr, auth, idpos),
			"handleHandshake", "sink-guarded:"+name)
	}
	r.Floor("R-C03-4", 5, "registry/state sinks in the session handshake handler")
	for _, ua := range Calls(sh, false, "ClientRegistry.UpdateAuth") {
		o := originSummary(Arg(ua, 1))
		good := strings.Contains(o, "GetClientID") && !strings.Contains(o, "HandshakeRequest") && !strings.Contains(o, "alloc:")
		r.Ob("R-C03-4", CallPos(ua), good, "id installed in the registry: "+o+" (want the connection's own GetClientID(), never a request field)", "handleHandshake", "installed-id-origin")
	}
	// error edge: no registry write reachable
	for _, b := range sh.Blocks {
		if !ErrFailed(b, hc) {
			continue
		}
		for _, in := range b.Instrs {
			if ci, ok := in.(ssa.CallInstruction); ok && CalleeOf(ci).Is("ClientRegistry.UpdateAuth", "RegisterConnection", "SessionManager.pushConfigToClient") {
				r.Fail("R-C03-4", in.Pos(), "registry/state write on the failure edge of HandleHandshake", "handleHandshake", "failure-edge-inert")
			}
		}
	}
	r.Pass("R-C03-4", CallPos(hc), "failure edge of HandleHandshake performs no registry/state write", "handleHandshake", "failure-edge-inert")
}

// sameConnValue: both values denote the same connection variable (same SSA
// value or phi/loads with identical origin set).
func sameConnValue(a, b ssa.Value) bool {
	if a == b {
		return true
	}
	return a != nil && b != nil && originSummary(a) == originSummary(b)
}

// checkHandshakeGates: gate order and rejecting edges of HandleHandshake
// (shared by C03 and C18).
func checkHandshakeGates(r *Report, rule string, hh *ssa.Function) {
	// ---- R-C03-3 gate order ----------------------------------------------
	cred := []string{"ServerAuthHandler.handleFirstConnection", "GetClientConfig", "ServerAuthHandler.handleChallengePhase1", "ServerAuthHandler.handleChallengePhase2"}
	credCalls := Calls(hh, false, cred...)
	isCred := func(in ssa.Instruction) bool {
		for _, c := range credCalls {
			if in == c.(ssa.Instruction) {
				return true
			}
		}
		return false
	}
	type gate struct {
		callee, comp string
		rejectWhen   bool // value of result #0 (or the bool) on which the request must be refused
		onlyFor      []string
	}
	gates := []gate{
		{"IPManager.IsAllowed", "ipManager", false, nil},
		{"BruteForceProtector.IsBanned", "bruteForceProtector", true, nil},
		{"RateLimiter.AllowIP", "rateLimiter", false, []string{"handleFirstConnection"}},
		{"ClientConfig.IsExpired", "", true, []string{"handleChallengePhase1", "handleChallengePhase2"}},
	}
	for _, g := range gates {
		gc := Calls(hh, false, g.callee)
		if len(gc) == 0 && checkGateViaHelper(r, rule, hh, g.callee, g.comp, g.rejectWhen, g.onlyFor, credCalls) {
			continue
		}
		if len(gc) != 1 {
			r.Fail(rule, hh.Pos(), fmt.Sprintf("expected one %s call in HandleHandshake, found %d", g.callee, len(gc)), "HandleHandshake", "gate:"+g.callee)
			continue
		}
		call := gc[0]
		res := ssa.Value(call.(*ssa.Call))
		if tup, ok := call.(*ssa.Call).Type().(*types.Tuple); ok && tup.Len() > 1 {
			res = extractOf(call, 0)
		}
		// rejecting edge reaches no credential function
		var iff *ssa.If
		if res != nil && res.Referrers() != nil {
			for _, ref := range *res.Referrers() {
				if i, ok := ref.(*ssa.If); ok {
					iff = i
				}
				if u, ok := ref.(*ssa.UnOp); ok && u.Referrers() != nil {
					for _, r2 := range *u.Referrers() {
						if i, ok := r2.(*ssa.If); ok {
							iff = i
						}
					}
				}
			}
		}
		if iff == nil {
			r.Fail(rule, CallPos(call), "result of "+g.callee+" does not decide a branch", "HandleHandshake", "gate:"+g.callee)
			continue
		}
		_, pol := normCond(iff.Cond, true)
		rejSucc := 1
		if g.rejectWhen == pol {
			rejSucc = 0
		}
		hits := WalkFrom(iff.Block().Succs[rejSucc], nil, func(in ssa.Instruction) int {
			if isCred(in) {
				if len(g.onlyFor) > 0 {
					name := CalleeOf(in.(ssa.CallInstruction)).Name
					m := false
					for _, o := range g.onlyFor {
						if o == name {
							m = true
						}
					}
					if !m {
						return Cont
					}
				}
				return Hit
			}
			return Cont
		}, nil)
		r.Ob(rule, CallPos(call), len(hits) == 0, "no credential function is reachable from the rejecting outcome of "+g.callee, "HandleHandshake", "gate-rejects:"+g.callee)
		// the gate is passed on every path to the credential functions (unless its component is nil)
		for _, cc := range credCalls {
			name := CalleeOf(cc).Name
			if len(g.onlyFor) > 0 {
				m := false
				for _, o := range g.onlyFor {
					if o == name {
						m = true
					}
				}
				if !m {
					continue
				}
			}
			skipped := WalkFrom(hh.Blocks[0], nil, func(in ssa.Instruction) int {
				if in == call.(ssa.Instruction) {
					return Stop
				}
				if in == cc.(ssa.Instruction) {
					return Hit
				}
				return Cont
			}, func(b *ssa.BasicBlock, succ int) bool {
				if !ConsistentEdge(b, succ, cc.Block()) {
					return false // contradicts a condition that dominates the target (infeasible path)
				}
				if g.comp == "" {
					return true
				}
				last, ok := b.Instrs[len(b.Instrs)-1].(*ssa.If)
				if !ok {
					return true
				}
				c, pol := normCond(last.Cond, true)
				if x, tmn, ok := NilTest(c); ok {
					if _, fld, _, ok := FieldOf(x); ok && fld == g.comp {
						nilSucc := 0
						if tmn != pol {
							nilSucc = 1
						}
						return succ != nilSucc
					}
				}
				return true
			})
			r.Ob(rule, CallPos(cc), len(skipped) == 0, g.callee+" is evaluated on every path to "+name+" (component-absent paths excepted)", "HandleHandshake", "gate-before:"+g.callee+"->"+name)
		}
		// gate argument is the connection's address
		if g.comp != "" {
			o := originSummary(Arg(call, 0))
			r.Ob(rule, CallPos(call), !strings.Contains(o, "param:req") && strings.Contains(o, "extractIP"), "address given to "+g.callee+": "+o+" (want extractIP(conn.GetRemoteAddr()), never a request field)", "HandleHandshake", "gate-address:"+g.callee)
		}
	}
}

// checkExtractIPBranches: in the typed branches of extractIP the key returned is the address's IP
// (v.IP.String()), not the whole address (v.String() carries the port: failures of one client would
// be spread over as many keys as it uses source ports, and blacklist entries would never match).
func checkExtractIPBranches(r *Report, rule string, ex *ssa.Function) {
	n := 0
	for _, ret := range Returns(ex) {
		var ta *ssa.TypeAssert
		for _, ft := range Facts(ret.Block()) {
			if e, ok := ft.Cond.(*ssa.Extract); ok && e.Index == 1 && ft.Pol {
				if t, ok := e.Tuple.(*ssa.TypeAssert); ok {
					tn := types.TypeString(t.AssertedType, nil)
					if tn == "*net.TCPAddr" || tn == "*net.UDPAddr" {
						ta = t
					}
				}
			}
		}
		if ta == nil {
			continue
		}
		n++
		tn := types.TypeString(ta.AssertedType, nil)
		isIP := false
		if c, _ := CallOfValue(RetVal(ret, 0)); c != nil && CalleeOf(c).Name == "String" {
			if _, fld, base, ok := FieldOf(Recv(c)); ok && fld == "IP" {
				if e, isE := stripValue(base).(*ssa.Extract); isE && e.Tuple == ssa.Value(ta) {
					isIP = true
				}
			}
		}
		r.Ob(rule, ret.Pos(), isIP, "the "+tn+" branch keys the client by its IP (v.IP.String()), not by ip:port", "extractIP", "typed-branch-returns-ip:"+tn)
	}
	if n < 2 {
		r.Fail(rule, ex.Pos(), fmt.Sprintf("only %d typed branches found in extractIP (TCP and UDP confirmed by hand)", n), "extractIP", "typed-branch-returns-ip:floor")
	}
}

// definiteKind classifies a returned value when the code itself says what it is.
func definiteKind(v ssa.Value) string {
	if isNil(v) {
		return "nil"
	}
	if b, ok := ConstBool(v); ok {
		if b {
			return "true"
		}
		return "false"
	}
	switch x := stripValue(v).(type) {
	case *ssa.Alloc, *ssa.MakeMap, *ssa.MakeSlice, *ssa.MakeClosure:
		return "nonnil"
	case *ssa.MakeInterface:
		// an error built on the spot (`fmt.Errorf(...)`, `errors.New(...)`, the repository's constructors)
		if c, ok := stripValue(x.X).(*ssa.Call); ok && isErrorConstructor(c) {
			return "nonnil"
		}
		if _, ok := stripValue(x.X).(*ssa.Alloc); ok {
			return "nonnil"
		}
		return "unknown"
	case *ssa.Call:
		if isErrorConstructor(x) {
			return "nonnil"
		}
	}
	return "unknown"
}

// gateDecision: the If that branches on result #0 of a gate call and the successor taken when the
// gate refuses.
func gateDecision(call ssa.CallInstruction, rejectWhen bool) (*ssa.If, int) {
	res := ssa.Value(call.(*ssa.Call))
	if tup, ok := call.(*ssa.Call).Type().(*types.Tuple); ok && tup.Len() > 1 {
		res = extractOf(call, 0)
	}
	var iff *ssa.If
	if res != nil && res.Referrers() != nil {
		for _, ref := range *res.Referrers() {
			if i, ok := ref.(*ssa.If); ok {
				iff = i
			}
			if u, ok := ref.(*ssa.UnOp); ok && u.Referrers() != nil {
				for _, r2 := range *u.Referrers() {
					if i, ok := r2.(*ssa.If); ok {
						iff = i
					}
				}
			}
		}
	}
	if iff == nil {
		return nil, 0
	}
	_, pol := normCond(iff.Cond, true)
	if rejectWhen == pol {
		return iff, 0
	}
	return iff, 1
}

// checkGateViaHelper handles a gate that was moved out of HandleHandshake into a same-package
// helper (`if denied, err := h.checkAddressGates(ip); denied != nil { return denied, err }`).
// The same three obligations are decided across the two functions:
//   - in the helper, every return reachable from the gate's refusing outcome has one definite
//     class of some result (nil / non-nil / true / false) and no passing return has that class;
//   - in HandleHandshake the branch on that result leads, for that class, to no credential function;
//   - the helper is called on every path to the credential functions, the gate is evaluated on every
//     path to a passing return of the helper (component-absent paths excepted), and the address
//     given to the gate is the helper's parameter bound to extractIP(conn...).
//
// Returns false when no such helper exists (the caller then reports the missing gate).
func checkGateViaHelper(r *Report, rule string, hh *ssa.Function, callee, comp string, rejectWhen bool, onlyFor []string, credCalls []ssa.CallInstruction) bool {
	var hc *ssa.Call
	var h *ssa.Function
	var gate ssa.CallInstruction
	Instrs(hh, func(in ssa.Instruction) {
		c, ok := in.(*ssa.Call)
		if !ok {
			return
		}
		f := c.Common().StaticCallee()
		if f == nil || f.Pkg != hh.Pkg || len(f.Blocks) == 0 {
			return
		}
		if gs := Calls(f, false, callee); len(gs) == 1 && hc == nil {
			hc, h, gate = c, f, gs[0]
		}
	})
	if hc == nil {
		return false
	}
	name := h.Name()
	wanted := func(cc ssa.CallInstruction) bool {
		if len(onlyFor) == 0 {
			return true
		}
		for _, o := range onlyFor {
			if o == CalleeOf(cc).Name {
				return true
			}
		}
		return false
	}
	iff, rejSucc := gateDecision(gate, rejectWhen)
	if iff == nil {
		r.Fail(rule, CallPos(gate), "result of "+callee+" does not decide a branch in "+name, "HandleHandshake", "gate:"+callee)
		return true
	}
	nres := h.Signature.Results().Len()
	var rejRets []*ssa.Return
	WalkFrom(iff.Block().Succs[rejSucc], nil, func(in ssa.Instruction) int {
		if rt, ok := in.(*ssa.Return); ok {
			rejRets = append(rejRets, rt)
		}
		return Cont
	}, nil)
	allRets := Returns(h)
	// which result carries the refusal: prefer one that HandleHandshake actually branches on
	branchedOn := func(i int) bool {
		var res ssa.Value = hc
		if nres > 1 {
			res = extractOf(hc, i)
		}
		if res == nil {
			return false
		}
		for _, b := range hh.Blocks {
			iff, ok := b.Instrs[len(b.Instrs)-1].(*ssa.If)
			if !ok {
				continue
			}
			c, _ := normCond(iff.Cond, true)
			if x, _, ok := NilTest(c); ok && stripValue(x) == res {
				return true
			}
			if stripValue(c) == res {
				return true
			}
		}
		return false
	}
	idx, class := -1, ""
	for i := 0; i < nres && idx < 0; i++ {
		if !branchedOn(i) {
			continue
		}
		k := ""
		same := len(rejRets) > 0
		for _, rt := range rejRets {
			c := definiteKind(RetVal(rt, i))
			if c == "unknown" || (k != "" && c != k) {
				same = false
			}
			k = c
		}
		if !same {
			continue
		}
		idx, class = i, k
	}
	if idx < 0 {
		r.Fail(rule, CallPos(gate), "the refusing outcome of "+callee+" in "+name+" does not end in returns with one definite result class", "HandleHandshake", "gate-rejects:"+callee)
		return true
	}
	// the passing returns of the helper (class differs) are the ones HandleHandshake continues on
	var passRets []*ssa.Return
	for _, rt := range allRets {
		if definiteKind(RetVal(rt, idx)) != class {
			passRets = append(passRets, rt)
		}
	}
	// in HandleHandshake: the branch on result idx
	var res ssa.Value = hc
	if nres > 1 {
		res = extractOf(hc, idx)
	}
	var hif *ssa.If
	hRej := 0
	for _, b := range hh.Blocks {
		i, ok := b.Instrs[len(b.Instrs)-1].(*ssa.If)
		if !ok || res == nil {
			continue
		}
		c, pol := normCond(i.Cond, true)
		if x, tmn, ok := NilTest(c); ok && stripValue(x) == res {
			// succ 0 taken when cond true; cond true means nil iff tmn==pol
			nilSucc := 1
			if tmn == pol {
				nilSucc = 0
			}
			hif = i
			if class == "nil" {
				hRej = nilSucc
			} else {
				hRej = 1 - nilSucc
			}
		} else if stripValue(c) == res {
			hif = i
			trueSucc := 1
			if pol {
				trueSucc = 0
			}
			if class == "true" {
				hRej = trueSucc
			} else {
				hRej = 1 - trueSucc
			}
		}
	}
	if hif == nil {
		r.Fail(rule, CallPos(hc), "the result of "+name+" that carries the refusal of "+callee+" does not decide a branch", "HandleHandshake", "gate-rejects:"+callee)
		return true
	}
	hits := WalkFrom(hif.Block().Succs[hRej], nil, func(in ssa.Instruction) int {
		for _, cc := range credCalls {
			if in == cc.(ssa.Instruction) && wanted(cc) {
				return Hit
			}
		}
		return Cont
	}, nil)
	r.Ob(rule, CallPos(gate), len(hits) == 0, "no credential function is reachable from the rejecting outcome of "+callee+" (through "+name+")", "HandleHandshake", "gate-rejects:"+callee)
	// helper called on every path to the credential functions
	for _, cc := range credCalls {
		if !wanted(cc) {
			continue
		}
		skipped := WalkFrom(hh.Blocks[0], nil, func(in ssa.Instruction) int {
			if in == ssa.Instruction(hc) {
				return Stop
			}
			if in == cc.(ssa.Instruction) {
				return Hit
			}
			return Cont
		}, func(b *ssa.BasicBlock, succ int) bool { return ConsistentEdge(b, succ, cc.Block()) })
		// and inside the helper the gate is evaluated on every path to a passing return
		inner := 0
		for _, pr := range passRets {
			sk := WalkFrom(h.Blocks[0], nil, func(in ssa.Instruction) int {
				if in == gate.(ssa.Instruction) {
					return Stop
				}
				if in == ssa.Instruction(pr) {
					return Hit
				}
				return Cont
			}, func(b *ssa.BasicBlock, succ int) bool {
				last, ok := b.Instrs[len(b.Instrs)-1].(*ssa.If)
				if !ok {
					return true
				}
				c, pol := normCond(last.Cond, true)
				// a bool parameter of the helper whose argument is a condition known at the credential
				// call (`checkAdmission(ip, req.ClientID == 0)` ... `if req.ClientID == 0 { first connection }`)
				if pp, isP := stripValue(c).(*ssa.Parameter); isP {
					for i, q := range h.Params {
						if q != pp || i >= len(hc.Call.Args) {
							continue
						}
						a, apol := normCond(hc.Call.Args[i], true)
						for _, ft := range Facts(cc.Block()) {
							if ft.Cond == a || sameCond(ft.Cond, a) {
								val := ft.Pol == apol // value of the parameter on the paths that reach cc
								taken := 1
								if val == pol {
									taken = 0
								}
								return succ == taken
							}
						}
					}
				}
				if comp == "" {
					return true
				}
				if x, tmn, ok := NilTest(c); ok {
					if _, fld, _, ok := FieldOf(x); ok && fld == comp {
						nilSucc := 0
						if tmn != pol {
							nilSucc = 1
						}
						return succ != nilSucc
					}
				}
				return true
			})
			inner += len(sk)
		}
		r.Ob(rule, CallPos(cc), len(skipped) == 0 && inner == 0 && len(passRets) > 0, callee+" is evaluated on every path to "+CalleeOf(cc).Name+" (through "+name+"; component-absent paths excepted)", "HandleHandshake", "gate-before:"+callee+"->"+CalleeOf(cc).Name)
	}
	if comp != "" {
		o := originSummary(Arg(gate, 0))
		good := false
		for i, hp := range h.Params {
			if o == "param:"+canonParamName(hp) && i < len(hc.Call.Args) {
				oo := originSummary(hc.Call.Args[i])
				good = !strings.Contains(oo, "param:req") && strings.Contains(oo, "extractIP")
				o = oo
			}
		}
		r.Ob(rule, CallPos(gate), good, "address given to "+callee+" (through "+name+"): "+o+" (want extractIP(conn.GetRemoteAddr()), never a request field)", "HandleHandshake", "gate-address:"+callee)
	}
	return true
}

// isErrorConstructor: a call that always yields a non-nil error.
func isErrorConstructor(c *ssa.Call) bool {
	cal := CalleeOf(c)
	switch {
	case cal.Pkg == "fmt" && cal.Name == "Errorf":
		return true
	case cal.Pkg == "errors" && cal.Name == "New":
		return true
	case strings.HasSuffix(cal.Pkg, "core/errors") && (cal.Name == "New" || cal.Name == "Newf" || cal.Name == "Wrap" || cal.Name == "Wrapf"):
		return true
	}
	return false
}

// hmacKeyedParams: f computes an HMAC keyed with one of its parameters over another of its
// parameters, itself or through a same-package function it hands them to; returns their indices in
// f.Params (-1, -1 otherwise).
func hmacKeyedParams(f *ssa.Function, depth int) (keyIdx, msgIdx int) {
	keyIdx, msgIdx = -1, -1
	pidx := func(v ssa.Value) int {
		for _, rt := range Origins(v) {
			if p, ok := rt.V.(*ssa.Parameter); ok {
				for i, q := range f.Params {
					if q == p {
						return i
					}
				}
			}
		}
		return -1
	}
	for _, hn := range Calls(f, false, "hmac:New") {
		if i := pidx(Arg(hn, 1)); i >= 0 {
			keyIdx = i
		}
	}
	if keyIdx >= 0 {
		for _, w := range Calls(f, false, "Write") {
			if b := bufArg(w); b != nil {
				if i := pidx(b); i >= 0 && i != keyIdx {
					msgIdx = i
				}
			}
		}
		if msgIdx >= 0 {
			return
		}
	}
	if depth <= 0 {
		return -1, -1
	}
	found := false
	Instrs(f, func(in ssa.Instruction) {
		hc, ok := in.(*ssa.Call)
		if !ok || found {
			return
		}
		g := hc.Common().StaticCallee()
		if g == nil || g.Pkg != f.Pkg || len(g.Blocks) == 0 || g == f {
			return
		}
		ki, mi := hmacKeyedParams(g, depth-1)
		if ki < 0 || mi < 0 || ki >= len(hc.Call.Args) || mi >= len(hc.Call.Args) {
			return
		}
		a, b := pidx(hc.Call.Args[ki]), pidx(hc.Call.Args[mi])
		if a >= 0 && b >= 0 {
			keyIdx, msgIdx, found = a, b, true
		}
	})
	if !found {
		return -1, -1
	}
	return
}

// constInputRefusedByCallers: ret lies on the edge where a parameter of f equals a constant, and every
// static call site of f is on the edge where its argument for that parameter differs from the same
// constant (the caller has already refused that input).
func constInputRefusedByCallers(p *Prog, f *ssa.Function, ret *ssa.Return) bool {
	for _, ft := range Facts(ret.Block()) {
		bo, ok := ft.Cond.(*ssa.BinOp)
		if !ok || !((bo.Op == token.EQL && ft.Pol) || (bo.Op == token.NEQ && !ft.Pol)) {
			continue
		}
		prm, isP := stripValue(bo.X).(*ssa.Parameter)
		k, isC := bo.Y.(*ssa.Const)
		if !isP || !isC {
			continue
		}
		idx := -1
		for i, q := range f.Params {
			if q == prm {
				idx = i
			}
		}
		sites := staticCallSites(p, f)
		if idx < 0 || len(sites) == 0 {
			continue
		}
		all := true
		for _, c := range sites {
			if idx >= len(c.Call.Args) {
				all = false
				break
			}
			arg := c.Call.Args[idx]
			refused := false
			for _, cf := range Facts(c.Block()) {
				cb, ok := cf.Cond.(*ssa.BinOp)
				if !ok || !((cb.Op == token.EQL && !cf.Pol) || (cb.Op == token.NEQ && cf.Pol)) {
					continue
				}
				ck, isCK := cb.Y.(*ssa.Const)
				if !isCK || ck.Value == nil || k.Value == nil || ck.Value.ExactString() != k.Value.ExactString() {
					continue
				}
				if cb.X == arg || sameExpr(cb.X, arg) || (originSummary(cb.X) == originSummary(arg) && originSummary(arg) != "") {
					refused = true
				}
			}
			if !refused {
				all = false
				break
			}
		}
		if all {
			return true
		}
	}
	return false
}

// pendingChallengeValues: the pending challenge read from the connection in f, and every value a
// same-package helper computes from it alone (`issuedFor, challenge := split(conn.GetPendingChallenge())`:
// the stored value may carry more than the nonce; what is verified is still this connection's).
func pendingChallengeValues(f *ssa.Function) map[ssa.Value]bool {
	out := map[ssa.Value]bool{}
	for _, c := range Calls(f, false, "GetPendingChallenge") {
		if v, ok := c.(ssa.Value); ok {
			out[v] = true
		}
	}
	for round := 0; round < 2; round++ {
		Instrs(f, func(in ssa.Instruction) {
			switch x := in.(type) {
			case *ssa.Call:
				h := x.Common().StaticCallee()
				if h == nil || h.Pkg != f.Pkg || len(h.Blocks) == 0 || len(x.Call.Args) == 0 {
					return
				}
				for _, a := range x.Call.Args {
					if !out[stripValue(a)] {
						return
					}
				}
				out[x] = true
			case *ssa.Extract:
				if out[x.Tuple] {
					out[x] = true
				}
			}
		})
	}
	return out
}
