package main

import (
	"fmt"
	"go/token"
	"go/types"
	"sort"
	"strings"

	"golang.org/x/tools/go/ssa"
)

func init() {
	register(&PropCheck{
		ID: "C08",
		Explanation: "Static rules on the cross-node connection-state records (session/connstate/store.go and their call sites). " +
			"R-C08-1: the record is registered only after a successful authenticated control handshake, the previous connection's record is unregistered before the new registration, and CloseConnection unregisters. " +
			"R-C08-2: the delete of the client->connection index in UnregisterConnection is dominated by a test that the stored value still equals the connection being unregistered. " +
			"R-C08-3: every key family written with a TTL by RegisterConnection is written again by a function reachable from the heartbeat handler, and the heartbeat handler refreshes the client runtime state. " +
			"R-C08-4: every decoder of a stored record accepts the static type that was stored (the in-memory backend returns it untouched) and the serialised shapes string, []byte (and map[string]interface{} for struct records). " +
			"R-C08-5: the close/cleanup paths delete the client's runtime state only through the compare-and-delete operation (DisconnectClientIfMatch with this node and connection), never unconditionally. " +
			"Decides these necessary conditions; does not decide cross-node histories or TTL-vs-heartbeat arithmetic.",
		Run: runC08,
		Mutants: []Mutant{
			{Name: "unregister-index-unconditional", File: "internal/protocol/session/connstate/store.go", Rule: "R-C08-2",
				Old: "\t\t\tif s.clientIndexPointsTo(clientKey, connectionID) {\n\t\t\t\tif delErr := s.storage.Delete(clientKey); delErr != nil {\n\t\t\t\t\tcorelog.Warnf(\"ConnectionStateStore: failed to delete client index: %v\", delErr)\n\t\t\t\t}\n\t\t\t}",
				New: "\t\t\tif delErr := s.storage.Delete(clientKey); delErr != nil {\n\t\t\t\tcorelog.Warnf(\"ConnectionStateStore: failed to delete client index: %v\", delErr)\n\t\t\t}"},
			{Name: "heartbeat-no-refresh", File: "internal/protocol/session/command_integration.go", Rule: "R-C08-3",
				Old: "\t\t\tif err := s.connStateStore.RefreshConnection(s.Ctx(), controlConn.ConnID); err != nil {\n\t\t\t\tcorelog.Debugf(\"handleHeartbeat: failed to refresh connection state for %s: %v\", controlConn.ConnID, err)\n\t\t\t}", New: "\t\t\t_ = controlConn.ConnID"},
			{Name: "decoder-drops-pointer-case", File: "internal/protocol/session/connstate/store.go", Rule: "R-C08-4",
				Old: "\tcase *Info:\n\t\t// 内存后端原样返回 Set 时传入的指针\n\t\tif v == nil {\n\t\t\treturn nil, ErrConnectionNotFound\n\t\t}\n\t\tstate = *v\n", New: ""},
			{Name: "close-uses-unconditional-disconnect", File: "internal/protocol/session/control_connection_mgr.go", Rule: "R-C08-5",
				Old: "disconnected, err := s.cloudControl.DisconnectClientIfMatch(clientID, s.nodeID, connID)\n\t\tif err != nil {\n\t\t\tcorelog.Warnf(\"RemoveControlConnection:", New: "err := s.cloudControl.DisconnectClient(clientID)\n\t\tdisconnected := err == nil\n\t\tif err != nil {\n\t\t\tcorelog.Warnf(\"RemoveControlConnection:"},
			{Name: "register-before-old-unregister", File: "internal/protocol/session/packet_handler_handshake.go", Rule: "R-C08-1",
				Old: "\t\t// 检查是否存在旧连接，如果存在则清理\n", New: "\t\tif s.connStateStore != nil {\n\t\t\t_ = s.connStateStore.RegisterConnection(s.Ctx(), &ConnectionStateInfo{ConnectionID: connPacket.ConnectionID, ClientID: clientConn.GetClientID(), ConnType: \"control\"})\n\t\t}\n\t\t// 检查是否存在旧连接，如果存在则清理\n"},
		},
	})
}

const csPkg = "internal/protocol/session/connstate"

// storedShapes: for Set calls in fs whose key argument is produced by key
// constructor keyCtor, the static types of the stored value.
func storedShapes(fs []*ssa.Function, keyCtor string) map[string]types.Type {
	out := map[string]types.Type{}
	for _, f := range fs {
		for _, c := range Calls(f, false, "Set") {
			if !c.Common().IsInvoke() || len(c.Common().Args) < 2 {
				continue
			}
			kc, _ := CallOfValue(c.Common().Args[0])
			if kc == nil || CalleeOf(kc).Name != keyCtor {
				continue
			}
			v := c.Common().Args[1]
			if mi, ok := v.(*ssa.MakeInterface); ok {
				out[types.TypeString(mi.X.Type(), relQual)] = mi.X.Type()
			}
		}
	}
	return out
}

func relQual(p *types.Package) string { return p.Name() }

// decodedShapes: the types a function type-switches/asserts on for values
// obtained from storage Get with a key built by keyCtor ("" = any Get).
func decodedShapes(f *ssa.Function, keyCtor string) (map[string]bool, token.Pos) {
	out := map[string]bool{}
	var pos token.Pos
	Instrs(f, func(in ssa.Instruction) {
		ta, ok := in.(*ssa.TypeAssert)
		if !ok {
			return
		}
		c, idx := CallOfValue(ta.X)
		if c == nil || CalleeOf(c).Name != "Get" || idx != 0 {
			return
		}
		if keyCtor != "" {
			kc, _ := CallOfValue(c.Common().Args[0])
			if kc == nil || CalleeOf(kc).Name != keyCtor {
				return
			}
		}
		out[types.TypeString(ta.AssertedType, relQual)] = true
		if pos == token.NoPos {
			pos = ta.Pos()
		}
	})
	return out, pos
}

// checkShapes compares stored and decoded shapes for one key family.
func checkShapes(r *Report, rule string, decoder *ssa.Function, keyCtor string, stored map[string]types.Type, family string) {
	got, pos := decodedShapes(decoder, keyCtor)
	if len(got) == 0 {
		// the type switch may live in a helper the stored value is handed to (decodeX(value)-style)
		Instrs(decoder, func(in ssa.Instruction) {
			hc, ok := in.(*ssa.Call)
			if !ok || len(got) > 0 {
				return
			}
			h := hc.Common().StaticCallee()
			if h == nil || h.Pkg != decoder.Pkg || len(h.Blocks) == 0 || h == decoder {
				return
			}
			for i, a := range hc.Common().Args {
				c, idx := CallOfValue(a)
				if c == nil || CalleeOf(c).Name != "Get" || idx != 0 || i >= len(h.Params) {
					continue
				}
				if keyCtor != "" {
					kc, _ := CallOfValue(c.Common().Args[0])
					if kc == nil || CalleeOf(kc).Name != keyCtor {
						continue
					}
				}
				Instrs(h, func(x ssa.Instruction) {
					if ta, ok := x.(*ssa.TypeAssert); ok && stripValue(ta.X) == ssa.Value(h.Params[i]) {
						got[types.TypeString(ta.AssertedType, relQual)] = true
						if pos == token.NoPos {
							pos = ta.Pos()
						}
					}
				})
			}
		})
	}
	if len(got) == 0 {
		r.Fail(rule, decoder.Pos(), "no type switch on the stored value found", decoder.Name(), "shapes:"+family)
		return
	}
	want := map[string]string{"string": "serialised value from the Redis backend", "[]byte": "raw bytes from a JSON/remote tier"}
	for name, t := range stored {
		want[name] = "the static type passed to Set (the in-memory backend returns it untouched)"
		if p, ok := t.Underlying().(*types.Pointer); ok {
			if _, isStruct := p.Elem().Underlying().(*types.Struct); isStruct {
				want["map[string]interface{}"] = "a JSON object decoded by a tier that round-trips through encoding/json"
			}
		}
	}
	var names []string
	for n := range want {
		names = append(names, n)
	}
	sort.Strings(names)
	for _, n := range names {
		alt := strings.ReplaceAll(n, "interface{}", "any")
		r.Ob(rule, pos, got[n] || got[alt], fmt.Sprintf("decoder of the %s record must accept %s (%s)", family, n, want[n]), decoder.Name(), "shape:"+family+":"+n)
	}
}

func runC08(r *Report) {
	csFuncs := r.P.FuncsIn(csPkg)
	// ---- R-C08-4 value shapes ---------------------------------------------------
	if g := r.need("R-C08-4", csPkg, "Store.GetConnectionState"); g != nil {
		checkShapes(r, "R-C08-4", g, "makeConnectionKey", storedShapes(csFuncs, "makeConnectionKey"), "conn_state")
	}
	if g := r.need("R-C08-4", csPkg, "Store.FindClientNode"); g != nil {
		checkShapes(r, "R-C08-4", g, "makeClientKey", storedShapes(csFuncs, "makeClientKey"), "client_conn")
	}
	r.Floor("R-C08-4", 6, "record shapes")

	// ---- R-C08-2 guarded delete of the client index -----------------------------
	if u := r.need("R-C08-2", csPkg, "Store.UnregisterConnection"); u != nil {
		n := 0
		for _, d := range Calls(u, false, "Delete") {
			kc, _ := CallOfValue(d.Common().Args[0])
			if kc == nil || CalleeOf(kc).Name != "makeClientKey" {
				continue
			}
			n++
			ok := false
			why := "no dominating comparison of the stored index value with the connection being unregistered"
			connParam := u.Params[2]
			for _, ft := range Facts(d.Block()) {
				if !ft.Pol {
					continue
				}
				// direct comparison
				if bo, isB := ft.Cond.(*ssa.BinOp); isB && bo.Op == token.EQL && (bo.X == ssa.Value(connParam) || bo.Y == ssa.Value(connParam)) {
					ok = true
				}
				// boolean summary: helper(key, connectionID) that returns true only under equality with its parameter
				if c, isC := stripValue(ft.Cond).(*ssa.Call); isC {
					callee := CalleeOf(c).Fn
					if callee == nil {
						continue
					}
					argIdx := -1
					for i, a := range c.Call.Args {
						if a == ssa.Value(connParam) {
							argIdx = i
						}
					}
					if argIdx < 0 {
						continue
					}
					if summaryTrueImpliesEq(callee, callee.Params[argIdx]) {
						ok = true
					} else {
						why = "helper " + callee.Name() + " can return true without comparing the stored value with the connection id"
					}
				}
			}
			r.Ob("R-C08-2", CallPos(d), ok, "delete of the client index must be guarded by 'index still names this connection' ("+map[bool]string{true: "guard found", false: why}[ok]+"): a late cleanup of an old connection must not erase the index of the client's new connection on another node", "UnregisterConnection", "guarded-client-index-delete")
		}
		if n == 0 {
			r.Fail("R-C08-2", u.Pos(), "client index delete not found in UnregisterConnection", "UnregisterConnection", "anchor")
		}
	}

	// every other delete of the client index in the package is guarded the same way
	for _, f := range csFuncs {
		if f.Name() == "UnregisterConnection" {
			continue
		}
		for _, d := range Calls(f, false, "Delete") {
			kc, _ := CallOfValue(d.Common().Args[0])
			var siteBlocks []*ssa.BasicBlock
			if kc == nil {
				// the key is a parameter of this helper: it is the client index when a caller passes one
				if kp, isP := stripValue(d.Common().Args[0]).(*ssa.Parameter); isP && kp.Parent() == f {
					for i, q := range f.Params {
						if q != kp {
							continue
						}
						for _, site := range staticCallSites(r.P, f) {
							if i < len(site.Call.Args) {
								if sk, _ := CallOfValue(site.Call.Args[i]); sk != nil && CalleeOf(sk).Name == "makeClientKey" {
									kc = sk
									siteBlocks = append(siteBlocks, site.Block())
								}
							}
						}
					}
				}
			}
			if kc == nil || CalleeOf(kc).Name != "makeClientKey" {
				continue
			}
			ok := false
			facts := Facts(d.Block())
			for _, sb := range siteBlocks {
				facts = append(facts, Facts(sb)...)
			}
			for _, ft := range facts {
				if c, isC := stripValue(ft.Cond).(*ssa.Call); isC && ft.Pol && CalleeOf(c).Fn != nil {
					for i := range c.Call.Args {
						if i < len(CalleeOf(c).Fn.Params) && summaryTrueImpliesEq(CalleeOf(c).Fn, CalleeOf(c).Fn.Params[i]) {
							ok = true
						}
					}
				}
				if bo, isB := ft.Cond.(*ssa.BinOp); isB && bo.Op == token.EQL && ft.Pol {
					ok = true
				}
			}
			r.Ob("R-C08-2", CallPos(d), ok, "delete of the client index in "+f.Name()+" must be guarded by a comparison of the stored value with the connection it is removed for (a re-handshake on another node may have replaced it)", f.Name(), "guarded-client-index-delete")
		}
	}

	// the records live in the shared tier for set, get, delete and exists alike
	checkSharedFamilyTiers(r, "R-C08-4")
	for _, pre := range []string{"tunnox:conn_state:", "tunnox:client_conn:"} {
		cat := hybridCategory(r, pre+"x")
		r.Ob("R-C08-4", 0, cat == "shared", fmt.Sprintf("key family %q classifies as %s in the tiered configuration (want shared)", pre, cat), hybPkg, "family-shared:"+pre)
	}

	// ---- R-C08-3 keep-alive covers every TTL'd family -------------------------------
	hb := r.need("R-C08-3", sessPkg, "SessionManager.handleHeartbeat")
	reg := r.need("R-C08-3", csPkg, "Store.RegisterConnection")
	if hb != nil && reg != nil {
		fam := map[string]bool{}
		for _, c := range Calls(reg, false, "Set") {
			if kc, _ := CallOfValue(c.Common().Args[0]); kc != nil {
				fam[CalleeOf(kc).Name] = true
			}
		}
		// functions reachable from the heartbeat handler (static calls, depth 3, any repo package)
		reach := map[*ssa.Function]bool{}
		var rec func(f *ssa.Function, d int)
		rec = func(f *ssa.Function, d int) {
			if f == nil || reach[f] || len(f.Blocks) == 0 || d < 0 {
				return
			}
			reach[f] = true
			for _, g := range WithAnon(f) {
				Instrs(g, func(in ssa.Instruction) {
					if ci, ok := in.(ssa.CallInstruction); ok {
						if c := CalleeOf(ci); c.Fn != nil && strings.HasPrefix(c.Pkg, "internal/protocol/session") {
							rec(c.Fn, d-1)
						}
					}
				})
			}
		}
		rec(hb, 3)
		refreshed := map[string]bool{}
		for f := range reach {
			if f == reg {
				continue
			}
			for _, c := range Calls(f, false, "Set") {
				if !c.Common().IsInvoke() {
					continue
				}
				if kc, _ := CallOfValue(c.Common().Args[0]); kc != nil {
					refreshed[CalleeOf(kc).Name] = true
				}
			}
		}
		var names []string
		for k := range fam {
			names = append(names, k)
		}
		sort.Strings(names)
		for _, k := range names {
			r.Ob("R-C08-3", hb.Pos(), refreshed[k], "the record family built by "+k+" is written with a TTL at handshake time and must be re-written by a function reachable from the heartbeat handler (otherwise a live client expires from the shared store)", "handleHeartbeat", "keepalive:"+k)
		}
		if len(names) < 2 {
			r.Fail("R-C08-3", reg.Pos(), "RegisterConnection writes fewer than the two confirmed record families", "RegisterConnection", "floor")
		}
		// a missing client index is re-created by the keep-alive: the index write in RefreshConnection is
		// reachable on the edge where reading the index answered "not found" (a live, heartbeating client
		// whose index expired or whose first index write failed becomes locatable again)
		if rf := r.need("R-C08-3", csPkg, "Store.RefreshConnection"); rf != nil {
			var idxSet ssa.CallInstruction
			for _, c := range Calls(rf, false, "Set") {
				if kc, _ := CallOfValue(c.Common().Args[0]); kc != nil && CalleeOf(kc).Name == "makeClientKey" {
					idxSet = c
				}
			}
			ok := false
			if idxSet != nil {
				Instrs(rf, func(in ssa.Instruction) {
					bo, isB := in.(*ssa.BinOp)
					if !isB || bo.Op != token.EQL || bo.Referrers() == nil {
						return
					}
					isNF := func(v ssa.Value) bool {
						u, ok := stripValue(v).(*ssa.UnOp)
						if !ok {
							return false
						}
						g, ok := u.X.(*ssa.Global)
						return ok && g.Name() == "ErrKeyNotFound"
					}
					var errv ssa.Value
					if isNF(bo.Y) {
						errv = bo.X
					} else if isNF(bo.X) {
						errv = bo.Y
					} else {
						return
					}
					gc, _ := CallOfValue(errv)
					if gc == nil || CalleeOf(gc).Name != "Get" {
						return
					}
					if kc, _ := CallOfValue(gc.Common().Args[0]); kc == nil || CalleeOf(kc).Name != "makeClientKey" {
						return
					}
					for _, u := range *bo.Referrers() {
						iff, isIf := u.(*ssa.If)
						if !isIf {
							continue
						}
						hits := WalkFrom(iff.Block().Succs[0], nil, func(x ssa.Instruction) int {
							if x == idxSet.(ssa.Instruction) {
								return Hit
							}
							if ci, isC := x.(ssa.CallInstruction); isC && CalleeOf(ci).Name == "clientIndexPointsTo" {
								return Stop
							}
							return Cont
						}, nil)
						if len(hits) > 0 {
							ok = true
						}
					}
				})
			}
			pos := rf.Pos()
			if idxSet != nil {
				pos = CallPos(idxSet)
			}
			r.Ob("R-C08-3", pos, ok, "the keep-alive writes the client index also when it is missing (edge `Get(clientKey) == ErrKeyNotFound` reaches the index write), not only when it still names this connection", "RefreshConnection", "keepalive-recreates-missing-index")
		}
		// runtime-state refresh
		okRT := false
		for _, g := range samePkgReach(hb, 2) { // the refresh may sit in a helper of the handler
			if len(Calls(g, false, "EnsureClientOnline", "TouchClient")) > 0 {
				okRT = true
			}
		}
		r.Ob("R-C08-3", hb.Pos(), okRT, "the heartbeat handler refreshes the client's runtime (online) state", "handleHeartbeat", "keepalive:runtime-state")
		// the two refreshes are independent: a failure of the runtime-state refresh must not skip the
		// refresh of the cross-node record (the record then expires under a live, heart-beating client)
		for _, g := range samePkgReach(hb, 2) {
			ens := Calls(g, false, "EnsureClientOnline", "TouchClient")
			refs := Calls(g, false, "RefreshConnection")
			if len(ens) == 0 || len(refs) == 0 {
				continue
			}
			isRef := func(x ssa.Instruction) bool {
				ci, ok := x.(ssa.CallInstruction)
				return ok && CalleeOf(ci).Name == "RefreshConnection"
			}
			pruneStore := pruneNilComponent("connStateStore")
			for _, e := range ens {
				if !CanReach(e.Block(), refs[0].Block()) {
					continue // the record is refreshed first
				}
				var starts []*ssa.BasicBlock
				for _, b := range g.Blocks {
					if ErrFailed(b, e) {
						dominated := false
						for _, o := range starts {
							if o.Dominates(b) {
								dominated = true
							}
						}
						if !dominated {
							starts = append(starts, b)
						}
					}
				}
				skipped := false
				for _, st := range starts {
					hits := WalkFrom(st, nil, func(x ssa.Instruction) int {
						if isRef(x) {
							return Stop
						}
						if _, ok := x.(*ssa.Return); ok {
							return Hit
						}
						return Cont
					}, func(b *ssa.BasicBlock, succ int) bool {
						if !pruneStore(b, succ) {
							return false
						}
						// an edge that contradicts what is known where the first refresh was made
						// (`ClientID > 0` tested again) cannot be taken
						if iff, ok := b.Instrs[len(b.Instrs)-1].(*ssa.If); ok {
							c, pol := normCond(iff.Cond, succ == 0)
							for _, fe := range Facts(e.Block()) {
								if sameCond(fe.Cond, c) && fe.Pol != pol {
									return false
								}
							}
						}
						// the unauthenticated side of an IsAuthenticated() test needs no refresh
						if iff, ok := b.Instrs[len(b.Instrs)-1].(*ssa.If); ok {
							c, pol := normCond(iff.Cond, succ == 0)
							if cc, isC := c.(*ssa.Call); isC && CalleeOf(cc).Name == "IsAuthenticated" && !pol {
								return false
							}
						}
						return true
					})
					if len(hits) > 0 {
						skipped = true
					}
				}
				r.Ob("R-C08-3", CallPos(e), !skipped, "a failed runtime-state refresh ("+CalleeOf(e).Name+") still reaches the refresh of the cross-node record", r.P.FuncName(g), "keepalive:refresh-independent")
			}
		}
	}

	// ---- R-C08-1 placement ---------------------------------------------------------
	if sh := r.need("R-C08-1", sessPkg, "SessionManager.handleHandshake"); sh != nil {
		regs := Calls(sh, false, "RegisterConnection")
		// the registration may sit in a helper called from the handshake handler (publishClientLocation-
		// style): the helper's call site is then the registration site for the ordering rules, and the
		// registered fields are traced through the helper's parameters to the arguments given here
		regSite := map[ssa.CallInstruction]ssa.CallInstruction{}
		for _, c := range regs {
			regSite[c] = c
		}
		if len(regs) == 0 {
			Instrs(sh, func(in ssa.Instruction) {
				hc, ok := in.(*ssa.Call)
				if !ok {
					return
				}
				h := hc.Common().StaticCallee()
				if h == nil || h.Pkg != sh.Pkg || len(h.Blocks) == 0 || h == sh {
					return
				}
				for _, c := range Calls(h, false, "RegisterConnection") {
					regs = append(regs, c)
					regSite[c] = hc
				}
			})
		}
		unregs := Calls(sh, false, "UnregisterConnection")
		hcs := Calls(sh, false, "HandleHandshake")
		if len(regs) == 0 || len(unregs) == 0 || len(hcs) != 1 {
			r.Fail("R-C08-1", sh.Pos(), fmt.Sprintf("anchors missing: Register=%d Unregister=%d HandleHandshake=%d", len(regs), len(unregs), len(hcs)), "handleHandshake", "anchor")
		} else {
			for _, rg0 := range regs {
				rg := regSite[rg0]
				auth := false
				for _, ft := range Facts(rg.Block()) {
					if c, ok := stripValue(ft.Cond).(*ssa.Call); ok && CalleeOf(c).Name == "IsAuthenticated" && ft.Pol {
						auth = true
					}
				}
				r.Ob("R-C08-1", CallPos(rg), auth && ErrOK(rg.Block(), hcs[0]), "the cross-node record is registered only after a successful handshake on an authenticated control connection", "handleHandshake", "register-after-auth")
				for _, un := range unregs {
					bad := CanReach(rg.Block(), un.Block()) || (rg.Block() == un.Block() && Before(rg.(ssa.Instruction), un.(ssa.Instruction)))
					r.Ob("R-C08-1", CallPos(un), !bad, "the previous connection's record is unregistered before the new one is registered (otherwise the old cleanup runs after and against the new index)", "handleHandshake", "old-unregistered-first")
				}
				// what is registered: this packet's connection, under the identity the connection was
				// authenticated as (never an id copied from the request: on a first-connection
				// handshake the request carries 0 and the server allocates the id), on this node
				subst := func(o string) string {
					if rg0 == rg {
						return o
					}
					h := rg0.Parent()
					for i, hp := range h.Params {
						if i < len(rg.Common().Args) {
							o = strings.ReplaceAll(o, "param:"+canonParamName(hp), originSummary(rg.Common().Args[i]))
						}
					}
					return o
				}
				if info, ok := stripValue(Arg(rg0, 1)).(*ssa.Alloc); ok {
					want := map[string]func(o string) bool{
						"ClientID": func(o string) bool {
							return strings.Contains(o, "GetClientID") && !strings.Contains(o, "HandshakeRequest")
						},
						"ConnectionID": func(o string) bool { return strings.Contains(o, "StreamPacket.ConnectionID") },
						"NodeID":       func(o string) bool { return strings.Contains(o, "SessionManager.nodeID") },
					}
					seenF := map[string]bool{}
					for _, st := range fieldStores(info) {
						chk, isW := want[st.field]
						if !isW {
							continue
						}
						seenF[st.field] = true
						o := subst(originSummary(st.val))
						r.Ob("R-C08-1", st.pos, chk(o), "registered "+st.field+" originates from "+o, "handleHandshake", "registered-field:"+st.field)
					}
					for _, fld := range []string{"ClientID", "ConnectionID", "NodeID"} {
						if !seenF[fld] {
							r.Fail("R-C08-1", CallPos(rg), "registered record does not set "+fld, "handleHandshake", "registered-field:"+fld)
						}
					}
				} else {
					r.Fail("R-C08-1", CallPos(rg), "registered record is not a literal built here: "+originSummary(Arg(rg0, 1)), "handleHandshake", "registered-field:anchor")
				}
			}
		}
	}
	if cc := r.need("R-C08-1", sessPkg, "SessionManager.CloseConnection"); cc != nil {
		for _, ret := range Returns(cc) {
			hits := WalkFrom(cc.Blocks[0], nil, func(in ssa.Instruction) int {
				if IsCallTo("UnregisterConnection")(in) || (in.Parent() == cc && performsVia(in, IsCallTo("UnregisterConnection"), ret.Block())) {
					return Stop
				}
				if in == ssa.Instruction(ret) {
					return Hit
				}
				return Cont
			}, pruneNilComponent("connStateStore"))
			r.Ob("R-C08-1", ret.Pos(), len(hits) == 0, "closing a connection unregisters its cross-node record on every path", "CloseConnection", "unregister-on-close")
		}
	}

	// the compare-and-delete itself: DeleteState / RemoveFromNodeClients run only when the stored state
	// names BOTH this node and this connection (a state written by a newer connection, on this or another
	// node, must survive the late cleanup of the old one)
	if dm := r.need("R-C08-5", "internal/cloud/services/client", "Service.DisconnectClientIfMatch"); dm != nil {
		for _, d := range Calls(dm, false, "DeleteState", "RemoveFromNodeClients") {
			node, conn := false, false
			for _, ft := range Facts(d.Block()) {
				bo, ok := ft.Cond.(*ssa.BinOp)
				if !ok || !((bo.Op == token.EQL && ft.Pol) || (bo.Op == token.NEQ && !ft.Pol)) {
					continue
				}
				o := originSummary(bo.X) + "|" + originSummary(bo.Y)
				if strings.Contains(o, "NodeID") && strings.Contains(o, "param:nodeID") {
					node = true
				}
				if strings.Contains(o, "ConnID") && strings.Contains(o, "param:connID") {
					conn = true
				}
			}
			r.Ob("R-C08-5", CallPos(d), node && conn, fmt.Sprintf("%s runs only when the stored state's node (%v) and connection (%v) both equal the caller's", CalleeOf(d).Name, node, conn), "DisconnectClientIfMatch", "match-both:"+CalleeOf(d).Name)
		}
	}
	// the client index is written, refreshed and removed under the same condition: only for control
	// connections (ConnType == "control") of an identified client (ClientID > 0). A writer, refresher or
	// remover guarded differently leaves an index the others never maintain.
	nIdx := 0
	for _, f := range r.P.FuncsIn(csPkg) {
		Instrs(f, func(in ssa.Instruction) {
			ci, ok := in.(ssa.CallInstruction)
			if !ok || !ci.Common().IsInvoke() {
				return
			}
			n := CalleeOf(ci).Name
			if n != "Set" && n != "Delete" {
				return
			}
			kc, _ := CallOfValue(ci.Common().Args[0])
			if kc == nil || CalleeOf(kc).Name != "makeClientKey" {
				return
			}
			nIdx++
			ctl, pos := false, false
			for _, ft := range Facts(in.Block()) {
				bo, isB := ft.Cond.(*ssa.BinOp)
				if !isB {
					continue
				}
				if k, isK := stripValue(bo.Y).(*ssa.Const); isK && k.Value != nil && strings.Contains(k.Value.String(), "control") {
					if (bo.Op == token.EQL && ft.Pol) || (bo.Op == token.NEQ && !ft.Pol) {
						ctl = true
					}
				}
				if z, isZ := ConstInt(bo.Y); isZ && z == 0 && strings.Contains(originSummary(bo.X), "ClientID") {
					if (bo.Op == token.GTR && ft.Pol) || (bo.Op == token.LEQ && !ft.Pol) {
						pos = true
					}
				}
			}
			r.Ob("R-C08-3", in.Pos(), ctl && pos, fmt.Sprintf("%s of the client index happens only for a control connection (%v) of an identified client (%v), the condition under which it is registered", n, ctl, pos), r.P.FuncName(f), "index-guard:"+n)
		})
	}
	if nIdx < 1 { // alarm below 40% of the 3 sites confirmed by hand
		r.Fail("R-C08-3", 0, fmt.Sprintf("only %d writes/deletes of the client index found in the connection state store (4 confirmed by hand)", nIdx), csPkg, "index-guard:floor")
	}
	// the "index still names this connection" helper is asked about the client index key
	for _, f := range r.P.FuncsIn(csPkg) {
		for _, c := range Calls(f, false, "Store.clientIndexPointsTo") {
			kc, _ := CallOfValue(Arg(c, 0))
			r.Ob("R-C08-2", CallPos(c), kc != nil && CalleeOf(kc).Name == "makeClientKey", "clientIndexPointsTo is asked about the client index key ("+originSummary(Arg(c, 0))+")", r.P.FuncName(f), "points-to-key")
		}
	}

	// ---- R-C08-5 compare-and-delete of the runtime state on close paths ---------------
	var closers []*ssa.Function
	if f := r.P.Fn(sessPkg, "SessionManager.CloseConnection"); f != nil {
		closers = append(closers, samePkgReach(f, 3)...)
	}
	if f := r.P.Fn(sessPkg, "SessionManager.cleanupStaleConnections"); f != nil {
		closers = append(closers, samePkgReach(f, 3)...)
	}
	nIf := 0
	seen := map[*ssa.Function]bool{}
	for _, f := range closers {
		for _, g := range WithAnon(f) {
			if seen[g] {
				continue
			}
			seen[g] = true
			for _, c := range Calls(g, false, "DisconnectClient") {
				r.Fail("R-C08-5", CallPos(c), "unconditional DisconnectClient on a close/cleanup path: a late cleanup on the old node would mark a client offline that has already reconnected elsewhere", r.P.FuncName(g), "unconditional-disconnect")
			}
			for _, c := range Calls(g, false, "DisconnectClientIfMatch") {
				nIf++
				o1 := originSummary(Arg(c, 1))
				r.Ob("R-C08-5", CallPos(c), strings.Contains(o1, "SessionManager.nodeID"), "compare-and-delete is keyed by this node ("+o1+") and this connection", r.P.FuncName(g), "disconnect-if-match")
			}
		}
	}
	if nIf < 1 { // alarm below 40% of the 2 sites confirmed by hand
		r.Fail("R-C08-5", 0, fmt.Sprintf("only %d DisconnectClientIfMatch sites found on the close/cleanup paths (2 confirmed by hand)", nIf), "close-paths", "floor")
	}
}

// summaryTrueImpliesEq: every return of f is either constant false or an
// equality comparison that involves parameter p (directly or converted).
func summaryTrueImpliesEq(f *ssa.Function, p *ssa.Parameter) bool {
	if len(f.Blocks) == 0 {
		return false
	}
	ok := true
	n := 0
	var check func(v ssa.Value, depth int) bool
	check = func(v ssa.Value, depth int) bool {
		if depth > 4 {
			return false
		}
		if b, isC := ConstBool(v); isC {
			return !b
		}
		switch x := v.(type) {
		case *ssa.BinOp:
			if x.Op != token.EQL {
				return false
			}
			for _, side := range []ssa.Value{x.X, x.Y} {
				for _, rt := range Origins(side) {
					if rt.V == ssa.Value(p) {
						return true
					}
				}
			}
			return false
		case *ssa.Phi:
			for _, e := range x.Edges {
				if !check(e, depth+1) {
					return false
				}
			}
			return true
		}
		return false
	}
	for _, ret := range Returns(f) {
		n++
		if !check(RetVal(ret, 0), 0) {
			ok = false
		}
	}
	return ok && n > 0
}

type fieldStore struct {
	field string
	val   ssa.Value
	pos   token.Pos
}

// fieldStores lists the stores into fields of the struct allocated by a (composite literal).
func fieldStores(a *ssa.Alloc) []fieldStore {
	var out []fieldStore
	if a.Referrers() == nil {
		return out
	}
	for _, ref := range *a.Referrers() {
		fa, ok := ref.(*ssa.FieldAddr)
		if !ok || fa.Referrers() == nil {
			continue
		}
		for _, u := range *fa.Referrers() {
			if st, ok := u.(*ssa.Store); ok && st.Addr == ssa.Value(fa) {
				out = append(out, fieldStore{fieldName(fa.X.Type(), fa.Field), st.Val, st.Pos()})
			}
		}
	}
	return out
}
