package main

import (
	"fmt"
	"go/token"
	"go/types"
	"strings"

	"golang.org/x/tools/go/ssa"
)

func init() {
	register(&PropCheck{
		ID: "C18",
		Explanation: "Static rules on the lock-out machinery (internal/security, auth_handler.go). " +
			"R-C18-1: every failing-credential edge of the handshake (unknown client, no pending challenge, response mismatch, credential generation failure) passes RecordFailure(ip) before returning and every success return passes RecordSuccess(ip) (protector-absent paths excepted); ip is the connection's address. " +
			"R-C18-2: gate order (shared with C03 R-C03-3): no credential function is reachable from the rejecting edge of the blacklist/ban/rate gates. " +
			"R-C18-3: in RecordFailure the ban calls are dominated by the threshold comparisons (total >= PermanentBanAt with duration 0; recent >= MaxFailures with BanDuration), the counts are read under the failures lock after pruning; every comparison of a ban/blacklist expiry with the clock is conjoined with the not-zero test (permanent entries never expire). " +
			"R-C18-4: a removal of a ban/blacklist entry that is triggered by an expiry observation re-tests expiry inside the critical section that deletes (directly, or in the function it is handed to). " +
			"R-C18-6: every write of a bucket's token count is a consumption, the capacity or a value clamped to the capacity; the rate limiter installs the token bucket of a key only after a lookup under the write lock found none (one bucket per address). " +
			"R-C18-5: every access to failures, bannedIPs, blacklist, whitelist and the token-bucket state holds the corresponding mutex. " +
			"Decides these necessary conditions; does not decide window/refill arithmetic over timings.",
		Run: runC18,
		Mutants: []Mutant{
			{Name: "take-without-refill", File: "internal/security/rate_limiter.go", Rule: "R-C18-6",
				Old: "\t// 填充令牌\n\tb.refill()\n\n\t// 检查是否有足够的令牌\n", New: "\t// 检查是否有足够的令牌\n"},
			{Name: "mismatch-not-recorded", File: "internal/app/server/auth_handler.go", Rule: "R-C18-1",
				Old: "\t\tcorelog.Warnf(\"ServerAuthHandler: challenge-response verification failed for client %d\", req.ClientID)\n\t\tif h.bruteForceProtector != nil {\n\t\t\th.bruteForceProtector.RecordFailure(ip)\n\t\t}\n", New: "\t\tcorelog.Warnf(\"ServerAuthHandler: challenge-response verification failed for client %d\", req.ClientID)\n"},
			{Name: "unknown-client-not-recorded", File: "internal/app/server/auth_handler.go", Rule: "R-C18-1",
				Old: "\t\tcorelog.Warnf(\"ServerAuthHandler: client %d not found\", req.ClientID)\n\t\tif h.bruteForceProtector != nil {\n\t\t\th.bruteForceProtector.RecordFailure(ip)\n\t\t}\n", New: "\t\tcorelog.Warnf(\"ServerAuthHandler: client %d not found\", req.ClientID)\n"},
			{Name: "permanent-threshold-off", File: "internal/security/brute_force_protector.go", Rule: "R-C18-3",
				Old: "if totalCount >= p.config.PermanentBanAt {", New: "if totalCount >= p.config.PermanentBanAt && recentFailures >= p.config.MaxFailures {"},
			{Name: "isbanned-zero-guard-dropped", File: "internal/security/brute_force_protector.go", Rule: "R-C18-3",
				Old: "\t// 检查是否过期\n\tif !record.ExpiresAt.IsZero() && time.Now().After(record.ExpiresAt) {\n\t\t// 已过期，异步解封", New: "\t// 检查是否过期\n\tif time.Now().After(record.ExpiresAt) {\n\t\t// 已过期，异步解封"},
			{Name: "async-unban-unconditional", File: "internal/security/brute_force_protector.go", Rule: "R-C18-4",
				Old: "go p.unbanIfExpired(ip)", New: "go p.UnbanIP(ip)"},
			{Name: "blacklist-async-remove-unconditional", File: "internal/security/ip_manager.go", Rule: "R-C18-4",
				Old: "go m.removeExpiredFromBlacklist(ip)", New: "go m.RemoveFromBlacklist(ip)"},
			{Name: "counts-read-after-unlock", File: "internal/security/brute_force_protector.go", Rule: "R-C18-5",
				Old: "\trecentFailures := len(record.Failures)\n\ttotalCount := record.TotalCount\n\n\t// 释放锁，避免在 banIP 中死锁\n\tp.mu.Unlock()\n", New: "\t// 释放锁，避免在 banIP 中死锁\n\tp.mu.Unlock()\n\n\trecentFailures := len(record.Failures)\n\ttotalCount := record.TotalCount\n"},
		},
	})
}

const secPkg = "internal/security"

// pruneNilComponent returns an edge filter that drops the edge on which
// struct field comp was observed nil.
func pruneNilComponent(comp string) func(b *ssa.BasicBlock, succ int) bool {
	return func(b *ssa.BasicBlock, succ int) bool {
		last, ok := b.Instrs[len(b.Instrs)-1].(*ssa.If)
		if !ok {
			return true
		}
		c, pol := normCond(last.Cond, true)
		if x, tmn, ok := NilTest(c); ok {
			if _, fld, _, ok := FieldOf(x); ok && fld == comp {
				nilSucc := 0
				if tmn != pol {
					nilSucc = 1
				}
				return succ != nilSucc
			}
		}
		return true
	}
}

func runC18(r *Report) {
	// ---- R-C18-1 failures / successes recorded --------------------------------
	isRec := func(name string) func(ssa.Instruction) bool {
		return func(in ssa.Instruction) bool {
			ci, ok := in.(ssa.CallInstruction)
			return ok && CalleeOf(ci).Is("BruteForceProtector."+name)
		}
	}
	type failEdge struct {
		fn, what string
		start    func(f *ssa.Function) []*ssa.BasicBlock
	}
	errEdge := func(callee string) func(f *ssa.Function) []*ssa.BasicBlock {
		return func(f *ssa.Function) []*ssa.BasicBlock {
			var out []*ssa.BasicBlock
			for _, c := range Calls(f, false, callee) {
				for _, b := range f.Blocks {
					// blocks entered by the edge "error of c is non-nil": their If predecessor tests it
					for _, p := range b.Preds {
						if len(p.Instrs) == 0 {
							continue
						}
						iff, ok := p.Instrs[len(p.Instrs)-1].(*ssa.If)
						if !ok {
							continue
						}
						cond, pol := normCond(iff.Cond, true)
						x, tmn, ok := NilTest(cond)
						if !ok || !valueFromCall(x, c) {
							continue
						}
						if _, isErr := x.Type().Underlying().(interface{ NumMethods() int }); !isErr {
							continue
						}
						if x.Type().String() != "error" {
							continue
						}
						nonNil := 0
						if tmn == pol {
							nonNil = 1
						}
						if p.Succs[nonNil] == b {
							out = append(out, b)
						}
					}
				}
			}
			return out
		}
	}
	boolEdge := func(callee string, when bool) func(f *ssa.Function) []*ssa.BasicBlock {
		return func(f *ssa.Function) []*ssa.BasicBlock {
			var out []*ssa.BasicBlock
			for _, c := range Calls(f, false, callee) {
				v := c.(ssa.Value)
				for _, b := range f.Blocks {
					if len(b.Instrs) == 0 {
						continue
					}
					iff, ok := b.Instrs[len(b.Instrs)-1].(*ssa.If)
					if !ok {
						continue
					}
					cond, pol := normCond(iff.Cond, true)
					if cond != v {
						continue
					}
					idx := 1
					if pol == when {
						idx = 0
					}
					out = append(out, b.Succs[idx])
				}
			}
			return out
		}
	}
	emptyChallenge := func(f *ssa.Function) []*ssa.BasicBlock {
		var out []*ssa.BasicBlock
		for v := range pendingChallengeValues(f) {
			for _, b := range f.Blocks {
				if len(b.Instrs) == 0 {
					continue
				}
				iff, ok := b.Instrs[len(b.Instrs)-1].(*ssa.If)
				if !ok {
					continue
				}
				bo, ok := iff.Cond.(*ssa.BinOp)
				if !ok || bo.X != v {
					continue
				}
				if s, ok := stripValue(bo.Y).(*ssa.Const); !ok || constString(s) != "" {
					continue
				}
				if bo.Op == token.EQL {
					out = append(out, b.Succs[0])
				} else if bo.Op == token.NEQ {
					out = append(out, b.Succs[1])
				}
			}
		}
		return out
	}
	edges := []failEdge{
		{"ServerAuthHandler.HandleHandshake", "client-unknown", errEdge("GetClientConfig")},
		{"ServerAuthHandler.handleFirstConnection", "credential-generation-failed", errEdge("GenerateAnonymousCredentials")},
		{"ServerAuthHandler.handleChallengePhase2", "no-pending-challenge", emptyChallenge},
		{"ServerAuthHandler.handleChallengePhase2", "response-mismatch", boolEdge("SecretKeyManager.VerifyResponse", false)},
	}
	for _, e := range edges {
		f := r.need("R-C18-1", authPkg, e.fn)
		if f == nil {
			continue
		}
		starts := e.start(f)
		if len(starts) == 0 {
			r.Fail("R-C18-1", f.Pos(), "failure edge not found: "+e.what, e.fn, "failure-edge:"+e.what)
			continue
		}
		for _, st := range starts {
			hits := WalkFrom(st, nil, func(in ssa.Instruction) int {
				if OrDeferred(isRec("RecordFailure"))(in) || performsVia(in, isRec("RecordFailure"), nil) {
					return Stop
				}
				if _, ok := in.(*ssa.Return); ok {
					return Hit
				}
				return Cont
			}, pruneNilComponent("bruteForceProtector"))
			pos := st.Instrs[0].Pos()
			if len(hits) > 0 {
				pos = hits[0].Pos()
			}
			r.Ob("R-C18-1", pos, len(hits) == 0, "failing-credential edge ("+e.what+") must record a failure for the address before returning", e.fn, "records-failure:"+e.what)
		}
	}
	for _, fnName := range []string{"ServerAuthHandler.handleFirstConnection", "ServerAuthHandler.handleChallengePhase2"} {
		f := r.P.Fn(authPkg, fnName)
		if f == nil {
			continue
		}
		for _, ret := range Returns(f) {
			if RetErrKind(ret) != "nil" {
				continue
			}
			skipped := WalkFrom(f.Blocks[0], nil, func(in ssa.Instruction) int {
				if OrDeferred(isRec("RecordSuccess"))(in) || performsVia(in, isRec("RecordSuccess"), nil) {
					return Stop
				}
				if in == ssa.Instruction(ret) {
					return Hit
				}
				return Cont
			}, pruneNilComponent("bruteForceProtector"))
			r.Ob("R-C18-1", ret.Pos(), len(skipped) == 0, "a successful authentication records success for the address", fnName, "records-success")
		}
	}
	// the address recorded is the connection's
	for _, fnName := range []string{"ServerAuthHandler.HandleHandshake", "ServerAuthHandler.handleFirstConnection", "ServerAuthHandler.handleChallengePhase2"} {
		f := r.P.Fn(authPkg, fnName)
		if f == nil {
			continue
		}
		for _, c := range Calls(f, false, "BruteForceProtector.RecordFailure", "BruteForceProtector.RecordSuccess", "BruteForceProtector.IsBanned", "IPManager.IsAllowed", "RateLimiter.AllowIP") {
			o := originSummary(Arg(c, 0))
			good := o == "param:ip" || (strings.Contains(o, "extractIP") && !strings.Contains(o, "param:req"))
			r.Ob("R-C18-1", CallPos(c), good, "address passed to "+CalleeOf(c).Name+": "+o+" (want the connection's address)", fnName, "address-origin:"+CalleeOf(c).Name)
		}
	}
	if hh := r.P.Fn(authPkg, "ServerAuthHandler.HandleHandshake"); hh != nil {
		for _, c := range Calls(hh, false, "ServerAuthHandler.handleFirstConnection", "ServerAuthHandler.handleChallengePhase1", "ServerAuthHandler.handleChallengePhase2") {
			args := c.Common().Args
			o := originSummary(args[len(args)-1])
			r.Ob("R-C18-1", CallPos(c), strings.Contains(o, "extractIP") && !strings.Contains(o, "param:req"), "ip handed to "+CalleeOf(c).Name+": "+o, "HandleHandshake", "ip-handed-down:"+CalleeOf(c).Name)
		}
	}
	r.Floor("R-C18-1", 14, "failure/success recording obligations")

	// ---- R-C18-2 gate order (same rule as R-C03-3) -----------------------------
	if hh := r.need("R-C18-2", authPkg, "ServerAuthHandler.HandleHandshake"); hh != nil {
		checkHandshakeGates(r, "R-C18-2", hh)
	}

	// ---- R-C18-3 thresholds ---------------------------------------------------
	if rf := r.need("R-C18-3", secPkg, "BruteForceProtector.RecordFailure"); rf != nil {
		bans := Calls(rf, false, "BruteForceProtector.banIP")
		if len(bans) != 2 {
			r.Fail("R-C18-3", rf.Pos(), fmt.Sprintf("expected 2 ban calls in RecordFailure, found %d", len(bans)), "RecordFailure", "anchor")
		}
		ls := ComputeLockSets(rf, nil)
		for _, b := range bans {
			dur := Arg(b, 1)
			kind, wantField, wantCount := "temporary", "MaxFailures", "Failures"
			if k, ok := ConstInt(dur); ok && k == 0 {
				kind, wantField, wantCount = "permanent", "PermanentBanAt", "TotalCount"
			} else {
				o := originSummary(dur)
				r.Ob("R-C18-3", CallPos(b), strings.Contains(o, "BruteForceConfig.BanDuration"), "temporary ban lasts "+o+" (want config.BanDuration)", "RecordFailure", "ban-duration")
			}
			ok := false
			for _, ft := range Facts(b.Block()) {
				bo, isB := ft.Cond.(*ssa.BinOp)
				if !isB || bo.Op != token.GEQ || !ft.Pol {
					continue
				}
				lo, ro := countOrigin(bo.X, 2), originSummary(bo.Y)
				if strings.Contains(ro, "BruteForceConfig."+wantField) && strings.Contains(lo, "FailureRecord."+wantCount) {
					// only this threshold: no extra conjunct from the other counter
					ok = true
				}
			}
			// must not additionally require the other threshold
			extra := 0
			for _, ft := range Facts(b.Block()) {
				if bo, isB := ft.Cond.(*ssa.BinOp); isB && ft.Pol && (bo.Op == token.GEQ || bo.Op == token.GTR) {
					if strings.Contains(originSummary(bo.Y), "BruteForceConfig.") {
						extra++
					}
				}
			}
			r.Ob("R-C18-3", CallPos(b), ok && extra == 1, fmt.Sprintf("%s ban must be dominated by exactly the comparison count >= config.%s (found %d threshold conjuncts)", kind, wantField, extra), "RecordFailure", "threshold:"+kind)
		}
		// counts read under the lock
		Instrs(rf, func(in ssa.Instruction) {
			var addr ssa.Value
			switch x := in.(type) {
			case *ssa.FieldAddr:
				addr = x
			default:
				return
			}
			t, fld, _, ok := FieldOf(addr)
			if !ok || t != "FailureRecord" || (fld != "TotalCount" && fld != "Failures") {
				return
			}
			r.Ob("R-C18-5", in.Pos(), r.held(ls, in, "internal/security", "BruteForceProtector", "mu") == "W", "failure counters are read/updated under the failures lock", "RecordFailure", "counts-under-lock:"+fld)
		})
	}
	checkZeroExpiryGuard(r, "R-C18-3", secPkg, "BanRecord", "ExpiresAt")
	checkKeepExistingEvaluatesExpiry(r, "R-C18-3")
	checkZeroExpiryGuard(r, "R-C18-3", secPkg, "IPRecord", "ExpiresAt")
	r.Floor("R-C18-3", 6, "threshold and expiry-guard obligations")

	// ---- R-C18-4 expiry-triggered removal re-validates ------------------------------
	for _, spec := range []struct{ typ, field, mapField, lock string }{
		{"BanRecord", "ExpiresAt", "bannedIPs", "banMu"},
		{"IPRecord", "ExpiresAt", "blacklist", "mu"},
	} {
		for _, f := range r.P.FuncsIn(secPkg) {
			Instrs(f, func(in ssa.Instruction) {
				ci, ok := in.(ssa.CallInstruction)
				if !ok {
					return
				}
				// is this call/go dominated by an "expired" observation?
				expired := false
				for _, ft := range Facts(in.Block()) {
					if _, _, tme, ok := expiryCompareT(ft.Cond, 0, spec.typ, spec.field); ok && tme == ft.Pol {
						expired = true
					}
				}
				if !expired {
					return
				}
				callee := CalleeOf(ci).Fn
				if callee == nil || callee.Pkg != f.Pkg || len(callee.Blocks) == 0 {
					return
				}
				// deletes of the guarded map in the callee must be dominated by an expired fact of its own
				dels := mapDeletes(callee, spec.mapField)
				if len(dels) == 0 {
					return
				}
				for _, d := range dels {
					ok := false
					for _, ft := range Facts(d.Block()) {
						if _, _, tme, ok2 := expiryCompareT(ft.Cond, 0, spec.typ, spec.field); ok2 && tme == ft.Pol {
							ok = true
						}
					}
					r.Ob("R-C18-4", CallPos(ci), ok, "removal handed to "+callee.Name()+" because an entry looked expired must re-test expiry under the lock that deletes (an entry renewed in between would be erased)", r.P.FuncName(f), "revalidated-removal:"+callee.Name())
				}
			})
			// deletes performed directly under an expiry fact: the fact must be inside the write-locked section
			for _, d := range mapDeletes(f, spec.mapField) {
				has := false
				for _, ft := range Facts(d.Block()) {
					if _, _, tme, ok := expiryCompareT(ft.Cond, 0, spec.typ, spec.field); ok && tme == ft.Pol {
						has = true
					}
				}
				if has {
					ls := ComputeLockSets(f, nil)
					r.Ob("R-C18-4", d.Pos(), ls.Held(d, spec.lock) == "W", "expiry-driven delete happens in the write-locked section that observed the expiry", r.P.FuncName(f), "expiry-delete-in-section:"+spec.mapField)
				}
			}
		}
	}
	r.Floor("R-C18-4", 4, "expiry-triggered removals")

	// the persisted allow/deny lists: save, load and remove agree, per list type, on the storage keys
	checkCaseConstantAgreement(r, "R-C18-5", secPkg, "IPType", 3)

	if ex := r.P.Fn("internal/app/server", "extractIP"); ex != nil {
		checkExtractIPBranches(r, "R-C18-2", ex)
	}
	// the periodic clean-up removes only buckets that have been idle for longer than the TTL: every
	// delete from a bucket map in the limiter's cleanup is under `now.Sub(lastRefill) > ttl`
	nClean := 0
	for _, f := range r.P.FuncsIn(secPkg) {
		if Outermost(f).Name() != "cleanup" || f.Signature.Recv() == nil {
			continue
		}
		if _, tn := recvTypeName(f.Signature.Recv().Type()); tn != "RateLimiter" {
			continue
		}
		Instrs(f, func(in ssa.Instruction) {
			c, ok := in.(*ssa.Call)
			if !ok {
				return
			}
			b, ok := c.Call.Value.(*ssa.Builtin)
			if !ok || b.Name() != "delete" {
				return
			}
			nClean++
			idle := false
			for _, ft := range Facts(in.Block()) {
				bo, isB := ft.Cond.(*ssa.BinOp)
				if !isB {
					continue
				}
				if sc, _ := CallOfValue(bo.X); sc != nil && CalleeOf(sc).Is("time:Time.Sub") {
					if (bo.Op == token.GTR && ft.Pol) || (bo.Op == token.GEQ && ft.Pol) || (bo.Op == token.LEQ && !ft.Pol) || (bo.Op == token.LSS && !ft.Pol) {
						idle = true
					}
				}
			}
			r.Ob("R-C18-6", in.Pos(), idle, "the limiter's clean-up deletes a bucket only when it has been idle longer than the TTL (deleting a recently used bucket hands the address a fresh full burst)", r.P.FuncName(f), "cleanup-only-idle")
		})
	}
	if nClean < 1 {
		r.Fail("R-C18-6", 0, "no bucket deletion found in RateLimiter.cleanup", secPkg, "cleanup-only-idle:floor")
	}

	// ---- R-C18-6 the bucket never holds more than its capacity --------------------------------
	// every write of TokenBucket.tokens outside the constructor is a consumption (tokens - n), the
	// capacity itself, or min(..., capacity): an unclamped refill lets an idle address save up an
	// arbitrarily large burst
	nTok := 0
	for _, f := range r.P.FuncsIn(secPkg) {
		Instrs(f, func(in ssa.Instruction) {
			st, ok := in.(*ssa.Store)
			if !ok {
				return
			}
			t, fld, base, ok := FieldOf(st.Addr)
			if !ok || t != "TokenBucket" || fld != "tokens" || IsFresh(base) {
				return
			}
			nTok++
			isFieldLoad := func(v ssa.Value, name string) bool {
				u, ok := stripValue(v).(*ssa.UnOp)
				if !ok || u.Op != token.MUL {
					return false
				}
				_, f2, _, ok := FieldOf(u.X)
				return ok && f2 == name
			}
			var okVal func(v ssa.Value, d int) bool
			okVal = func(v ssa.Value, d int) bool {
				if d > 3 {
					return false
				}
				v = stripValue(v)
				if isFieldLoad(v, "capacity") {
					return true
				}
				switch x := v.(type) {
				case *ssa.BinOp:
					return x.Op == token.SUB && isFieldLoad(x.X, "tokens")
				case *ssa.Call:
					if b, isB := x.Call.Value.(*ssa.Builtin); isB && b.Name() == "min" {
						for _, a := range x.Call.Args {
							if isFieldLoad(a, "capacity") {
								return true
							}
						}
					}
					if c := CalleeOf(x); c.Is("math:Min") || isMinFunc(x.Common().StaticCallee()) {
						for _, a := range x.Call.Args {
							if isFieldLoad(a, "capacity") {
								return true
							}
						}
					}
				case *ssa.Phi:
					for _, e := range x.Edges {
						if !okVal(e, d+1) {
							return false
						}
					}
					return true
				}
				// an explicit clamp: the store is under `v <= capacity` / not `v > capacity`
				for _, ft := range Facts(st.Block()) {
					if bo, isB := ft.Cond.(*ssa.BinOp); isB && stripValue(bo.X) == v && isFieldLoad(bo.Y, "capacity") {
						if (bo.Op == token.LEQ && ft.Pol) || (bo.Op == token.GTR && !ft.Pol) || (bo.Op == token.LSS && ft.Pol) || (bo.Op == token.GEQ && !ft.Pol) {
							return true
						}
					}
				}
				return false
			}
			r.Ob("R-C18-6", st.Pos(), okVal(st.Val, 0), "the bucket's token count is written only as tokens-n, the capacity, or a value clamped to the capacity (burst never exceeds the configured burst)", r.P.FuncName(f), "tokens-clamped")
		})
	}
	if nTok < 1 { // alarm below 40% of the 2 sites confirmed by hand
		r.Fail("R-C18-6", 0, fmt.Sprintf("only %d writes of TokenBucket.tokens found (Take and refill confirmed by hand)", nTok), secPkg, "floor:tokens-writes")
	}

	// ---- R-C18-6 token bucket of a key is created once ---------------------------------------
	{
		n := 0
		for _, f := range r.P.FuncsIn(secPkg) {
			ls := lockSetsOf(f)
			Instrs(f, func(in ssa.Instruction) {
				mu, ok := in.(*ssa.MapUpdate)
				if !ok {
					return
				}
				mt, isMap := mu.Map.Type().Underlying().(*types.Map)
				if !isMap || !strings.HasSuffix(mt.Elem().String(), "security.TokenBucket") {
					return
				}
				n++
				wHeld := func(x ssa.Instruction) bool {
					for _, m := range ls.HeldAll(x) {
						if m == "W" {
							return true
						}
					}
					return false
				}
				ok2 := false
				for _, ft := range Facts(in.Block()) {
					ex, isEx := ft.Cond.(*ssa.Extract)
					if !isEx || ex.Index != 1 || ft.Pol {
						continue
					}
					lk, isLk := ex.Tuple.(*ssa.Lookup)
					if isLk && originSummary(lk.X) == originSummary(mu.Map) && wHeld(lk) && wHeld(in) && unlockBetween(lk, in) == nil {
						ok2 = true
					}
				}
				r.Ob("R-C18-6", in.Pos(), ok2, "a token bucket is installed only if a lookup made in the same write-locked section found none (otherwise concurrent first requests of one address each get a private full bucket and the burst limit is exceeded)", r.P.FuncName(f), "bucket-created-once")
			})
		}
		if n < 1 {
			r.Fail("R-C18-6", 0, "no installation of a token bucket into a bucket map found (1 confirmed by hand, in RateLimiter.allow)", secPkg, "bucket-created-once:anchor")
		}
	}

	// ---- R-C18-4 a blacklist entry leaves the list only on request or once found expired ------------
	// (a failed save that "rolls back" by deleting, or any other tidy-up, would let a blacklisted
	// address through)
	{
		n := 0
		for _, f := range r.P.FuncsIn(secPkg) {
			for _, d := range mapDeletes(f, "blacklist") {
				n++
				top := Outermost(f).Name()
				ok := strings.HasPrefix(top, "Remove") && Outermost(f).Object() != nil && Outermost(f).Object().Exported()
				if !ok {
					for _, ft := range Facts(d.Block()) {
						if _, _, tme, isE := expiryCompareT(ft.Cond, 0, "IPRecord", "ExpiresAt"); isE && tme == ft.Pol {
							ok = true
						}
					}
				}
				r.Ob("R-C18-4", d.Pos(), ok, "a blacklist entry is deleted only by the explicit removal or where the entry was found expired", r.P.FuncName(f), "blacklist-delete-justified")
			}
		}
		r.Note("R-C18-4: %d direct deletes from IPManager.blacklist examined (3 on the reference tree; a removal helper that deletes through a selected list is judged by R-C18-4's expiry re-validation at its callers)", n)
	}

	// ---- R-C18-6 every decision of the bucket is taken on refilled, capped tokens ------------------
	// Take decides (and spends) only after refill() brought the count up to date and clamped it to the
	// capacity: a fast path that spends without refilling leaves the elapsed time in the books, and
	// the next refill adds it on top of what the idle period had already earned (burst above capacity)
	if tk := r.P.Fn(secPkg, "TokenBucket.Take"); tk != nil {
		isRefill := func(in ssa.Instruction) bool {
			ci, ok := in.(ssa.CallInstruction)
			return ok && CalleeOf(ci).Name == "refill"
		}
		n := 0
		for _, ret := range Returns(tk) {
			n++
			r.Ob("R-C18-6", ret.Pos(), !ReachesWithout(tk, ret, isRefill), "every path through TokenBucket.Take refills (and clamps) the bucket before it decides", "TokenBucket.Take", "refill-before-decision")
		}
		if n == 0 {
			r.Fail("R-C18-6", tk.Pos(), "TokenBucket.Take has no return", "TokenBucket.Take", "refill-before-decision:anchor")
		}
	}

	// ---- R-C18-5 guarded-by --------------------------------------------------------
	guardedBy(r, "R-C18-5", secPkg, "BruteForceProtector", "failures", "mu", map[string]string{"NewBruteForceProtector": "constructor"})
	guardedBy(r, "R-C18-5", secPkg, "BruteForceProtector", "bannedIPs", "banMu", map[string]string{"NewBruteForceProtector": "constructor"})
	ipmExempt := map[string]string{"NewIPManager": "constructor"}
	for _, h := range []string{"loadFromStorage", "loadListFromStorage"} {
		if onlyCalledFrom(r.P, secPkg, "IPManager."+h, "NewIPManager", "loadFromStorage") {
			ipmExempt[h] = "runs only inside the constructor, before the manager is shared (callers verified)"
		}
	}
	guardedBy(r, "R-C18-5", secPkg, "IPManager", "blacklist", "mu", ipmExempt)
	guardedBy(r, "R-C18-5", secPkg, "IPManager", "whitelist", "mu", ipmExempt)
	guardedBy(r, "R-C18-5", secPkg, "TokenBucket", "tokens", "mu", map[string]string{"newTokenBucket": "constructor", "refill": "helper: caller holds the bucket lock"})
	guardedBy(r, "R-C18-5", secPkg, "TokenBucket", "lastRefill", "mu", map[string]string{"newTokenBucket": "constructor", "refill": "helper: caller holds the bucket lock"})
	r.Floor("R-C18-5", 30, "guarded accesses in internal/security")
}

// mapDeletes lists delete(x.<mapField>, k) calls in f.
func mapDeletes(f *ssa.Function, mapField string) []ssa.Instruction {
	var out []ssa.Instruction
	Instrs(f, func(in ssa.Instruction) {
		c, ok := in.(*ssa.Call)
		if !ok {
			return
		}
		b, ok := c.Call.Value.(*ssa.Builtin)
		if !ok || b.Name() != "delete" {
			return
		}
		if _, fld, _, ok := FieldOf(c.Call.Args[0]); ok && fld == mapField {
			out = append(out, in)
		}
	})
	return out
}

// onlyCalledFrom: every static call site of pkg.fn lies in a function whose
// (outermost) name is in allowed.
func onlyCalledFrom(p *Prog, pkg, fn string, allowed ...string) bool {
	target := p.Fn(pkg, fn)
	if target == nil {
		return false
	}
	n := 0
	ok := true
	for _, f := range p.Funcs {
		Instrs(f, func(in ssa.Instruction) {
			ci, isCall := in.(ssa.CallInstruction)
			if !isCall || CalleeOf(ci).Fn != target {
				return
			}
			n++
			if _, isGo := in.(*ssa.Go); isGo {
				ok = false
			}
			name := Outermost(f).Name()
			m := false
			for _, a := range allowed {
				if a == name {
					m = true
				}
			}
			if !m {
				ok = false
			}
		})
	}
	return ok && n > 0
}

// isMinFunc: g(a, b) returns, on every path, the parameter that a comparison on that path shows
// to be the smaller (or equal) one.
func isMinFunc(g *ssa.Function) bool {
	if g == nil || len(g.Params) != 2 || len(g.Blocks) == 0 || g.Signature.Results().Len() != 1 {
		return false
	}
	a, b := ssa.Value(g.Params[0]), ssa.Value(g.Params[1])
	for _, ret := range Returns(g) {
		v := stripValue(RetVal(ret, 0))
		var other ssa.Value
		switch v {
		case a:
			other = b
		case b:
			other = a
		default:
			return false
		}
		ok := false
		for _, ft := range Facts(ret.Block()) {
			bo, isB := ft.Cond.(*ssa.BinOp)
			if !isB {
				continue
			}
			// v <= other established?
			le := false
			switch {
			case bo.X == v && bo.Y == other:
				le = (bo.Op == token.LSS && ft.Pol) || (bo.Op == token.LEQ && ft.Pol) || (bo.Op == token.GTR && !ft.Pol) || (bo.Op == token.GEQ && !ft.Pol)
			case bo.X == other && bo.Y == v:
				le = (bo.Op == token.GTR && ft.Pol) || (bo.Op == token.GEQ && ft.Pol) || (bo.Op == token.LSS && !ft.Pol) || (bo.Op == token.LEQ && !ft.Pol)
			}
			if le {
				ok = true
			}
		}
		if !ok {
			return false
		}
	}
	return true
}

// countOrigin: where a counter value comes from, looking through len() and through the results of
// same-module helpers (a helper that returns `len(rec.Failures), rec.TotalCount` is transparent).
func countOrigin(v ssa.Value, depth int) string {
	sv := stripValue(v)
	if c, ok := sv.(*ssa.Call); ok {
		if bi, isB := c.Call.Value.(*ssa.Builtin); isB && bi.Name() == "len" {
			return countOrigin(c.Call.Args[0], depth)
		}
	}
	var call *ssa.Call
	idx := 0
	switch x := sv.(type) {
	case *ssa.Call:
		call = x
	case *ssa.Extract:
		call, _ = x.Tuple.(*ssa.Call)
		idx = x.Index
	}
	if call != nil && depth > 0 {
		if h := call.Common().StaticCallee(); h != nil && len(h.Blocks) > 0 && h.Pkg != nil && strings.HasPrefix(h.Pkg.Pkg.Path(), Module) {
			var outs []string
			for _, ret := range Returns(h) {
				if idx < len(ret.Results) {
					outs = append(outs, countOrigin(RetVal(ret, idx), depth-1))
				}
			}
			if len(outs) > 0 {
				return strings.Join(outs, "|")
			}
		}
	}
	return originSummary(v)
}

// checkKeepExistingEvaluatesExpiry: a function that installs a ban / blacklist record (a map update on
// a table of records with an ExpiresAt) may decide to keep the record it found instead - but only a
// record it has shown to be still in force: every return that skips the installation after the lookup
// found a record is entered, on each way into it, past a test of that record's deadline (it is the
// zero time = permanent, or it was compared with the clock or with the new deadline).  A record that
// merely exists may be an expired one the asynchronous clean-up has not collected yet; keeping it
// drops the new ban.
func checkKeepExistingEvaluatesExpiry(r *Report, rule string) {
	n := 0
	for _, f := range r.P.FuncsIn(secPkg) {
		if f.Parent() != nil || len(f.Blocks) == 0 {
			continue
		}
		var installs []*ssa.MapUpdate
		Instrs(f, func(in ssa.Instruction) {
			if mu, ok := in.(*ssa.MapUpdate); ok {
				if t, _, _, ok := FieldOf(mu.Map); ok && (t == "BruteForceProtector" || t == "IPManager") {
					if _, en := recvTypeName(mu.Value.Type()); en == "BanRecord" || en == "IPRecord" {
						installs = append(installs, mu)
					}
				}
			}
		})
		if len(installs) == 0 {
			continue
		}
		// the comma-ok lookups of the same table
		var found []ssa.Value
		Instrs(f, func(in ssa.Instruction) {
			if ex, ok := in.(*ssa.Extract); ok && ex.Index == 1 {
				if lk, ok := ex.Tuple.(*ssa.Lookup); ok && lk.X == installs[0].Map || (ok && sameExpr(lk.X, installs[0].Map)) {
					found = append(found, ex)
				}
			}
		})
		if len(found) == 0 {
			continue
		}
		deadlineTested := func(fs []Fact) bool {
			for _, ft := range fs {
				c, ok := stripValue(ft.Cond).(*ssa.Call)
				if !ok {
					continue
				}
				if !CalleeOf(c).Is("time:Time.IsZero", "time:Time.After", "time:Time.Before") {
					continue
				}
				for _, a := range c.Call.Args {
					if _, fld, _, ok := FieldOf(a); ok && fld == "ExpiresAt" {
						if CalleeOf(c).Name == "IsZero" && !ft.Pol {
							continue // "not permanent" alone says nothing about being in force
						}
						return true
					}
				}
			}
			return false
		}
		foundTrue := func(fs []Fact) bool {
			for _, ft := range fs {
				for _, fv := range found {
					if ft.Cond == fv && ft.Pol {
						return true
					}
				}
			}
			return false
		}
		for _, ret := range Returns(f) {
			if RetErrKind(ret) == "nonnil" {
				continue
			}
			// does this return skip the installation?
			skips := true
			for _, mu := range installs {
				if mu.Block() == ret.Block() || mu.Block().Dominates(ret.Block()) {
					skips = false
				}
			}
			if !skips {
				continue
			}
			b := ret.Block()
			ways := [][]Fact{Facts(b)}
			if !foundTrue(ways[0]) || !deadlineTested(ways[0]) {
				// a join (`found && (permanent || later)`): judge each way into the block
				ways = nil
				for _, p := range b.Preds {
					pf := Facts(p)
					if len(p.Instrs) > 0 {
						if iff, ok := p.Instrs[len(p.Instrs)-1].(*ssa.If); ok && p.Succs[0] != p.Succs[1] {
							for si, sb := range p.Succs {
								if sb == b {
									c, pol := normCond(iff.Cond, si == 0)
									pf = append(pf, expandPhiFacts([]Fact{{Cond: c, Pol: pol, If: iff}})...)
								}
							}
						}
					}
					ways = append(ways, pf)
				}
			}
			relevant, ok := false, true
			for _, w := range ways {
				if !foundTrue(w) {
					continue // nothing was found on this way: an early exit for another reason
				}
				relevant = true
				if !deadlineTested(w) {
					ok = false
				}
			}
			if !relevant {
				continue
			}
			n++
			r.Ob(rule, ret.Pos(), ok, "a ban request that keeps the record it found has evaluated that record's deadline on every way to this return (an expired leftover is not a ban in force)", r.P.FuncName(f), "keep-existing-evaluates-expiry")
		}
	}
	r.Note("%s: %d return(s) that keep an existing ban / blacklist record examined", rule, n)
}
