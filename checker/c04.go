package main

import (
	"fmt"
	"go/token"
	"strings"

	"golang.org/x/tools/go/ssa"
)

func init() {
	register(&PropCheck{
		ID: "C04",
		Explanation: "Static rules on tunnel attachment (session/packet_handler_tunnel*.go, cross_node_session.go, app/server/tunnel_handler.go, models/port_mapping_helpers.go). " +
			"R-C04-1: every path from the tunnel-open dispatcher to an attach point (SetSourceConnection, SetTargetConnection, startSourceBridge, the cross-node forward) passes a successful authoriser for this connection: tunnelHandler.HandleTunnelOpen(clientConn, req) with the control connection of this packet's connection id, or authorizeTunnelAttach(this connection id, mapping id of the bridge / routing record). Attach points are enumerated from the call graph; a new caller outside the dispatcher is a violation. " +
			"R-C04-2: each authoriser establishes all of: authenticated identity, validity of the mapping it then uses, a party comparison of that identity with the mapping's listen/target client, and (secret branch) equality of the presented secret; the attach authoriser takes the mapping id from the bridge / routing record, never from the request. " +
			"R-C04-3: every refusal edge of the dispatcher sends a failure acknowledgement and reaches no attach point; a success acknowledgement is sent only after authorisation. " +
			"R-C04-4: the model predicates say what the property says: IsValid is false for revoked, expired and non-active mappings; CanBeAccessedBy implies IsValid and the listen-client comparison. " +
			"Decides these necessary conditions; does not decide the product space of runtime mapping states or storage staleness.",
		Run: runC04,
		Mutants: []Mutant{
			{Name: "existing-bridge-unauthorised", File: "internal/protocol/session/packet_handler_tunnel.go", Rule: "R-C04-1",
				Old: "\t\tif err := s.authorizeTunnelAttach(connPacket.ConnectionID, bridge.GetMappingID()); err != nil {", New: "\t\tif err := s.authorizeTunnelAttach(connPacket.ConnectionID, bridge.GetMappingID()); err != nil && req.MappingID == \"\" {"},
			{Name: "crossnode-attach-unauthorised", File: "internal/protocol/session/packet_handler_tunnel.go", Rule: "R-C04-1",
				Old: "\t\t\tif aerr := s.authorizeTunnelAttach(connPacket.ConnectionID, waitingState.MappingID); aerr != nil {", New: "\t\t\tif aerr := s.authorizeTunnelAttach(connPacket.ConnectionID, waitingState.MappingID); aerr != nil && s.cloudControl == nil {"},
			{Name: "attach-authoriser-uses-request-mapping", File: "internal/protocol/session/packet_handler_tunnel.go", Rule: "R-C04-2",
				Old: "s.authorizeTunnelAttach(connPacket.ConnectionID, bridge.GetMappingID())", New: "s.authorizeTunnelAttach(connPacket.ConnectionID, req.MappingID)"},
			{Name: "attach-authoriser-skips-validity", File: "internal/protocol/session/packet_handler_tunnel.go", Rule: "R-C04-2",
				Old: "\tif !mapping.IsValid() {\n\t\treturn coreerrors.New(coreerrors.CodeForbidden, \"mapping is revoked, expired or inactive\")\n\t}\n", New: ""},
			{Name: "secret-branch-skips-validity", File: "internal/app/server/tunnel_handler.go", Rule: "R-C04-2",
				Old: "\t\tif !portMapping.IsValid() {\n\t\t\tcorelog.Warnf(\"ServerTunnelHandler: mapping %s is revoked, expired or inactive\", req.MappingID)\n\t\t\treturn fmt.Errorf(\"mapping is revoked, expired or inactive\")\n\t\t}\n", New: ""},
			{Name: "secret-branch-party-check-weakened", File: "internal/app/server/tunnel_handler.go", Rule: "R-C04-2",
				Old: "if portMapping.ListenClientID != conn.GetClientID() && portMapping.TargetClientID != conn.GetClientID() {", New: "if portMapping.ListenClientID != conn.GetClientID() && portMapping.TargetClientID != conn.GetClientID() && portMapping.TargetClientID != 0 {"},
			{Name: "refusal-without-ack", File: "internal/protocol/session/packet_handler_tunnel.go", Rule: "R-C04-3",
				Old: "\t\tcorelog.Errorf(\"Tunnel open failed for connection %s: %v\", connPacket.ConnectionID, err)\n\t\ts.sendTunnelOpenResponseDirect(conn, &packet.TunnelOpenAckResponse{\n\t\t\tTunnelID: req.TunnelID,\n\t\t\tSuccess:  false,\n\t\t\tError:    err.Error(),\n\t\t})\n\t\treturn err", New: "\t\tcorelog.Errorf(\"Tunnel open failed for connection %s: %v\", connPacket.ConnectionID, err)\n\t\treturn err"},
			{Name: "isvalid-ignores-status", File: "internal/cloud/models/port_mapping_helpers.go", Rule: "R-C04-4",
				Old: "\tif m.Status != MappingStatusActive {\n\t\treturn false\n\t}\n\treturn true\n}", New: "\treturn true\n}"},
		},
	})
}

// checkAttachesAuthorisedBridge: the bridge a connection is attached to is the very object the caller
// authorised the connection for - handleExistingBridge operates on its bridge parameter, never on a
// bridge it looks up again by tunnel id (between the authorisation and a second lookup the id may have
// been released and registered again for another mapping).
func checkAttachesAuthorisedBridge(r *Report) {
	heb := r.P.Fn(sessPkg, "SessionManager.handleExistingBridge")
	if heb == nil {
		return // its absence is reported by R-C04-1 (frozen caller set)
	}
	var bp *ssa.Parameter
	for _, p := range heb.Params {
		if _, n := recvTypeName(p.Type()); n == "TunnelBridge" || n == "Bridge" {
			bp = p
		}
	}
	n := 0
	for _, u := range WithAnon(heb) {
		Instrs(u, func(in ssa.Instruction) {
			ci, ok := in.(ssa.CallInstruction)
			if !ok {
				return
			}
			c := CalleeOf(ci)
			if c.Recv != "Bridge" && c.Recv != "TunnelBridge" {
				return
			}
			if !strings.HasPrefix(c.Name, "Set") && !strings.HasPrefix(c.Name, "Attach") && c.Name != "NotifyTargetReady" {
				return
			}
			n++
			rv := Recv(ci)
			good := false
			if bp != nil && rv != nil {
				o := originSummary(rv)
				good = o == "param:"+canonParamName(bp) || o == "freevar:"+canonParamName(bp)
			}
			r.Ob("R-C04-1", CallPos(ci), good, "the bridge "+c.Name+" is applied to is the one the caller authorised this connection for (the bridge parameter), not one looked up again by tunnel id", "handleExistingBridge", "attaches-authorised-bridge:"+c.Name)
		})
	}
	if n == 0 {
		r.Fail("R-C04-1", heb.Pos(), "no attach call (Set*/Attach* on the bridge) found in handleExistingBridge", "handleExistingBridge", "attaches-authorised-bridge:anchor")
	}
}

// checkAttachSites: a connection is attached (Set*Connection / Attach*) to a bridge that was looked up
// in the shared table of live bridges only at the sites confirmed to be behind the attach authoriser
// or the target-side admission; a new site that attaches to a looked-up bridge hands an existing
// tunnel to whoever reached it.
func checkAttachSites(r *Report) {
	n, nTarget := 0, 0
	for _, f := range r.P.FuncsIn(sessPkg) {
		for _, u := range WithAnon(f) {
			Instrs(u, func(in ssa.Instruction) {
				ci, ok := in.(ssa.CallInstruction)
				if !ok {
					return
				}
				name := ""
				if ci.Common().IsInvoke() {
					name = ci.Common().Method.Name()
				} else {
					name = CalleeOf(ci).Name
				}
				if !(strings.HasPrefix(name, "Set") && strings.HasSuffix(name, "Connection")) && !strings.HasPrefix(name, "Attach") {
					return
				}
				rv := Recv(ci)
				if rv == nil {
					return
				}
				if _, tn := recvTypeName(rv.Type()); tn != "TunnelBridge" && tn != "Bridge" {
					return
				}
				o := originSummary(rv)
				if !strings.Contains(o, "tunnelBridges") {
					return // a bridge built here or handed in by the caller (handleExistingBridge: checked separately)
				}
				n++
				of := Outermost(f)
				fn := of.Name()
				if of.Signature.Recv() != nil {
					_, tn := recvTypeName(of.Signature.Recv().Type())
					fn = tn + "." + of.Name()
				}
				if !strings.Contains(name, "Source") {
					nTarget++
					return // target-side attach: admitted by the validator of the request (R-C04-1 validator rules)
				}
				okSite := false
				for _, ac := range Calls(Outermost(f), true, "SessionManager.authorizeTunnelAttach") {
					if ac.Parent() == in.Parent() && ErrOK(in.Block(), ac) {
						okSite = true // inlined form: authorised right here, on this path
					}
				}
				// ... or on the edge where the looked-up bridge's own mapping id equals the request's mapping id,
				// which the validator has judged for this requester (a duplicate open for the same mapping)
				for _, ft := range Facts(in.Block()) {
					bo, isB := ft.Cond.(*ssa.BinOp)
					if !isB || !((bo.Op == token.EQL && ft.Pol) || (bo.Op == token.NEQ && !ft.Pol)) {
						continue
					}
					for _, pr := range [][2]ssa.Value{{bo.X, bo.Y}, {bo.Y, bo.X}} {
						gc, _ := CallOfValue(pr[0])
						if gc == nil || !strings.Contains(originSummary(pr[1]), "TunnelOpenRequest.MappingID") {
							continue
						}
						gname := CalleeOf(gc).Name
						if gc.Common().IsInvoke() {
							gname = gc.Common().Method.Name()
						}
						if gname == "GetMappingID" && (Recv(gc) == rv || originSummary(Recv(gc)) == originSummary(rv)) {
							okSite = true
						}
					}
				}
				msg := "attach " + name + " on a bridge looked up in the live-bridge table in place: the source side of an existing tunnel is replaced only through handleExistingBridge, on the bridge authorizeTunnelAttach was asked about"
				r.Ob("R-C04-1", CallPos(ci), okSite, msg, fn, "attach-site:"+name)
			})
		}
	}
	r.Pass("R-C04-1", token.NoPos, fmt.Sprintf("%d source-side and %d target-side attach call(s) on bridges looked up in the live-bridge table; no source-side attach in place", n-nTarget, nTarget), "session", "attach-site:scan")
}

func runC04(r *Report) {
	checkAttachesAuthorisedBridge(r)
	checkAttachSites(r)
	hto := r.need("R-C04-1", sessPkg, "SessionManager.handleTunnelOpen")
	if hto == nil {
		return
	}
	param := hto.Params[1] // connPacket
	isThisConnID := func(v ssa.Value) bool {
		return originSummary(v) == "field:StreamPacket.ConnectionID(param:"+canonParamName(param)+")"
	}
	// ---- authorisers in the dispatcher ------------------------------------------------
	type authz struct {
		call ssa.CallInstruction
		kind string
	}
	var auths []authz
	for _, c := range Calls(hto, false, "HandleTunnelOpen") {
		auths = append(auths, authz{c, "validator"})
		// clientConn argument: control connection looked up for this connection id
		o := originSummary(Arg(c, 0))
		okConn := strings.Contains(o, "findOrCreateControlConnection")
		r.Ob("R-C04-1", CallPos(c), okConn, "the validator is applied to the control connection resolved for this packet's connection ("+o+")", "handleTunnelOpen", "validator-on-this-connection")
	}
	for _, c := range Calls(hto, false, "SessionManager.authorizeTunnelAttach") {
		auths = append(auths, authz{c, "attach"})
		r.Ob("R-C04-1", CallPos(c), isThisConnID(Arg(c, 0)), "the attach authoriser is applied to this packet's connection id", "handleTunnelOpen", "authoriser-on-this-connection")
		// mapping id comes from the bridge or the routing record, never from the request
		o := originSummary(Arg(c, 1))
		fromTunnel := (strings.Contains(o, "GetMappingID") || strings.Contains(o, "WaitingState.MappingID")) && !strings.Contains(o, "TunnelOpenRequest")
		r.Ob("R-C04-2", CallPos(c), fromTunnel, "the attach authoriser is given the mapping id recorded for the tunnel ("+o+"), not the one the requester wrote into the request", "handleTunnelOpen", "authoriser-mapping-of-tunnel")
	}
	// an admission helper (`admitToExistingTunnel(connPacket, conn, tunnelID, mappingID, route)`): it reports
	// success only after the attach authoriser succeeded for the connection id and mapping id it was given
	Instrs(hto, func(in ssa.Instruction) {
		hc, ok := in.(*ssa.Call)
		if !ok {
			return
		}
		g := hc.Common().StaticCallee()
		if g == nil || g.Pkg != hto.Pkg || len(g.Blocks) == 0 || g == hto {
			return
		}
		acs := Calls(g, false, "SessionManager.authorizeTunnelAttach")
		if len(acs) == 0 || g.Name() == "authorizeTunnelAttach" {
			return
		}
		argOf := func(v ssa.Value) ssa.Value {
			// the value in the dispatcher that the helper's parameter (or a field read of it) stands for
			for _, rt := range Origins(v) {
				if p, isP := rt.V.(*ssa.Parameter); isP {
					for i, q := range g.Params {
						if q == p && i < len(hc.Call.Args) {
							return hc.Call.Args[i]
						}
					}
				}
			}
			return nil
		}
		good := true
		for _, ret := range Returns(g) {
			if RetErrKind(ret) == "nonnil" {
				continue
			}
			dom := false
			for _, ac := range acs {
				if ErrOK(ret.Block(), ac) {
					dom = true
				}
			}
			if !dom {
				good = false
			}
		}
		for _, ac := range acs {
			a0, a1 := argOf(Arg(ac, 0)), argOf(Arg(ac, 1))
			okConn := a0 != nil && (isThisConnID(a0) || a0 == ssa.Value(hto.Params[1]))
			o := ""
			if a1 != nil {
				o = originSummary(a1)
			}
			fromTunnel := (strings.Contains(o, "GetMappingID") || strings.Contains(o, "WaitingState.MappingID")) && !strings.Contains(o, "TunnelOpenRequest")
			r.Ob("R-C04-1", CallPos(ac), okConn, "the attach authoriser (in "+g.Name()+") is applied to this packet's connection id", "handleTunnelOpen", "authoriser-on-this-connection")
			r.Ob("R-C04-2", CallPos(ac), fromTunnel, "the attach authoriser (in "+g.Name()+") is given the mapping id recorded for the tunnel ("+o+"), not the one the requester wrote into the request", "handleTunnelOpen", "authoriser-mapping-of-tunnel")
		}
		if good {
			auths = append(auths, authz{hc, "attach"})
		}
	})
	if len(auths) < 1 { // alarm below 40% of the 3 sites confirmed by hand
		r.Fail("R-C04-1", hto.Pos(), fmt.Sprintf("only %d authoriser calls found in the dispatcher (3 confirmed by hand)", len(auths)), "handleTunnelOpen", "floor-authorisers")
	}
	authorisedAt := func(b *ssa.BasicBlock) bool {
		for _, a := range auths {
			if ErrOK(b, a.call) {
				return true
			}
		}
		return false
	}
	// ---- attach points: calls in the dispatcher that lead to an attach -----------------
	attachers := []string{"SessionManager.handleExistingBridge", "SessionManager.handleCrossNodeTargetConnection", "SessionManager.handleSourceBridge", "SessionManager.handleTargetBridge"}
	n := 0
	for _, c := range Calls(hto, false, attachers...) {
		n++
		r.Ob("R-C04-1", CallPos(c), authorisedAt(c.Block()), "dispatch to "+CalleeOf(c).Name+" (which attaches this connection to a tunnel) is dominated by the success of an authoriser", "handleTunnelOpen", "authorised-before:"+CalleeOf(c).Name)
	}
	if n < 1 { // alarm below 40% of the 4 sites confirmed by hand
		r.Fail("R-C04-1", hto.Pos(), fmt.Sprintf("only %d attach dispatches found (4 confirmed by hand)", n), "handleTunnelOpen", "floor-dispatch")
	}
	// the raw attach primitives are called only from functions reachable through the dispatcher
	allowedCallers := map[string]bool{
		"handleExistingBridge": true, "handleTargetBridge": true, "handleSourceBridge": true,
		"processCrossNodeForward": true, "handleCrossNodeTargetConnection": true, "forwardToSourceNode": true, "handleLocalBridgeWait": true,
		"StartServerTunnel": true, // server-internal UDP ingress: the server itself is the source
	}
	prim := 0
	for _, f := range r.P.FuncsIn(sessPkg) {
		for _, c := range Calls(f, false, "Bridge.SetTargetConnection", "Bridge.SetSourceConnection", "SessionManager.startSourceBridge", "SessionManager.forwardToSourceNode") {
			prim++
			top := Outermost(f).Name()
			okCaller := allowedCallers[top] || onlyCalledFromAllowed(r.P, Outermost(f), allowedCallers, 3)
			r.Ob("R-C04-1", CallPos(c), okCaller, "attach primitive "+CalleeOf(c).Name+" is called from "+top+" (allowed callers are the branches of the authorised dispatcher and unexported helpers only they call)", r.P.FuncName(f), "who-may-attach:"+CalleeOf(c).Name)
		}
	}
	if prim < 2 { // alarm below 40% of the 5 sites confirmed by hand
		r.Fail("R-C04-1", 0, fmt.Sprintf("only %d attach primitive calls found in the session package (6 confirmed by hand)", prim), sessPkg, "floor-primitives")
	}
	// the branch handlers themselves are called only from the dispatcher (or from each other)
	for _, name := range attachers {
		f := r.P.Fn(sessPkg, name)
		if f == nil {
			continue
		}
		for _, g := range r.P.Funcs {
			for _, c := range Calls(g, false, name) {
				top := Outermost(g).Name()
				ok := top == "handleTunnelOpen" || allowedCallers[top] || onlyCalledFromAllowed(r.P, Outermost(g), allowedCallers, 3)
				r.Ob("R-C04-1", CallPos(c), ok, name+" is entered from "+top, r.P.FuncName(g), "branch-entered-from:"+name)
			}
		}
	}

	// ---- R-C04-3 refusal acknowledged and inert --------------------------------------------
	isAck := func(success bool) func(ssa.Instruction) bool {
		return func(in ssa.Instruction) bool {
			ci, ok := in.(ssa.CallInstruction)
			if !ok || !CalleeOf(ci).Is("SessionManager.sendTunnelOpenResponseDirect") {
				return false
			}
			// Success field of the literal passed
			resp := Arg(ci, 1)
			val, found := false, false
			if resp.Referrers() != nil {
				for _, ref := range *resp.Referrers() {
					if fa, ok := ref.(*ssa.FieldAddr); ok && fieldName(fa.X.Type(), fa.Field) == "Success" {
						for _, st := range storesTo(fa) {
							if b, ok := ConstBool(st.Val); ok {
								val, found = b, true
							}
						}
					}
				}
			}
			if !found {
				val = false // zero value
			}
			return val == success
		}
	}
	for _, a := range auths {
		// an admission helper that acknowledges its own refusals: every error return of the helper has
		// passed the failure acknowledgement
		if cc, isC := a.call.(*ssa.Call); isC {
			if g := cc.Common().StaticCallee(); g != nil && g.Name() != "authorizeTunnelAttach" && len(Calls(g, false, "SessionManager.authorizeTunnelAttach")) > 0 {
				acked := true
				for _, ret := range Returns(g) {
					if RetErrKind(ret) == "nil" {
						continue
					}
					if ReachesWithout(g, ret, func(in ssa.Instruction) bool { return performsVia(in, isAck(false), nil) }) {
						acked = false
					}
				}
				if acked {
					r.Pass("R-C04-3", CallPos(a.call), "the admission helper "+g.Name()+" sends the failure acknowledgement on every refusing return", "handleTunnelOpen", "refusal-acked:"+a.kind)
					continue
				}
			}
		}
		// failure edge of the authoriser: every path to a return passes a failure ack and no attach dispatch
		for _, b := range hto.Blocks {
			if !ErrFailed(b, a.call) {
				continue
			}
			isFirst := true
			for _, p := range b.Preds {
				if ErrFailed(p, a.call) {
					isFirst = false
				}
			}
			if !isFirst {
				continue
			}
			hits := WalkFrom(b, nil, func(in ssa.Instruction) int {
				if performsVia(in, isAck(false), nil) {
					return Stop
				}
				if _, ok := in.(*ssa.Return); ok {
					return Hit
				}
				return Cont
			}, nil)
			r.Ob("R-C04-3", b.Instrs[0].Pos(), len(hits) == 0, "a refused tunnel-open ("+a.kind+" authoriser failed) sends a failure acknowledgement before returning", "handleTunnelOpen", "refusal-acked:"+a.kind)
			att := WalkFrom(b, nil, func(in ssa.Instruction) int {
				if ci, ok := in.(ssa.CallInstruction); ok && CalleeOf(ci).Is(attachers...) {
					return Hit
				}
				return Cont
			}, nil)
			r.Ob("R-C04-3", b.Instrs[0].Pos(), len(att) == 0, "a refused tunnel-open reaches no attach point", "handleTunnelOpen", "refusal-inert:"+a.kind)
		}
	}
	// success acks only after authorisation (in the dispatcher and in the branch handlers)
	for _, f := range append([]*ssa.Function{hto}, fnList(r.P, sessPkg, "SessionManager.handleExistingBridge")...) {
		Instrs(f, func(in ssa.Instruction) {
			if !isAck(true)(in) {
				return
			}
			ok := f != hto || authorisedAt(in.Block())
			r.Ob("R-C04-3", in.Pos(), ok, "a success acknowledgement is sent only after authorisation", r.P.FuncName(f), "success-ack-authorised")
		})
	}
	// malformed body: failure ack
	for _, c := range Calls(hto, false, "json:Unmarshal") {
		for _, b := range hto.Blocks {
			if !ErrFailed(b, c) {
				continue
			}
			first := true
			for _, p := range b.Preds {
				if ErrFailed(p, c) {
					first = false
				}
			}
			if !first {
				continue
			}
			hits := WalkFrom(b, nil, func(in ssa.Instruction) int {
				if performsVia(in, isAck(false), nil) {
					return Stop
				}
				if _, ok := in.(*ssa.Return); ok {
					return Hit
				}
				return Cont
			}, nil)
			r.Ob("R-C04-3", CallPos(c), len(hits) == 0, "an unparsable tunnel-open body is answered with a failure acknowledgement", "handleTunnelOpen", "refusal-acked:parse")
		}
	}

	// ---- R-C04-2 authoriser completeness ------------------------------------------------------
	if ata := r.need("R-C04-2", sessPkg, "SessionManager.authorizeTunnelAttach"); ata != nil {
		for _, ret := range Returns(ata) {
			if RetErrKind(ret) != "nil" {
				continue
			}
			auth, idpos, valid, party := false, false, false, false
			var mappingVal ssa.Value
			for _, ft := range Facts(ret.Block()) {
				if c, ok := stripValue(ft.Cond).(*ssa.Call); ok {
					cal := CalleeOf(c)
					if cal.Name == "IsAuthenticated" && ft.Pol {
						auth = true
					}
					if cal.Is("PortMapping.IsValid") && ft.Pol {
						valid = true
						mappingVal = Recv(c)
					}
				}
				if bo, ok := ft.Cond.(*ssa.BinOp); ok {
					if bo.Op == token.LEQ && !ft.Pol || bo.Op == token.GTR && ft.Pol {
						if strings.Contains(originDeep(bo.X, 2), "GetClientID") {
							idpos = true
						}
					}
				}
			}
			// party: both "!= Listen" and "!= Target" cannot hold: the return is reached from the false edge of the conjunction
			if len(ata.Blocks) > 0 {
				n, other := partyOnlyPaths(ata.Blocks[0], "GetClientID")
				party = n >= 2 && !other
			}
			// mapping looked up for the tunnel's mapping id parameter
			mapOK := mappingVal != nil && lookupKeyOrigin(mappingVal, "GetPortMapping", 2) == "param:tunnelMappingID"
			r.Ob("R-C04-2", ret.Pos(), auth && idpos, fmt.Sprintf("attach authoriser succeeds only for an authenticated connection (IsAuthenticated %v, client id > 0 %v)", auth, idpos), "authorizeTunnelAttach", "authenticated")
			r.Ob("R-C04-2", ret.Pos(), valid && mapOK, fmt.Sprintf("attach authoriser succeeds only if the tunnel's mapping IsValid() (%v) and it is the mapping looked up for the tunnel's mapping id (%v)", valid, mapOK), "authorizeTunnelAttach", "mapping-valid")
			r.Ob("R-C04-2", ret.Pos(), party, "attach authoriser succeeds only if the client is the listen or target client of that mapping", "authorizeTunnelAttach", "party")
		}
	}
	if h := r.need("R-C04-2", authPkg, "ServerTunnelHandler.HandleTunnelOpen"); h != nil {
		for _, ret := range Returns(h) {
			if RetErrKind(ret) != "nil" {
				continue
			}
			if c, _ := CallOfValue(RetVal(ret, 0)); c != nil {
				continue // delegated (resumeTunnel): checked below
			}
			// identity
			id := false
			for _, ft := range Facts(ret.Block()) {
				if bo, ok := ft.Cond.(*ssa.BinOp); ok && bo.Op == token.EQL && !ft.Pol && strings.Contains(originSummary(bo.X), "GetClientID") {
					id = true
				}
			}
			r.Ob("R-C04-2", ret.Pos(), id, "the validator returns success only for an authenticated identity (GetClientID() != 0)", "HandleTunnelOpen", "identity")
		}
		// mapping-id branch: ValidateMapping(req.MappingID, conn.GetClientID()) succeeded
		// the two credential branches may live in HandleTunnelOpen or in helpers it calls (depth 2)
		var vm, sk []ssa.CallInstruction
		for _, g := range samePkgReach(h, 2) {
			if g.Parent() != nil {
				continue
			}
			for _, c := range Calls(g, false, "ValidateMapping") {
				// the mapping-id branch validates the id named in the request; the resume branch
				// (resumeTunnel) validates the id stored in the token and is checked separately
				if g == h || strings.Contains(originSummary(Arg(c, 0)), "TunnelOpenRequest.MappingID") {
					vm = append(vm, c)
				}
			}
			if g == h {
				sk = append(sk, Calls(g, false, "ServerTunnelHandler.validateWithSecretKey")...)
			}
		}
		r.Ob("R-C04-2", h.Pos(), len(vm) == 1 && len(sk) == 1, "the validator has the mapping-id branch and the secret branch", "HandleTunnelOpen", "branches")
		failureRefuses := func(fn *ssa.Function, c ssa.CallInstruction) bool {
			for _, b := range fn.Blocks {
				if ErrFailed(b, c) {
					hits := WalkFrom(b, nil, func(in ssa.Instruction) int {
						if ret, ok := in.(*ssa.Return); ok {
							if RetErrKind(ret) == "nil" {
								return Hit
							}
							return Stop
						}
						return Cont
					}, nil)
					if len(hits) > 0 {
						return false
					}
				}
			}
			return true
		}
		for _, c := range vm {
			g := c.Parent()
			o0, o1 := originSummary(Arg(c, 0)), originSummary(Arg(c, 1))
			r.Ob("R-C04-2", CallPos(c), strings.Contains(o0, "TunnelOpenRequest.MappingID") && strings.Contains(o1, "GetClientID"), "mapping-id branch validates (req.MappingID, this connection's client id)", "HandleTunnelOpen", "mapping-branch-args")
			ok := failureRefuses(g, c)
			if g != h {
				// the helper is given this connection and this request, and its failure refuses too
				n := 0
				Instrs(h, func(in ssa.Instruction) {
					hc, isC := in.(ssa.CallInstruction)
					if !isC || hc.Common().StaticCallee() != g {
						return
					}
					n++
					if !failureRefuses(h, hc) {
						ok = false
					}
					for _, a := range hc.Common().Args[1:] {
						if o := originSummary(a); !(o == "param:conn" || o == "param:req") {
							ok = false
						}
					}
				})
				if n == 0 {
					ok = false
				}
			}
			r.Ob("R-C04-2", CallPos(c), ok, "a failed mapping validation cannot end in success", "HandleTunnelOpen", "mapping-branch-failure-refuses")
		}
		for _, c := range sk {
			valid, party := false, false
			for _, ft := range Facts(c.Block()) {
				if cc, ok := stripValue(ft.Cond).(*ssa.Call); ok && CalleeOf(cc).Is("PortMapping.IsValid") && ft.Pol {
					valid = true
				}
			}
			// party comparison after the secret check, before success: every path from the accepted key
			// to a success return passes a block where the party comparison holds
			var okBlk *ssa.BasicBlock
			for _, b := range h.Blocks {
				if ErrOK(b, c) && (okBlk == nil || b.Dominates(okBlk)) {
					okBlk = b
				}
			}
			if okBlk != nil {
				eqEdges := 0
				hits := WalkFrom(okBlk, nil, func(in ssa.Instruction) int {
					if ret, ok := in.(*ssa.Return); ok && RetErrKind(ret) == "nil" {
						return Hit
					}
					return Cont
				}, func(b *ssa.BasicBlock, succ int) bool {
					iff, ok := b.Instrs[len(b.Instrs)-1].(*ssa.If)
					if !ok {
						return true
					}
					bo, ok := iff.Cond.(*ssa.BinOp)
					if !ok || (bo.Op != token.NEQ && bo.Op != token.EQL) {
						return true
					}
					o := originSummary(bo.X) + "|" + originSummary(bo.Y)
					if !(strings.Contains(o, "GetClientID") && (strings.Contains(o, "PortMapping.ListenClientID") || strings.Contains(o, "PortMapping.TargetClientID"))) {
						return true
					}
					eqEdge := 1
					if bo.Op == token.EQL {
						eqEdge = 0
					}
					if succ == eqEdge {
						eqEdges++
						return false // the legitimate way to success: identity equals a party of the mapping
					}
					return true
				})
				party = len(hits) == 0 && eqEdges >= 2
				r.Ob("R-C04-2", CallPos(c), party, fmt.Sprintf("secret branch succeeds only for the listen or target client of the mapping: with the two 'identity == party' edges removed no success return is reachable from the accepted key (%d such edges, %d other ways to success)", eqEdges, len(hits)), "HandleTunnelOpen", "secret-branch-party")
			} else {
				r.Fail("R-C04-2", CallPos(c), "success edge of the secret comparison not found", "HandleTunnelOpen", "secret-branch-party")
			}
			r.Ob("R-C04-2", CallPos(c), valid, "secret branch accepts a key only for a mapping that IsValid() (revoked / expired / inactive mappings never authorise)", "HandleTunnelOpen", "secret-branch-valid")
			// the secret compared is the request's, against the mapping looked up for req.MappingID
			o := originSummary(Arg(c, 0))
			r.Ob("R-C04-2", CallPos(c), strings.Contains(o, "TunnelOpenRequest.SecretKey"), "the secret compared is the one presented in the request", "HandleTunnelOpen", "secret-origin")
		}
		if vs := r.P.Fn(authPkg, "ServerTunnelHandler.validateWithSecretKey"); vs != nil {
			eq := false
			Instrs(vs, func(in ssa.Instruction) {
				if bo, ok := in.(*ssa.BinOp); ok && (bo.Op == token.NEQ || bo.Op == token.EQL) && strings.Contains(originSummary(bo.X)+originSummary(bo.Y), "PortMapping.SecretKey") {
					eq = true
				}
			})
			r.Ob("R-C04-2", vs.Pos(), eq, "the secret is compared with the mapping's SecretKey", "validateWithSecretKey", "secret-compare")
		}
		// resume branch only after identity
		for _, c := range Calls(h, false, "ServerTunnelHandler.resumeTunnel") {
			id := false
			for _, ft := range Facts(c.Block()) {
				if bo, ok := ft.Cond.(*ssa.BinOp); ok && bo.Op == token.EQL && !ft.Pol && strings.Contains(originSummary(bo.X), "GetClientID") {
					id = true
				}
			}
			r.Ob("R-C04-2", CallPos(c), id, "the resume branch is entered only for an authenticated identity", "HandleTunnelOpen", "resume-identity")
		}
	}
	if vm := r.need("R-C04-2", ccPkg, "Service.ValidateMapping"); vm != nil {
		gets := Calls(vm, false, "GetPortMapping")
		for _, ret := range Returns(vm) {
			if RetErrKind(ret) != "nil" {
				continue
			}
			c, pol, found := CallFact(ret.Block(), "PortMapping.CanBeAccessedBy")
			ok := found && pol && originSummary(Arg(c, 0)) == "param:clientID"
			r.Ob("R-C04-2", ret.Pos(), ok, "ValidateMapping succeeds only under CanBeAccessedBy(clientID)==true", "ValidateMapping", "predicate")
			// ... evaluated on the mapping as it is stored NOW: the mapping judged (and returned) is the
			// result of a repository read made by this very call for the id asked about (a remembered
			// copy keeps authorising after another node revoked, disabled or deleted the mapping)
			fresh := false
			if found {
				for _, g := range gets {
					if ErrOK(ret.Block(), g) && valueIsResultOf(Recv(c), g, 0) && originSummary(Arg(g, 0)) == "param:mappingID" &&
						valueIsResultOf(RetVal(ret, 0), g, 0) {
						fresh = true
					}
				}
			}
			r.Ob("R-C04-2", ret.Pos(), fresh, "the mapping ValidateMapping judges and returns is read from the repository by this call, for the id asked about (no remembered copy)", "ValidateMapping", "judges-fresh-read")
		}
	}
	// the identity HandleTunnelOpen relies on (GetClientID() != 0 means authenticated) is only ever
	// written at proof points: the same who-may-grant rule as C03, a necessary condition here
	checkIdentityWriters(r, "R-C04-1")

	// ---- R-C04-4 model predicates -----------------------------------------------------------------
	const modPkg = "internal/cloud/models"
	// what holds whenever a bool predicate answers true: the facts common to all its possibly-true
	// returns, including the conjuncts of a returned `a && b && c` (any layout of ifs / one expression)
	if iv := r.need("R-C04-4", modPkg, "PortMapping.IsValid"); iv != nil {
		rev, exp, act := false, false, false
		for _, ft := range summariseHelper(iv).isTrue {
			if _, f, _, ok := FieldOf(ft.Cond); ok && f == "IsRevoked" && !ft.Pol {
				rev = true
			}
			if c, ok := stripValue(ft.Cond).(*ssa.Call); ok && CalleeOf(c).Is("PortMapping.IsExpired") && !ft.Pol {
				exp = true
			}
			if bo, ok := ft.Cond.(*ssa.BinOp); ok && strings.Contains(originSummary(bo.X), "PortMapping.Status") {
				if (bo.Op == token.NEQ && !ft.Pol) || (bo.Op == token.EQL && ft.Pol) {
					if k, isK := stripValue(bo.Y).(*ssa.Const); isK && k.Value != nil && strings.Contains(k.Value.String(), "active") {
						act = true
					}
				}
			}
		}
		r.Ob("R-C04-4", iv.Pos(), rev && exp && act, fmt.Sprintf("IsValid returns true only if not revoked (%v), not expired (%v) and status active (%v)", rev, exp, act), "PortMapping.IsValid", "predicate")
	}
	if ca := r.need("R-C04-4", modPkg, "PortMapping.CanBeAccessedBy"); ca != nil {
		valid, cmp := false, false
		for _, ft := range summariseHelper(ca).isTrue {
			if c, ok := stripValue(ft.Cond).(*ssa.Call); ok && CalleeOf(c).Is("PortMapping.IsValid") && ft.Pol {
				valid = true
			}
			if bo, ok := ft.Cond.(*ssa.BinOp); ok && ((bo.Op == token.EQL && ft.Pol) || (bo.Op == token.NEQ && !ft.Pol)) {
				o := originSummary(bo.X) + "|" + originSummary(bo.Y)
				if strings.Contains(o, "PortMapping.ListenClientID") && strings.Contains(o, "param:clientID") {
					cmp = true
				}
			}
		}
		r.Ob("R-C04-4", ca.Pos(), valid && cmp, fmt.Sprintf("CanBeAccessedBy can be true only under IsValid() (%v) and the listen-client comparison (%v)", valid, cmp), "PortMapping.CanBeAccessedBy", "predicate")
	}
	if ie := r.need("R-C04-4", modPkg, "PortMapping.IsExpired"); ie != nil {
		ok := len(Calls(ie, false, "time:Time.After")) == 1
		r.Ob("R-C04-4", ie.Pos(), ok, "IsExpired compares the clock with ExpiresAt", "PortMapping.IsExpired", "predicate")
	}
}

func fnList(p *Prog, pkg string, names ...string) []*ssa.Function {
	var out []*ssa.Function
	for _, n := range names {
		if f := p.Fn(pkg, n); f != nil {
			out = append(out, f)
		}
	}
	return out
}

func isListenCompare(v ssa.Value) bool {
	bo, ok := v.(*ssa.BinOp)
	if !ok || bo.Op != token.EQL {
		return false
	}
	return strings.Contains(originSummary(bo.X)+originSummary(bo.Y), "PortMapping.ListenClientID")
}

// partyChecked: block b is reached only when NOT (id != Listen && id != Target),
// i.e. it is the join of the two false edges of the refusal `if a != L && a != T {return err}`,
// or dominated by an equality with one of them.
func partyChecked(b *ssa.BasicBlock, idCall string) bool {
	return partyCheckedWithin(b, nil, idCall)
}

// partyCheckedWithin is partyChecked restricted to dominators that are themselves dominated by `within`.
func partyCheckedWithin(b, within *ssa.BasicBlock, idCall string) bool {
	isCmp := func(v ssa.Value, field string) (*ssa.BinOp, bool) {
		bo, ok := v.(*ssa.BinOp)
		if !ok || (bo.Op != token.NEQ && bo.Op != token.EQL) {
			return nil, false
		}
		o := originSummary(bo.X) + "|" + originSummary(bo.Y)
		return bo, strings.Contains(o, "PortMapping."+field) && (strings.Contains(o, idCall) || strings.Contains(o, "param:clientID") || strings.Contains(o, "clientID"))
	}
	for d := b; d != nil; d = d.Idom() {
		if within != nil && !(within == d || within.Dominates(d)) {
			break
		}
		// direct dominance by an equality fact
		for _, ft := range Facts(d) {
			for _, fld := range []string{"ListenClientID", "TargetClientID"} {
				if bo, ok := isCmp(ft.Cond, fld); ok {
					if (bo.Op == token.EQL && ft.Pol) || (bo.Op == token.NEQ && !ft.Pol) {
						return true
					}
				}
			}
		}
		// join of the two false edges
		if len(d.Preds) >= 2 {
			seen := map[string]bool{}
			all := true
			for _, p := range d.Preds {
				ok := false
				if len(p.Instrs) > 0 {
					if iff, isIf := p.Instrs[len(p.Instrs)-1].(*ssa.If); isIf {
						idx := 0
						if p.Succs[1] == d {
							idx = 1
						}
						for _, fld := range []string{"ListenClientID", "TargetClientID"} {
							if bo, isC := isCmp(iff.Cond, fld); isC {
								// edge on which "id == field" holds
								eqEdge := 1
								if bo.Op == token.EQL {
									eqEdge = 0
								}
								if idx == eqEdge {
									ok = true
									seen[fld] = true
								}
							}
						}
					}
				}
				if !ok {
					all = false
				}
			}
			if all && seen["ListenClientID"] && seen["TargetClientID"] {
				return true
			}
		}
	}
	return false
}

// partyOnlyPaths: starting at block start of f, remove the edges on which the
// identity (matching idMatch in its origin) equals the listen or target client
// of the mapping; returns how many such edges exist and whether a success
// return is still reachable without them.
func partyOnlyPaths(start *ssa.BasicBlock, idMatch string) (eqEdges int, otherWay bool) {
	hits := WalkFrom(start, nil, func(in ssa.Instruction) int {
		if ret, ok := in.(*ssa.Return); ok && RetErrKind(ret) == "nil" {
			return Hit
		}
		return Cont
	}, func(b *ssa.BasicBlock, succ int) bool {
		iff, ok := b.Instrs[len(b.Instrs)-1].(*ssa.If)
		if !ok {
			return true
		}
		// a party predicate of the model (`mapping.CanBeAccessedBy(clientID)`): whenever it answers true,
		// the id it was given equals the mapping's listen or target client
		if c0, pol := normCond(iff.Cond, true); true {
			if pc, isCall := stripValue(c0).(*ssa.Call); isCall {
				if h := pc.Common().StaticCallee(); h != nil && len(h.Blocks) > 0 && h.Pkg != nil && strings.HasPrefix(h.Pkg.Pkg.Path(), Module) {
					idParam := -1
					for i, a := range pc.Call.Args {
						if strings.Contains(originDeep(a, 2), idMatch) {
							idParam = i
						}
					}
					if idParam >= 0 && idParam < len(h.Params) {
						for _, ft := range summariseHelper(h).isTrue {
							hb, isB := ft.Cond.(*ssa.BinOp)
							if !isB || !((hb.Op == token.EQL && ft.Pol) || (hb.Op == token.NEQ && !ft.Pol)) {
								continue
							}
							ho := originSummary(hb.X) + "|" + originSummary(hb.Y)
							if strings.Contains(ho, "param:"+canonParamName(h.Params[idParam])) && (strings.Contains(ho, "PortMapping.ListenClientID") || strings.Contains(ho, "PortMapping.TargetClientID")) {
								trueEdge := 1
								if pol {
									trueEdge = 0
								}
								if succ == trueEdge {
									eqEdges++
									return false
								}
								return true
							}
						}
					}
				}
			}
		}
		bo, ok := iff.Cond.(*ssa.BinOp)
		if !ok || (bo.Op != token.NEQ && bo.Op != token.EQL) {
			return true
		}
		o := originDeep(bo.X, 2) + "|" + originDeep(bo.Y, 2)
		if !(strings.Contains(o, idMatch) && (strings.Contains(o, "PortMapping.ListenClientID") || strings.Contains(o, "PortMapping.TargetClientID"))) {
			return true
		}
		eqEdge := 1
		if bo.Op == token.EQL {
			eqEdge = 0
		}
		if succ == eqEdge {
			eqEdges++
			return false
		}
		return true
	})
	return eqEdges, len(hits) > 0
}

// lookupKeyOrigin: v is the result of the repository lookup `name(key)`, directly or through
// same-module helpers that hand the looked-up value back on their nil-error returns; returns the
// origin of the key in the terms of the function v lives in ("" when v is anything else).
func lookupKeyOrigin(v ssa.Value, name string, depth int) string {
	c, idx := CallOfValue(v)
	if c == nil {
		return ""
	}
	if CalleeOf(c).Name == name {
		return originSummary(Arg(c, 0))
	}
	h := c.Common().StaticCallee()
	if depth <= 0 || h == nil || len(h.Blocks) == 0 || h.Pkg == nil || !strings.HasPrefix(h.Pkg.Pkg.Path(), Module) {
		return ""
	}
	out := ""
	for _, ret := range Returns(h) {
		if RetErrKind(ret) != "nil" || idx >= len(ret.Results) {
			continue
		}
		o := lookupKeyOrigin(RetVal(ret, idx), name, depth-1)
		if o == "" {
			return ""
		}
		for i, hp := range h.Params {
			if o == "param:"+canonParamName(hp) && i < len(c.Call.Args) {
				o = originSummary(c.Call.Args[i])
			}
		}
		if out != "" && out != o {
			return ""
		}
		out = o
	}
	return out
}
