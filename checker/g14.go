package main

import (
	"go/token"
	"go/types"
	"strings"

	"golang.org/x/tools/go/ssa"
)

// releasedParam: the index of the parameter of h that h gives back to a pool (sync.Pool.Put directly,
// or through another function of the module that does), or -1.  Memoised.
var releaseMemo = map[*ssa.Function]int{}

func releasedParam(h *ssa.Function, depth int) int {
	if h == nil || len(h.Blocks) == 0 || depth > 3 {
		return -1
	}
	if v, ok := releaseMemo[h]; ok {
		return v
	}
	releaseMemo[h] = -1
	res := -1
	Instrs(h, func(in ssa.Instruction) {
		ci, ok := in.(ssa.CallInstruction)
		if !ok || res >= 0 {
			return
		}
		var given ssa.Value
		if CalleeOf(ci).Is("sync:Pool.Put") {
			given = Arg(ci, 0)
		} else if g := ci.Common().StaticCallee(); g != nil && g != h {
			if k := releasedParam(g, depth+1); k >= 0 {
				args := ci.Common().Args
				if k < len(args) {
					given = args[k]
				}
			}
		}
		if given == nil {
			return
		}
		for i, p := range h.Params {
			if _, isSl := p.Type().Underlying().(*types.Slice); !isSl {
				if _, isPt := p.Type().Underlying().(*types.Pointer); !isPt {
					continue
				}
			}
			if aliases(given, p, map[ssa.Value]bool{}) {
				res = i
			}
		}
	})
	releaseMemo[h] = res
	return res
}

// G14 a buffer given back to its pool while a reference to it leaves the function: returned, sent on
// a channel, or stored into a field.  The pool hands the same storage to the next taker, which
// overwrites what the holder of the reference still reads.  The give-back counts when it is deferred
// (it runs after every escape) or when the escape can be followed by it.
func runReleasedBufferEscapes(r *Report, rule string, f *ssa.Function) int {
	type rel struct {
		in       ssa.Instruction
		buf      ssa.Value
		deferred bool
	}
	var rels []rel
	Instrs(f, func(in ssa.Instruction) {
		ci, ok := in.(ssa.CallInstruction)
		if !ok {
			return
		}
		if _, isGo := in.(*ssa.Go); isGo {
			return
		}
		var given ssa.Value
		if CalleeOf(ci).Is("sync:Pool.Put") {
			given = Arg(ci, 0)
		} else if g := ci.Common().StaticCallee(); g != nil {
			if k := releasedParam(g, 0); k >= 0 && k < len(ci.Common().Args) {
				given = ci.Common().Args[k]
			}
		}
		if given == nil {
			return
		}
		_, isDefer := in.(*ssa.Defer)
		rels = append(rels, rel{in, given, isDefer})
	})
	if len(rels) == 0 {
		return 0
	}
	fn := r.P.FuncName(f)
	// the storage root of a released value: strip re-slices and loads of single-store cells
	root := func(v ssa.Value) ssa.Value {
		for i := 0; i < 8; i++ {
			switch x := v.(type) {
			case *ssa.Slice:
				v = x.X
				continue
			case *ssa.MakeInterface:
				v = x.X
				continue
			case *ssa.ChangeType:
				v = x.X
				continue
			case *ssa.UnOp:
				if al, ok := x.X.(*ssa.Alloc); ok && x.Op == token.MUL {
					if sts := storesTo(al); len(sts) == 1 {
						v = sts[0].Val
						continue
					}
				}
			}
			break
		}
		return v
	}
	for _, rl := range rels {
		b := root(rl.buf)
		if _, isParam := b.(*ssa.Parameter); isParam {
			continue // the caller's buffer: what the caller does with it is the caller's business
		}
		follows := func(esc ssa.Instruction) bool {
			if rl.deferred {
				return true
			}
			if esc.Block() == rl.in.Block() {
				return Before(esc, rl.in)
			}
			return CanReach(esc.Block(), rl.in.Block())
		}
		holds := func(v ssa.Value) bool { return v != nil && aliases(v, b, map[ssa.Value]bool{}) }
		Instrs(f, func(in ssa.Instruction) {
			how := ""
			switch x := in.(type) {
			case *ssa.Return:
				for i := range x.Results {
					if holds(RetVal(x, i)) {
						how = "returned"
					}
				}
			case *ssa.Send:
				if holds(x.X) || structHolds(x.X, holds) {
					how = "sent on a channel"
				}
			case *ssa.Select:
				// a send that is one case of a select: the other cases may give the buffer back because it
				// was NOT sent, so only a deferred give-back (which runs whichever case fired) counts
				if rl.deferred {
					for _, st := range x.States {
						if st.Dir == types.SendOnly && (holds(st.Send) || structHolds(st.Send, holds)) {
							how = "sent on a channel"
						}
					}
				}
			case *ssa.Store:
				if !holds(x.Val) {
					return
				}
				switch a := x.Addr.(type) {
				case *ssa.FieldAddr:
					if _, local := stripValue(a.X).(*ssa.Alloc); !local {
						how = "stored in field " + fieldDesc(a.X.Type(), a.Field)
					}
				case *ssa.Global:
					how = "stored in a package variable"
				}
			case *ssa.MapUpdate:
				if holds(x.Value) {
					how = "stored in a map"
				}
			}
			if how == "" || !follows(in) {
				return
			}
			r.Fail(rule, in.Pos(), "a buffer that this function gives back to its pool ("+r.P.Pos(rl.in.Pos())+") is "+how+" first: the next taker of the pooled storage overwrites what the holder still reads", fn, "released-buffer-escapes:"+how)
		})
	}
	return len(rels)
}

// structHolds: a struct value built in place one of whose fields holds the buffer.
func structHolds(v ssa.Value, holds func(ssa.Value) bool) bool {
	u, ok := v.(*ssa.UnOp)
	if !ok || u.Op != token.MUL {
		return false
	}
	al, ok := u.X.(*ssa.Alloc)
	if !ok || al.Referrers() == nil {
		return false
	}
	for _, ref := range *al.Referrers() {
		fa, ok := ref.(*ssa.FieldAddr)
		if !ok || fa.Referrers() == nil {
			continue
		}
		for _, r2 := range *fa.Referrers() {
			if st, ok := r2.(*ssa.Store); ok && st.Addr == ssa.Value(fa) && holds(st.Val) {
				return true
			}
		}
	}
	return false
}

// G15 a buffered reader created for one call over a stream that outlives the call: what it reads
// ahead of the record it was asked for is dropped when the function returns, so the next read of the
// stream (by this function again, or by whoever is handed the raw connection) starts in the middle.
func runReadAheadDiscarded(r *Report, rule string, f *ssa.Function) int {
	n := 0
	Instrs(f, func(in ssa.Instruction) {
		c, ok := in.(*ssa.Call)
		if !ok {
			return
		}
		var src ssa.Value
		if CalleeOf(c).Is("bufio:NewReader", "bufio:NewReaderSize", "bufio:NewScanner") {
			src = Arg(c, 0)
		} else if h := c.Common().StaticCallee(); h != nil {
			// a constructor of the module that wraps its parameter in a buffered reader and returns the wrapper
			if k := bufferingCtor(h); k >= 0 && k < len(c.Common().Args) {
				src = c.Common().Args[k]
			}
		}
		if src == nil {
			return
		}
		n++
		outlives := false
		for _, rt := range Origins(src) {
			switch rt.Kind {
			case "param", "field", "freevar":
				outlives = true
			}
		}
		if !outlives {
			return
		}
		// kept: stored in a field / package variable / map, returned, sent, or captured by a closure that is kept
		kept := false
		handedOn := map[ssa.Value]bool{} // what a method of the wrapper returned: the stream goes on through it
		var visit func(v ssa.Value, d int)
		visit = func(v ssa.Value, d int) {
			if d > 6 || v.Referrers() == nil || kept {
				return
			}
			for _, ref := range *v.Referrers() {
				if ci, isCall := ref.(ssa.CallInstruction); isCall && handedOn[v] {
					// the value the wrapper handed on is given to whoever continues with the stream
					for _, a := range ci.Common().Args {
						if a == v {
							kept = true
						}
					}
				}
				switch x := ref.(type) {
				case *ssa.Return, *ssa.Send, *ssa.MapUpdate:
					kept = true
				case *ssa.Store:
					if x.Val != v {
						continue
					}
					switch a := x.Addr.(type) {
					case *ssa.Alloc:
						handedOn[a] = handedOn[a] || handedOn[v]
						visit(a, d+1)
					default:
						kept = true
					}
				case *ssa.UnOp:
					handedOn[x] = handedOn[x] || handedOn[v]
					visit(x, d+1)
				case *ssa.MakeInterface:
					handedOn[x] = handedOn[x] || handedOn[v]
					visit(x, d+1)
				case *ssa.ChangeType:
					handedOn[x] = handedOn[x] || handedOn[v]
					visit(x, d+1)
				case *ssa.Phi:
					handedOn[x] = handedOn[x] || handedOn[v]
					visit(x, d+1)
				case *ssa.MakeClosure:
					kept = true
				case ssa.CallInstruction:
					// handed to a constructor that wraps it (textproto.NewReader, a struct literal helper):
					// the result of the call carries it; follow the result
					if cv, ok := x.(ssa.Value); ok && x.Common().Value != v {
						switch cv.Type().Underlying().(type) {
						case *types.Pointer, *types.Interface:
							// a wrapper built around it, or what a method of the wrapper hands on
							// (`conn = hc.detach()`: the stream continues through the buffered reader)
							if args := x.Common().Args; !x.Common().IsInvoke() && x.Common().Signature().Recv() != nil && len(args) > 0 && args[0] == v && x.Common().StaticCallee() != nil && x.Common().StaticCallee().Pkg != nil && strings.HasPrefix(x.Common().StaticCallee().Pkg.Pkg.Path(), Module) {
								handedOn[cv] = true
							}
							visit(cv, d+1)
						}
					}
				}
			}
		}
		visit(c, 0)
		if kept {
			return
		}
		r.Fail(rule, c.Pos(), "a buffered reader is created for this call only over "+originSummary(src)+", which outlives the call: bytes it reads ahead of what this call consumes are lost to the next reader of that stream", r.P.FuncName(f), "read-ahead-discarded:"+originSummary(src))
	})
	return n
}

var bufCtorMemo = map[*ssa.Function]int{}

// bufferingCtor: h stores bufio.NewReader*(param k) into a struct it builds and returns: the index k, or -1.
func bufferingCtor(h *ssa.Function) int {
	if v, ok := bufCtorMemo[h]; ok {
		return v
	}
	bufCtorMemo[h] = -1
	if len(h.Blocks) == 0 || h.Pkg == nil || h.Signature.Results().Len() == 0 {
		return -1
	}
	res := -1
	Instrs(h, func(in ssa.Instruction) {
		c, ok := in.(*ssa.Call)
		if !ok || !CalleeOf(c).Is("bufio:NewReader", "bufio:NewReaderSize") || c.Referrers() == nil {
			return
		}
		stored := false
		for _, ref := range *c.Referrers() {
			if st, ok := ref.(*ssa.Store); ok && st.Val == ssa.Value(c) {
				if fa, ok := st.Addr.(*ssa.FieldAddr); ok {
					if al, ok := stripValue(fa.X).(*ssa.Alloc); ok && al.Heap {
						stored = true
					}
				}
			}
		}
		if !stored {
			return
		}
		a0 := stripValue(Arg(c, 0))
		if mi, ok := a0.(*ssa.MakeInterface); ok {
			a0 = stripValue(mi.X)
		}
		for i, p := range h.Params {
			if a0 == ssa.Value(p) {
				res = i
			}
		}
	})
	bufCtorMemo[h] = res
	return res
}
