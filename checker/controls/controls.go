// Package controls holds tiny conforming / violating examples, one pair per
// analysis primitive of the checker. Every check run loads this package and
// demands that the primitive accepts the first and rejects the second of each
// pair; otherwise the run is reported as broken (a primitive that accepts
// everything passes vacuously forever).
package controls

import (
	"encoding/json"
	"errors"
	"io"
	"sync"
	"time"
)

type guarded struct {
	mu sync.RWMutex
	m  map[string]int
}

func verify() bool   { return true }
func grant()         {}
func release()       {}
func work() error    { return nil }
func acquire() error { return nil }

// ---- Facts / dominance -----------------------------------------------------

func DomGood() {
	if !verify() {
		return
	}
	grant()
}

func DomBad() {
	if verify() {
		return
	}
	grant()
}

// ---- ErrOK ------------------------------------------------------------------

func ErrOKGood() {
	if err := acquire(); err != nil {
		return
	}
	grant()
}

func ErrOKBad() {
	err := acquire()
	if err != nil {
		_ = err
	}
	grant()
}

// ---- exit obligation (ReachesWithout + deferred closures) -----------------

func ExitGood() error {
	if err := acquire(); err != nil {
		return err
	}
	defer func() { release() }()
	if err := work(); err != nil {
		return err
	}
	return nil
}

func ExitBad() error {
	if err := acquire(); err != nil {
		return err
	}
	if err := work(); err != nil {
		return err // release forgotten on this exit
	}
	release()
	return nil
}

// ---- lockset ----------------------------------------------------------------

func (g *guarded) LockGood(k string) int {
	g.mu.RLock()
	defer g.mu.RUnlock()
	return g.m[k]
}

func (g *guarded) LockBad(k string) int {
	g.mu.RLock()
	g.mu.RUnlock()
	return g.m[k]
}

// one critical section vs. a conditional release/re-acquire between check and act
func (g *guarded) SectionGood(k string, slow func()) bool {
	g.mu.Lock()
	defer g.mu.Unlock()
	if _, ok := g.m[k]; ok {
		return false
	}
	g.m[k] = 1
	return true
}

func (g *guarded) SectionBad(k string, slow func()) bool {
	g.mu.Lock()
	defer g.mu.Unlock()
	if _, ok := g.m[k]; ok {
		return false
	}
	if slow != nil {
		g.mu.Unlock()
		slow()
		g.mu.Lock()
	}
	g.m[k] = 1
	return true
}

// ---- read shape ---------------------------------------------------------------

func ReadGood(r io.Reader, n int) ([]byte, error) {
	buf := make([]byte, n)
	total := 0
	for total < n {
		k, err := r.Read(buf[total:])
		if err != nil {
			return nil, err
		}
		total += k
	}
	return buf, nil
}

func ReadBad(r io.Reader) ([]byte, error) {
	buf := make([]byte, 4)
	k, err := r.Read(buf)
	if err != nil || k != 4 {
		return nil, errors.New("short")
	}
	return buf, nil
}

func RemainGood(r io.Reader, size uint32) ([]byte, error) {
	want := int(size)
	buf := make([]byte, want)
	filled := 0
	for remaining := want; remaining > 0; remaining = want - filled {
		k, err := r.Read(buf[filled:])
		if err != nil {
			return nil, err
		}
		filled += k
	}
	return buf[:filled], nil
}

// the remainder is recomputed against the wrong quantity: the loop can stop early
func RemainBad(r io.Reader, size uint32) ([]byte, error) {
	want := int(size)
	buf := make([]byte, want)
	filled := 0
	for remaining := want; remaining > 0; remaining = remaining - want {
		k, err := r.Read(buf[filled:])
		if err != nil {
			return nil, err
		}
		filled += k
	}
	return buf[:filled], nil
}

type hello struct{ ID int }

func NullDecodeGood(b []byte) (int, error) {
	h := &hello{}
	if err := json.Unmarshal(b, &h); err != nil {
		return 0, err
	}
	if h == nil {
		return 0, errors.New("null")
	}
	return h.ID, nil
}

func NullDecodeBad(b []byte) (int, error) {
	h := &hello{}
	if err := json.Unmarshal(b, &h); err != nil {
		return 0, err
	}
	return h.ID, nil
}

func OnlyTimeoutGood(err error) bool {
	for err != nil {
		if ne, ok := err.(interface {
			Timeout() bool
			Temporary() bool
		}); ok && ne.Timeout() && ne.Temporary() {
			return true
		}
		u, ok := err.(interface{ Unwrap() error })
		if !ok {
			break
		}
		err = u.Unwrap()
	}
	return false
}

func OnlyTimeoutBad(err error) bool {
	for err != nil {
		if ne, ok := err.(interface{ Timeout() bool }); ok && ne.Timeout() {
			return true
		}
		if _, ok := err.(interface{ Retryable() bool }); ok {
			return true
		}
		u, ok := err.(interface{ Unwrap() error })
		if !ok {
			break
		}
		err = u.Unwrap()
	}
	return false
}

var bufPool = sync.Pool{New: func() any { b := make([]byte, 64); return &b }}

func PoolGood(r io.Reader) ([]byte, error) {
	bp := bufPool.Get().(*[]byte)
	defer bufPool.Put(bp)
	n, err := r.Read(*bp)
	if err != nil {
		return nil, err
	}
	out := make([]byte, n)
	copy(out, (*bp)[:n])
	return out, nil
}

func PoolBad(r io.Reader) ([]byte, error) {
	bp := bufPool.Get().(*[]byte)
	defer bufPool.Put(bp)
	n, err := r.Read(*bp)
	if err != nil {
		return nil, err
	}
	return (*bp)[:n], nil
}

// flag-carried feasibility: the use is reachable only with found == true
func FlagGood(m map[string]*hello, k string) int {
	h, found := m[k]
	if found && h.ID < 0 {
		found = false
	}
	if !found {
		return 0
	}
	return use(h)
}

func FlagBad(m map[string]*hello, k string) int {
	h, found := m[k]
	if found && h.ID < 0 {
		found = false
	}
	if found {
		return 0
	}
	return use(h)
}

func use(h *hello) int { return h.ID }

func AtLeastGood(r io.Reader, n int) ([]byte, error) {
	buf := make([]byte, n)
	_, err := io.ReadAtLeast(r, buf, len(buf))
	return buf, err
}

func AtLeastBad(r io.Reader, n int) ([]byte, error) {
	buf := make([]byte, n)
	_, err := io.ReadAtLeast(r, buf, 1)
	return buf, err
}

// ---- read error leaves the loop --------------------------------------------------

func LoopGood(r io.Reader, w io.Writer) {
	buf := make([]byte, 16)
	var rerr error
	for {
		n, err := r.Read(buf)
		if n > 0 {
			w.Write(buf[:n])
		}
		if err != nil {
			rerr = err
		}
		if rerr != nil {
			break
		}
	}
}

func LoopBad(r io.Reader, w io.Writer) {
	buf := make([]byte, 16)
	pending := 0
	for {
		n, err := r.Read(buf)
		pending += n
		if err != nil && pending == 0 {
			break
		}
		w.Write(buf[:n])
	}
}

// ---- writer retention ------------------------------------------------------------------

type qwriter struct{ ch chan []byte }

func (q *qwriter) WriteGood(p []byte) (int, error) {
	c := make([]byte, len(p))
	copy(c, p)
	q.ch <- c
	return len(p), nil
}

func (q *qwriter) WriteBad(p []byte) (int, error) {
	q.ch <- p
	return len(p), nil
}

// ---- zero-means-never expiry ------------------------------------------------------------

type item struct{ Expiration time.Time }

func ExpGood(it *item) bool {
	return !it.Expiration.IsZero() && time.Now().After(it.Expiration)
}

func ExpBad(it *item) bool {
	return time.Now().After(it.Expiration)
}
