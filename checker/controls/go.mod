module controls

go 1.24
