package main

import (
	"fmt"
	"go/constant"
	"go/token"
	"go/types"

	"golang.org/x/tools/go/ssa"
)

// G13 constant bound on a value of unchecked length: `s[:8]`, `b[4]`, `b[2:]` applied to a string or
// slice that is neither built in this function with a sufficient length nor preceded by any test of
// its length panics for a shorter value.  Only the blunt case is decided: a constant bound, a value
// that is not a parameter (a caller may have checked it), and no dominating condition that mentions
// the value's length, its emptiness or a prefix of it at all.
func runConstBoundUnchecked(r *Report, rule string, f *ssa.Function) int {
	n := 0
	Instrs(f, func(in ssa.Instruction) {
		var x ssa.Value
		need := int64(0)
		what := ""
		switch s := in.(type) {
		case *ssa.Slice:
			x = s.X
			if s.High != nil {
				if k, ok := ConstInt(s.High); ok && k > 0 {
					need, what = k, fmt.Sprintf("[:%d]", k)
				}
			}
			if s.Low != nil && need == 0 {
				if k, ok := ConstInt(s.Low); ok && k > 0 {
					need, what = k, fmt.Sprintf("[%d:]", k)
				}
			}
		case *ssa.IndexAddr:
			x = s.X
			if k, ok := ConstInt(s.Index); ok && k >= 0 {
				need, what = k+1, fmt.Sprintf("[%d]", k)
			}
		case *ssa.Lookup:
			if _, isMap := s.X.Type().Underlying().(*types.Map); isMap {
				return
			}
			x = s.X
			if k, ok := ConstInt(s.Index); ok && k >= 0 {
				need, what = k+1, fmt.Sprintf("[%d]", k)
			}
		}
		// a computed bound whose largest possible value is known (a constant plus a byte or 16-bit field
		// of the input) applied to a buffer of fixed capacity: the largest value must fit
		if sl, ok := in.(*ssa.Slice); ok && sl.High != nil {
			if _, isConst := ConstInt(sl.High); isConst {
				// constant bounds are decided below
			} else if mx, ok := maxValue(sl.High, 0); ok {
				if cp, ok := fixedCap(sl.X, 0); ok {
					n++
					if mx > cp && !mentionedInFacts(in.Block(), sl.High) {
						r.Fail(rule, in.Pos(), fmt.Sprintf("slice bound %s can be as large as %d but the buffer holds %d: the largest input value panics", originSummary(sl.High), mx, cp), r.P.FuncName(f), fmt.Sprintf("bound-exceeds-buffer:%d>%d", mx, cp))
					}
				}
			}
		}
		// third form: an index that a loop counts down (i = i - k) is used without any lower-bound test of
		// it on the way: the loop ends only when the data says so, and below zero the index panics
		// (`for !boundary(b[i]) { i-- }` on hostile bytes)
		{
			var idx ssa.Value
			var on ssa.Value
			switch s := in.(type) {
			case *ssa.IndexAddr:
				idx, on = s.Index, s.X
			case *ssa.Lookup:
				if _, isMap := s.X.Type().Underlying().(*types.Map); !isMap {
					idx, on = s.Index, s.X
				}
			}
			if ph, ok := stripValue(idx).(*ssa.Phi); ok && on != nil {
				countsDown := false
				for _, e := range ph.Edges {
					if bo, ok := stripValue(e).(*ssa.BinOp); ok && bo.Op == token.SUB && stripValue(bo.X) == ssa.Value(ph) {
						if k, ok := ConstInt(bo.Y); ok && k > 0 {
							countsDown = true
						}
					}
				}
				if countsDown {
					n++
					guarded := false
					for _, ft := range Facts(in.Block()) {
						bo, ok := ft.Cond.(*ssa.BinOp)
						if !ok {
							continue
						}
						for _, side := range []ssa.Value{bo.X, bo.Y} {
							sv := stripValue(side)
							if sv == ssa.Value(ph) {
								guarded = true
							}
							if b2, ok := sv.(*ssa.BinOp); ok && (stripValue(b2.X) == ssa.Value(ph) || stripValue(b2.Y) == ssa.Value(ph)) {
								guarded = true
							}
						}
					}
					if !guarded {
						r.Fail(rule, in.Pos(), "an index that the loop counts down is used without a test of it on the way ("+originSummary(on)+"): when the data never satisfies the loop's own condition the index passes zero and panics", r.P.FuncName(f), "countdown-index-unguarded")
					}
				}
			}
		}
		if x == nil || need == 0 {
			return
		}
		switch t := x.Type().Underlying().(type) {
		case *types.Slice:
		case *types.Basic:
			if t.Info()&types.IsString == 0 {
				return
			}
		default:
			return // arrays and pointers to arrays are checked by the compiler
		}
		n++
		if lengthKnown(x, need, 0) || lengthTested(in.Block(), x, need) {
			return
		}
		r.Fail(rule, in.Pos(), fmt.Sprintf("%s applied to %s, whose length is never tested on the way here and which is not built here with that length: a shorter value panics", what, originSummary(x)), r.P.FuncName(f), "const-bound:"+what+":"+originSummary(x))
	})
	return n
}

// lengthKnown: the value is built in this function with at least `need` elements, or comes from a
// parameter or a place this analysis does not follow (a caller or producer may guarantee the length).
func lengthKnown(x ssa.Value, need int64, depth int) bool {
	if depth > 6 {
		return true
	}
	switch v := x.(type) {
	case *ssa.Parameter, *ssa.FreeVar, *ssa.Global:
		return true
	case *ssa.Const:
		if v.Value != nil && v.Value.Kind() == constant.String {
			return int64(len(constant.StringVal(v.Value))) >= need
		}
		return false
	case *ssa.MakeSlice:
		k, ok := ConstInt(v.Len)
		return !ok || k >= need
	case *ssa.Slice:
		if _, isSl := v.X.Type().Underlying().(*types.Slice); !isSl {
			if _, isStr := v.X.Type().Underlying().(*types.Basic); !isStr {
				return true // slice of an array
			}
		}
		if v.High != nil {
			hk, ok := ConstInt(v.High)
			if !ok {
				return true // a computed bound: not decided
			}
			lk := int64(0)
			if v.Low != nil {
				l, ok := ConstInt(v.Low)
				if !ok {
					return true
				}
				lk = l
			}
			return hk-lk >= need
		}
		if v.Low != nil {
			if lk, ok := ConstInt(v.Low); ok {
				return lengthKnown(v.X, need+lk, depth+1)
			}
			return true
		}
		return lengthKnown(v.X, need, depth+1)
	case *ssa.Phi:
		for _, e := range v.Edges {
			if !lengthKnown(e, need, depth+1) {
				return false
			}
		}
		return true
	case *ssa.ChangeType:
		return lengthKnown(v.X, need, depth+1)
	case *ssa.Convert:
		return lengthKnown(v.X, need, depth+1)
	case *ssa.UnOp:
		if v.Op != token.MUL {
			return true
		}
		// a load: of a local cell with one store -> follow; of a field / element -> unknown length
		if al, ok := v.X.(*ssa.Alloc); ok {
			sts := storesTo(al)
			if len(sts) == 1 && !closureWrites(al) {
				return lengthKnown(sts[0].Val, need, depth+1)
			}
			return true
		}
		if fa, ok := v.X.(*ssa.FieldAddr); ok {
			return ownState(fa.X, 0)
		}
		return true
	case *ssa.Call:
		// a call result: only a few producers have a known length; the others are not decided here
		return true
	case *ssa.Extract:
		return true
	case *ssa.Field:
		return ownState(v.X, 0)
	}
	return true
}

// ownState: the place is reached from the method's receiver: the object's own state, whose shape its
// methods maintain (a message slot always carries one buffer); not a value handed in from outside.
func ownState(v ssa.Value, d int) bool {
	if d > 8 || v == nil {
		return true
	}
	switch x := v.(type) {
	case *ssa.Parameter:
		f := x.Parent()
		return f != nil && f.Signature.Recv() != nil && len(f.Params) > 0 && f.Params[0] == x
	case *ssa.FreeVar:
		return true
	case *ssa.MakeSlice, *ssa.Alloc:
		return true // a structure this function built itself and fills itself: not a value handed in
	case *ssa.FieldAddr:
		return ownState(x.X, d+1)
	case *ssa.Field:
		return ownState(x.X, d+1)
	case *ssa.IndexAddr:
		return ownState(x.X, d+1)
	case *ssa.Slice:
		return ownState(x.X, d+1)
	case *ssa.UnOp:
		return ownState(x.X, d+1)
	case *ssa.Phi:
		for _, e := range x.Edges {
			if !ownState(e, d+1) {
				return false
			}
		}
		return true
	}
	return false
}

// lengthTested: a condition that dominates the block proves len(x) >= need, or mentions x or its length
// in a way this rule does not evaluate (a comparison with a computed value, a prefix test, a helper):
// those are left undecided.  `x != ""` alone proves one byte; `len(x) > 3` proves four.
func lengthTested(b *ssa.BasicBlock, x ssa.Value, need int64) bool {
	same := func(v ssa.Value) bool {
		return v == x || sameExpr(v, x) || (originSummary(v) == originSummary(x) && originSummary(x) != "")
	}
	isLen := func(v ssa.Value) bool {
		c, ok := v.(*ssa.Call)
		if !ok {
			return false
		}
		bi, ok := c.Call.Value.(*ssa.Builtin)
		return ok && bi.Name() == "len" && same(c.Call.Args[0])
	}
	var mentions func(v ssa.Value, d int) bool
	mentions = func(v ssa.Value, d int) bool {
		if d > 4 || v == nil {
			return false
		}
		if same(v) || isLen(v) {
			return true
		}
		switch c := v.(type) {
		case *ssa.Call:
			for _, a := range c.Call.Args {
				if same(a) || isLen(a) {
					return true
				}
			}
			return false
		case *ssa.BinOp:
			return mentions(c.X, d+1) || mentions(c.Y, d+1)
		case *ssa.UnOp:
			return mentions(c.X, d+1)
		case *ssa.Convert:
			return mentions(c.X, d+1)
		case *ssa.Phi:
			for _, e := range c.Edges {
				if mentions(e, d+1) {
					return true
				}
			}
		}
		return false
	}
	for _, ft := range Facts(b) {
		bo, isB := ft.Cond.(*ssa.BinOp)
		if isB {
			// x == "" / x != ""
			if cs, ok := bo.Y.(*ssa.Const); ok && same(bo.X) && cs.Value != nil && cs.Value.Kind() == constant.String {
				if constant.StringVal(cs.Value) == "" && ((bo.Op == token.NEQ && ft.Pol) || (bo.Op == token.EQL && !ft.Pol)) {
					if need <= 1 {
						return true
					}
					continue
				}
				if (bo.Op == token.EQL && ft.Pol) || (bo.Op == token.NEQ && !ft.Pol) {
					if int64(len(constant.StringVal(cs.Value))) >= need {
						return true
					}
				}
				continue
			}
			if k, ok := ConstInt(bo.Y); ok && isLen(bo.X) {
				lo := int64(-1)
				switch {
				case bo.Op == token.GEQ && ft.Pol, bo.Op == token.LSS && !ft.Pol:
					lo = k
				case bo.Op == token.GTR && ft.Pol, bo.Op == token.LEQ && !ft.Pol:
					lo = k + 1
				case bo.Op == token.EQL && ft.Pol, bo.Op == token.NEQ && !ft.Pol:
					lo = k
				case bo.Op == token.NEQ && ft.Pol && k == 0, bo.Op == token.EQL && !ft.Pol && k == 0:
					lo = 1
				}
				if lo >= need {
					return true
				}
				continue
			}
		}
		if mentions(ft.Cond, 0) {
			return true // not evaluated: undecided, not reported
		}
	}
	return false
}

// maxValue: the largest value the integer expression can take, when that follows from its shape:
// constants, conversions from 8/16-bit unsigned values, sums and products of such.
func maxValue(v ssa.Value, d int) (int64, bool) {
	if d > 6 || v == nil {
		return 0, false
	}
	if k, ok := ConstInt(v); ok {
		return k, true
	}
	switch x := v.(type) {
	case *ssa.Convert:
		if b, ok := x.X.Type().Underlying().(*types.Basic); ok {
			switch b.Kind() {
			case types.Uint8:
				return 255, true
			case types.Uint16:
				return 65535, true
			}
		}
		return maxValue(x.X, d+1)
	case *ssa.BinOp:
		a, ok1 := maxValue(x.X, d+1)
		b, ok2 := maxValue(x.Y, d+1)
		if !ok1 || !ok2 {
			return 0, false
		}
		switch x.Op {
		case token.ADD:
			return a + b, true
		case token.MUL:
			return a * b, true
		}
		return 0, false
	case *ssa.Phi:
		var mx int64
		for _, e := range x.Edges {
			k, ok := maxValue(e, d+1)
			if !ok {
				return 0, false
			}
			if k > mx {
				mx = k
			}
		}
		return mx, true
	case *ssa.UnOp:
		if x.Op == token.MUL {
			if b, ok := x.Type().Underlying().(*types.Basic); ok {
				switch b.Kind() {
				case types.Uint8:
					return 255, true
				case types.Uint16:
					return 65535, true
				}
			}
		}
	case *ssa.Index:
		if b, ok := x.Type().Underlying().(*types.Basic); ok && b.Kind() == types.Uint8 {
			return 255, true
		}
	}
	if b, ok := v.Type().Underlying().(*types.Basic); ok {
		switch b.Kind() {
		case types.Uint8:
			return 255, true
		case types.Uint16:
			return 65535, true
		}
	}
	return 0, false
}

// fixedCap: the capacity of the buffer when it is fixed here: make with constant size, or a slice of
// a local array.
func fixedCap(x ssa.Value, d int) (int64, bool) {
	if d > 4 || x == nil {
		return 0, false
	}
	switch v := x.(type) {
	case *ssa.MakeSlice:
		if k, ok := ConstInt(v.Cap); ok {
			return k, true
		}
		return 0, false
	case *ssa.Slice:
		if v.Low != nil {
			if k, ok := ConstInt(v.Low); !ok || k != 0 {
				return 0, false
			}
		}
		if p, ok := v.X.Type().Underlying().(*types.Pointer); ok {
			if a, ok := p.Elem().Underlying().(*types.Array); ok {
				if v.High == nil && v.Max == nil {
					return a.Len(), true
				}
				return a.Len(), true
			}
		}
		return fixedCap(v.X, d+1)
	case *ssa.UnOp:
		if al, ok := v.X.(*ssa.Alloc); ok && v.Op == token.MUL {
			if sts := storesTo(al); len(sts) == 1 {
				return fixedCap(sts[0].Val, d+1)
			}
		}
	}
	return 0, false
}

// mentionedInFacts: some dominating condition mentions the bound (or a value it is computed from).
func mentionedInFacts(b *ssa.BasicBlock, v ssa.Value) bool {
	parts := map[ssa.Value]bool{}
	var collect func(x ssa.Value, d int)
	collect = func(x ssa.Value, d int) {
		if d > 5 || x == nil {
			return
		}
		parts[x] = true
		switch y := x.(type) {
		case *ssa.BinOp:
			collect(y.X, d+1)
			collect(y.Y, d+1)
		case *ssa.Convert:
			collect(y.X, d+1)
		case *ssa.Phi:
			for _, e := range y.Edges {
				collect(e, d+1)
			}
		}
	}
	collect(v, 0)
	var hit func(x ssa.Value, d int) bool
	hit = func(x ssa.Value, d int) bool {
		if d > 5 || x == nil {
			return false
		}
		if _, isC := x.(*ssa.Const); !isC && parts[x] {
			return true
		}
		switch y := x.(type) {
		case *ssa.BinOp:
			return hit(y.X, d+1) || hit(y.Y, d+1)
		case *ssa.Convert:
			return hit(y.X, d+1)
		case *ssa.UnOp:
			return hit(y.X, d+1)
		}
		return false
	}
	for _, ft := range Facts(b) {
		if hit(ft.Cond, 0) {
			return true
		}
	}
	return false
}
