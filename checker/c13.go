package main

import (
	"fmt"
	"go/constant"
	"go/token"
	"go/types"
	"regexp"
	"strings"

	"golang.org/x/tools/go/ssa"
)

func init() {
	register(&PropCheck{
		ID: "C13",
		Explanation: "Static rules on the in-memory and Redis storage backends. " +
			"R-C13-1: every access to memory.Storage.data and to the fields of the StorageItem values it holds is made with Storage.mu held (write lock for mutation); a conditional map mutation is decided by a lookup made inside the same critical section (no check under one lock acquisition and act under another). " +
			"R-C13-2: every ordering comparison of StorageItem.Expiration with the clock is guarded by the not-IsZero test of the same expiration (zero expiration = never expires). " +
			"R-C13-3: in both backends every use of a ttl parameter (other than logging and pass-through to a sibling operation) is dominated by ttl > 0 (zero lifetime = never expires). " +
			"R-C13-4: every optional storage interface that any production package type-asserts on a storage value is implemented by both the memory and the Redis backend. " +
			"Decides these necessary conditions; does not decide linearizability or cross-backend value equality.",
		Run: runC13,
		Mutants: []Mutant{
			{Name: "setlist-empty-returns-early", File: "internal/core/storage/redis/redis_ops.go", Rule: "R-C13-4",
				Old: "\t// 删除现有列表\n\tr.client.Del(ctx, key)\n", New: "\tif len(values) == 0 {\n\t\treturn nil\n\t}\n\t// 删除现有列表\n\tr.client.Del(ctx, key)\n"},
			{Name: "cas-unguarded-expiry-compare", File: "internal/core/storage/memory/memory_ops.go", Rule: "R-C13-2",
				Old: "if !item.Expiration.IsZero() && time.Now().After(item.Expiration) {\n\t\tdelete(m.data, key)\n\t\tif oldValue == nil {",
				New: "if time.Now().After(item.Expiration) {\n\t\tdelete(m.data, key)\n\t\tif oldValue == nil {"},
			{Name: "setnx-ttl-unguarded", File: "internal/core/storage/memory/memory_ops.go", Rule: "R-C13-3",
				Old: "\t// 键不存在或已过期，设置成功\n\tvar expiration time.Time\n\tif ttl <= 0 {\n\t\texpiration = time.Time{} // 零值，表示永不过期\n\t} else {\n\t\texpiration = time.Now().Add(ttl)\n\t}",
				New: "\t// 键不存在或已过期，设置成功\n\tvar expiration time.Time\n\texpiration = time.Now().Add(ttl)"},
			{Name: "exists-without-lock", File: "internal/core/storage/memory/memory.go", Rule: "R-C13-1",
				Old: "func (m *Storage) Exists(key string) (bool, error) {\n\tm.mu.RLock()\n\tdefer m.mu.RUnlock()\n", New: "func (m *Storage) Exists(key string) (bool, error) {\n"},
			{Name: "setnx-check-under-rlock-then-upgrade", File: "internal/core/storage/memory/memory_ops.go", Rule: "R-C13-1",
				Old: "\t// 检查键是否已存在且未过期\n\tif item, exists := m.data[key]; exists {\n\t\t// 如果键存在但已过期，视为不存在，允许覆盖\n\t\tif item.Expiration.IsZero() || time.Now().Before(item.Expiration) {\n\t\t\treturn false, nil // 键存在且未过期，设置失败\n\t\t}\n\t\t// 键已过期，删除后继续设置\n\t\tdelete(m.data, key)\n\t}\n",
				New: "\tm.mu.Unlock()\n\tm.mu.RLock()\n\titem, exists := m.data[key]\n\tif exists && (item.Expiration.IsZero() || time.Now().Before(item.Expiration)) {\n\t\tm.mu.RUnlock()\n\t\tm.mu.Lock()\n\t\treturn false, nil\n\t}\n\tm.mu.RUnlock()\n\tm.mu.Lock()\n"},
			{Name: "redis-setnx-ttl-unguarded", File: "internal/core/storage/redis/redis_ops.go", Rule: "R-C13-3",
				Old: "\tif ttl > 0 {\n\t\texpiration = ttl\n\t}", New: "\texpiration = ttl + time.Millisecond"},
		},
	})
}

const memPkg = "internal/core/storage/memory"

// checkDefaultExpiryOnlyForNewKeys: a container operation of the Redis backend (list push, hash set,
// counter) gives the key its default lifetime only when the key was just created.  The test has to
// measure the whole key (its length is 1, the counter equals the delta, it has no TTL): the reply of
// the element operation itself (HSET/RPUSH/SADD count the elements added) is also 1 when a new
// element joins an old key, and re-arming the lifetime then overrides a shorter one set by the
// caller - the in-memory backend leaves the lifetime of an existing container alone.
func checkDefaultExpiryOnlyForNewKeys(r *Report) {
	n := 0
	keyMeasures := []string{"LLen", "HLen", "SCard", "ZCard", "Exists", "TTL", "PTTL", "IncrBy", "Incr", "IncrByFloat", "HIncrBy"}
	elemOps := []string{"HSet", "HSetNX", "RPush", "LPush", "SAdd", "ZAdd", "RPushX", "LPushX"}
	for _, f := range r.P.FuncsIn(redisPkg) {
		for _, c := range Calls(f, false, "Expire") {
			args := c.Common().Args
			if len(args) == 0 {
				continue
			}
			if _, isConst := args[len(args)-1].(*ssa.Const); !isConst {
				continue // the caller's ttl (R-C13-3 decides those)
			}
			n++
			verdict, why := "", ""
			producing := func(v ssa.Value) string {
				for i := 0; i < 6 && v != nil; i++ {
					cc, _ := CallOfValue(v)
					if cc == nil {
						return ""
					}
					name := ""
					if cc.Common().IsInvoke() {
						name = cc.Common().Method.Name()
					} else {
						name = CalleeOf(cc).Name
					}
					switch name {
					case "Val", "Result", "Int64", "Uint64", "Int":
						v = Recv(cc)
						continue
					}
					return name
				}
				return ""
			}
			for _, ft := range Facts(c.Block()) {
				var sides []ssa.Value
				if bo, isB := ft.Cond.(*ssa.BinOp); isB {
					sides = []ssa.Value{bo.X, bo.Y}
				} else {
					sides = []ssa.Value{ft.Cond}
				}
				for _, sd := range sides {
					cmd := producing(sd)
					for _, m := range elemOps {
						if cmd == m && verdict == "" {
							verdict, why = "elem", m
						}
					}
					for _, m := range keyMeasures {
						if cmd == m {
							verdict, why = "key", m
						}
					}
				}
			}
			ok := verdict == "key"
			msg := "the default lifetime is applied only under a test that measures the whole key"
			switch verdict {
			case "key":
				msg += " (" + why + ")"
			case "elem":
				msg += ": the test here reads the reply of " + why + ", which counts added elements, not whether the key is new"
			default:
				msg += ": no such test dominates the Expire"
			}
			r.Ob("R-C13-3", CallPos(c), ok, msg, r.P.FuncName(f), "default-expiry-only-for-new-key")
		}
	}
	if n < 1 {
		r.Fail("R-C13-3", 0, "no default-lifetime Expire found in the redis backend (3 confirmed by hand)", redisPkg, "default-expiry-only-for-new-key:floor")
	}
}

func runC13(r *Report) {
	checkDefaultExpiryOnlyForNewKeys(r)
	// ---- R-C13-1 guarded-by ------------------------------------------------
	guardedBy(r, "R-C13-1", memPkg, "Storage", "data", "mu", map[string]string{
		"New": "constructor: object not yet shared",
	})
	guardedBy(r, "R-C13-1", memPkg, "StorageItem", "Value", "mu", nil)
	guardedBy(r, "R-C13-1", memPkg, "StorageItem", "Expiration", "mu", nil)
	r.Floor("R-C13-1", 60, "accesses to Storage.data / StorageItem fields")
	checkThenActSameSection(r, "R-C13-1", memPkg, "Storage", "data", "mu")

	// ---- R-C13-2 zero expiration = never ---------------------------------
	checkZeroExpiryGuard(r, "R-C13-2", memPkg, "StorageItem", "Expiration")
	r.Floor("R-C13-2", 12, "expiry comparisons in the memory backend")

	if n := checkValueExpiryTogether(r, "R-C13-2"); n < 1 { // alarm below 40% of the 2 sites confirmed by hand
		r.Fail("R-C13-2", 0, fmt.Sprintf("only %d value writes in ttl-taking memory operations found (Set, SetNX, CompareAndSwap confirmed by hand)", n), memPkg, "floor:value-writes")
	}

	if n := checkRedisExpirations(r, "R-C13-3"); n < 1 { // alarm below 40% of the 2 sites confirmed by hand
		r.Fail("R-C13-3", 0, fmt.Sprintf("only %d expiry arguments of redis write commands found (Set x2, SetNX confirmed by hand)", n), redisPkg, "floor:redis-expiry-args")
	}
	if n := checkRedisListEncoding(r, "R-C13-4"); n < 1 { // alarm below 40% of the 3 sites confirmed by hand
		r.Fail("R-C13-4", 0, fmt.Sprintf("only %d encoded list members found in the redis list family (SetList, AppendToList, RemoveFromList confirmed by hand)", n), redisPkg, "floor:list-encoding")
	}

	// Exists answers the lookup: true only for a present, unexpired entry; false (without error) only
	// for an absent map / absent key / expired entry
	if ex := r.need("R-C13-5", memPkg, "Storage.Exists"); ex != nil {
		for _, ret := range Returns(ex) {
			v, isC := ConstBool(RetVal(ret, 0))
			if !isC || RetErrKind(ret) != "nil" {
				r.Fail("R-C13-5", ret.Pos(), "Exists returns a verdict that is not a constant decided by the lookup", "Storage.Exists", "verdict")
				continue
			}
			present, absent, expired, live := false, false, false, true
			for _, ft := range Facts(ret.Block()) {
				if exx, ok := stripValue(ft.Cond).(*ssa.Extract); ok && exx.Index == 1 {
					if _, isL := exx.Tuple.(*ssa.Lookup); isL {
						if ft.Pol {
							present = true
						} else {
							absent = true
						}
					}
				}
				if x, isnil, ok := ft.FactNil(); ok && isnil {
					if _, f, _, isF := FieldOf(x); isF && f == "data" {
						absent = true
					}
				}
				if c, ok := stripValue(ft.Cond).(*ssa.Call); ok && CalleeOf(c).Is("time:Time.After") && ft.Pol {
					expired = true
					live = false
				}
			}
			if v {
				r.Ob("R-C13-5", ret.Pos(), present && live, "Exists answers true only for a key found in the map and not on the expired edge", "Storage.Exists", "verdict:true")
			} else {
				r.Ob("R-C13-5", ret.Pos(), absent || expired, "Exists answers false only for an absent map, an absent key or an expired entry", "Storage.Exists", "verdict:false")
			}
		}
	}

	// the embedded scripts the Redis backend evaluates follow the zero-ttl convention too: every
	// EXPIRE / PEXPIRE in a script handed to Eval sits under an `if <x> > 0 then` guard (a script that
	// expires a key with ttl 0 deletes it, where the memory backend stores it for ever)
	nScripts := 0
	for _, f := range r.P.FuncsIn(redisPkg) {
		for _, ev := range Calls(f, false, "Eval", "EvalSha") {
			for _, a := range ev.Common().Args {
				k, ok := stripValue(a).(*ssa.Const)
				if !ok || k.Value == nil || k.Value.Kind() != constant.String {
					continue
				}
				script := constant.StringVal(k.Value)
				if !strings.Contains(script, "redis.call") {
					continue
				}
				nScripts++
				var guards []bool // stack of enclosing `if` guards: true when the guard is `> 0`
				for _, ln := range strings.Split(script, "\n") {
					t := strings.TrimSpace(ln)
					switch {
					case strings.HasPrefix(t, "if ") && strings.HasSuffix(t, "then"):
						guards = append(guards, luaPositiveGuard.MatchString(t))
					case t == "end" && len(guards) > 0:
						guards = guards[:len(guards)-1]
					case strings.Contains(t, "'EXPIRE'") || strings.Contains(t, "'PEXPIRE'") || strings.Contains(t, "\"EXPIRE\"") || strings.Contains(t, "\"PEXPIRE\""):
						under := false
						for _, g := range guards {
							if g {
								under = true
							}
						}
						r.Ob("R-C13-3", CallPos(ev), under, "the script sets an expiry only under a `ttl > 0` guard (line: "+t+")", r.P.FuncName(f), "script-expire-guarded")
					}
				}
			}
		}
	}
	if nScripts == 0 {
		r.Fail("R-C13-3", 0, "no embedded redis script found (CompareAndSwap uses one on the reference tree)", redisPkg, "script-expire-guarded:floor")
	}
	// list removal removes every occurrence, as the memory backend does (LREM count 0)
	for _, f := range r.P.FuncsIn(redisPkg) {
		for _, lr := range Calls(f, false, "LRem") {
			cnt, isC := ConstInt(Arg(lr, 2))
			r.Ob("R-C13-4", CallPos(lr), isC && cnt == 0, "RemoveFromList removes all occurrences of the member (LREM count 0), like the memory backend", r.P.FuncName(f), "lrem-all")
		}
	}
	// SetList replaces the list: every success return of the Redis implementation has passed the
	// clearing DEL (a SetList of an empty list that returns before the DEL leaves the old members,
	// while the memory backend stores the empty list)
	if sl := r.P.Fn(redisPkg, "Storage.SetList"); sl != nil {
		isDel := func(in ssa.Instruction) bool {
			ci, ok := in.(ssa.CallInstruction)
			return ok && (CalleeOf(ci).Name == "Del" || CalleeOf(ci).Name == "Unlink")
		}
		n := 0
		for _, ret := range Returns(sl) {
			if RetErrKind(ret) == "nonnil" {
				continue
			}
			n++
			r.Ob("R-C13-4", ret.Pos(), !ReachesWithout(sl, ret, func(in ssa.Instruction) bool { return isDel(in) || (in.Parent() == sl && performsVia(in, isDel, nil)) }), "Redis SetList clears the previous list (DEL) on every path that reports success, also for an empty new list", "redis.Storage.SetList", "setlist-clears")
		}
		if n == 0 {
			r.Fail("R-C13-4", sl.Pos(), "no success return found in Redis SetList", "redis.Storage.SetList", "setlist-clears:anchor")
		}
	}

	// ---- R-C13-5 expired entries are absent / expiry-driven deletes re-validate ---
	for _, f := range r.P.FuncsIn(memPkg) {
		checkExpiredAbsent(r, f)
	}
	r.Floor("R-C13-5", 10, "expiry branches in the memory backend")

	// ---- R-C13-3 zero ttl = never ------------------------------------------
	for _, pk := range []string{memPkg, "internal/core/storage/redis"} {
		for _, f := range r.P.FuncsIn(pk) {
			if f.Parent() != nil || f.Signature.Recv() == nil {
				continue
			}
			for _, p := range f.Params {
				if canonParamName(p) != "ttl" || p.Type().String() != "time.Duration" {
					continue
				}
				checkTTLUses(r, f, p)
			}
		}
	}
	r.Floor("R-C13-3", 8, "ttl uses in memory and redis backends")

	// ---- R-C13-4 interface parity ------------------------------------------
	asserted := map[string]*types.Interface{}
	where := map[string]token.Pos{}
	for _, f := range r.P.Funcs {
		Instrs(f, func(in ssa.Instruction) {
			ta, ok := in.(*ssa.TypeAssert)
			if !ok {
				return
			}
			nt, ok := types.Unalias(ta.AssertedType).(*types.Named)
			if !ok || nt.Obj().Pkg() == nil {
				return
			}
			it, ok := nt.Underlying().(*types.Interface)
			if !ok {
				return
			}
			if !strings.HasPrefix(rel(nt.Obj().Pkg().Path()), "internal/core/storage") {
				return
			}
			// asserted on a storage-typed value
			xt, ok := types.Unalias(ta.X.Type()).(*types.Named)
			if !ok || xt.Obj().Pkg() == nil || !strings.HasPrefix(rel(xt.Obj().Pkg().Path()), "internal/core/storage") {
				return
			}
			name := nt.Obj().Name()
			if _, dup := asserted[name]; !dup {
				asserted[name] = it
				where[name] = ta.Pos()
			}
		})
	}
	backends := []struct{ pkg, typ string }{{memPkg, "Storage"}, {"internal/core/storage/redis", "Storage"}}
	for name, it := range asserted {
		for _, b := range backends {
			sp := r.P.SSAPkgs[Module+"/"+b.pkg]
			if sp == nil {
				r.Fail("R-C13-4", 0, "backend package missing: "+b.pkg, b.pkg, "anchor")
				continue
			}
			tm, ok := sp.Members[b.typ].(*ssa.Type)
			if !ok {
				r.Fail("R-C13-4", 0, "backend type missing: "+b.pkg+"."+b.typ, b.pkg, "anchor")
				continue
			}
			impl := types.Implements(types.NewPointer(tm.Type()), it)
			det := fmt.Sprintf("%s.%s implements %s (asserted by production code, e.g. at %s)", b.pkg, b.typ, name, r.P.Pos(where[name]))
			if !impl {
				det = fmt.Sprintf("%s.%s does NOT implement %s, which production code asserts on storage values (e.g. at %s): the feature silently degrades or fails on this backend", b.pkg, b.typ, name, r.P.Pos(where[name]))
			}
			r.Ob("R-C13-4", where[name], impl, det, b.pkg+"."+b.typ, "implements:"+name)
		}
	}
	r.Floor("R-C13-4", 6, "optional storage interfaces x backends")
}

// sameItem: two base pointers denote the same item (same SSA value, or both
// loads of the same local).
func sameItem(a, b ssa.Value) bool {
	if a == b {
		return true
	}
	ua, ok1 := a.(*ssa.UnOp)
	ub, ok2 := b.(*ssa.UnOp)
	if ok1 && ok2 && ua.Op == token.MUL && ub.Op == token.MUL && ua.X == ub.X {
		return true
	}
	return false
}

// guardedBy checks that every access to pkg.typ.field (program-wide) is made
// with a lock whose path ends in lockField held; writes need the write lock.
// Accesses on freshly allocated objects are exempt; functions listed in
// exempt are skipped with the given reason; functions whose name ends in
// "Locked" are checked at their call sites instead.
func guardedBy(r *Report, rule, pkg, typ, field, lockField string, exempt map[string]string) {
	lockField = r.lockFor(pkg, typ, field, lockField)
	lsCache := map[*ssa.Function]*LockSets{}
	for _, fa := range r.P.FieldAccesses(pkg, typ, field) {
		fn := fa.Fn
		top := Outermost(fn)
		name := top.Name()
		if why, ok := exempt[name]; ok && !strings.HasPrefix(why, "helper:") {
			r.Pass(rule, fa.In.Pos(), "exempt: "+why, r.P.FuncName(fn), typ+"."+field)
			continue
		}
		if IsFresh(fa.Base) {
			continue
		}
		key := []string{r.P.FuncName(fn), typ + "." + field + map[bool]string{true: ":write", false: ":read"}[fa.Write]}
		if strings.HasSuffix(name, "Locked") || strings.HasPrefix(exempt[name], "helper:") {
			// holds-lock-on-entry helper: every caller must hold the lock at the call
			checkLockedHelperCallers(r, rule, top, lockField, fa.Write)
			continue
		}
		ls := lsCache[fn]
		if ls == nil {
			ls = ComputeLockSets(fn, closureEntryLocks(fn, lsCache))
			lsCache[fn] = ls
		}
		mode := ls.Held(fa.In, lockField)
		if (mode == "" || (fa.Write && mode != "W")) && callersHold(r.P, top, lockField, fa.Write, 3, map[*ssa.Function]bool{}) {
			r.Pass(rule, fa.In.Pos(), fmt.Sprintf("%s held by every caller of %s (lock-on-entry helper)", lockField, top.Name()), key...)
			continue
		}
		switch {
		case mode == "":
			r.Fail(rule, fa.In.Pos(), fmt.Sprintf("%s.%s accessed without holding %s", typ, field, lockField), key...)
		case fa.Write && mode != "W":
			r.Fail(rule, fa.In.Pos(), fmt.Sprintf("%s.%s mutated while holding only the read lock of %s", typ, field, lockField), key...)
		default:
			r.Pass(rule, fa.In.Pos(), fmt.Sprintf("%s held (%s)", lockField, mode), key...)
		}
	}
}

// closureEntryLocks: a closure that is called or deferred synchronously at
// exactly one site inherits the lock set of that site (e.g. `func(){...}()`
// or sort callbacks are not modelled; only direct call/defer of the literal).
func closureEntryLocks(fn *ssa.Function, cache map[*ssa.Function]*LockSets) lockState {
	par := fn.Parent()
	if par == nil {
		return nil
	}
	var site ssa.Instruction
	n := 0
	Instrs(par, func(in ssa.Instruction) {
		if ci, ok := in.(*ssa.Call); ok {
			if mc, ok := ci.Call.Value.(*ssa.MakeClosure); ok && mc.Fn == fn {
				site = in
				n++
			}
		}
	})
	if n != 1 {
		return nil
	}
	pls := cache[par]
	if pls == nil {
		pls = ComputeLockSets(par, closureEntryLocks(par, cache))
		cache[par] = pls
	}
	return pls.HeldAll(site)
}

var lockedHelperDone = map[string]bool{}

func checkLockedHelperCallers(r *Report, rule string, helper *ssa.Function, lockField string, write bool) {
	k := rule + r.P.FuncName(helper) + fmt.Sprint(write)
	if lockedHelperDone[k] {
		return
	}
	lockedHelperDone[k] = true
	n := 0
	for _, f := range r.P.Funcs {
		var ls *LockSets
		Instrs(f, func(in ssa.Instruction) {
			ci, ok := in.(ssa.CallInstruction)
			if !ok || CalleeOf(ci).Fn != helper {
				return
			}
			n++
			if ls == nil {
				ls = ComputeLockSets(f, nil)
			}
			mode := ls.Held(in, lockField)
			if strings.HasSuffix(Outermost(f).Name(), "Locked") && mode == "" {
				return // helper calling helper: checked at the outer helper's callers
			}
			good := mode == "W" || (mode == "R" && !write)
			if !good && callersHold(r.P, Outermost(f), lockField, write, 3, map[*ssa.Function]bool{}) {
				good = true // the caller is itself entered with the lock held, by every one of its callers
			}
			r.Ob(rule, CallPos(ci), good, fmt.Sprintf("caller of lock-on-entry helper %s holds %s (%q)", helper.Name(), lockField, mode),
				r.P.FuncName(f), "calls:"+helper.Name())
		})
	}
	if n == 0 {
		r.Note("%s: helper %s has no callers", rule, r.P.FuncName(helper))
	}
}

// checkThenActSameSection: a mutation of the map that is decided by a lookup
// must see a lookup made after the lock acquisition that protects the
// mutation (re-check idiom); a lookup made in an earlier critical section
// alone is a check-then-act race.
func checkThenActSameSection(r *Report, rule, pkg, typ, field, lockField string) {
	lockField = r.lockFor(pkg, typ, field, lockField)
	byFn := map[*ssa.Function][]FieldAccess{}
	for _, fa := range r.P.FieldAccesses(pkg, typ, field) {
		byFn[fa.Fn] = append(byFn[fa.Fn], fa)
	}
	for fn, accs := range byFn {
		var reads, writes []FieldAccess
		for _, a := range accs {
			if a.Write {
				writes = append(writes, a)
			} else if isLookupAccess(a.In) {
				reads = append(reads, a)
			}
		}
		if len(writes) == 0 || len(reads) == 0 {
			continue
		}
		// lock acquisitions (write mode) in this function
		var locks []ssa.Instruction
		Instrs(fn, func(in ssa.Instruction) {
			if ci, ok := in.(*ssa.Call); ok {
				if id, op, ok := lockOp(ci); ok && op == "Lock" && strings.HasSuffix(id, lockField) {
					locks = append(locks, in)
				}
			}
		})
		for _, w := range writes {
			// nearest dominating Lock
			var k ssa.Instruction
			for _, l := range locks {
				if Before(l, w.In) && (k == nil || Before(k, l)) {
					k = l
				}
			}
			if k == nil {
				continue // reported by guardedBy
			}
			earlier, inside := false, false
			for _, rd := range reads {
				if !Before(rd.In, w.In) {
					continue
				}
				if Before(k, rd.In) && unlockBetween(rd.In, w.In) == nil {
					inside = true
				} else {
					earlier = true
				}
			}
			if earlier {
				r.Ob(rule, w.In.Pos(), inside,
					"map mutation follows a lookup made under an earlier lock acquisition; it must be re-decided by a lookup inside the critical section that mutates (check-then-act)",
					r.P.FuncName(fn), "recheck-in-section")
			}
		}
	}
}

func isLookupAccess(in ssa.Instruction) bool {
	v, ok := in.(ssa.Value)
	if !ok || v.Referrers() == nil {
		return false
	}
	for _, ref := range *v.Referrers() {
		if u, ok := ref.(*ssa.UnOp); ok && u.Op == token.MUL && u.Referrers() != nil {
			for _, r2 := range *u.Referrers() {
				if _, ok := r2.(*ssa.Lookup); ok {
					return true
				}
			}
		}
	}
	return false
}

var logCallees = []string{"dispose:Infof", "dispose:Debugf", "dispose:Warnf", "dispose:Errorf", "log:Infof", "log:Debugf", "log:Warnf", "log:Errorf", "fmt:Sprintf", "fmt:Errorf"}

// checkTTLUses: every non-logging, non-pass-through use of the ttl parameter
// must be dominated by ttl > 0.
func checkTTLUses(r *Report, f *ssa.Function, p *ssa.Parameter) {
	fn := r.P.FuncName(f)
	if p.Referrers() == nil {
		return
	}
	guardedAt := func(b *ssa.BasicBlock) bool {
		for _, ft := range Facts(b) {
			bo, ok := ft.Cond.(*ssa.BinOp)
			if !ok {
				continue
			}
			z := func(v ssa.Value) bool { n, ok := ConstInt(v); return ok && n == 0 }
			switch {
			case bo.X == ssa.Value(p) && z(bo.Y) && bo.Op == token.GTR && ft.Pol,
				bo.X == ssa.Value(p) && z(bo.Y) && bo.Op == token.LEQ && !ft.Pol,
				bo.Y == ssa.Value(p) && z(bo.X) && bo.Op == token.LSS && ft.Pol,
				bo.Y == ssa.Value(p) && z(bo.X) && bo.Op == token.GEQ && !ft.Pol:
				return true
			}
		}
		return false
	}
	var visit func(v ssa.Value, depth int)
	seen := map[ssa.Instruction]bool{}
	visit = func(v ssa.Value, depth int) {
		if v.Referrers() == nil || depth > 3 {
			return
		}
		for _, ref := range *v.Referrers() {
			if seen[ref] {
				continue
			}
			seen[ref] = true
			switch x := ref.(type) {
			case *ssa.BinOp:
				switch x.Op {
				case token.GTR, token.LEQ, token.LSS, token.GEQ, token.EQL, token.NEQ:
					continue // a test, not a use
				}
				visit(x, depth+1)
			case *ssa.Convert:
				visit(x, depth+1)
			case *ssa.ChangeType:
				visit(x, depth+1)
			case *ssa.MakeInterface:
				continue // formatting/logging argument
			case *ssa.Phi:
				continue
			case *ssa.Store:
				// spilled copy: follow loads
				if a, ok := x.Addr.(*ssa.Alloc); ok && a.Referrers() != nil {
					r.Ob("R-C13-3", x.Pos(), guardedAt(x.Block()), "ttl assigned to a variable outside a ttl > 0 guard", fn, "ttl-assign")
				}
			case ssa.CallInstruction:
				c := CalleeOf(x)
				if c.Is(logCallees...) {
					continue
				}
				// pass-through to a sibling that has its own ttl parameter
				if c.Fn != nil && c.Fn.Pkg == f.Pkg {
					pass := false
					for _, q := range c.Fn.Params {
						if canonParamName(q) == "ttl" {
							pass = true
						}
					}
					if pass {
						r.Pass("R-C13-3", x.Pos(), "ttl passed through to "+c.Name+" (checked there)", fn, "ttl-pass:"+c.Name)
						continue
					}
				}
				r.Ob("R-C13-3", x.Pos(), guardedAt(x.Block()),
					fmt.Sprintf("ttl used by %s outside a `ttl > 0` guard: a zero lifetime must mean 'never expires'", c.String()), fn, "ttl-use:"+c.String())
			}
		}
	}
	visit(p, 0)
}

// expiryCompare: v is (derived from) a clock comparison on StorageItem.Expiration.
// Returns the comparison call, the item base and whether v==true means "expired".
func expiryCompare(v ssa.Value, depth int) (call *ssa.Call, item ssa.Value, trueMeansExpired bool, ok bool) {
	return expiryCompareT(v, depth, "StorageItem", "Expiration")
}

// expiryCompareT is expiryCompare for an arbitrary record type / expiry field.
func expiryCompareT(v ssa.Value, depth int, typ, field string) (call *ssa.Call, item ssa.Value, trueMeansExpired bool, ok bool) {
	if depth > 4 {
		return nil, nil, false, false
	}
	v, pol := normCond(v, true)
	switch x := v.(type) {
	case *ssa.Call:
		c := CalleeOf(x)
		if it, tme, ok := expiryPredicate(x, typ, field, depth); ok {
			return x, it, tme == pol, true
		}
		if c.Pkg != "time" || c.Recv != "Time" || (c.Name != "After" && c.Name != "Before") {
			return nil, nil, false, false
		}
		// now.After(exp): true = expired ; now.Before(exp): true = alive ; exp.After(now): true = alive ; exp.Before(now): true = expired
		recvIsExp, argIsExp := false, false
		if t, f, b, ok := FieldOf(x.Call.Args[0]); ok && t == typ && f == field {
			recvIsExp, item = true, b
		}
		if t, f, b, ok := FieldOf(x.Call.Args[1]); ok && t == typ && f == field {
			argIsExp, item = true, b
		}
		if recvIsExp == argIsExp {
			return nil, nil, false, false
		}
		exp := (c.Name == "After" && argIsExp) || (c.Name == "Before" && recvIsExp)
		return x, item, exp == pol, true
	case *ssa.Phi:
		// `expired := !IsZero && now.After(exp)` lowers to phi(false, After(...))
		for _, e := range x.Edges {
			if _, isC := ConstBool(e); isC {
				continue
			}
			if c, it, tme, ok := expiryCompareT(e, depth+1, typ, field); ok {
				return c, it, tme == pol, true
			}
		}
	}
	return nil, nil, false, false
}

// checkExpiredAbsent: (a) from the 'expired' edge of every expiry test no read
// of the same item's Value is reachable before the item is reset (an expired
// entry must be treated as absent); (b) a map delete that is dominated by an
// expiry observation made before the current lock acquisition must also be
// dominated by an expiry observation made after it (re-validation).
func checkExpiredAbsent(r *Report, f *ssa.Function) {
	fn := r.P.FuncName(f)
	for _, b := range f.Blocks {
		if len(b.Instrs) == 0 {
			continue
		}
		iff, ok := b.Instrs[len(b.Instrs)-1].(*ssa.If)
		if !ok {
			continue
		}
		call, item, tme, ok := expiryCompare(iff.Cond, 0)
		if !ok {
			continue
		}
		expiredSucc := b.Succs[0]
		if !tme {
			expiredSucc = b.Succs[1]
		}
		defs := defChain(item)
		hits := WalkFrom(expiredSucc, nil, func(in ssa.Instruction) int {
			if defs[in] {
				return Stop // the item variable is re-bound (next loop iteration / fresh lookup)
			}
			switch x := in.(type) {
			case *ssa.Store:
				if t, fld, base, ok := FieldOf(x.Addr); ok && t == "StorageItem" && (fld == "Value" || fld == "Expiration") && sameItem(base, item) {
					return Stop // item reset
				}
			case *ssa.UnOp:
				if x.Op == token.MUL {
					if t, fld, base, ok := FieldOf(x.X); ok && t == "StorageItem" && fld == "Value" && sameItem(base, item) {
						return Hit
					}
				}
			}
			return Cont
		}, nil)
		r.Ob("R-C13-5", call.Pos(), len(hits) == 0,
			"an expired entry must be treated as absent: no read of its value may be reachable from the 'expired' edge of the expiry test before the item is reset",
			fn, "expired-is-absent")
	}
	// (a') a stored value is read only after its expiry was evaluated
	if !strings.HasPrefix(Outermost(f).Name(), "Z") && f.Name() != "toMemberString" { // sorted sets are stored without expiry by design
		Instrs(f, func(in ssa.Instruction) {
			u, ok := in.(*ssa.UnOp)
			if !ok || u.Op != token.MUL {
				return
			}
			t, fld, base, ok := FieldOf(u.X)
			if !ok || t != "StorageItem" || fld != "Value" || IsFresh(base) {
				return
			}
			skipped := ReachesWithout(f, in, func(v ssa.Instruction) bool {
				c, ok := v.(*ssa.Call)
				if !ok {
					return false
				}
				if it, _, isPred := expiryPredicate(c, "StorageItem", "Expiration", 0); isPred && sameItem(it, base) {
					return true
				}
				// a lookup helper that hands back the item together with a verdict it reached by testing
				// the item's expiry (`item, state := m.lookupLocked(key)`)
				if h := c.Common().StaticCallee(); h != nil && h.Pkg == f.Pkg && len(h.Blocks) > 0 {
					if valueFromCall(base, c) {
						tests := false
						Instrs(h, func(x ssa.Instruction) {
							if hc, ok := x.(*ssa.Call); ok {
								if CalleeOf(hc).Is("time:Time.IsZero") {
									if t2, f2, _, ok := FieldOf(hc.Call.Args[0]); ok && t2 == "StorageItem" && f2 == "Expiration" {
										tests = true
									}
								}
								if _, _, isPred := expiryPredicate(hc, "StorageItem", "Expiration", 0); isPred {
									tests = true
								}
							}
						})
						if tests {
							return true
						}
					}
				}
				if !CalleeOf(c).Is("time:Time.IsZero") {
					return false
				}
				t2, f2, b2, ok := FieldOf(c.Call.Args[0])
				return ok && t2 == "StorageItem" && f2 == "Expiration" && sameItem(b2, base)
			})
			if skipped {
				// the item read may be a join of "the stored entry, found live" and "a fresh entry made here":
				// then each stored-entry edge of the join must be entered only where the entry's expiry was
				// evaluated (read through the found-flag the branch tests, not along every CFG path)
				if ph, isPhi := stripValue(base).(*ssa.Phi); isPhi {
					okAll := true
					for i, e := range ph.Edges {
						if IsFresh(e) {
							continue
						}
						pred := ph.Block().Preds[i]
						facts := Facts(pred)
						if len(pred.Instrs) > 0 {
							if iff, ok := pred.Instrs[len(pred.Instrs)-1].(*ssa.If); ok && pred.Succs[0] != pred.Succs[1] {
								for si, sb := range pred.Succs {
									if sb == ph.Block() {
										c, pol := normCond(iff.Cond, si == 0)
										facts = append(facts, expandPhiFacts([]Fact{{Cond: c, Pol: pol, If: iff}})...)
									}
								}
							}
						}
						testedIn := func(fs []Fact) bool {
							for _, ft := range fs {
								c, isCall := ft.Cond.(*ssa.Call)
								if !isCall {
									continue
								}
								if it, _, isPred := expiryPredicate(c, "StorageItem", "Expiration", 0); isPred && sameItem(it, e) {
									return true
								}
								if CalleeOf(c).Is("time:Time.IsZero", "time:Time.After", "time:Time.Before") && len(c.Call.Args) > 0 {
									for _, a := range c.Call.Args {
										if t2, f2, b2, ok := FieldOf(a); ok && t2 == "StorageItem" && f2 == "Expiration" && sameItem(b2, e) {
											return true
										}
									}
								}
							}
							return false
						}
						tested := testedIn(facts)
						if !tested {
							// the branch tests a found-flag that is itself a join: every way the flag can be true
							// must have evaluated the expiry (in whatever form: "never expires" or "not yet")
							for _, ft := range facts {
								if fph, isP := ft.Cond.(*ssa.Phi); isP {
									per := phiPredFacts(fph, ft.Pol)
									all := len(per) > 0
									for _, pf := range per {
										if !testedIn(pf) {
											all = false
										}
									}
									if all {
										tested = true
									}
								}
							}
						}
						if !tested {
							okAll = false
						}
					}
					if okAll {
						skipped = false
					}
				}
			}
			r.Ob("R-C13-5", in.Pos(), !skipped,
				"a stored value is read on a path that never evaluated the entry's expiry (an expired entry would be served as live)",
				fn, "value-read-after-expiry-test")
		})
	}
	// (b) deletes
	Instrs(f, func(in ssa.Instruction) {
		ci, ok := in.(*ssa.Call)
		if !ok {
			return
		}
		bi, ok := ci.Call.Value.(*ssa.Builtin)
		if !ok || bi.Name() != "delete" {
			return
		}
		if t, fld, _, ok := FieldOf(ci.Call.Args[0]); !ok || t != "Storage" || fld != "data" {
			return
		}
		// nearest dominating write-lock acquisition
		var k ssa.Instruction
		Instrs(f, func(l ssa.Instruction) {
			if lc, ok := l.(*ssa.Call); ok {
				if id, op, ok := lockOp(lc); ok && op == "Lock" && strings.HasSuffix(id, "mu") && Before(l, in) && (k == nil || Before(k, l)) {
					k = l
				}
			}
		})
		if k == nil {
			return
		}
		outside, inside := false, false
		for _, ft := range Facts(in.Block()) {
			call, _, tme, ok := expiryCompare(ft.Cond, 0)
			if !ok || tme != ft.Pol {
				continue
			}
			if Before(k, call) {
				inside = true
			} else {
				outside = true
			}
		}
		if outside {
			r.Ob("R-C13-5", ci.Pos(), inside,
				"a delete triggered by an expiry observation made before the lock was (re)acquired must re-test expiry inside the critical section (a concurrent writer may have refreshed the key)",
				fn, "expiry-delete-revalidated")
		}
		// a delete that nobody asked for by key (the key is not a parameter of an exported operation:
		// it comes from a sweep over the map, from a list of keys collected earlier, ...) removes a
		// live entry unless the entry was found expired inside this critical section
		key := ci.Call.Args[1]
		asked := false
		for _, rt := range Origins(key) {
			if p, ok := rt.V.(*ssa.Parameter); ok {
				if pf := p.Parent(); pf != nil && pf.Object() != nil && pf.Object().Exported() {
					if b, ok := p.Type().Underlying().(*types.Basic); ok && b.Kind() == types.String {
						asked = true
					}
				}
			}
		}
		if !asked && !inside {
			r.Ob("R-C13-5", ci.Pos(), false,
				"an entry is deleted without having been asked for by key and without having been found expired under this lock (keys collected as expired in an earlier critical section may have been rewritten since)",
				fn, "unasked-delete-revalidated")
		} else if !asked {
			r.Pass("R-C13-5", ci.Pos(), "sweep delete under an expiry test made in the same critical section", fn, "unasked-delete-revalidated")
		}
	})
}

// defChain: the instructions that (re)define an item value: the value itself
// and the extract/lookup/next instructions it is projected from.
func defChain(v ssa.Value) map[ssa.Instruction]bool {
	out := map[ssa.Instruction]bool{}
	for i := 0; i < 6 && v != nil; i++ {
		in, ok := v.(ssa.Instruction)
		if !ok {
			break
		}
		out[in] = true
		switch x := v.(type) {
		case *ssa.Extract:
			v = x.Tuple
		case *ssa.UnOp:
			v = x.X
		default:
			v = nil
		}
	}
	return out
}

// checkZeroExpiryGuard: every ordering comparison of typ.field (a time.Time
// whose zero value means "never") with another time in package pkg is
// dominated by !field.IsZero() of the same record.
func checkZeroExpiryGuard(r *Report, rule, pkg, typ, field string) {
	for _, f := range r.P.FuncsIn(pkg) {
		Instrs(f, func(in ssa.Instruction) {
			ci, ok := in.(*ssa.Call)
			if !ok {
				return
			}
			c := CalleeOf(ci)
			if c.Pkg != "time" || c.Recv != "Time" || (c.Name != "After" && c.Name != "Before" && c.Name != "Compare") {
				return
			}
			var exp ssa.Value
			for _, a := range ci.Call.Args {
				if t, fld, _, ok := FieldOf(a); ok && t == typ && fld == field {
					exp = a
				}
			}
			if exp == nil {
				return
			}
			_, _, base, _ := FieldOf(exp)
			guarded := false
			for _, ft := range Facts(ci.Block()) {
				zc, ok := stripValue(ft.Cond).(*ssa.Call)
				if !ok || !CalleeOf(zc).Is("time:Time.IsZero") || ft.Pol {
					continue
				}
				if t, fld, b2, ok := FieldOf(zc.Call.Args[0]); ok && t == typ && fld == field && sameItem(b2, base) {
					guarded = true
				}
			}
			r.Ob(rule, ci.Pos(), guarded,
				"comparison of "+typ+"."+field+" with the clock must be conjoined with !"+field+".IsZero() of the same record (zero = never expires)",
				r.P.FuncName(f), "clock-compare:"+c.Name)
			// the other side of the comparison may follow the same convention: a local deadline that is
			// assigned only under a condition (`var expiresAt time.Time; if d > 0 { expiresAt = now.Add(d) }`)
			// is the zero time for "never"; comparing a record's deadline with it is meaningful only where
			// that condition holds (or the local is shown non-zero)
			for _, a := range ci.Call.Args {
				if a == exp {
					continue
				}
				if ph, isPhi := stripValue(a).(*ssa.Phi); isPhi {
					// the same local in register form: one incoming value is the zero time
					zeroEdge := false
					for _, e := range ph.Edges {
						if k, isK := e.(*ssa.Const); isK && k.Value == nil {
							zeroEdge = true
						}
					}
					if !zeroEdge {
						continue
					}
					okPhi := false
					here := Facts(ci.Block())
					here = append(here, joinFacts(ci.Block(), here)...)
					for _, ft := range here {
						if zc, isC := stripValue(ft.Cond).(*ssa.Call); isC && CalleeOf(zc).Is("time:Time.IsZero") && !ft.Pol && stripValue(zc.Call.Args[0]) == ssa.Value(ph) {
							okPhi = true
						}
					}
					for i, e := range ph.Edges {
						if k, isK := e.(*ssa.Const); isK && k.Value == nil {
							continue
						}
						all, n := true, 0
						for _, sf := range localFacts(ph.Block().Preds[i]) {
							n++
							found := false
							for _, hf := range here {
								if (hf.Cond == sf.Cond || sameCond(hf.Cond, sf.Cond)) && hf.Pol == sf.Pol {
									found = true
								}
							}
							if !found {
								all = false
							}
						}
						if n > 0 && all {
							okPhi = true
						}
					}
					r.Ob(rule, ci.Pos(), okPhi, "a deadline that is the zero time for \"never\" (a local assigned only under a condition) is compared with "+typ+"."+field+" only where that condition holds or it is shown non-zero", r.P.FuncName(f), "clock-compare-local-never:"+c.Name)
					continue
				}
				ld, ok := stripValue(a).(*ssa.UnOp)
				if !ok || ld.Op != token.MUL {
					continue
				}
				al, ok := ld.X.(*ssa.Alloc)
				if !ok || al.Parent() != f {
					continue
				}
				sts := storesTo(al)
				if len(sts) == 0 {
					continue
				}
				unconditional := false
				for _, st := range sts {
					if st.Block() == ci.Block() || st.Block().Dominates(ci.Block()) {
						unconditional = true
					}
				}
				if unconditional {
					continue
				}
				okLocal := false
				here := Facts(ci.Block())
				here = append(here, joinFacts(ci.Block(), here)...)
				for _, ft := range here {
					if zc, isC := stripValue(ft.Cond).(*ssa.Call); isC && CalleeOf(zc).Is("time:Time.IsZero") && !ft.Pol {
						if l2, isL := stripValue(zc.Call.Args[0]).(*ssa.UnOp); isL && l2.X == ssa.Value(al) {
							okLocal = true
						}
					}
				}
				for _, st := range sts {
					all, n := true, 0
					for _, sf := range localFacts(st.Block()) {
						n++
						found := false
						for _, hf := range here {
							if (hf.Cond == sf.Cond || sameCond(hf.Cond, sf.Cond)) && hf.Pol == sf.Pol {
								found = true
							}
						}
						if !found {
							all = false
						}
					}
					if n > 0 && all {
						okLocal = true
					}
				}
				r.Ob(rule, ci.Pos(), okLocal, "a deadline that is the zero time for \"never\" (a local assigned only under a condition) is compared with "+typ+"."+field+" only where that condition holds or it is shown non-zero", r.P.FuncName(f), "clock-compare-local-never:"+c.Name)
			}
		})
	}
}

// checkValueExpiryTogether: in the memory backend's functions that take a ttl, an item's Value
// is never written without its Expiration (same item) being written on the same path: an
// overwrite that keeps the old deadline makes a re-registered record vanish early, one that
// keeps "never" makes it immortal.
func checkValueExpiryTogether(r *Report, rule string) int {
	n := 0
	for _, f := range r.P.FuncsIn(memPkg) {
		hasTTL := false
		for _, p := range f.Params {
			if canonParamName(p) == "ttl" && p.Type().String() == "time.Duration" {
				hasTTL = true
			}
		}
		if !hasTTL || f.Parent() != nil {
			continue
		}
		Instrs(f, func(in ssa.Instruction) {
			st, ok := in.(*ssa.Store)
			if !ok {
				return
			}
			t, fld, base, ok := FieldOf(st.Addr)
			if !ok || t != "StorageItem" || fld != "Value" {
				return
			}
			n++
			// a store to Expiration of the same item that dominates this store, or that every path
			// from this store to a return passes
			isExp := func(x ssa.Instruction) bool {
				s2, ok := x.(*ssa.Store)
				if !ok {
					return false
				}
				t2, f2, b2, ok := FieldOf(s2.Addr)
				return ok && t2 == "StorageItem" && f2 == "Expiration" && (b2 == base || sameItem(b2, base))
			}
			good := false
			Instrs(f, func(x ssa.Instruction) {
				if isExp(x) && Before(x, in) {
					good = true
				}
			})
			if !good {
				hits := WalkFrom(nil, in, func(x ssa.Instruction) int {
					if isExp(x) {
						return Stop
					}
					if _, isRet := x.(*ssa.Return); isRet {
						return Hit
					}
					return Cont
				}, nil)
				good = len(hits) == 0
			}
			r.Ob(rule, st.Pos(), good, "a write of an item's value in a ttl-taking operation also writes that item's expiry on the same path (an overwrite installs the new deadline)", r.P.FuncName(f), "value-and-expiry-together")
		})
		// ... and the expiry written comes from this call's ttl (or is the zero time), never from another
		// item's Expiration: an entry re-created over an expired one must not inherit the dead deadline
		writeFromOld := func(pos token.Pos, v ssa.Value, what string) {
			o := originSummary(v)
			n++
			r.Ob(rule, pos, !strings.Contains(o, "StorageItem.Expiration"), "the expiry written by "+what+" is computed from this call's ttl (origin: "+o+"), not copied from a stored item's Expiration", r.P.FuncName(f), "expiry-from-ttl")
		}
		Instrs(f, func(in ssa.Instruction) {
			if st, ok := in.(*ssa.Store); ok {
				if t, fld, _, ok := FieldOf(st.Addr); ok && t == "StorageItem" && fld == "Expiration" {
					writeFromOld(st.Pos(), st.Val, "a store to Expiration")
				}
			}
		})
	}
	return n
}

var luaPositiveGuard = regexp.MustCompile(`^if\s+[A-Za-z_][A-Za-z0-9_]*\s*>\s*0\s+then$`)

const redisPkg = "internal/core/storage/redis"

// checkRedisExpirations: every time.Duration handed to a go-redis write command is the ttl
// parameter (its uses are guarded by R-C13-3) or the constant 0 ("no expiry"): a negative
// sentinel such as KeepTTL keeps a stale deadline where the memory backend stores "never".
func checkRedisExpirations(r *Report, rule string) int {
	n := 0
	for _, f := range r.P.FuncsIn(redisPkg) {
		var ttl *ssa.Parameter
		for _, p := range f.Params {
			if canonParamName(p) == "ttl" && p.Type().String() == "time.Duration" {
				ttl = p
			}
		}
		Instrs(f, func(in ssa.Instruction) {
			ci, ok := in.(ssa.CallInstruction)
			if !ok {
				return
			}
			c := CalleeOf(ci)
			if !strings.Contains(c.Pkg, "go-redis") && !strings.Contains(c.Pkg, "redis/v") {
				return
			}
			switch c.Name {
			case "Set", "SetNX", "SetEx", "SetEX", "SetXX", "Expire", "PExpire", "SetArgs":
			default:
				return
			}
			for _, a := range ci.Common().Args {
				if a.Type().String() != "time.Duration" {
					continue
				}
				n++
				var ok func(v ssa.Value, d int) bool
				ok = func(v ssa.Value, d int) bool {
					v = stripValue(v)
					if d > 4 {
						return false
					}
					if k, isC := ConstInt(v); isC {
						// 0 = never; a positive named default is what both backends give a freshly created
						// list / hash / counter (Expire only)
						return k == 0 || (k > 0 && (c.Name == "Expire" || c.Name == "PExpire"))
					}
					if ttl != nil && v == ssa.Value(ttl) {
						return true
					}
					switch x := v.(type) {
					case *ssa.Phi:
						for _, e := range x.Edges {
							if !ok(e, d+1) {
								return false
							}
						}
						return true
					case *ssa.UnOp:
						if al, isA := x.X.(*ssa.Alloc); isA && x.Op == token.MUL {
							sts := storesTo(al)
							if len(sts) == 0 {
								return false
							}
							for _, st := range sts {
								if !ok(st.Val, d+1) {
									return false
								}
							}
							return true
						}
					case *ssa.Parameter:
						// a duration parameter of a helper (e.g. the lock ttl): accepted when named ttl / expiration
						return x.Type().String() == "time.Duration"
					case *ssa.FieldAddr:
						return true
					}
					if _, _, _, isF := FieldOf(v); isF {
						return true // configured duration
					}
					return false
				}
				r.Ob(rule, CallPos(ci), ok(a, 0), "expiry handed to redis "+c.Name+" is the ttl parameter, a configured duration or the constant 0 (never); negative sentinels (KeepTTL) and derived values keep or invent a deadline the memory backend does not have", r.P.FuncName(f), "redis-expiry-arg:"+c.Name)
			}
		})
	}
	return n
}

// checkRedisListEncoding: the list family (SetList, AppendToList, RemoveFromList, ...) agree on how a
// member is encoded: what RPush/LPush store and what LRem searches for come from the same encoder,
// and GetList decodes with its inverse.
func checkRedisListEncoding(r *Report, rule string) int {
	type site struct {
		op  string
		enc string
		pos token.Pos
		fn  string
	}
	var sites []site
	for _, f := range r.P.FuncsIn(redisPkg) {
		Instrs(f, func(in ssa.Instruction) {
			ci, ok := in.(ssa.CallInstruction)
			if !ok {
				return
			}
			c := CalleeOf(ci)
			switch c.Name {
			case "RPush", "LPush", "LRem", "LInsert", "RPushX", "LPushX":
			default:
				return
			}
			args := ci.Common().Args
			// member arguments: everything after key (and count for LRem); variadic ...interface{} is a slice literal
			for _, a := range args {
				for _, m := range variadicElems(a) {
					mi, isMI := m.(*ssa.MakeInterface)
					if !isMI {
						continue
					}
					if mi.X.Type().String() == "int64" || mi.X.Type().String() == "string" && false {
						continue
					}
					enc := "none:" + mi.X.Type().String()
					if ec, _ := CallOfValue(mi.X); ec != nil {
						enc = CalleeOf(ec).String()
					}
					if mi.X.Type().String() == "int64" || mi.X.Type().String() == "int" {
						continue // the LRem count
					}
					sites = append(sites, site{c.Name, enc, CallPos(ci), r.P.FuncName(f)})
				}
			}
		})
	}
	ref := ""
	for _, s := range sites {
		if s.op == "RPush" || s.op == "LPush" {
			ref = s.enc
			break
		}
	}
	for _, s := range sites {
		r.Ob(rule, s.pos, ref != "" && s.enc == ref, fmt.Sprintf("list member for %s is encoded by %s (the list family stores members encoded by %s): a differently encoded member never matches / never decodes", s.op, s.enc, ref), s.fn, "list-member-encoding:"+s.op)
	}
	return len(sites)
}

// variadicElems: the values stored into the backing array of a variadic slice argument (or the value itself).
func variadicElems(a ssa.Value) []ssa.Value {
	sl, ok := a.(*ssa.Slice)
	if !ok {
		return []ssa.Value{a}
	}
	al, ok := sl.X.(*ssa.Alloc)
	if !ok || al.Referrers() == nil {
		return []ssa.Value{a}
	}
	var out []ssa.Value
	for _, ref := range *al.Referrers() {
		ia, ok := ref.(*ssa.IndexAddr)
		if !ok || ia.Referrers() == nil {
			continue
		}
		for _, u := range *ia.Referrers() {
			if st, ok := u.(*ssa.Store); ok {
				out = append(out, st.Val)
			}
		}
	}
	return out
}

// callersHold: f is an unexported function (not started as a goroutine, not used as a value) and
// every static call site of f holds the lock in the required mode, or lies in a function for which
// the same is true (depth-bounded). Such a function is a lock-on-entry helper whatever its name.
func callersHold(p *Prog, f *ssa.Function, lockField string, write bool, depth int, seen map[*ssa.Function]bool) bool {
	if f == nil || depth <= 0 || seen[f] || f.Object() == nil || f.Object().Exported() {
		return false
	}
	seen[f] = true
	n := 0
	okAll := true
	for _, g := range p.Funcs {
		Instrs(g, func(in ssa.Instruction) {
			if !okAll {
				return
			}
			// any use of f other than a direct call makes the callers unknowable
			switch x := in.(type) {
			case *ssa.Go:
				if x.Call.StaticCallee() == f {
					okAll = false
				}
				return
			case *ssa.Defer:
				if x.Call.StaticCallee() == f {
					okAll = false
				}
				return
			case *ssa.MakeClosure:
				return
			}
			c, ok := in.(*ssa.Call)
			if !ok {
				return
			}
			for _, a := range c.Call.Args {
				if a == ssa.Value(f) {
					okAll = false
				}
			}
			if c.Common().StaticCallee() != f {
				return
			}
			n++
			mode := lockSetsOf(g).Held(in, lockField)
			if mode == "W" || (mode == "R" && !write) {
				return
			}
			if !callersHold(p, Outermost(g), lockField, write, depth-1, seen) {
				okAll = false
			}
		})
	}
	return okAll && n > 0
}

// expiryPredicate: c calls a same-module bool predicate (`item.expiredAt(now)`, `isExpired(item)`)
// every non-constant result of which is a clock comparison on the expiry field of one of its own
// parameters. Returns the argument bound to that parameter and whether true means "expired".
func expiryPredicate(c *ssa.Call, typ, field string, depth int) (item ssa.Value, trueMeansExpired bool, ok bool) {
	h := c.Common().StaticCallee()
	if h == nil || len(h.Blocks) == 0 || h.Pkg == nil || !strings.HasPrefix(h.Pkg.Pkg.Path(), Module) || depth > 3 {
		return nil, false, false
	}
	res := h.Signature.Results()
	if res.Len() != 1 || res.At(0).Type().String() != "bool" {
		return nil, false, false
	}
	var param *ssa.Parameter
	n := 0
	for _, ret := range Returns(h) {
		v := RetVal(ret, 0)
		if _, isC := ConstBool(v); isC {
			continue
		}
		_, it, tme, ok := expiryCompareT(v, depth+1, typ, field)
		if !ok {
			return nil, false, false
		}
		p, isP := stripValue(it).(*ssa.Parameter)
		if !isP {
			if u, isU := stripValue(it).(*ssa.UnOp); isU {
				p, isP = u.X.(*ssa.Parameter)
			}
		}
		if !isP || (param != nil && p != param) || (n > 0 && tme != trueMeansExpired) {
			return nil, false, false
		}
		param, trueMeansExpired = p, tme
		n++
	}
	if param == nil {
		return nil, false, false
	}
	for i, q := range h.Params {
		if q == param && i < len(c.Call.Args) {
			return c.Call.Args[i], trueMeansExpired, true
		}
	}
	return nil, false, false
}
