// tvcheck decides structural obligations of the tunnox-core properties on the
// type-checked SSA form of /repo's current working tree. It never executes
// repository code.
package main

import (
	"flag"
	"fmt"
	"os"
	"sort"
	"strconv"
	"strings"

	"golang.org/x/tools/go/ssa"
)

// PropCheck is the rule set of one property.
type PropCheck struct {
	ID          string
	Explanation string
	Run         func(r *Report)
	Mutants     []Mutant
}

var registry = map[string]*PropCheck{}

func register(pc *PropCheck) { registry[pc.ID] = pc }

func main() {
	prop := flag.String("prop", "", "property id (C01..C20)")
	tier := flag.String("tier", "quick", "quick|thorough")
	repo := flag.String("repo", "/repo", "repository root")
	verif := flag.String("verif", "/verif", "verification root (evidence, known findings)")
	dump := flag.String("dump", "", "debug: print SSA of pkg:Func (e.g. internal/stream:StreamProcessor.ReadPacket)")
	mutant := flag.String("mutant", "", "internal: run the property's rules on one named mutant overlay and print fired keys")
	list := flag.Bool("list", false, "list properties")
	overlayFlag := flag.String("overlay", "", "development: comma-separated repoFile=replacementFile pairs analysed instead of the files on disk (mutation sweeps); never used by registered commands")
	dumpParams := flag.String("dump-params", "", "maintenance: write the parameter names of every top-level function of -repo to this file (checker/paramnames.json)")
	flag.Parse()
	verifRoot = *verif
	if *dumpParams != "" {
		dumpingNames = true
		p, err := Load(*repo, nil)
		if err != nil {
			fmt.Println("BROKEN:", err)
			os.Exit(2)
		}
		if err := dumpParamNames(p, *dumpParams); err != nil {
			fmt.Println("BROKEN:", err)
			os.Exit(2)
		}
		if err := dumpFieldNames(p, strings.Replace(*dumpParams, "paramnames", "fieldnames", 1)); err != nil {
			fmt.Println("BROKEN:", err)
			os.Exit(2)
		}
		if err := dumpFuncNames(p.Pkgs, strings.Replace(*dumpParams, "paramnames", "funcnames", 1)); err != nil {
			fmt.Println("BROKEN:", err)
			os.Exit(2)
		}
		return
	}

	if *list {
		var ids []string
		for id := range registry {
			ids = append(ids, id)
		}
		sort.Strings(ids)
		fmt.Println(strings.Join(ids, " "))
		return
	}
	if *dump != "" {
		p, err := Load(*repo, nil)
		if err != nil {
			fmt.Println("BROKEN:", err)
			os.Exit(2)
		}
		i := strings.Index(*dump, ":")
		f := p.Fn((*dump)[:i], (*dump)[i+1:])
		if f == nil {
			if j := strings.Index((*dump)[i+1:], "."); j >= 0 {
				f = genericMethod(p, (*dump)[:i], (*dump)[i+1:][:j], (*dump)[i+1:][j+1:])
			}
		}
		if f == nil {
			fmt.Println("not found")
			os.Exit(2)
		}
		for _, g := range WithAnon(f) {
			g.WriteTo(os.Stdout)
		}
		return
	}
	if *overlayFlag != "" || strings.Contains(*prop, ",") {
		// development mode: one load, several properties, optional overlay; quick rules only
		ov := map[string][]byte{}
		for _, kv := range strings.Split(*overlayFlag, ",") {
			if i := strings.Index(kv, "="); i > 0 {
				b, err := os.ReadFile(kv[i+1:])
				if err != nil {
					fmt.Println("BROKEN:", err)
					os.Exit(2)
				}
				ov[kv[:i]] = b
			}
		}
		p, err := Load(*repo, ov)
		if err != nil {
			fmt.Printf("BROKEN: %v\n", err)
			os.Exit(2)
		}
		worst := 0
		for _, id := range strings.Split(*prop, ",") {
			pc := registry[id]
			if pc == nil {
				continue
			}
			r := NewReport(pc.ID, "quick", p)
			r.explanation = pc.Explanation
			func() {
				defer func() {
					if e := recover(); e != nil {
						r.Broken("panic in rules: %v", e)
					}
				}()
				pc.Run(r)
				runGeneric(r, pc.ID)
			}()
			if c := r.Finish(*verif, 0); c > worst {
				worst = c
			}
		}
		os.Exit(worst)
	}
	pc := registry[*prop]
	if pc == nil {
		fmt.Printf("BROKEN: unknown property %q\n", *prop)
		os.Exit(2)
	}
	seed := int64(0)
	if s := os.Getenv("VERIF_SEED"); s != "" {
		seed, _ = strconv.ParseInt(s, 10, 64)
	}
	if *mutant != "" {
		os.Exit(runMutantChild(pc, *repo, *mutant))
	}
	p, err := Load(*repo, nil)
	if err != nil {
		fmt.Printf("BROKEN: %v\n", err)
		os.Exit(2)
	}
	r := NewReport(pc.ID, *tier, p)
	r.explanation = pc.Explanation
	func() {
		defer func() {
			if e := recover(); e != nil {
				r.Broken("panic in rules: %v", e)
				panic(e)
			}
		}()
		runControls(r)
		pc.Run(r)
		runGeneric(r, pc.ID)
	}()
	if *tier == "thorough" {
		runMutants(pc, r, *repo)
	}
	os.Exit(r.Finish(*verif, seed))
}

// need fetches a function that a rule is anchored on; a missing anchor is
// reported as a violated obligation of that rule (the code the rule was
// confirmed against is gone, so nothing is established).
func (r *Report) need(rule, pkg, name string) *ssa.Function {
	f := r.P.Fn(pkg, name)
	if f == nil || len(f.Blocks) == 0 {
		r.Fail(rule, 0, fmt.Sprintf("anchor lost: function %s.%s not found in the program", pkg, name), pkg+"."+name, "anchor")
		return nil
	}
	return f
}
