package main

import (
	"strings"

	"golang.org/x/tools/go/ssa"
)

const hybPkg = "internal/core/storage/hybrid"

var hybridTablesCache map[string][]string

// hybridPrefixTables reads the three prefix lists out of
// hybrid.DefaultConfig's composite literal (constants stored into slice
// literals that are assigned to the Config fields).
func hybridPrefixTables(p *Prog) map[string][]string {
	if hybridTablesCache != nil {
		return hybridTablesCache
	}
	out := map[string][]string{}
	f := p.Fn(hybPkg, "DefaultConfig")
	if f == nil {
		return out
	}
	// array alloc -> constants
	arr := map[ssa.Value][]string{}
	Instrs(f, func(in ssa.Instruction) {
		st, ok := in.(*ssa.Store)
		if !ok {
			return
		}
		if ia, ok := st.Addr.(*ssa.IndexAddr); ok {
			if c, ok := st.Val.(*ssa.Const); ok {
				arr[ia.X] = append(arr[ia.X], constString(c))
			}
		}
	})
	Instrs(f, func(in ssa.Instruction) {
		st, ok := in.(*ssa.Store)
		if !ok {
			return
		}
		t, fld, _, ok := FieldOf(st.Addr)
		if !ok || t != "Config" {
			return
		}
		if sl, ok := st.Val.(*ssa.Slice); ok {
			if vals, ok := arr[sl.X]; ok {
				out[fld] = vals
			}
		}
	})
	hybridTablesCache = out
	return out
}

// hybridPrecedence returns the order in which getCategory consults the
// prefix tests (read from its SSA, by dominance).
func hybridPrecedence(p *Prog) []string {
	f := p.Fn(hybPkg, "Storage.getCategory")
	if f == nil {
		return nil
	}
	var calls []ssa.CallInstruction
	calls = append(calls, Calls(f, false, "Storage.isSharedPersistent", "Storage.isShared", "Storage.isPersistent")...)
	// sort by dominance
	for i := 0; i < len(calls); i++ {
		for j := i + 1; j < len(calls); j++ {
			if Before(calls[j].(ssa.Instruction), calls[i].(ssa.Instruction)) {
				calls[i], calls[j] = calls[j], calls[i]
			}
		}
	}
	var out []string
	for _, c := range calls {
		out = append(out, CalleeOf(c).Name)
	}
	return out
}

// hybDecision is one step of getCategory: a predicate on the key, the prefix table the predicate
// matches against, and the category returned when it holds.
type hybDecision struct {
	pred  string
	table []string
	cat   string
	known bool
}

var hybDecisionsCache []hybDecision

// globalStringTable reads `var X = []string{...}` of the hybrid package from its init function.
func globalStringTable(p *Prog, g *ssa.Global) []string {
	if g.Pkg == nil {
		return nil
	}
	init := g.Pkg.Func("init")
	if init == nil {
		return nil
	}
	arr := map[ssa.Value][]string{}
	Instrs(init, func(in ssa.Instruction) {
		if st, ok := in.(*ssa.Store); ok {
			if ia, ok := st.Addr.(*ssa.IndexAddr); ok {
				if c, ok := st.Val.(*ssa.Const); ok {
					arr[ia.X] = append(arr[ia.X], constString(c))
				}
			}
		}
	})
	var out []string
	Instrs(init, func(in ssa.Instruction) {
		if st, ok := in.(*ssa.Store); ok && st.Addr == ssa.Value(g) {
			if sl, ok := st.Val.(*ssa.Slice); ok {
				out = arr[sl.X]
			}
		}
	})
	return out
}

// predicateTable: the prefix table a key predicate of the hybrid package matches against (a Config
// field read from DefaultConfig, or a package-level slice), found through its strings.HasPrefix call.
func predicateTable(p *Prog, g *ssa.Function, depth int) ([]string, bool) {
	if g == nil || len(g.Blocks) == 0 || depth > 2 {
		return nil, false
	}
	tabs := hybridPrefixTables(p)
	var out []string
	found := false
	Instrs(g, func(in ssa.Instruction) {
		c, ok := in.(*ssa.Call)
		if !ok || found {
			return
		}
		if CalleeOf(c).Is("strings:HasPrefix") {
			// the prefix is an element of the table: peel loads, element addresses and range values
			v := Arg(c, 1)
			for i := 0; i < 8 && v != nil; i++ {
				switch x := v.(type) {
				case *ssa.UnOp:
					v = x.X
					continue
				case *ssa.IndexAddr:
					v = x.X
					continue
				case *ssa.Index:
					v = x.X
					continue
				case *ssa.Extract:
					if nx, ok := x.Tuple.(*ssa.Next); ok {
						if rg, ok := nx.Iter.(*ssa.Range); ok {
							v = rg.X
							continue
						}
					}
				case *ssa.Global:
					if t := globalStringTable(p, x); len(t) > 0 {
						out, found = t, true
					}
				case *ssa.FieldAddr:
					if t, fld, _, ok := FieldOf(x); ok && t == "Config" {
						if tb, ok := tabs[fld]; ok {
							out, found = tb, true
						}
					}
				case *ssa.Parameter:
					// a shared matcher `hasAnyPrefix(key, list)`: resolved at the call site by the caller
				}
				break
			}
			return
		}
		if h := c.Common().StaticCallee(); h != nil && h.Pkg == g.Pkg && h != g {
			if t, ok := predicateTable(p, h, depth+1); ok {
				out, found = t, true
			}
		}
	})
	return out, found
}

// hybridDecisions reads getCategory as an ordered list of (predicate, category) steps.
func hybridDecisions(p *Prog) []hybDecision {
	if hybDecisionsCache != nil {
		return hybDecisionsCache
	}
	f := p.Fn(hybPkg, "Storage.getCategory")
	if f == nil {
		return nil
	}
	consts := categoryConsts(p)
	name := map[string]string{"SharedPersistent": "shared-persistent", "Shared": "shared", "Persistent": "persistent", "Runtime": "runtime"}
	type step struct {
		c   *ssa.Call
		cat string
	}
	var steps []step
	Instrs(f, func(in ssa.Instruction) {
		iff, ok := in.(*ssa.If)
		if !ok {
			return
		}
		cond, pol := normCond(iff.Cond, true)
		c, ok := cond.(*ssa.Call)
		if !ok || c.Common().StaticCallee() == nil {
			return
		}
		succ := iff.Block().Succs[0]
		if !pol {
			succ = iff.Block().Succs[1]
		}
		for _, x := range succ.Instrs {
			if ret, ok := x.(*ssa.Return); ok && len(ret.Results) == 1 {
				if k, ok := ConstInt(ret.Results[0]); ok {
					steps = append(steps, step{c, name[consts[k]]})
				}
			}
		}
	})
	for i := 0; i < len(steps); i++ {
		for j := i + 1; j < len(steps); j++ {
			if Before(steps[j].c, steps[i].c) {
				steps[i], steps[j] = steps[j], steps[i]
			}
		}
	}
	var out []hybDecision
	for _, st := range steps {
		g := st.c.Common().StaticCallee()
		t, ok := predicateTable(p, g, 0)
		out = append(out, hybDecision{pred: g.Name(), table: t, cat: st.cat, known: ok && st.cat != ""})
	}
	hybDecisionsCache = out
	return out
}

// hybridCategory classifies a key (or key prefix) the way getCategory does with the default
// configuration: the category of the first step whose table has a prefix of the key; runtime when
// none matches; "undecided" when a step cannot be evaluated.
func hybridCategory(r *Report, key string) string {
	for _, d := range hybridDecisions(r.P) {
		if !d.known {
			return "undecided(" + d.pred + ")"
		}
		for _, pre := range d.table {
			if strings.HasPrefix(key, pre) {
				return d.cat
			}
		}
	}
	return "runtime"
}
