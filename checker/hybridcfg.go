package main

import (
	"strings"

	"golang.org/x/tools/go/ssa"
)

const hybPkg = "internal/core/storage/hybrid"

var hybridTablesCache map[string][]string

// hybridPrefixTables reads the three prefix lists out of
// hybrid.DefaultConfig's composite literal (constants stored into slice
// literals that are assigned to the Config fields).
func hybridPrefixTables(p *Prog) map[string][]string {
	if hybridTablesCache != nil {
		return hybridTablesCache
	}
	out := map[string][]string{}
	f := p.Fn(hybPkg, "DefaultConfig")
	if f == nil {
		return out
	}
	// array alloc -> constants
	arr := map[ssa.Value][]string{}
	Instrs(f, func(in ssa.Instruction) {
		st, ok := in.(*ssa.Store)
		if !ok {
			return
		}
		if ia, ok := st.Addr.(*ssa.IndexAddr); ok {
			if c, ok := st.Val.(*ssa.Const); ok {
				arr[ia.X] = append(arr[ia.X], constString(c))
			}
		}
	})
	Instrs(f, func(in ssa.Instruction) {
		st, ok := in.(*ssa.Store)
		if !ok {
			return
		}
		t, fld, _, ok := FieldOf(st.Addr)
		if !ok || t != "Config" {
			return
		}
		if sl, ok := st.Val.(*ssa.Slice); ok {
			if vals, ok := arr[sl.X]; ok {
				out[fld] = vals
			}
		}
	})
	hybridTablesCache = out
	return out
}

// hybridPrecedence returns the order in which getCategory consults the
// prefix tests (read from its SSA, by dominance).
func hybridPrecedence(p *Prog) []string {
	f := p.Fn(hybPkg, "Storage.getCategory")
	if f == nil {
		return nil
	}
	var calls []ssa.CallInstruction
	calls = append(calls, Calls(f, false, "Storage.isSharedPersistent", "Storage.isShared", "Storage.isPersistent")...)
	// sort by dominance
	for i := 0; i < len(calls); i++ {
		for j := i + 1; j < len(calls); j++ {
			if Before(calls[j].(ssa.Instruction), calls[i].(ssa.Instruction)) {
				calls[i], calls[j] = calls[j], calls[i]
			}
		}
	}
	var out []string
	for _, c := range calls {
		out = append(out, CalleeOf(c).Name)
	}
	return out
}

// hybridCategory classifies a key (or key prefix) the way getCategory does
// with the default configuration: shared-persistent | shared | persistent | runtime.
func hybridCategory(r *Report, key string) string {
	tabs := hybridPrefixTables(r.P)
	match := func(list []string) bool {
		for _, pre := range list {
			// a key family prefix "classifies" when every key of the family matches the table
			// prefix (table prefix is a prefix of the family prefix)
			if strings.HasPrefix(key, pre) {
				return true
			}
		}
		return false
	}
	for _, test := range hybridPrecedence(r.P) {
		switch test {
		case "isSharedPersistent":
			if match(tabs["SharedPersistentPrefixes"]) {
				return "shared-persistent"
			}
		case "isShared":
			if match(tabs["SharedPrefixes"]) {
				return "shared"
			}
		case "isPersistent":
			if match(tabs["PersistentPrefixes"]) {
				return "persistent"
			}
		}
	}
	return "runtime"
}
