#!/usr/bin/env python3
"""Runs the repository's pinned suite (go test -json) and compares with the
stable_pass list of /root/.vp/BASELINE.json. Prints the stable tests that did
not pass. Usage: baseline_check.py [pkg-pattern ...]  (default ./...)"""
import json, subprocess, sys, os
base = json.load(open('/root/.vp/BASELINE.json'))
stable = set(base['stable_pass'])
pats = sys.argv[1:] or ['./...']
p = subprocess.Popen(['go','test','-mod=mod','-json','-vet=off','-count=1','-timeout','25m']+pats, cwd='/repo', stdout=subprocess.PIPE, text=True)
passed=set(); failed=set(); pkgs=set()
for line in p.stdout:
    try: ev=json.loads(line)
    except Exception: continue
    if ev.get('Package'): pkgs.add(ev['Package'])
    if ev.get('Test') and ev.get('Action') in ('pass','fail'):
        tid=f"{ev['Package']}::{ev['Test']}"
        (passed if ev['Action']=='pass' else failed).add(tid)
p.wait()
scope = {t for t in stable if t.split('::')[0] in pkgs}
missing = sorted(scope - passed)
print(f"packages run: {len(pkgs)}; stable tests in scope: {len(scope)}; passed: {len(scope & passed)}; not passed: {len(missing)}")
for m in missing[:50]: print("  NOT PASSED:", m)
sys.exit(1 if missing else 0)
