#!/bin/bash
# usage: apply_run.sh <patch> <PROP> [more props]  -- apply a patch in a scratch worktree and show the violations of the given checks
P=$1; shift
WT=/tmp/wt-ar-$$; OUT=/tmp/ar-out-$$
git -C /repo worktree add -q --detach $WT HEAD || exit 2
trap 'git -C /repo worktree remove --force $WT >/dev/null 2>&1; rm -rf $OUT' EXIT
mkdir -p $OUT; cp ${VERIF_HOME:-/verif}/known_findings.json $OUT/
git -C $WT apply $P || { echo "PATCH DOES NOT APPLY"; exit 3; }
for c in "$@"; do VERIF_REPO=$WT ${VERIF_HOME:-/verif}/bin/check $c quick -verif $OUT 2>&1 | grep -v "^KNOWN" | tail -12 | cut -c1-420; done
