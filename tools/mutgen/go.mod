module mutgen

go 1.24.4
