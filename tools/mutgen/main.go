// mutgen enumerates small syntactic mutations of one Go file and writes a chosen one.
//
//	mutgen -list file.go              -> JSON lines {id,line,op,desc,func}
//	mutgen -apply N -o out.go file.go -> the file with mutation N applied
//
// Operators: comparison/logic/arithmetic operator replacement, dropped `!`, integer
// literal +-1, true<->false, statement deletion (call statements, defer, inc/dec,
// simple assignments to fields/indexes), `return` early-success insertion is NOT done.
package main

import (
	"bytes"
	"encoding/json"
	"flag"
	"fmt"
	"go/ast"
	"go/parser"
	"go/printer"
	"go/token"
	"os"
	"strconv"
)

type mut struct {
	ID   int    `json:"id"`
	Line int    `json:"line"`
	Op   string `json:"op"`
	Desc string `json:"desc"`
	Func string `json:"func"`
	do   func()
}

var swaps = map[token.Token][]token.Token{
	token.LSS: {token.LEQ}, token.LEQ: {token.LSS}, token.GTR: {token.GEQ}, token.GEQ: {token.GTR},
	token.EQL: {token.NEQ}, token.NEQ: {token.EQL}, token.LAND: {token.LOR}, token.LOR: {token.LAND},
	token.ADD: {token.SUB}, token.SUB: {token.ADD},
}

func main() {
	list := flag.Bool("list", false, "list mutations")
	apply := flag.Int("apply", -1, "apply mutation id")
	out := flag.String("o", "", "output file")
	flag.Parse()
	file := flag.Arg(0)
	fset := token.NewFileSet()
	f, err := parser.ParseFile(fset, file, nil, parser.ParseComments)
	if err != nil {
		fmt.Fprintln(os.Stderr, err)
		os.Exit(2)
	}
	var muts []*mut
	add := func(pos token.Pos, op, desc, fn string, do func()) {
		muts = append(muts, &mut{ID: len(muts), Line: fset.Position(pos).Line, Op: op, Desc: desc, Func: fn, do: do})
	}
	for _, d := range f.Decls {
		fd, ok := d.(*ast.FuncDecl)
		if !ok || fd.Body == nil {
			continue
		}
		fn := fd.Name.Name
		if fd.Recv != nil && len(fd.Recv.List) > 0 {
			var b bytes.Buffer
			printer.Fprint(&b, fset, fd.Recv.List[0].Type)
			fn = b.String() + "." + fn
		}
		// statement deletions need the enclosing block
		var visitBlock func(list *[]ast.Stmt)
		visitBlock = func(list *[]ast.Stmt) {
			for i := range *list {
				st := (*list)[i]
				idx := i
				deletable := false
				what := ""
				switch x := st.(type) {
				case *ast.ExprStmt:
					if _, ok := x.X.(*ast.CallExpr); ok {
						deletable, what = true, "call"
					}
				case *ast.DeferStmt:
					deletable, what = true, "defer"
				case *ast.IncDecStmt:
					deletable, what = true, "incdec"
				case *ast.AssignStmt:
					if x.Tok == token.ASSIGN || x.Tok == token.ADD_ASSIGN || x.Tok == token.SUB_ASSIGN {
						simple := true
						for _, l := range x.Lhs {
							switch l.(type) {
							case *ast.SelectorExpr, *ast.IndexExpr, *ast.StarExpr:
							default:
								simple = false
							}
						}
						if simple {
							deletable, what = true, "assign"
						}
					}
				}
				if deletable {
					var b bytes.Buffer
					printer.Fprint(&b, fset, st)
					s := b.String()
					if len(s) > 70 {
						s = s[:70] + "..."
					}
					lst := list
					add(st.Pos(), "del-"+what, "delete `"+s+"`", fn, func() {
						(*lst)[idx] = &ast.EmptyStmt{Semicolon: (*lst)[idx].Pos(), Implicit: false}
					})
				}
			}
		}
		ast.Inspect(fd.Body, func(n ast.Node) bool {
			switch x := n.(type) {
			case *ast.BlockStmt:
				visitBlock(&x.List)
			case *ast.CaseClause:
				visitBlock(&x.Body)
			case *ast.CommClause:
				visitBlock(&x.Body)
			case *ast.BinaryExpr:
				for _, nt := range swaps[x.Op] {
					// skip string concatenation
					if x.Op == token.ADD || x.Op == token.SUB {
						if bl, ok := x.X.(*ast.BasicLit); ok && bl.Kind == token.STRING {
							continue
						}
						if bl, ok := x.Y.(*ast.BasicLit); ok && bl.Kind == token.STRING {
							continue
						}
					}
					old, nw, e := x.Op, nt, x
					add(x.OpPos, "binop", fmt.Sprintf("%s -> %s", old, nw), fn, func() { e.Op = nw })
				}
			case *ast.UnaryExpr:
				if x.Op == token.NOT {
					e := x
					add(x.OpPos, "not", "drop !", fn, func() { e.Op = token.ADD })
				}
			case *ast.BasicLit:
				if x.Kind == token.INT {
					if v, err := strconv.ParseInt(x.Value, 0, 64); err == nil && v >= 0 && v <= 1<<20 {
						e, ov := x, x.Value
						add(x.Pos(), "int", ov+" -> "+strconv.FormatInt(v+1, 10), fn, func() { e.Value = strconv.FormatInt(v+1, 10) })
						if v > 0 {
							add(x.Pos(), "int", ov+" -> "+strconv.FormatInt(v-1, 10), fn, func() { e.Value = strconv.FormatInt(v-1, 10) })
						}
					}
				}
			case *ast.Ident:
				if x.Name == "true" || x.Name == "false" {
					e, ov := x, x.Name
					nv := "true"
					if ov == "true" {
						nv = "false"
					}
					add(x.Pos(), "bool", ov+" -> "+nv, fn, func() { e.Name = nv })
				}
			}
			return true
		})
	}
	if *list {
		enc := json.NewEncoder(os.Stdout)
		for _, m := range muts {
			enc.Encode(m)
		}
		return
	}
	if *apply >= 0 && *apply < len(muts) {
		muts[*apply].do()
		var b bytes.Buffer
		if err := printer.Fprint(&b, fset, f); err != nil {
			fmt.Fprintln(os.Stderr, err)
			os.Exit(2)
		}
		if err := os.WriteFile(*out, b.Bytes(), 0o644); err != nil {
			fmt.Fprintln(os.Stderr, err)
			os.Exit(2)
		}
		return
	}
	os.Exit(2)
}
