#!/usr/bin/env python3
"""seed_keep.py <PROP> <seed-dir> <id> <detected_by|MISSED> <needs...>
Copies a confirmed seeded change into /verif/seeded/<id>/ with meta.json."""
import sys, os, shutil, json
prop, sd, sid, det = sys.argv[1:5]
needs = " ".join(sys.argv[5:])
dst = f"/verif/seeded/{sid}"
os.makedirs(dst, exist_ok=True)
for f in ("patch.diff", "demo_test.go", "demo_path.txt", "notes.md"):
    if os.path.exists(os.path.join(sd, f)):
        shutil.copy(os.path.join(sd, f), dst)
meta = {
  "id": sid,
  "property": prop,
  "breaks": open(os.path.join(sd, "notes.md")).read() if os.path.exists(os.path.join(sd, "notes.md")) else "",
  "needs_to_manifest": needs,
  "confirmed_by": "tools/seed_eval.sh in a scratch worktree of /repo HEAD: demo test passes without the patch, fails with it; go build ./... and the existing tests of the touched packages pass with the patch",
  "demo_path": open(os.path.join(sd, "demo_path.txt")).read().strip(),
  "static_check_result": det,
  "origin": "independent sub-agent given only the property text and a scratch worktree",
}
json.dump(meta, open(os.path.join(dst, "meta.json"), "w"), indent=1, ensure_ascii=False)
print("kept", dst)
