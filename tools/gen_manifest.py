#!/usr/bin/env python3
"""Regenerates /verif/MANIFEST.json from the table below (one entry per property).

A property is claimed only once its rules exist in /verif/checker (the id is
printed by `checker/tvcheck -list`); everything else is listed under
not_applicable with the reason.
"""
import json, os, subprocess, sys

VERIF = os.path.dirname(os.path.dirname(os.path.abspath(__file__)))

# id -> (technique, level text, level note, not-decided part)
TABLE = {
 "C01": ("SSA read-shape + dominance rules on the packet reader/writer (full-field reads, frame-grammar agreement, consumed-bytes accounting)",
         "Structural necessary conditions of chunking-independent framing: every multi-byte field is read by an accumulate-until-size loop or io.ReadFull; writer and reader agree on which type classes carry a length field, on rejecting the encrypted flag and on when the body is gzip; the size written is len of the slice written.",
         "Does not decide byte equality after gzip, nor third-party transports (gorilla/quic-go/kcp-go)."),
 "C02": ("SSA copy-loop integrity (slice written = slice read), short-write exits, close propagation and bridge deregistration by path search",
         "Structural necessary conditions of a loss-free ordered pipe: in every copy loop the bytes written are exactly buf[:n] of the same iteration's read, a failed/short write or a failed pacing wait leaves the loop, both copy directions close the bridge, and the bridge lifecycle removes the bridge and routing record on every exit.",
         "Does not decide ordering/timing under real schedules or byte equality end to end."),
 "C03": ("who-may-write enumeration + edge dominance (proof dominates grant) on the handshake handlers",
         "Every writer of a connection's authenticated flag / client id is in a frozen table; the grant sites are dominated by the successful verification of the pending challenge of that connection (cleared before verification) or by fresh credential issuance; IP/ban gates dominate credential checks; the session layer installs a connection only after the handler succeeded and the connection is authenticated.",
         "Does not decide HMAC correctness, nonce entropy, or the full message-sequence state space."),
 "C04": ("dominance/path rules: authoriser dominates every attach point; validator completeness; refusal acknowledged",
         "Every path from the tunnel-open dispatcher to a bridge attach point passes a successful authoriser for this connection; the validator's nil returns pass identity, validity and party checks; refusal edges send a failure ack and reach no attach point.",
         "Does not decide the product space of runtime mapping states or storage staleness."),
 "C05": ("value-range style bounded-allocation rule (every allocation size on the read path bounded and non-negative by value, through helpers and call sites), bounded-inflate rule, zero-progress loop rule, dispatcher totality and nil-guard rules",
         "Every allocation whose size derives from wire bytes is dominated by a comparison with the maximum body size; every inflate of packet bytes goes through a limit; read loops on the peer's reader cannot spin on (0,nil); the dispatcher's default returns an error and optional components are nil-tested before use.",
         "Does not decide absence of all panics or CPU time; third-party decoders are trusted."),
 "C06": ("path-order and rollback rules on the activation function; origin of mapping fields; atomic-claim template",
         "The success return of activation is dominated, in order, by the validity test, mapping creation, marking and the record update; every failure after creation deletes the created mapping; target fields of the mapping originate from the code record only; a one-time atomic claim dominates creation.",
         "Does not decide storage-failure orders beyond rollback edges or clock skew."),
 "C07": ("lockset (guarded-by) dataflow + guarded-delete dominance + paired-removal rules on the registries and teardown path",
         "Every access to the registry maps holds the registry lock; every delete from the client index is dominated by the 'index still points at me' comparison; removal from the connection map is paired with the guarded index delete; teardown reaches every registry and closes the transport.",
         "Does not decide the exhaustive operation-sequence model or numeric counts."),
 "C08": ("placement/guard rules on connection-state registration, keep-alive reachability, value-shape agreement of type switches",
         "Registration is dominated by a successful authenticated control handshake; the old connection is unregistered first; the client index delete is guarded by equality with the stored connection id; the heartbeat path refreshes every TTL'd record; the decode type switches cover the stored static type and the JSON shapes.",
         "Does not decide cross-node histories or TTL-vs-heartbeat arithmetic."),
 "C09": ("record-fidelity (struct/JSON field) rules, lifetime ordering rules, key-constructor agreement, prefix classification",
         "The waiting-tunnel record's fields are exported with distinct JSON names and all set from the mapping/node at registration; store TTL and ExpiresAt use the same ttl; lookup returns only past the expiry test; the bridge is in the map before the record is registered and the record is removed on every lifecycle exit; register/lookup/remove use the same key constructor whose prefix is classified shared.",
         "Does not decide value fidelity through a real Redis or expiry timing."),
 "C10": ("layout-tuple agreement between frame writers and reader, bounded allocation, full reads, delivery-filter dominance, segmentation arithmetic shape",
         "Header layout constants agree between both writers and the reader; the payload allocation is dominated by the frame-size cap; header and payload are read with io.ReadFull; data is delivered only under tunnel-id equality and data-type facts; Write segments advance by the chunk written and return len(p).",
         "Does not decide byte equality over TCP or tunnel-id truncation collisions."),
 "C11": ("origin analysis of identity arguments at sinks + dominance of authenticated-identity tests in every discovered command handler",
         "Untrusted identity fields of command packets are never read by server-side handlers; every identity-taking sink reachable from a command handler receives the connection-derived client id; sinks are dominated by a non-zero identity test and object-by-id sinks by a party comparison.",
         "Does not decide ownership semantics of sinks outside the printed table."),
 "C12": ("copy-loop integrity, read-error-exits-loop, exit-unblocks-peer and record-codec layout agreement rules on the relays",
         "Both relay directions write exactly what they read, leave the loop on any read error, unblock the peer direction on exit and are awaited; the five copies of the 2-byte length-prefixed record codec agree on width/endianness and consume exactly the record.",
         "Does not decide datagram order/content equality or promptness."),
 "C13": ("lockset on the in-memory map, zero-expiry / zero-ttl convention rules over every expiry comparison and ttl use, interface parity via types.Implements",
         "Every access to the in-memory map holds its mutex (write lock for mutation, one contiguous section for read-check-write); every expiry comparison is conjoined with the not-zero test; every ttl parameter is used only under ttl > 0; both backends implement every optional interface the repositories assert.",
         "Does not decide linearizability or cross-backend value equality."),
 "C14": ("partial evaluation of every key-addressed facade operation on the category constant into a tier table (helpers evaluated per category); getCategory read as an ordered decision list over the prefix tables; async-fill and non-atomic list RMW detection",
         "For each key category the tiers touched by set/get/delete agree; no read method spawns a goroutine that writes a tier; list append/remove is atomic or locked; cross-node key prefixes classify as shared and runtime prefixes never reach persistence.",
         "Does not decide interleavings or tier failures."),
 "C15": ("returned-equals-marked dominance rule in the generator, atomic-mark delegation in every implementer, claim/renew tier agreement",
         "The id returned by Generate is the one whose atomic set-if-absent succeeded in the same iteration; the set-if-absent of every store implementer is one critical section or one backend primitive; node-id claim and renewal hit the same tier; id counters resolve to an atomic tier primitive.",
         "Does not decide collision probability or marker TTL expiry."),
 "C16": ("latch rules (once/CAS/flag-under-lock) on close bodies, use-after-close guards, goroutine loop-exit and ticker-stop rules",
         "Each exactly-once close action is guarded by a one-shot latch; operations after close hit a closed test or re-initialisation before touching released state; every goroutine loop of the anchored components has an exit tied to the component's context/stop channel and every ticker is stopped.",
         "Does not decide goroutine counts at run time or re-entrancy deadlocks."),
 "C17": ("check-then-act template: limit comparison and recording action under one lock or on an atomic RMW result",
         "For every comparison against a configured limit the counted quantity's recording action lies in the same critical section (or the check is on the result of an atomic add / set-if-absent); refusal paths perform no recording action before returning.",
         "Does not decide 'at any instant' over real schedules for storage-backed quotas (recorded as known findings)."),
 "C18": ("exit-obligation rule (failure exits record a failure), gate-order dominance, threshold dominance, re-validated expiry removal, lockset",
         "Every failing-credential exit of the handshake records a failure for the connection's address and success exits record success; ban/blacklist gates precede credential checks; ban calls are dominated by the threshold comparisons; expiry-triggered removals re-test expiry under the lock; all maps are accessed under their mutex.",
         "Does not decide window/refill arithmetic over timings."),
 "C19": ("claim-first dominance and rollback exit-obligation in CreateMapping; single-writer rule for the index key family; owner-check dominance; lookup filter dominance",
         "Mapping data is written only after the atomic index claim succeeded and every later failure releases the claim; the index key family is never written with a plain set; deletes are dominated by the owner comparison; every lookup success is dominated by active/not-expired tests.",
         "Does not decide Host spelling normalisation or schedules beyond the atomic claim."),
 "C20": ("RFC constant table check, full-read rule, reject-reply dominance, dominating length-guard rule for every index of the UDP header, layout agreement build/parse",
         "SOCKS5 constants equal RFC 1928; every negotiation field is read with io.ReadFull into an RFC-width buffer; each rejection writes the RFC reply before returning; every index/slice of the datagram is dominated by a sufficient length comparison; build and parse agree on offsets per address type.",
         "Does not decide full differential conformance over all byte strings."),
}

# every check also runs the generic contradiction rules over the property's anchor files
GENERIC = "; plus generic path/dataflow rules G1-G16 over the anchored functions (lock pairing and order, nil/err contradictions, buffer ownership and aliasing incl. pooled buffers, bounds on unchecked lengths, read-ahead, close-vs-I/O-lock)"

PENDING_REASON = "static rules for this property are designed (DESIGN.md §3) but not yet implemented in /verif/checker; not claimed until they run clean on the tree"

def main():
    try:
        ids = subprocess.run([os.path.join(VERIF, "checker", "tvcheck"), "-list"], capture_output=True, text=True).stdout.split()
    except Exception:
        ids = []
    na_override = {}
    p = os.path.join(VERIF, "tools", "not_applicable.json")
    if os.path.exists(p):
        na_override = json.load(open(p))
    checks, na = [], []
    for pid in sorted(TABLE):
        tech, text, note = TABLE[pid]
        if pid in na_override:
            na.append({"property_id": pid, "reason": na_override[pid]})
            continue
        if pid not in ids:
            na.append({"property_id": pid, "reason": PENDING_REASON})
            continue
        tech += GENERIC
        checks.append({
            "property_id": pid,
            "quick_cmd": f"bin/check {pid} quick",
            "thorough_cmd": f"bin/check {pid} thorough",
            "evidence_file": f"evidence/{pid}.json",
            "replay_cmd_template": f"bin/check {pid} quick --explain {{path}}",
            "engine": "tvcheck",
            "level_claimed": {
                "category": "other",
                "text": "static analysis: all enumerated structural obligations of this property are discharged on the type-checked SSA program of the current tree. " + text,
                "design_ref": f"DESIGN.md §3 {pid}",
            },
            "level_note": note + " Trusted base: go/types, go/packages, go/ssa (x/tools v0.29.0) and the rule tables in /verif/checker. Decides the structural clauses, not the behaviour.",
            "technique": "static analysis: " + tech,
        })
    m = {
        "version": 1,
        "setup_cmd": "bin/check --build",
        "hooks": {
            "guard": "verif",
            "enable": "none needed: static analysis reads the source; no instrumentation is compiled into /repo",
            "baseline_off_cmd": "cd /repo && go test -mod=mod -json -vet=off -count=1 -timeout 25m ./...",
            "source_commits": [],
            "add_only": True,
        },
        "engines": [{
            "name": "tvcheck",
            "path": "checker/",
            "serves_properties": [c["property_id"] for c in checks],
            "kind_free_text": "repository-specific static analyser over go/packages + go/ssa: dominance facts, path search (must-pass / exit obligations), lockset dataflow, origin slicing, layout tuples; controls and overlay mutant witnesses self-test the rules",
        }],
        "checks": checks,
        "not_applicable": na,
        "notes": "All checks are static (no repository code is executed). quick = rules + controls; thorough = quick + overlay mutant witnesses (each rule must fire on a recorded one-edit variant) + call-graph clauses. known_findings.json lists genuine defects recorded rather than repaired.",
    }
    with open(os.path.join(VERIF, "MANIFEST.json"), "w") as f:
        json.dump(m, f, indent=1)
        f.write("\n")
    print(f"claimed: {[c['property_id'] for c in checks]}; not_applicable: {[n['property_id'] for n in na]}")

if __name__ == "__main__":
    main()
