#!/bin/bash
# usage: seed_regress.sh [seed-id...]
# Re-runs the static checks against every kept seeded change (static only: the
# patch is applied in a scratch worktree of /repo HEAD, the property's quick check
# is run on it, the patch is reverted). Expected: every seed raises a VIOLATION
# that the unchanged tree does not. Prints one line per seed; exit 1 if one is missed.
set -u
# a private build cache, removed at the end: every scratch worktree has its own path, and a shared
# cache grows by gigabytes per hundred worktrees
export GOCACHE=${GOCACHE_REGRESS:-/tmp/gocache-regress-$$}
WT=/tmp/wt-regress-$$
OUT=/tmp/seed-regress-out-$$
git -C /repo worktree add -q --detach $WT HEAD || exit 2
trap 'rm -rf $GOCACHE; git -C /repo worktree remove --force $WT >/dev/null 2>&1; rm -rf $OUT' EXIT
mkdir -p $OUT; cp ${VERIF_HOME:-/verif}/known_findings.json $OUT/
IDS="${*:-$(ls -d ${VERIF_HOME:-/verif}/seeded/*/ | xargs -n1 basename | sort)}"
miss=0
for id in $IDS; do
  d=${VERIF_HOME:-/verif}/seeded/$id
  prop=$(python3 -c "import json;print(json.load(open('$d/meta.json'))['property'])")
  if ! git -C $WT apply $d/patch.diff 2>/dev/null; then echo "$id STALE (patch does not apply to HEAD)"; continue; fi
  res=$(VERIF_REPO=$WT ${VERIF_HOME:-/verif}/bin/check $prop quick -verif $OUT 2>&1)
  rc=$?
  rules=$(echo "$res" | grep -oE '^\s+\S+:[0-9]+ R-C[0-9]+-G?[0-9]+' | awk '{print $2}' | sort -u | paste -sd,)
  if [ $rc -eq 1 ] && echo "$res" | grep -q "^VIOLATION property=$prop"; then echo "$id detected by $rules"
  else
    # a change filed under one property may break the code another property's check is anchored in
    also=$(python3 -c "import json;print(json.load(open('$d/meta.json')).get('also_check',''))")
    hit=""
    for ap in $also; do
      res2=$(VERIF_REPO=$WT ${VERIF_HOME:-/verif}/bin/check $ap quick -verif $OUT 2>&1); rc2=$?
      if [ $rc2 -eq 1 ] && echo "$res2" | grep -q "^VIOLATION property=$ap"; then
        hit=$(echo "$res2" | grep -oE '^\s+\S+:[0-9]+ R-C[0-9]+-G?[0-9]+' | awk '{print $2}' | sort -u | paste -sd,)
      fi
    done
    if [ -n "$hit" ]; then echo "$id detected by $hit (check of another property)"; else echo "$id MISSED (rc=$rc)"; miss=1; fi
  fi
  git -C $WT checkout -q -- . ; git -C $WT clean -fdq
done
exit $miss
