#!/bin/bash
# usage: seed_eval.sh <PROP> <seed-dir> [check-props...]
# Confirms a seeded change in a scratch worktree (demo passes without, fails with the patch,
# existing tests of the touched packages still pass) and runs the static checks against it.
set -u
PROP=$1; SD=$2; shift 2
CHECKS="${*:-$PROP}"
WT=/tmp/wt-eval-$$
git -C /repo worktree add -q --detach $WT HEAD || exit 2
trap 'git -C /repo worktree remove --force $WT >/dev/null 2>&1' EXIT
DP=$(cat $SD/demo_path.txt | tr -d '\n ')
PKG=./$(dirname $DP)
cp $SD/demo_test.go $WT/$DP
cd $WT
echo "== demo WITHOUT patch ($PKG)"
TESTS=$(grep -oE '^func (Test[A-Za-z0-9_]+)' $DP | awk '{print $2}' | paste -sd'|')
go test -mod=mod -vet=off -count=1 -run "^($TESTS)\$" $PKG 2>&1 | tail -3
R0=${PIPESTATUS[0]}
echo "== apply patch"
git apply $SD/patch.diff || { echo "PATCH DOES NOT APPLY"; exit 3; }
go build ./... || { echo "BUILD FAILS"; exit 3; }
echo "== demo WITH patch"
go test -mod=mod -vet=off -count=1 -run "^($TESTS)\$" $PKG 2>&1 | tail -5
R1=${PIPESTATUS[0]}
rm $DP
echo "== existing tests of touched packages WITH patch"
TP=$(git diff --name-only | xargs -n1 dirname | sort -u | sed 's|^|./|' | grep -v "cloud/repos$" | paste -sd' ')
go test -mod=mod -vet=off -count=1 $TP 2>&1 | tail -4
R2=${PIPESTATUS[0]}
echo "== RESULT demo_without=$R0 demo_with=$R1 existing=$R2 (want 0, nonzero, 0)"
cp /verif/known_findings.json /tmp/seed-ev-out/known_findings.json
for c in $CHECKS; do
  echo "== static check $c on the patched tree"
  VERIF_REPO=$WT /verif/bin/check $c quick -verif /tmp/seed-ev-out 2>&1 | tail -6
done
