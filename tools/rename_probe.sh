#!/bin/bash
# usage: rename_probe.sh <params|locals|fields|funcs> [PROP...]   (development aid)
# Renames every identifier of the category declared in the anchor files of the given properties (all
# by default) in a scratch worktree, checks that the tree still builds, and runs all 20 checks, which
# must stay silent: a rename changes nothing a property is about.
CAT=$1; shift
V=${VERIF_HOME:-/verif}
FILES=$(python3 - "$@" <<'PY'
import json,sys,os
want=set(sys.argv[1:])
fs=set()
for l in open('/verif/properties.jsonl'):
    if not l.strip(): continue
    d=json.loads(l)
    if want and d['id'] not in want: continue
    for f in d['anchors']['files']:
        p='/repo/'+f
        if os.path.isdir(p):
            for x in os.listdir(p):
                if x.endswith('.go') and not x.endswith('_test.go'): fs.add(os.path.join(f,x))
        elif os.path.exists(p) and f.endswith('.go'): fs.add(f)
print(','.join(sorted(fs)))
PY
)
WT=/tmp/wt-rn-$$; OUT=/tmp/rn-out-$$
git -C /repo worktree add -q --detach $WT HEAD || exit 2
trap 'git -C /repo worktree remove --force $WT >/dev/null 2>&1; rm -rf $OUT' EXIT
export GOFLAGS=-mod=mod GOPROXY=off GOWORK=off GOTOOLCHAIN=local GOSUMDB=off CGO_ENABLED=0
GR="$(ls -d $HOME/go/pkg/mod/golang.org/toolchain@v0.0.1-go1.24.4.linux-amd64)"; export PATH=$GR/bin:$PATH
$V/tools/renamer/renamer -dir $WT -cat $CAT -files "$FILES" || exit 3
(cd $WT && go build ./... && go vet ./internal/stream/ >/dev/null 2>&1; go build ./... ) || { echo "RENAMED TREE DOES NOT BUILD"; exit 3; }
[ -n "${KEEP_DIFF:-}" ] && git -C $WT diff > $KEEP_DIFF
mkdir -p $OUT; bad=0
for c in C01 C02 C03 C04 C05 C06 C07 C08 C09 C10 C11 C12 C13 C14 C15 C16 C17 C18 C19 C20; do
  mkdir -p $OUT/$c; cp $V/known_findings.json $OUT/$c/
  ( VERIF_REPO=$WT $V/bin/check $c quick -verif $OUT/$c > $OUT/$c.log 2>&1; echo $? > $OUT/$c.rc ) &
  while [ $(jobs -r | wc -l) -ge 8 ]; do sleep 0.2; done
done; wait
for c in C01 C02 C03 C04 C05 C06 C07 C08 C09 C10 C11 C12 C13 C14 C15 C16 C17 C18 C19 C20; do
  rc=$(cat $OUT/$c.rc)
  if [ "$rc" != "0" ]; then bad=1; echo "ALARM $c rc=$rc"; grep -v "^KNOWN" $OUT/$c.log | grep -E "^\s+\S+ R-|^\s+- R-|BROKEN" | head -${MAXL:-6} | cut -c1-300; fi
done
[ $bad = 0 ] && echo "silent on all 20 after renaming $CAT"
exit $bad
