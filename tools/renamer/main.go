// renamer: development aid. Renames, in a copy of the repository, every identifier of one category
// declared in the given files (params | locals | fields | funcs) by appending a suffix, using the
// type checker's object identity, and rewrites the files in place. Used to measure how much the
// rules depend on source names (a rename changes nothing any property is about).
package main

import (
	"flag"
	"fmt"
	"go/ast"
	"go/format"
	"go/token"
	"go/types"
	"os"
	"path/filepath"
	"strings"

	"golang.org/x/tools/go/packages"
)

func main() {
	dir := flag.String("dir", "", "repository copy to rewrite")
	cat := flag.String("cat", "params", "params|locals|fields|funcs")
	filesFlag := flag.String("files", "", "comma-separated repo-relative files whose declarations are renamed")
	suffix := flag.String("suffix", "Rn", "suffix")
	flag.Parse()
	want := map[string]bool{}
	for _, f := range strings.Split(*filesFlag, ",") {
		if f != "" {
			want[filepath.Join(*dir, f)] = true
		}
	}
	cfg := &packages.Config{Mode: packages.LoadAllSyntax, Dir: *dir, Tests: true}
	pkgs, err := packages.Load(cfg, "./...")
	if err != nil {
		fmt.Println(err)
		os.Exit(2)
	}
	fset := pkgs[0].Fset
	// pass 1: objects to rename
	ren := map[types.Object]bool{}
	for _, p := range pkgs {
		for id, obj := range p.TypesInfo.Defs {
			if obj == nil || id.Name == "_" || !want[fset.Position(id.Pos()).Filename] {
				continue
			}
			switch o := obj.(type) {
			case *types.Var:
				if o.IsField() {
					if *cat == "fields" && !o.Exported() && !o.Embedded() {
						ren[obj] = true
					}
					continue
				}
				if o.Parent() == nil || o.Parent() == o.Pkg().Scope() {
					continue // package-level var
				}
				isParam := false
				// parameters/results: their scope is a function scope and they are declared in the signature
				ast.Inspect(fileOf(p, id.Pos()), func(n ast.Node) bool {
					ft, ok := n.(*ast.FuncType)
					if !ok {
						return true
					}
					for _, fl := range []*ast.FieldList{ft.Params, ft.Results} {
						if fl == nil {
							continue
						}
						for _, f := range fl.List {
							for _, nm := range f.Names {
								if nm == id {
									isParam = true
								}
							}
						}
					}
					return true
				})
				if isParam && *cat == "params" {
					ren[obj] = true
				}
				if !isParam && *cat == "locals" {
					// skip receivers
					ren[obj] = true
				}
			case *types.Func:
				if *cat == "funcs" && !o.Exported() && o.Name() != "init" && o.Name() != "main" {
					// methods that implement an interface method keep their name
					ren[obj] = true
				}
			}
		}
	}
	if *cat == "locals" {
		// receivers are locals too but renaming them is harmless; keep
	}
	if *cat == "funcs" {
		// do not rename methods that satisfy an interface of the program
		var ifaces []*types.Interface
		for _, p := range pkgs {
			for _, obj := range p.TypesInfo.Defs {
				if tn, ok := obj.(*types.TypeName); ok {
					if it, ok := tn.Type().Underlying().(*types.Interface); ok {
						ifaces = append(ifaces, it)
					}
				}
			}
		}
		for obj := range ren {
			fn := obj.(*types.Func)
			sig := fn.Type().(*types.Signature)
			if sig.Recv() == nil {
				continue
			}
			for _, it := range ifaces {
				for i := 0; i < it.NumMethods(); i++ {
					if it.Method(i).Name() == fn.Name() {
						delete(ren, obj)
					}
				}
			}
		}
	}
	// pass 2: rewrite identifiers
	changed := map[*ast.File]bool{}
	n := 0
	for _, p := range pkgs {
		for _, f := range p.Syntax {
			ast.Inspect(f, func(nd ast.Node) bool {
				id, ok := nd.(*ast.Ident)
				if !ok {
					return true
				}
				obj := p.TypesInfo.Defs[id]
				if obj == nil {
					obj = p.TypesInfo.Uses[id]
				}
				obj = originOf(obj)
				if obj != nil && ren[obj] && !strings.HasSuffix(id.Name, *suffix) {
					id.Name += *suffix
					changed[f] = true
					n++
				}
				return true
			})
		}
	}
	// struct literal keys `T{field: v}` are Uses of the field; embedded/selector handled by Uses as well
	written := map[string]bool{}
	for _, p := range pkgs {
		for _, f := range p.Syntax {
			if !changed[f] {
				continue
			}
			name := fset.Position(f.Pos()).Filename
			if written[name] {
				continue
			}
			written[name] = true
			var sb strings.Builder
			if err := format.Node(&sb, fset, f); err != nil {
				fmt.Println("format:", err)
				os.Exit(2)
			}
			if err := os.WriteFile(name, []byte(sb.String()), 0o644); err != nil {
				fmt.Println(err)
				os.Exit(2)
			}
		}
	}
	fmt.Printf("renamed %d objects (%d identifiers) in %d files\n", len(ren), n, len(written))
}

func originOf(obj types.Object) types.Object {
	switch o := obj.(type) {
	case *types.Var:
		return o.Origin()
	case *types.Func:
		return o.Origin()
	}
	return obj
}

func fileOf(p *packages.Package, pos token.Pos) *ast.File {
	for _, f := range p.Syntax {
		if f.Pos() <= pos && pos <= f.End() {
			return f
		}
	}
	return nil
}
