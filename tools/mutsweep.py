#!/usr/bin/env python3
"""mutsweep.py <out-dir> <n-per-property> [props...]
Development tool (not a registered check): samples small syntactic mutants of each property's anchor
files (tools/mutgen), discards those that do not compile or that the existing tests of the mutated
package kill, and runs the property's static check on the survivors through a build overlay.
Writes <out-dir>/<prop>.jsonl; survivors the check does not report are the interesting ones:
each is either an equivalent / property-irrelevant mutant or a gap in the rules."""
import json, os, random, subprocess, sys, glob, shutil, concurrent.futures as cf

OUT = sys.argv[1]; N = int(sys.argv[2]); PROPS = sys.argv[3:]
REPO = '/repo'; MUTGEN = '/verif/tools/mutgen/mutgen'; TV = '/verif/checker/tvcheck'
env = dict(os.environ, GOFLAGS='-mod=mod', GOPROXY='off', GOWORK='off', CGO_ENABLED='0')
props = {}
for l in open('/verif/properties.jsonl'):
    d = json.loads(l); props[d['id']] = d
if not PROPS: PROPS = sorted(props)
os.makedirs(OUT, exist_ok=True)

def anchor_files(d):
    out = []
    for a in d['anchors'].get('files', []):
        p = os.path.join(REPO, a)
        if os.path.isdir(p):
            out += [f for f in glob.glob(p.rstrip('/') + '/*.go')]
        elif os.path.exists(p):
            out.append(p)
    return sorted(set(f for f in out if not f.endswith('_test.go')))

def sh(cmd, timeout=300, cwd=REPO):
    try:
        r = subprocess.run(cmd, cwd=cwd, env=env, capture_output=True, text=True, timeout=timeout)
        return r.returncode, (r.stdout + r.stderr)
    except subprocess.TimeoutExpired:
        return 124, 'timeout'

def work(job):
    prop, f, m, idx = job
    wd = os.path.join(OUT, 'w', f'{prop}-{idx}'); os.makedirs(wd, exist_ok=True)
    mf = os.path.join(wd, os.path.basename(f))
    rc, o = sh([MUTGEN, '-apply', str(m['id']), '-o', mf, f])
    res = dict(prop=prop, file=os.path.relpath(f, REPO), **{k: m[k] for k in ('id', 'line', 'op', 'desc', 'func')})
    if rc != 0:
        res['status'] = 'mutgen-error'; return res
    ov = os.path.join(wd, 'ov.json'); json.dump({'Replace': {f: mf}}, open(ov, 'w'))
    pkg = './' + os.path.dirname(os.path.relpath(f, REPO))
    rc, o = sh(['go', 'build', '-overlay', ov, pkg], 300)
    if rc != 0:
        res['status'] = 'no-compile'; shutil.rmtree(wd, ignore_errors=True); return res
    targs = ['go', 'test', '-overlay', ov, '-count=1', '-vet=off', '-timeout', '150s']
    if pkg.endswith('internal/cloud/repos'):
        targs += ['-run', 'HTTPDomain|ConnectionCode|ConnCode|Domain']
    rc, o = sh(targs + [pkg], 400)
    if rc != 0:
        res['status'] = 'killed-by-tests'; shutil.rmtree(wd, ignore_errors=True); return res
    vd = os.path.join(wd, 'v'); os.makedirs(vd, exist_ok=True); shutil.copy('/verif/known_findings.json', vd)
    rc, o = sh([TV, '-prop', prop + ',', '-repo', REPO, '-verif', vd, '-overlay', f'{f}={mf}'], 300, cwd='/verif')
    res['status'] = {0: 'UNDETECTED', 1: 'detected'}.get(rc, 'broken')
    if rc == 1:
        res['rules'] = sorted(set(x.split()[1].rstrip(':') for x in o.splitlines() if x.startswith('  ') and ' R-C' in x))[:4]
    if rc not in (0, 1):
        res['out'] = o[-400:]
    if rc == 0:
        rc2, diff = sh(['diff', '-w', '-U1', f, mf], 30)
        res['diff'] = diff[:600]
    shutil.rmtree(wd, ignore_errors=True)
    return res

jobs = []
rnd = random.Random(20260928)
for prop in PROPS:
    files = anchor_files(props[prop])
    allm = []
    for f in files:
        rc, o = sh([MUTGEN, '-list', f], 60)
        for l in o.splitlines():
            try: allm.append((f, json.loads(l)))
            except Exception: pass
    rnd.shuffle(allm)
    # cap per file so that big files do not dominate
    per = {}; pick = []
    for f, m in allm:
        if per.get(f, 0) >= max(4, N // max(1, len(files)) * 3): continue
        per[f] = per.get(f, 0) + 1; pick.append((f, m))
        if len(pick) >= N: break
    for i, (f, m) in enumerate(pick):
        jobs.append((prop, f, m, i))
    print(prop, 'files', len(files), 'mutants', len(allm), 'picked', len(pick), flush=True)

outs = {p: open(os.path.join(OUT, p + '.jsonl'), 'w') for p in PROPS}
with cf.ThreadPoolExecutor(max_workers=int(os.environ.get('MUT_WORKERS', '5'))) as ex:
    for res in ex.map(work, jobs):
        outs[res['prop']].write(json.dumps(res, ensure_ascii=False) + '\n'); outs[res['prop']].flush()
for o in outs.values(): o.close()
print('done')
