#!/usr/bin/env python3
"""mutrecheck.py <undetected.json> <out.json>: re-apply mutants that survived compile+tests and were not
reported, and run the property's static check again (after rules were added)."""
import json, os, subprocess, sys, shutil, concurrent.futures as cf
src, out = sys.argv[1], sys.argv[2]
REPO='/repo'; MUTGEN='/verif/tools/mutgen/mutgen'; TV='/verif/checker/tvcheck'
und = json.load(open(src))
os.makedirs('/tmp/mutrun/re', exist_ok=True)
def work(a):
    i, d = a
    wd = f'/tmp/mutrun/re/{i}'; os.makedirs(wd + '/v', exist_ok=True)
    f = os.path.join(REPO, d['file']); mf = os.path.join(wd, os.path.basename(f))
    subprocess.run([MUTGEN, '-apply', str(d['id']), '-o', mf, f], check=False)
    shutil.copy('/verif/known_findings.json', wd + '/v')
    r = subprocess.run([TV, '-prop', d['prop'] + ',', '-repo', REPO, '-verif', wd + '/v', '-overlay', f'{f}={mf}'], cwd='/verif', capture_output=True, text=True)
    d = dict(d); d.pop('diff', None)
    d['status'] = {0: 'UNDETECTED', 1: 'detected'}.get(r.returncode, 'broken')
    if r.returncode == 1:
        d['rules'] = sorted(set(x.split()[1].rstrip(':') for x in (r.stdout + r.stderr).splitlines() if x.startswith('  ') and ' R-C' in x))[:4]
    if r.returncode not in (0, 1):
        d['out'] = (r.stdout + r.stderr)[-300:]
    shutil.rmtree(wd, ignore_errors=True)
    return d
with cf.ThreadPoolExecutor(max_workers=int(os.environ.get('MUT_WORKERS', '6'))) as ex:
    res = list(ex.map(work, enumerate(und)))
json.dump(res, open(out, 'w'), ensure_ascii=False, indent=0)
import collections
print(collections.Counter(d['status'] for d in res))
