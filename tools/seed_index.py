#!/usr/bin/env python3
"""Writes /verif/seeded/INDEX.md: one row per kept seeded change (what it breaks, what it needs to
manifest, which rule catches it, whether the rule had to be added/strengthened first)."""
import json, glob, re, os, sys
# optional: the output of tools/seed_regress.sh (default /tmp/seedreg.txt) gives the CURRENT verdict
now = {}
reg = sys.argv[1] if len(sys.argv) > 1 else '/tmp/seedreg.txt'
if os.path.exists(reg):
    for line in open(reg):
        m = re.match(r'(C\d+-\d+) (detected|MISSED|STALE)(.*)', line)
        if m:
            now[m.group(1)] = m.group(2) + m.group(3).rstrip()
rows = []
for f in sorted(glob.glob('/verif/seeded/*/meta.json'), key=lambda p: (p.split('/')[-2].split('-')[0], int(p.split('/')[-2].split('-')[1]))):
    m = json.load(open(f))
    res = m['static_check_result']
    late = bool(re.search(r'after strengthening|missed before|Missed before|rule added after|only after|added after|MISSED at arrival', res))
    cur = now.get(m['id'], '')
    if cur:
        m['static_check_now'] = cur
        json.dump(m, open(f, 'w'), indent=1, ensure_ascii=False)
    cur = m.get('static_check_now', '')
    patch = open(f.replace('meta.json', 'patch.diff')).read()
    files = sorted(set(re.findall(r'^\+\+\+ b/(\S+)', patch, re.M)))
    rows.append((m['id'], ', '.join(x.split('/')[-1] for x in files), m.get('needs_to_manifest', '').replace('|', '/'), res.replace('|', '/'), cur, 'late' if late else ''))
with open('/verif/seeded/INDEX.md', 'w') as o:
    o.write('# Seeded changes kept as regression material\n\n')
    o.write('Each was produced by an independent sub-agent that saw only the property text and a scratch worktree, compiles, passes the pinned tests of the packages it touches, and has a demo test that fails with it and passes without it (`tools/seed_eval.sh`). `tools/seed_regress.sh` re-runs all of them against the current rules. "late" = missed by the rules that existed when the seed arrived; the rule was then added or generalised.\n\n')
    o.write('| seed | file(s) | needs to manifest | static result when kept | current (last seed_regress) | |\n|---|---|---|---|---|---|\n')
    for r in rows:
        o.write('| ' + ' | '.join(r) + ' |\n')
    n = len(rows); l = sum(1 for r in rows if r[5]); miss = sum(1 for r in rows if r[4].startswith('MISSED'))
    o.write(f'\n{n} seeds, {l} of them missed by the rules as they were when the seed arrived, {n-l} caught at arrival; {miss} not reported by the current rules.\n')
print(len(rows))
