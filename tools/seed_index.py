#!/usr/bin/env python3
"""Writes /verif/seeded/INDEX.md: one row per kept seeded change (what it breaks, what it needs to
manifest, which rule catches it, whether the rule had to be added/strengthened first)."""
import json, glob, re
rows = []
for f in sorted(glob.glob('/verif/seeded/*/meta.json'), key=lambda p: (p.split('/')[-2].split('-')[0], int(p.split('/')[-2].split('-')[1]))):
    m = json.load(open(f))
    res = m['static_check_result']
    late = bool(re.search(r'after strengthening|missed before|Missed before|rule added after|only after|added after', res))
    patch = open(f.replace('meta.json', 'patch.diff')).read()
    files = sorted(set(re.findall(r'^\+\+\+ b/(\S+)', patch, re.M)))
    rows.append((m['id'], ', '.join(x.split('/')[-1] for x in files), m.get('needs_to_manifest', '').replace('|', '/'), res.replace('|', '/'), 'late' if late else ''))
with open('/verif/seeded/INDEX.md', 'w') as o:
    o.write('# Seeded changes kept as regression material\n\n')
    o.write('Each was produced by an independent sub-agent that saw only the property text and a scratch worktree, compiles, passes the pinned tests of the packages it touches, and has a demo test that fails with it and passes without it (`tools/seed_eval.sh`). `tools/seed_regress.sh` re-runs all of them against the current rules. "late" = missed by the rules that existed when the seed arrived; the rule was then added or generalised.\n\n')
    o.write('| seed | file(s) | needs to manifest | static result | |\n|---|---|---|---|---|\n')
    for r in rows:
        o.write('| ' + ' | '.join(r) + ' |\n')
    n = len(rows); l = sum(1 for r in rows if r[4])
    o.write(f'\n{n} seeds, {l} of them caught only after a rule was added or generalised, {n-l} caught by the rules as they were.\n')
print(len(rows))
