#!/bin/bash
# usage: pair_eval.sh <seed-id> [props for the fixed variant]
# Round-4 seeds are maintenance commits with one slip; refactors/<id>-fixed is the same commit with the
# slip repaired. Expected: the fixed commit is silent on all checks, the slipped commit is reported.
id=$1; shift
V=${VERIF_HOME:-/verif}
echo "--- $id fixed (must be silent):"
$V/tools/refac_eval.sh $V/refactors/$id-fixed/patch.diff "$@" 2>&1 | cut -c1-400 | tail -12
echo "--- $id slipped (must be detected):"
$V/tools/seed_regress.sh $id 2>&1 | tail -4 | cut -c1-400
