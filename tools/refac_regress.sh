#!/bin/bash
# usage: refac_regress.sh [id...]
# Applies every kept behaviour-preserving refactoring (refactors/<id>/patch.diff, produced by
# independent sub-agents from the property text only) in a scratch worktree of /repo HEAD and runs
# all 20 static checks on it. Expected: silence. Prints one line per refactoring; exit 1 on an alarm.
set -u
# a private build cache, removed at the end: every scratch worktree has its own path, and a shared
# cache grows by gigabytes per hundred worktrees
export GOCACHE=${GOCACHE_REGRESS:-/tmp/gocache-regress-$$}
trap 'rm -rf $GOCACHE' EXIT
IDS="${*:-$(ls -d ${VERIF_HOME:-/verif}/refactors/*/ | xargs -n1 basename | sort)}"
bad=0
for id in $IDS; do
  out=$(${VERIF_HOME:-/verif}/tools/refac_eval.sh ${VERIF_HOME:-/verif}/refactors/$id/patch.diff 2>&1)
  if echo "$out" | grep -q "^silent on all"; then echo "$id silent"; else bad=1; echo "$id ALARM"; echo "$out" | grep -E "^ALARM|^\s+\S+:[0-9]+ R-|PATCH|BUILD" | head -6; fi
done
exit $bad
