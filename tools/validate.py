#!/opt/veriftools/pyvenv/bin/python
import json, jsonschema, glob, sys
jsonschema.validate(json.load(open('/verif/MANIFEST.json')), json.load(open('/root/.vp/MANIFEST.schema.json')))
sch = json.load(open('/root/.vp/EVIDENCE.schema.json'))
m = json.load(open('/verif/MANIFEST.json'))
for c in m['checks']:
    try:
        jsonschema.validate(json.load(open('/verif/' + c['evidence_file'])), sch)
    except Exception as e:
        print("INVALID", c['property_id'], str(e)[:300]); sys.exit(1)
print('manifest + %d evidence files valid' % len(m['checks']))
