#!/bin/bash
# usage: refac_eval.sh <patch.diff> [props...]
# Applies a behaviour-preserving refactoring in a scratch worktree and runs the static
# checks on it; every check must stay silent (exit 0). Prints the alarms otherwise.
set -u
P=$1; shift
PROPS="${*:-C01 C02 C03 C04 C05 C06 C07 C08 C09 C10 C11 C12 C13 C14 C15 C16 C17 C18 C19 C20}"
WT=/tmp/wt-refac-$$
OUT=/tmp/refac-out-$$
git -C /repo worktree add -q --detach $WT HEAD || exit 2
trap 'git -C /repo worktree remove --force $WT >/dev/null 2>&1; rm -rf $OUT' EXIT
mkdir -p $OUT; cp ${VERIF_HOME:-/verif}/known_findings.json $OUT/
git -C $WT apply $P || { echo "PATCH DOES NOT APPLY"; exit 3; }
(cd $WT && go build ./... ) || { echo "BUILD FAILS"; exit 3; }
bad=0
run() { c=$1; mkdir -p $OUT/$c; cp $OUT/known_findings.json $OUT/$c/; VERIF_REPO=$WT ${VERIF_HOME:-/verif}/bin/check $c quick -verif $OUT/$c > $OUT/$c.log 2>&1; echo $? > $OUT/$c.rc; }
for c in $PROPS; do run $c & 
  while [ $(jobs -r | wc -l) -ge 8 ]; do sleep 0.2; done
done; wait
for c in $PROPS; do
  rc=$(cat $OUT/$c.rc)
  if [ "$rc" != "0" ]; then bad=1; echo "ALARM $c rc=$rc"; grep -v "^KNOWN" $OUT/$c.log | grep -E "^\s+\S+:[0-9]+ R-|BROKEN|VIOLATION" | head -8; fi
done
[ $bad = 0 ] && echo "silent on all: $PROPS"
exit $bad
