#!/bin/bash
# usage: refac_show.sh <refactor-id> <PROP>  -- prints the violations a check raises on a kept refactoring
WT=/tmp/wt-rshow-$$; git -C /repo worktree add -q --detach $WT HEAD; trap 'git -C /repo worktree remove --force $WT >/dev/null 2>&1' EXIT
git -C $WT apply /verif/refactors/$1/patch.diff || exit 3
mkdir -p /tmp/rshow-out; cp /verif/known_findings.json /tmp/rshow-out/
VERIF_REPO=$WT /verif/bin/check $2 quick -verif /tmp/rshow-out 2>&1 | grep -v "^KNOWN" | tail -${3:-8}
